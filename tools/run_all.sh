#!/bin/bash
# run_all.sh <tier> : every registered check in sequence, one summary line each
tier=${1:-quick}
cd /verif
for p in $(python3 -c "import json;print(' '.join(c['property_id'] for c in json.load(open('MANIFEST.json'))['checks']))"); do
  s=$(date +%s)
  out=$(./check $p --tier $tier 2>&1)
  rc=$?
  echo "$p rc=$rc $(( $(date +%s) - s ))s :: $(echo "$out" | tail -1 | cut -c1-200)"
done
