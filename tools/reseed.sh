#!/bin/bash
# reseed.sh [root] [pattern] — regression of the checks against the kept seeded
# changes: each seeded/<id>/patch.diff is applied to a scratch worktree of
# /repo's HEAD and the checks named in its meta.json (detected_by) are run
# against it; at least one of them must report a violation.  Prints one line
# per seeded change; "MISSED" lines are regressions.  root defaults to /verif
# (use a snapshot copy to keep working in /verif meanwhile).
root=${1:-/verif}; pat=${2:-.}
cd $root
for d in $(ls -d seeded/*/ | grep -E "$pat"); do
  id=$(basename $d)
  checks=$(python3 -c "
import json,re,sys
m=json.load(open('$d/meta.json'))
seen=[]
for x in m['detected_by']:
    for c in re.findall(r'\bC\d\d\b', x.split('(')[0]):
        if c not in seen: seen.append(c)
print(' '.join(seen))")
  wt=/tmp/reseed-$$
  git -C /repo worktree add --detach $wt HEAD >/dev/null 2>&1
  if ! git -C $wt apply $root/$d/patch.diff 2>/dev/null; then echo "$id PATCH-FAILS"; git -C /repo worktree remove --force $wt; continue; fi
  hit=""
  for c in $checks; do
    out=$(VERIF_REPO=$wt ./check $c 2>&1); rc=$?
    if [ $rc -eq 1 ] && echo "$out" | grep -q "^VIOLATION property=$c"; then hit="$hit $c"; break; fi
  done
  if [ -n "$hit" ]; then echo "$id caught-by$hit"; else echo "$id MISSED (ran: $checks)"; fi
  git -C /repo worktree remove --force $wt >/dev/null 2>&1; rm -rf $wt
done
echo RESEED-DONE
