#!/bin/bash
# run_seeds.sh <tier> <seed>... : all checks for several seeds; prints only failures and a summary
tier=$1; shift
cd /verif
for seed in "$@"; do
  for p in $(python3 -c "import json;print(' '.join(c['property_id'] for c in json.load(open('MANIFEST.json'))['checks']))"); do
    out=$(VERIF_SEED=$seed ./check $p --tier $tier 2>&1); rc=$?
    if [ $rc -ne 0 ]; then echo "seed=$seed $p rc=$rc"; echo "$out" | tail -4 | cut -c1-400; fi
  done
  echo "seed=$seed done"
done
