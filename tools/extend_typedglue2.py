#!/usr/bin/env python3
"""(the committed typedglue.go was edited further by hand-script: explicit nil setters under mask bit 16) Adds handlers with only a subset of their callbacks set (typed and unitary) to every wrap_<pkg>. Idempotent."""
import re
p='/verif/harness/cmd/kverif/typedglue.go'
s=open(p).read()
if 't.monitorMask' in s:
    raise SystemExit('already extended')
out=[]; pos=0
for m in re.finditer(r'func wrap_(\w+)\(c (t\w+)\.Controller\) \*tctl \{\n(.*?)\n\treturn t\n\}', s, re.S):
    name, pkg, body = m.group(1), m.group(2), m.group(3)
    ty = re.search(r'wrapSub\[%s\.Subscription, %s\.Event, %s\.CacheReader, (\*[\w.]+)\]' % (pkg,pkg,pkg), body).group(1)
    ext = f'''
	// handlers with only the callbacks of mask set (1 initialise, 2 create, 4 update, 8 delete)
	t.monitorMask = func(mask int, rec func(what string, ids []int)) (kcache.Monitor, error) {{
		b := {pkg}.BuildHandler()
		if mask&1 != 0 {{
			b = b.OnInitialize(func(objs []{ty}) {{ rec("init", idsOf(objs)) }})
		}}
		if mask&2 != 0 {{
			b = b.OnCreate(func(o {ty}) {{ rec("create", []int{{idOf(o)}}) }})
		}}
		if mask&4 != 0 {{
			b = b.OnUpdate(func(o {ty}) {{ rec("update", []int{{idOf(o)}}) }})
		}}
		if mask&8 != 0 {{
			b = b.OnDelete(func(o {ty}) {{ rec("delete", []int{{idOf(o)}}) }})
		}}
		return {pkg}.NewMonitor(c, b.Create())
	}}
	t.unitaryMask = func(log logutil.Log, mask int, rec func(what string, id int)) (kcache.Monitor, error) {{
		b := {pkg}.BuildUnitaryHandler()
		if mask&1 != 0 {{
			b = b.OnInitialize(func(o {ty}) {{ rec("init", idOf(o)) }})
		}}
		if mask&2 != 0 {{
			b = b.OnCreate(func(o {ty}) {{ rec("create", idOf(o)) }})
		}}
		if mask&4 != 0 {{
			b = b.OnUpdate(func(o {ty}) {{ rec("update", idOf(o)) }})
		}}
		if mask&8 != 0 {{
			b = b.OnDelete(func(o {ty}) {{ rec("delete", idOf(o)) }})
		}}
		return {pkg}.NewMonitor(c, {pkg}.ToUnitary(log, b.Create()))
	}}'''
    out.append(s[pos:m.start()])
    out.append(f'func wrap_{name}(c {pkg}.Controller) *tctl {{\n{body}{ext}\n\treturn t\n}}')
    pos=m.end()
out.append(s[pos:])
open(p,'w').write(''.join(out))
print('extended')
