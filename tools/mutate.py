#!/usr/bin/env python3
"""mutate.py <lane> <nlanes> <verif-root> <logfile>
Mutation run against the checks: every syntactic mutation site (tools/mutgen)
of the hand-written library files is applied to a scratch worktree of /repo's
HEAD; mutants that do not compile or that the existing test suite kills are
skipped; for the others the checks relevant to the file are run until one
reports a violation.  One line per mutant; SURVIVED lines are to be triaged
(equivalent mutant, behaviour no property speaks about, or a gap)."""
import os, subprocess, sys, re
lane, nl, root, logf = int(sys.argv[1]), int(sys.argv[2]), sys.argv[3], sys.argv[4]
only = sys.argv[5] if len(sys.argv) > 5 else None
ENV = dict(os.environ, GOFLAGS="-mod=mod", GOPROXY="off", GOSUMDB="off")
MAP = [
 (r"^cache\.go$", "C01 C02 C15 C03"),
 (r"^controller\.go$", "C03 C04 C14 C08 C12 C05"),
 (r"^(lister|ticker)\.go$", "C13 C14 C12 C03"),
 (r"^(watcher|watch_session)\.go$", "C04 C03 C12 C14"),
 (r"^(publisher|subscription)\.go$", "C05 C10 C11 C12 C06"),
 (r"^subscription_filter\.go$", "C06 C07 C08 C11 C12 C10 C09"),
 (r"^monitor\.go$", "C16 C10 C11 C12 C09"),
 (r"^(builder|util|event)\.go$", "C03 C11 C14 C02 C20"),
 (r"^client/client\.go$", "C20 C03"),
 (r"^filter/", "C18 C17 C19 C07"),
 (r"^nsname/", "C18 C17 C19"),
 (r"^types/[a-z]+/filter\.go$", "C19 C17 C09"),
 (r"^join/join\.go$", "C09 C12"),
]
def checks_for(f):
    for rx, cs in MAP:
        if re.search(rx, f): return cs.split()
    return None
files = subprocess.check_output(["git", "-C", "/repo", "ls-files", "*.go"], text=True).split()
files = [f for f in files if checks_for(f) and not f.endswith("_test.go") and "generated" not in f and not f.startswith("verif_")]
wt = "/tmp/mut-lane%d" % lane
subprocess.run(["git", "-C", "/repo", "worktree", "remove", "--force", wt], capture_output=True)
subprocess.run(["git", "-C", "/repo", "worktree", "add", "--detach", wt, "HEAD"], capture_output=True, check=True)
mutgen = "/verif/tools/mutgen/mutgen"
done = set()
if os.path.exists(logf):
    for l in open(logf):
        p = l.split()
        if len(p) >= 2: done.add((p[0], p[1]))
log = open(logf, "a")
k = 0
for f in files:
    if only and not re.search(only, f): continue
    out = subprocess.check_output([mutgen, os.path.join("/repo", f)], text=True).splitlines()
    n = int(out[0])
    for i in range(n):
        k += 1
        if k % nl != lane or (f, str(i)) in done: continue
        desc = out[1 + i].split(" ", 1)[1]
        subprocess.run(["git", "-C", wt, "checkout", "-q", "--", "."], check=True)
        src = subprocess.check_output([mutgen, os.path.join("/repo", f), str(i)])
        open(os.path.join(wt, f), "wb").write(src)
        def rec(res):
            log.write("%s %d %s :: %s\n" % (f, i, desc, res)); log.flush()
        try:
            b = subprocess.run("go build ./... && go vet ./%s 2>/dev/null; go build ./..." % os.path.dirname(f), shell=True, cwd=wt, env=ENV, capture_output=True, timeout=300)
        except subprocess.TimeoutExpired:
            rec("nocompile(timeout)"); continue
        if b.returncode != 0:
            rec("nocompile"); continue
        try:
            t = subprocess.run("go test -vet=off -count=1 -timeout 120s ./...", shell=True, cwd=wt, env=ENV, capture_output=True, timeout=400)
            killed = t.returncode != 0
        except subprocess.TimeoutExpired:
            killed = True
        if killed:
            rec("killed-by-suite"); continue
        hit = None
        for c in checks_for(f):
            try:
                r = subprocess.run([os.path.join(root, "check"), c], cwd=root, env=dict(ENV, VERIF_REPO=wt, VERIF_TIMEOUT="240"), capture_output=True, text=True, timeout=900)
            except subprocess.TimeoutExpired:
                hit = c + "(check-timeout)"; break
            if r.returncode == 1 and ("VIOLATION property=%s" % c) in r.stdout:
                lines = [l for l in r.stdout.splitlines() if l.strip() and not l.startswith("VIOLATION") and not l.startswith("KNOWN")]
                hit = c + " | " + (lines[-1].strip()[:160] if lines else "")
                break
        rec("caught-by " + hit if hit else "SURVIVED (ran: %s)" % " ".join(checks_for(f)))
subprocess.run(["git", "-C", "/repo", "worktree", "remove", "--force", wt], capture_output=True)
log.write("LANE-DONE\n"); log.close()
