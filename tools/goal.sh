#!/bin/bash
# usage: goal.sh File.v LINE  — show goals after line LINE (run from coq/theories)
f=$1; n=$2
head -n $n $f > _Goal.v
printf '\nShow.\nAbort.\n' >> _Goal.v
coqc -Q . KC _Goal.v 2>&1 | head -${3:-60}
rm -f _Goal.v _Goal.vo _Goal.glob ._Goal.aux _Goal.vok _Goal.vos
