#!/usr/bin/env python3
"""seed_keep.py <seed-id> <property> <mutant-dir> <demo-dest> <demo-regex> <needs> <detected-by...>
Stores a confirmed seeded change under /verif/seeded/<seed-id>/."""
import json, os, shutil, sys, glob
sid, pid, mdir, dest, rx, needs = sys.argv[1:7]
detected = sys.argv[7:]
d = os.path.join('/verif/seeded', sid)
os.makedirs(d, exist_ok=True)
shutil.copy(os.path.join(mdir, 'patch.diff'), d)
demos = []
for f in glob.glob(os.path.join(mdir, '*_test.go')) + glob.glob(os.path.join(mdir, '*.go')):
    if os.path.basename(f) not in demos:
        shutil.copy(f, os.path.join(d, os.path.basename(f) + '.txt'))
        demos.append(os.path.basename(f))
if os.path.exists(os.path.join(mdir, 'notes.md')):
    shutil.copy(os.path.join(mdir, 'notes.md'), d)
meta = {
    "seed_id": sid, "property": pid,
    "needs_to_manifest": needs,
    "demonstration": {"files": [x + ".txt" for x in demos], "copy_to": dest,
                      "command": "go test -mod=mod -vet=off -count=1 -run '%s' ./%s" % (rx, dest),
                      "note": "demo files are stored with a .txt suffix so that they are not compiled; drop the suffix when copying"},
    "confirmed": "tools/seed_eval.sh in a fresh scratch worktree of /repo HEAD: demo passes without the change and fails with it; go build ./... and the full existing suite pass with the change",
    "detected_by": detected,
    "origin": "independent sub-agent given only the property text and a scratch worktree",
}
json.dump(meta, open(os.path.join(d, 'meta.json'), 'w'), indent=1)
print("kept", d)
