#!/usr/bin/env python3
import json,glob,os
rows=[]
for m in sorted(glob.glob('/verif/seeded/*/meta.json')):
    d=json.load(open(m))
    rows.append("| `%s` | %s | %s | %s |" % (d['seed_id'], d['property'], d['needs_to_manifest'].replace('|','/'), "; ".join(d['detected_by']).replace('|','/')))
print("| seeded change | property | needs, to manifest | caught by |\n|---|---|---|---|")
print("\n".join(rows))
