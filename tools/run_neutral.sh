#!/bin/bash
cd /verif
for set in 1 2 3; do
  dir=/verif/neutral/set$set; n=$(ls $dir/n*.diff | wc -l)
  for i in $(seq 1 $n); do
    wt=/tmp/nall-$set-$i
    git -C /repo worktree add --detach $wt HEAD >/dev/null 2>&1
    git -C $wt apply $dir/n$i.diff || { echo "set$set n$i: patch failed"; git -C /repo worktree remove --force $wt; continue; }
    for p in C01 C02 C03 C04 C05 C06 C07 C08 C09 C10 C11 C12 C13 C14 C15 C16 C17 C18 C19 C20; do
      out=$(VERIF_REPO=$wt ./check $p 2>&1); rc=$?
      if [ $rc -ne 0 ]; then echo "set$set n$i $p rc=$rc"; echo "$out" | tail -4 | cut -c1-600; fi
    done
    echo "set$set n$i done"
    git -C /repo worktree remove --force $wt; rm -rf $wt
  done
done
echo ALLDONE
