#!/usr/bin/env python3
"""Regenerates /verif/MANIFEST.json from the table below."""
import json, os
ROOT = os.path.dirname(os.path.dirname(os.path.abspath(__file__)))

LEVEL_NOTE = ("Trusted: Coq 8.16.1 kernel (+vm_compute), no axioms (Print Assumptions: closed under the global context), "
              "extraction with ExtrOcamlBasic only, the hand-written OCaml runner glue, the Go correspondence harness "
              "(generators, fake API server, canonicalisation), Go 1.26.8 runtime/synctest. ")

CHECKS = {
 "C17": dict(
    text="Theorems over filter terms of any depth (feq_sound, filters_equal_sound, feq_refl_comparable, *_pods_filter_order_independent) proved in Coq about a Gallina model mirroring every Equals/Accept/constructor; the model is tied to the code by running real FiltersEqual/Accept and the extracted model on the same terms (every constructor, each built twice, depth<=2 exhaustive over a family, random depth 3) and by evaluating the property itself (equal => same Accept on the whole universe) on the implementation.",
    note="Modelled not verified: reflect.DeepEqual, sort.Slice/sort.Sort (<=12 elements), labels.SelectorFromSet, LabelSelectorAsSelector, labels.Equals.",
    design="6/C17", technique="Coq proof (induction on nested filter terms) + differential correspondence via extracted model"),
 "C18": dict(
    text="accept_sem: for every term of any depth and every object, the model's Accept equals the declarative boolean/label-selector semantics; plus nsname/labels/label-selector specs. Correspondence: real Accept vs extracted model on all depth<=2 terms x the 3x3x16 object universe (3.2M evaluations) and random depth-3 terms.",
    note="Modelled not verified: labels.Requirement.Matches. NSName entries with both fields empty are outside the contract.",
    design="6/C18", technique="Coq proof (accept <-> sem by induction) + exhaustive differential correspondence"),
 "C19": dict(
    text="Per-constructor specification theorems (workload/service PodsFilter = ownership predicate with namespace scoping, service without selector selects nothing, ingress ServicesFilter = backend set, node/involved/selector-match specs incl. other kinds rejected); for replication controllers the statement is refuted with a witness (known finding D5) and the weaker guarantee is proved. Correspondence: all sets of <=2/<=3 workloads x all candidate pods, real typed objects, real Accept vs extracted model and vs the ownership predicate directly.",
    note="Known finding D5 (replicationcontroller.PodsFilter has no namespace scoping) is listed in known-findings.txt.",
    design="6/C19", technique="Coq proof (per-constructor spec theorems, _refuted witness) + exhaustive differential correspondence"),
}

CHECKS["C01"] = dict(
    text="Per-key refinement theorems proved for all caches, filters, lists (duplicates, malformed versions, empty) and events: sync_refines_spec, update_refines_spec, history_refines_spec (every finite op sequence from every initial filter), cached_satisfy_filter, no_version_regress, unlisted/deleted absent, cache_never_panics (the Accept(nil) site is unreachable). Tied to cache.go by an exact differential test of doSync/doUpdate/doRefilter (verif export) against the extracted model: BFS from every reachable state of the 2-key x 6-version x 2-label x 4-filter universe x every update and every list of length <=2, plus random walks over larger universes.",
    note="Modelled not verified: strconv.Atoi (Base.atoi), Go map semantics. The model is of the code after the fix: commits for D1 and D2.",
    design="6/C01", technique="Coq proof (per-key refinement to a reference semantics, induction over op lists) + exhaustive differential correspondence via extracted model")
CHECKS["C02"] = dict(
    text="events_replay_exact, events_wellformed, no_change_no_event / event_changes proved for every reachable state and every next operation with arbitrary arguments. Correspondence: same runs as C01 comparing emitted events with the extracted model, and evaluating the extracted replay oracle and the minimality oracle on the implementation's own events and contents.",
    note="Event order inside one batch is free (creates/updates in order, deletes as multiset).",
    design="6/C02", technique="Coq proof (replay algebra, loop invariants) + differential correspondence and extracted replay oracle on implementation events")

CHECKS["C13"] = dict(
    text="lister x ticker x time.Timer x list worker x consumer as a labelled transition system whose actions are the select cases: by the closed-set technique (a finite set of states checked closed under every action contains every reachable state) proved for all action sequences of any length: one list at a time, no reachable state stuck, next list start always reachable, termination reachable from every state using only stop/ticker/worker actions, nothing left after Done; a clocked refinement proves by an inductive invariant that every observable trace passes trace_ok (each start >= previous consumption + 0.9 period); nextPeriod bounds over Q. Correspondence: lister+ticker in isolation (verif export) in synctest virtual time over the (period, latency, delay) grid, stop swept across the cycle; the real traces are checked by the extracted trace_ok, plus progress/shutdown/deadlock oracles.",
    note="Go channel/select/timer semantics are modelled. nextPeriod is also proved in IEEE-754 binary64 (coq/float, Flocq): next_period_binary64 / next_period_ns, within 1.5 ns of [0.9 P, 1.1 P + 1]; these two theorems depend on four standard-library axioms (ClassicalDedekindReals.sig_forall_dec, sig_not_dec, FunctionalExtensionality.functional_extensionality_dep, Classical_Prop.classic), whitelisted by ./check for that file only. Model of the code after the fix: commit for D3; the pre-fix model and its deadlock witness are kept as a theorem.",
    design="6/C13", technique="Coq proof (closed-set reachability over the finite control skeleton + inductive clocked invariant) + model-derived trace predicate evaluated on virtual-time traces of the real lister")

CHECKS["C04"] = dict(
    text="Small-step model of server stream x watch session x watcher.run x controller watch case (entries as positions of the server log): the pipeline invariant (applied ++ channel = log up to the last entry taken, session buffer continues it) proved inductive over every action sequence (server changes, deliveries, stream closes, connect errors, non-object frames, reconnects); corollaries: applied is a duplicate-free prefix of the log, a reconnect resumes right after the last entry taken and keeps the output channel, no step discards a received entry, and in every quiescent state the whole log has been applied (no relist needed); watch_in_order_converges / watch_quiescent_is_server_state: a cache equal to the server's accepted view at a list's version that applies the later log entries in order equals the accepted view at the end, so at quiescence (nothing lost) the controller's cache IS the server state. The model includes the relist's reset (new output channel, curVersion := list version: nothing_stale_after_reset, reset_heals) and the two bounded, non-blocking buffers (an entry is lost only when it finds a buffer full: loss_needs_full_buffer; whatever was lost, what is applied is in log order without duplicates; the exact statements hold while nothing was lost since the last list); busy_burst_closed_form gives the outcome of the deterministic overflow history, which the harness replays on the code. Correspondence: the whole controller against a fake API server in synctest virtual time with refresh period 10^6 s, each fault at every position of a base history plus random histories, perturbed schedules; cache at quiescence vs the extracted quiescent outcome (list, then the log in order), subscriber mirror, controller liveness.",
    note="Model of the code after the fix: commits for D4 and D8.",
    design="6/C04", technique="Coq proof (inductive invariant over the watch pipeline LTS, quiescence theorem) + quiescent-outcome correspondence under injected watch faults in virtual time")

CHECKS["C03"] = dict(
    text="Model of controller.run's list/watch cases over the cache model and an abstract API server (a log with strictly increasing versions). Proved: each good list is applied as one doSync of the whole list and restarts the watch at the list version; relist_converges / quiescent_server_one_relist: for EVERY server history, controller filter, earlier lists and watch behaviour that delivers only entries of the log (in any order, with any losses, duplicates, replays, or nothing at all), the next list that is a snapshot of the server leaves cache = the server's accepted objects; never regresses; the published events replay exactly (C02 lifted); composed with C13's relist progress. Correspondence: whole controller vs fake API server in synctest virtual time under 8 watch-fault modes x periods x list latencies x filters x perturbation: cache after every list (watch off) and after one relist on a quiet server vs the extracted relist_outcome, subscriber mirror, Close. End to end: controller_publishes_wf_history (from readiness on, what the controller publishes on a key is a well-formed history from its cache entry then to its entry at the end) and server_to_leaf (C03 + C02 + C06: under any server history, watch behaviour and earlier lists, after a final snapshot list, any chain of filtered nodes below the controller with any interleavings ends with the conjunction of its filters applied to the server's accepted object).",
    note="Hypotheses: log_ok, is_list_of, watch_from_log (entries of the log only). Liveness of relisting is C13 (fairness).",
    design="6/C03", technique="Coq proof (from_log invariant over all controller input sequences + per-key convergence theorem) + virtual-time fault-injection correspondence")
CHECKS["C14"] = dict(
    text="classify_list mirrors executeList/listResourceVersion/extractList; kstep mirrors controller.run's cases. Proved for all input sequences: a failing list stops the controller with its cause and publishes nothing; every non-list result is a failure; the stop is final; a failed first list never makes it ready whatever follows; watch faults and watch events never stop it; a run whose only trigger is Close ends with no error. Correspondence: every failure kind at the k-th list, every watch failure kind, triggers {none, Close, cancel}, with a subscriber tree attached; Ready/Done/Error/descendants vs the extracted krun on the same input sequence, cause by identity.",
    note="apimachinery list classification is modelled. 'list without resourceVersion accessor' is unreachable in the code (executeList rejects non-meta.List first).",
    design="6/C14", technique="Coq proof (decision function + step-function invariants over all input sequences) + fault-enumeration correspondence in virtual time")

CHECKS["C05"] = dict(
    text="Publisher/subscription model (bounded FIFO, atomic enqueue-or-drop-newest, dynamic Subscribe): edge_invariant proved inductive over every sequence of publications, subscriptions and reads; subscriber_sees_exact_suffix (no duplicate, omission, reordering while nothing dropped); leaf_receives_suffix composes it along a path of clones of ANY depth; cache_not_older_after_event on the cache model; closed subscriptions (close_is_local, publish_to_closed_is_noop, a closed subscriber saw exactly the stretch between its creation and its close). One level down, PubLts.v models publisher.run / distributeEvent / subscription.send / subscription.run one channel operation per step (table visited in any order, consumers and closes interleaved): its invariant (Inv_reachable) gives lts_subscriber_sees_exact_suffix and lts_quiescent_exact, the abstract statement. Correspondence: Subscribe/Clone trees to depth 3 on a real controller fed by the fake watch in virtual time, subscriptions at barriers and racing, perturbed schedules: every subscriber's sequence vs the reference subscriber (suffix; exact start for barrier-created ones, also via the extracted expected_suffix), no event before Ready, Get after an event; publish/subscribe/take/close sequences with bursts beyond the buffer vs the extracted prun (runner command 16); never-reading siblings; relist differences racing with the restarted watch; the tail of the stream at shutdown.",
    note="Channel semantics modelled.",
    design="6/C05", technique="Coq proof (inductive edge invariant + composition over clone depth) + differential correspondence on real Subscribe/Clone trees in virtual time")
CHECKS["C10"] = dict(
    text="On the same pipeline model: drop_is_local (publishing treats each subscription independently of the others' capacity, backlog and reads), push is total (never blocks) and drops the newest when full, stalled_receives_subsequence, never_reading_gets_first_cap (exactly the first EventBufsiz events), healthy siblings keep the exact-suffix guarantee; on the goroutine-level protocol (PubLts.v): step_is_local, lts_receives_subsequence and publisher_never_waits_for_consumers (from every reachable state in which an event is being distributed, steps of the publisher and of the subscriptions' own goroutines alone complete the distribution). Correspondence: what every consumer received vs the extracted prun on seeded publish/subscribe/take/close sequences with bursts up to 130 and partial draining (exact); a tree with healthy, never-reading and slow consumers at every position (direct, below a clone, below a filtered clone, directly-read filtered subscription, monitor with a blocking handler), streams 0..4x EventBufsiz: healthy consumers complete, caches current, stalled consumer gets exactly the first 100, slow ones a subsequence, no hang.",
    note="Typed subscription stalls are exercised in C20. The harness oracles are evaluated on the implementation directly.",
    design="6/C10", technique="Coq proof (locality/totality lemmas, subsequence and first-cap invariants) + stalled-consumer scenarios in virtual time")
CHECKS["C16"] = dict(
    text="monitor.run as a sequential program over Ready/Done/Events: for every input sequence the callback log is empty or OnInitialize(content at readiness) followed by exactly one callback per received event in order; OnInitialize once and first; nothing after Done; nothing at all if never ready or if the listing at readiness fails; handlers with any subset of callbacks see the log restricted to the callbacks they have; every model log passes the checker monitor_log_ok. Correspondence: untyped monitors on a real controller in virtual time, handler durations 0/1ms/50ms, Close at {never, before ready, mid-stream, during a handler, end}: callback log vs published events (type, object, order), overlap detection, Done at each callback; the log is checked by the extracted monitor_log_ok.",
    note="Typed monitors are covered with C20. Serial execution is by construction in the model and observed in the implementation.",
    design="6/C16", technique="Coq proof (log-shape theorem over all input sequences) + callback-log correspondence in virtual time")

CHECKS["C06"] = dict(
    text="filterSubscription.run as a step function (FilterSub.v) over the cache model. Proved: its state invariant under every input sequence (cache actor's filter = most recently set filter, cache empty until readiness); filter_update_commutes (a child in step with its parent stays in step under every well-formed parent event); sync_establishes_in_step (every sync from the parent's current content re-establishes it, from any cache not newer than the parent); nested_conjunction; its own events are a well-formed delta (C02); and the RACING CASE fsub_converges: for every interleaving of consuming parent events with listings of the parent that are any number of events ahead, under any new filter, once the stale events have drained the cache is the most recently set filter applied to the parent's cache (to the parent's final cache when everything is consumed) - fsub_converges_general proves it for EVERY well-formed parent history (each event a well-formed delta of the parent's cache, C02; objects may be deleted and re-created at lower versions); emitted_history_wf shows that the events a node emits are again such a history, and chain_converges / chain_is_conjunction lift the result to chains of filtered nodes of ANY depth, each with its own interleaving: at the bottom, the conjunction of the filters most recently set applied to the root's entry; tree_converges_to_root_cache composes this with cache_emits_wf_history (the cache model emits a well-formed history on every key under every operation sequence). Correspondence: random trees of all six subscribe/clone forms to depth 3 with Refilter racing with readiness and in-flight events under perturbed schedules; at barriers every ready node's cache vs its filter chain applied to the server content and vs the extracted nested_view, event mirrors between barriers.",
    note="The racing case is proved per key (FilterRaceGen.fsub_converges_general), which is how the cache operations act (child_sync_per_key, child_update_per_key, parent_apply_per_key).",
    design="6/C06", technique="Coq proof (step-function invariant, commutation and nesting theorems) + barrier correspondence under racing Refilter in virtual time")
CHECKS["C07"] = dict(
    text="refilter_exact (from the f1-view, Refilter(f2) leaves exactly the f2-view), refilter_events_exact / refilter_no_change_no_event (the events are an exact, minimal, well-formed delta), refilter_equal_noop (an equal filter changes and emits nothing) justified by refilter_equal_same_view via C17's soundness, refilter_roundtrip. Correspondence: exhaustive ordered pairs of a 7-member filter family (each rebuilt) + third and repeated Refilters x all parent contents over a small universe, through the public FilterSubscription / FilterController API with barriers; per Refilter the delivered events (multiset) and cache vs the extracted fs_step.",
    note="Parent listings name each key once.",
    design="6/C07", technique="Coq proof (sync spec corollaries + feq soundness) + exhaustive differential correspondence through the public API")
CHECKS["C08"] = dict(
    text="Controller: ready_implies_synced, nothing published before ready, failed first list never ready. Filtered nodes: ready_implies_synced (the transition that closes Ready leaves cache = filtered parent content; the one transition that does not list the parent happens only while the filter is still the initial All(), which rejects everything), no_event_before_ready, deferred_ready_needs_parent_and_filter, ready_closed_once; all over every input sequence. Correspondence: every order of {parent ready, Refilter(equal), Refilter(new), parent event} up to length 4/6 for the four filtered node kinds at depth 2..4, barrier after each operation: Ready, cache, events vs the extracted fs_step; direct oracles on the implementation.",
    note="Joins are covered in C09.",
    design="6/C08", technique="Coq proof (invariants over the ready/pending/deferred state machine, all input sequences) + exhaustive operation-order correspondence")

CHECKS["C15"] = dict(
    text="The cache goroutine as an actor serving one pending request at a time: for every concurrent execution (any number of callers, any interleaving of calls, services and returns) the replies equal the sequential specification run in service order (a List/Get returns the complete content at its service point: never a half-applied relist or refilter) and every operation is served strictly between its call and its return (so the service order is a linearization and one caller's reads never go backwards); reads modify nothing. Correspondence: the real cache goroutine in real time under Go's race detector, 1/4/16 readers against a writer moving through distinguishable complete states; every List checked for atomicity, window membership (extracted lin_ok), per-reader monotonicity; returned slices scribbled on.",
    note="PARTIAL: data-race freedom is observed by the race detector, not proved; the single-owner structure is an assumption of the model.",
    design="6/C15", technique="Coq proof (actor service order = linearization, by invariants over call/serve/return histories) + real-time race-detector runs checked by an extracted oracle")

CHECKS["C11"] = dict(
    text="Tree-of-lifecycles model for trees of ANY shape: close_affects_subtree_only (after any sequence of closes, propagations and completions every non-running node lies below a closed node: never up or sideways), shutdown_measure_decreases (every internal step decreases a measure bounded by 2 x nodes), quiescent_no_stopping and quiescent_implies_subtree_done (when no internal step is left, the stopped node and every descendant are done). Correspondence: trees mixing all six subscribe/clone forms and monitors to depth 4 on a real controller in virtual time; every node kind as the closed one, every step index as the closing moment, mechanisms {Close, 3x concurrent Close, context cancel, list error}: the done-set at quiescence vs the extracted done_after_close, Events() channels closed in the subtree, the rest of the tree still delivering and current. On the goroutine-level publisher protocol (PubLts.v, which includes the parent closing its channel and the publisher's own shutdown): publisher_drains_before_shutdown, subscriber_holds_everything_at_shutdown, exit_keeps_buffer and closed_channel_still_yields (Events() is closed after any buffered events), step_is_local and send_fails_only_when_closing (sideways isolation).",
    note="Component internals are abstracted to lifecycle states here; the per-component protocol is proved in LcProto.v (C12). Fairness is needed to reach quiescence.",
    design="6/C11", technique="Coq proof (safety invariant over all action sequences, measure, quiescence theorem on trees of any shape) + shutdown-point enumeration in virtual time")
CHECKS["C12"] = dict(
    text="go-lifecycle protocol LTS (Shutdown callers, WatchContext, WatchChannel, run loop) by the closed-set technique: no_double_shutdown (ShutdownInitiated at most once on every schedule: no close-of-closed-channel panic), no_goroutine_left (from every stopping state the state with run loop exited, Done closed and every helper goroutine and blocked caller gone is reachable by their own steps), close_after_done_returns; tree termination (C11 measure + quiescence); lister/ticker/worker termination and emptiness after Done (Lister.v); the publisher / subscription / reaper lifetime protocol one step per channel operation (PubTerm.v): publisher done => every subscription goroutine and reaper it started has returned, no reaper ever blocked on the unsubscribe channel with nobody receiving, from every reachable state the library's own steps reach done without any user of a subscription doing anything, and the tempting variant (delete the table entry when a send fails) is refuted with a trace. Correspondence: seeded Subscribe/Close/Send/Stop sequences on a real source publisher, settled after each call, against the extracted PubTerm.urun (call results, every Done(), goroutine inventory at the baseline where the model says nothing is live; the compared states are proved reachable and quiescent); one library goroutine held at its k-th log call for every k; real-time subscribe/close stress under a publishing source; shutdown-point enumeration on real trees in virtual time with triggers {Close, 3x Close, cancel, list error}, Close swept over time with slow lists / hanging or failing watch connects; synctest deadlock detection = 'does not hang'; goroutine inventory by library frames back to baseline; every API of every stopped node probed (returns ErrNotRunning or a result).",
    note="PARTIAL: wall-clock bounds and the goroutine inventory are observed, not proved. Proviso: List/Watch honour context cancellation.",
    design="6/C12", technique="Coq proof (closed-set reachability on the lifecycle protocol, termination measure) + shutdown-point enumeration with deadlock and goroutine-inventory oracles")

CHECKS["C20"] = dict(
    text="Adapter model (Typed.v): typed cache / events / callbacks are the untyped ones restricted to the type, in order; own-type objects are untouched; foreign objects are skipped (no callback, no nil); Get classification; instantiate changes only the placeholder. Source level (translator route): on every run harness/cmd/gentokens tokenizes the template, the 12 generated.go and the 8 generated joins from the tree under test and the Coq kernel checks instantiate(template) = generated / executed join template = generated join: 20 per-run obligations. Correspondence: all 12 typed packages run the same seeded scenario side by side with an untyped controller on one fake API server (foreign objects injected on the watch): caches, filtered caches, events, filtered events, monitor callbacks, Get, readiness, Close; REST paths and queries of list and watch for every typed client with and without namespace against a loopback HTTP server.",
    note="PARTIAL: program equality per run (kernel-computed), REST table is data. Trusted: the tokenizing translator.",
    design="6/C20", technique="Coq proof (restriction theorems) + per-run kernel-checked template instantiation (translator) + typed/untyped side-by-side correspondence + loopback REST check")

CHECKS["C09"] = dict(
    text="Join = source monitor + for-filter clone of the destination + selection filter. Proved: join_update_in_step (after the callback following the last source change the join's cache is the selection filter applied to the destination's cache, both when the Refilter finds the filter changed and when it finds it equal: C17), composed with C19's specifications into workload/service_pods_join_exact (exactly the destination objects owned by a current source object), double_join_exact, join_ready_after_both (C08), events well-formed (C02), close stops its own subtree only (C11). Correspondence: all eight generated joins and IngressPods over two/three fake API servers in virtual time, racing source/destination histories, three create/use/close cycles over long-lived bases: join cache vs the ownership predicate and vs the extracted join_view, readiness with a slow source, goroutine inventory per cycle, bases still current.",
    note="Known finding D5 (RCPods has no namespace scoping) is listed.",
    design="6/C09", technique="Coq proof (composition of the C06/C08/C17/C19 theorems) + join scenarios over several fake servers in virtual time")

PENDING = {}

def main():
    props = [json.loads(l) for l in open(os.path.join(ROOT, "properties.jsonl"))]
    checks = []
    na = []
    for p in props:
        pid = p["id"]
        if pid in CHECKS:
            c = CHECKS[pid]
            checks.append({
                "property_id": pid,
                "quick_cmd": "./check %s --tier quick" % pid,
                "thorough_cmd": "./check %s --tier thorough" % pid,
                "evidence_file": "/verif/evidence/%s.json" % pid,
                "replay_cmd_template": "./check %s --replay {path}" % pid,
                "engine": "coq+kverif",
                "level_claimed": {"category": "proof", "text": c["text"], "design_ref": c["design"]},
                "level_note": (LEVEL_NOTE.replace("no axioms (Print Assumptions: closed under the global context)", "no axioms for props/C13.v (closed under the global context); the two binary64 theorems of coq/float depend on four named standard-library axioms") if pid == "C13" else LEVEL_NOTE) + c["note"],
                "technique": c["technique"],
            })
        else:
            na.append({"property_id": pid, "reason": PENDING.get(pid, "check under construction in this round: model and harness not yet committed (not a judgement that the technique cannot apply)")})
    m = {
        "version": 1,
        "setup_cmd": "make setup",
        "hooks": {
            "guard": "verif",
            "enable": "go build -tags verif (harness/build.sh); hooks live in the add-only file /repo/verif_export.go",
            "baseline_off_cmd": "cd /repo && go test -mod=mod -json -vet=off -count=1 -timeout 25m ./...",
            "source_commits": HOOK_COMMITS,
            "add_only": True,
        },
        "engines": [
            {"name": "coq", "path": "/verif/coq", "serves_properties": sorted(CHECKS), "kind_free_text": "Coq 8.16.1 development: executable Gallina models, lemmas, property theorems (props/Cxx.v)"},
            {"name": "kverif", "path": "/verif/harness", "serves_properties": sorted(CHECKS), "kind_free_text": "Go correspondence harness rebuilt from /repo on every check; OCaml runner (runner/) evaluates the extracted model on the same cases"},
        ],
        "checks": checks,
        "not_applicable": na,
        "notes": "Every check: (1) rebuild/re-check the Coq proofs, (2) rebuild the harness from /repo's working tree with -tags verif, (3) compare implementation and extracted model, (4) evaluate the property's oracle on the implementation for a concrete failing input. See DESIGN.md.",
    }
    json.dump(m, open(os.path.join(ROOT, "MANIFEST.json"), "w"), indent=1)

HOOK_COMMITS = ["f59e4bd", "32e7e09", "a7bf96a", "00beef9"]
if __name__ == "__main__":
    main()
