// mutgen enumerates and applies small syntactic mutations to one Go file
// (used to validate the checks: tools/mutate.py).
//   mutgen FILE            prints the number of mutation sites and one line per site
//   mutgen FILE N          prints FILE with site N mutated
package main

import (
	"bytes"
	"fmt"
	"go/ast"
	"go/parser"
	"go/printer"
	"go/token"
	"os"
	"strconv"
)

type site struct {
	desc  string
	apply func()
}

func main() {
	file := os.Args[1]
	fset := token.NewFileSet()
	f, err := parser.ParseFile(fset, file, nil, parser.ParseComments)
	if err != nil {
		fmt.Fprintln(os.Stderr, err)
		os.Exit(2)
	}
	var sites []site
	swap := map[token.Token]token.Token{
		token.EQL: token.NEQ, token.NEQ: token.EQL,
		token.LSS: token.LEQ, token.LEQ: token.LSS,
		token.GTR: token.GEQ, token.GEQ: token.GTR,
		token.LAND: token.LOR, token.LOR: token.LAND,
		token.ADD: token.SUB, token.SUB: token.ADD,
	}
	pos := func(n ast.Node) string { p := fset.Position(n.Pos()); return fmt.Sprintf("%d:%d", p.Line, p.Column) }
	delStmt := func(list *[]ast.Stmt, i int, what string) {
		s := (*list)[i]
		sites = append(sites, site{fmt.Sprintf("%s delete-%s", pos(s), what), func() { (*list)[i] = &ast.EmptyStmt{Semicolon: s.Pos(), Implicit: false} }})
	}
	var walkList func(list *[]ast.Stmt)
	walkList = func(list *[]ast.Stmt) {
		for i, s := range *list {
			switch st := s.(type) {
			case *ast.ExprStmt:
				if _, ok := st.X.(*ast.CallExpr); ok {
					delStmt(list, i, "call")
				}
				if u, ok := st.X.(*ast.UnaryExpr); ok && u.Op == token.ARROW {
					delStmt(list, i, "receive")
				}
			case *ast.DeferStmt:
				delStmt(list, i, "defer")
			case *ast.SendStmt:
				delStmt(list, i, "send")
			case *ast.IncDecStmt:
				delStmt(list, i, "incdec")
			case *ast.AssignStmt:
				if st.Tok != token.DEFINE {
					delStmt(list, i, "assign")
				}
			case *ast.BranchStmt:
				delStmt(list, i, st.Tok.String())
			case *ast.GoStmt:
				// go f() -> f(): runs inline
				g := st
				idx := i
				sites = append(sites, site{pos(s) + " go-inline", func() { (*list)[idx] = &ast.ExprStmt{X: g.Call} }})
			}
		}
	}
	ast.Inspect(f, func(n ast.Node) bool {
		switch x := n.(type) {
		case *ast.BinaryExpr:
			if to, ok := swap[x.Op]; ok {
				from := x.Op
				sites = append(sites, site{fmt.Sprintf("%s %s->%s", pos(x), from, to), func() { x.Op = to }})
			}
		case *ast.IfStmt:
			c := x.Cond
			sites = append(sites, site{pos(x) + " if-negate", func() { x.Cond = &ast.UnaryExpr{Op: token.NOT, X: &ast.ParenExpr{X: c}} }})
		case *ast.BlockStmt:
			walkList(&x.List)
		case *ast.CaseClause:
			walkList(&x.Body)
		case *ast.CommClause:
			walkList(&x.Body)
			// a select case that is never taken
			if x.Comm != nil {
				cc := x
				sites = append(sites, site{pos(x) + " select-case-dead", func() {
					cc.Comm = &ast.ExprStmt{X: &ast.UnaryExpr{Op: token.ARROW, X: &ast.CallExpr{Fun: &ast.ParenExpr{X: &ast.FuncLit{
						Type: &ast.FuncType{Params: &ast.FieldList{}, Results: &ast.FieldList{List: []*ast.Field{{Type: &ast.ChanType{Dir: ast.SEND | ast.RECV, Value: &ast.StructType{Fields: &ast.FieldList{}}}}}}},
						Body: &ast.BlockStmt{List: []ast.Stmt{&ast.ReturnStmt{Results: []ast.Expr{ast.NewIdent("nil")}}}}}}}}}
				}})
			}
		case *ast.BasicLit:
			if x.Kind == token.INT && (x.Value == "0" || x.Value == "1") {
				v := x.Value
				sites = append(sites, site{pos(x) + " int " + v, func() {
					if v == "0" {
						x.Value = "1"
					} else {
						x.Value = "0"
					}
				}})
			}
		case *ast.Ident:
			if x.Name == "true" || x.Name == "false" {
				nm := x.Name
				sites = append(sites, site{pos(x) + " bool " + nm, func() {
					if nm == "true" {
						x.Name = "false"
					} else {
						x.Name = "true"
					}
				}})
			}
		}
		return true
	})
	if len(os.Args) < 3 {
		fmt.Println(len(sites))
		for i, s := range sites {
			fmt.Println(i, s.desc)
		}
		return
	}
	n, _ := strconv.Atoi(os.Args[2])
	sites[n].apply()
	var buf bytes.Buffer
	printer.Fprint(&buf, fset, f)
	os.Stdout.Write(buf.Bytes())
}
