#!/usr/bin/env python3
"""Adds the rest of the typed API (Clone*, SubscribeForFilter, Refilter, unitary
handlers) to every wrap_<pkg> of harness/cmd/kverif/typedglue.go.  Idempotent."""
import re
p='/verif/harness/cmd/kverif/typedglue.go'
s=open(p).read()
if 't.subscribeFF' in s:
    raise SystemExit('already extended')
out=[]
pos=0
for m in re.finditer(r'func wrap_(\w+)\(c (t\w+)\.Controller\) \*tctl \{\n(.*?)\n\treturn t\n\}', s, re.S):
    name, pkg, body = m.group(1), m.group(2), m.group(3)
    ty = re.search(r'wrapSub\[%s\.Subscription, %s\.Event, %s\.CacheReader, (\*[\w.]+)\]' % (pkg,pkg,pkg), body).group(1)
    ext = f'''
	t.subscribeFF = func() (*tsub, func(filter.Filter) error, error) {{
		s, err := c.SubscribeForFilter()
		if err != nil {{
			return nil, nil, err
		}}
		return wrapSub[{pkg}.FilterSubscription, {pkg}.Event, {pkg}.CacheReader, {ty}](s), s.Refilter, nil
	}}
	t.clone = func() (*tctl, error) {{
		c2, err := c.Clone()
		if err != nil {{
			return nil, err
		}}
		return wrap_{name}(c2), nil
	}}
	t.cloneF = func(f filter.Filter) (*tctl, func(filter.Filter) error, error) {{
		c2, err := c.CloneWithFilter(f)
		if err != nil {{
			return nil, nil, err
		}}
		return wrap_{name}(c2), c2.Refilter, nil
	}}
	t.cloneFF = func() (*tctl, func(filter.Filter) error, error) {{
		c2, err := c.CloneForFilter()
		if err != nil {{
			return nil, nil, err
		}}
		return wrap_{name}(c2), c2.Refilter, nil
	}}
	t.unitary = func(log logutil.Log, rec func(what string, id int)) (kcache.Monitor, error) {{
		u := {pkg}.BuildUnitaryHandler().
			OnInitialize(func(o {ty}) {{ rec("init", idOf(o)) }}).
			OnCreate(func(o {ty}) {{ rec("create", idOf(o)) }}).
			OnUpdate(func(o {ty}) {{ rec("update", idOf(o)) }}).
			OnDelete(func(o {ty}) {{ rec("delete", idOf(o)) }}).Create()
		return {pkg}.NewMonitor(c, {pkg}.ToUnitary(log, u))
	}}'''
    out.append(s[pos:m.start()])
    out.append(f'func wrap_{name}(c {pkg}.Controller) *tctl {{\n{body}{ext}\n\treturn t\n}}')
    pos=m.end()
out.append(s[pos:])
open(p,'w').write(''.join(out))
print('extended')
