#!/bin/bash
# seed_eval.sh <pid> <mutant-dir> <demo-dest-dir-in-repo> <demo-run-regex> [checks...]
# Confirms a seeded change in a fresh scratch worktree of /repo's HEAD (suite
# passes with it, demo fails with it and passes without), then runs the given
# checks (default: <pid>) against the changed tree.  Leaves nothing behind.
set -u
pid=$1; mdir=$2; dest=$3; rx=$4; shift 4
checks=${@:-$pid}
export GOFLAGS=-mod=mod GOPROXY=off GOSUMDB=off
wt=$(mktemp -d /tmp/evalwt-XXXX); rmdir $wt
git -C /repo worktree add --detach $wt HEAD >/dev/null 2>&1 || { echo "worktree failed"; exit 2; }
cleanup() { git -C /repo worktree remove --force $wt >/dev/null 2>&1; rm -rf $wt; }
trap cleanup EXIT
cd $wt
cp $mdir/*_test.go $dest/ 2>/dev/null
echo "== demo without the change (must pass)"
(cd $dest && go test -vet=off -count=1 -run "$rx" . 2>&1 | tail -3)
git apply $mdir/patch.diff || { echo "PATCH DOES NOT APPLY"; exit 2; }
echo "== demo with the change (must fail)"
(cd $dest && go test -vet=off -count=1 -run "$rx" . 2>&1 | tail -3)
for f in $mdir/*_test.go; do rm -f $dest/$(basename $f); done
echo "== suite with the change (must pass)"
go build ./... && go test -vet=off -count=1 ./... 2>&1 | grep -v "no test files" | grep -v "^ok" | head -5
echo "== checks against the changed tree"
for c in $checks; do
  (cd /verif && VERIF_REPO=$wt ./check $c 2>&1 | tail -3)
done
