#!/usr/bin/env python3
"""Prints the prompt for a mutation-seeding sub-agent: only the property text and its scratch worktree."""
import json, sys
pid = sys.argv[1]
n = sys.argv[2] if len(sys.argv) > 2 else "2"
for l in open('/verif/properties.jsonl'):
    p = json.loads(l)
    if p['id'] == pid:
        break
wt = "/tmp/seed-%s" % pid
print(f"""You are helping to evaluate a verification effort by playing the adversary. You work ONLY inside the git worktree {wt} (a scratch checkout of the Go library boz/kcache, a channel-based Kubernetes object cache). Do not read or touch /repo, /verif or any other directory besides {wt} and temporary files under {wt} or /tmp/seedwork-{pid}. There is no network; use `export GOFLAGS=-mod=mod GOPROXY=off GOSUMDB=off` before go commands; the default `go` (1.23) builds and tests the repo: `cd {wt} && go test -mod=mod -vet=off -count=1 ./...` (about 75 tests, must pass). Ignore the file verif_export.go (build-tagged helper, not part of the library).

Here is a semantic property that the library is supposed to satisfy:

  Title: {p['title']}
  Statement: {p['statement']}
  Quantified over: {p['quantifier']['text']}
  Relevant files: {', '.join(p['anchors']['files'])}

Your task: produce {n} DIFFERENT source changes (mutations) to the library's non-test Go code, each of which
  (a) makes the library VIOLATE this property for some input / schedule / history,
  (b) still compiles, and still passes the complete existing test suite unchanged (run it to confirm; run it 2-3 times if timing-sensitive),
  (c) is realistic - the kind of slip a maintainer could make in a refactoring or "optimisation" (an off-by-one, a dropped condition, a reordered statement, a wrong channel, a missing reset, a changed comparison, two sites that each look fine alone ...), NOT an obviously sabotaged line, and
  (d) needs something specific to manifest: a particular interleaving, a fault at a particular point, a multi-step sequence of operations, an unusual input, or two cooperating sites - NOT something ordinary use would expose at once.
Do not modify any *_test.go file or generated test. Keep each change small (a few lines).

For each mutation write a demonstration: a Go test file (package kcache_test or an internal package test, or a small main program) that FAILS with the mutation applied and PASSES on the unmodified code. The demonstration must be deterministic or nearly so (if it relies on timing, make it robust and say so).

Deliver, for mutation i = 1..{n}, in the directory /tmp/seedwork-{pid}/m<i>/ :
  - patch.diff : `git diff` of the mutation only (against the worktree's HEAD), applying cleanly with `git apply` at the repo root;
  - the demonstration file(s), with a note of where to copy them in the repo and the exact command to run them;
  - notes.md : which part of the property it breaks, what is needed for it to manifest, and the output you saw (fails with the change, passes without, full suite still passes with the change).
When done, leave the worktree clean (`git -C {wt} checkout -- . && git -C {wt} clean -fd`) and reply with a short summary listing the mutations. Verify everything yourself by actually running the commands.""")
