# setup: build the Coq development (full .vo build), extract the model and
# build the OCaml runner, build the Go harness (warms the Go build cache).
.PHONY: setup coq runner harness clean
setup: coq runner harness
coq:
	cd coq && coq_makefile -f _CoqProject -o Makefile.coq && timeout 3000 $(MAKE) -f Makefile.coq -j16
	cd coq && timeout 1200 coqc -Q float KCF float/TickerFloat.v
runner: coq
	cd runner && ./build.sh
harness:
	cd harness && ./build.sh
clean:
	cd coq && (test -f Makefile.coq && $(MAKE) -f Makefile.coq clean || true) && rm -f Makefile.coq Makefile.coq.conf float/*.vo float/*.glob float/.*.aux
	rm -rf work replays harness/bin runner/kmodel runner/model.ml runner/model.mli
