(* cmd_lister.ml — lister commands of the model runner (C13).
   (4 <period ns> ((kind time-ns) ...))   kind: 0 list start, 1 list end, 2 result consumed
   The implementation's trace is checked by trace_ok, the predicate proved in
   Coq to hold of every trace of the lister model (ListerProps.model_traces_ok).
   lo = 0.9 period - 2ns (nextPeriod is computed in floating point). *)
open Model
open Codec

let z_of_int64ish (k : int) : z = z_of_int k

let cmd_trace p tr =
  let p = d_int p in
  let lo = p / 10 * 9 - 2 in
  let evs = d_list (function
      | L [I 0; I t] -> EStart (z_of_int t)
      | L [I 1; I t] -> EEnd (z_of_int t)
      | L [I 2; I t] -> EConsumed (z_of_int t)
      | _ -> bad "trace event") tr in
  if trace_ok (z_of_int lo) evs then (List.length evs, [])
  else (List.length evs, [Printf.sprintf "kind=trace period=%d the implementation's trace is not a trace of the lister model (one list at a time; each start >= previous consumption + 0.9 period)" p])

let handle (x : t) : (int * string list) option =
  match x with
  | L [I 4; p; tr] -> Some (cmd_trace p tr)
  | _ -> None
