(* cmd_fsub.ml — filtered-subscription commands of the model runner (C06, C07, C08).
   (8 (<filter>...) (<parent objs>) (ids))
        the cache of a node below nested filtered clones = nested_view
   (10 deferred <filter or (16)> ((op obs)...))
        op  = (0 (plist)) parent ready | (1 <filter> (plist)) Refilter | (2 etype obj) parent event
        obs = (ready (cache ids) ((etype id)...))   what the implementation showed after the op, at a barrier *)
open Model
open Codec

let ids_of_cache (c : cache) : int list =
  List.sort compare (List.map (fun o -> int_of_n o.o_id) (do_list c))
let str_ids l = String.concat "," (List.map string_of_int l)
let ety_of = function Create -> 0 | Update -> 1 | Delete -> 2
let ety_to = function 0 -> Create | 1 -> Update | 2 -> Delete | _ -> bad "etype"
let str_evs l = String.concat "," (List.map (fun (t, i) -> Printf.sprintf "%d:%d" t i) l)
(* one Refilter / sync batch lists the parent in map order: the events of a
   batch are compared as a multiset *)
let canon_events evs = List.sort compare evs

let cmd_view fs objs ids =
  let fs = d_list d_filter fs and objs = d_list d_obj objs in
  let ids = List.sort compare (d_list d_int ids) in
  let m = List.sort compare (List.map (fun o -> int_of_n o.o_id) (nested_view fs objs)) in
  if m = ids then (1, [])
  else (1, [Printf.sprintf "kind=view nested filtered view impl=[%s] model=[%s]" (str_ids ids) (str_ids m)])

let cmd_fsub deferred f ops =
  let deferred = d_bool deferred in
  let s0 = if deferred then fs_init true FAll else fs_init false (d_filter f) in
  let st = ref s0 and ms = ref [] and n = ref 0 in
  List.iteri (fun i x ->
      match x with
      | L [op; L [rdy; ids; evs]] ->
        incr n;
        let (s1, mevs) = match op with
          | L [I 0; pl] -> fs_step !st (FParentReady (d_list d_obj pl))
          | L [I 1; f; pl] -> fs_step !st (FRefilter (d_filter f, d_list d_obj pl))
          | L [I 2; ty; o] -> fs_step !st (FParentEvent { ev_ty = ety_to (d_int ty); ev_obj = d_obj o })
          | L [I 3] -> (!st, [])        (* nothing reached the node: nothing may change *)
          | _ -> bad "fsub op" in
        st := s1;
        let iready = d_bool rdy in
        if iready <> s1.fs_ready then
          ms := Printf.sprintf "kind=fsready op=%d impl=%b model=%b" i iready s1.fs_ready :: !ms;
        (* the cache of a node that is not ready is not observable *)
        let iids = List.sort compare (d_list d_int ids) in
        if iready && s1.fs_ready && ids_of_cache s1.fs_cache <> iids then
          ms := Printf.sprintf "kind=fscontent op=%d impl=[%s] model=[%s]" i (str_ids iids) (str_ids (ids_of_cache s1.fs_cache)) :: !ms;
        let ievs = d_list (function L [I t; I id] -> (t, id) | _ -> bad "event") evs in
        let mevs = List.map (fun e -> (ety_of e.ev_ty, int_of_n e.ev_obj.o_id)) mevs in
        if canon_events ievs <> canon_events mevs then
          ms := Printf.sprintf "kind=fsevents op=%d impl=[%s] model=[%s]" i (str_evs ievs) (str_evs mevs) :: !ms
      | _ -> bad "fsub step")
    (match ops with L l -> l | _ -> bad "ops");
  (!n, List.rev !ms)

let handle (x : t) : (int * string list) option =
  match x with
  | L [I 8; fs; objs; ids] -> Some (cmd_view fs objs ids)
  | L [I 10; d; f; ops] -> Some (cmd_fsub d f ops)
  | _ -> None
