(* main.ml — entry point of the model runner: reads a case file written by
   the Go harness (one command per line), evaluates the extracted Coq model
   on it and prints every disagreement with the implementation's recorded
   behaviour. *)
open Codec

let handlers : (t -> (int * string list) option) list = [
  Cmd_filter.handle;
  Cmd_cache.handle;
  Cmd_lister.handle;
  Cmd_controller.handle;
  Cmd_fsub.handle;
  Cmd_pipeline.handle;
]

let () =
  let file = Sys.argv.(1) in
  let ic = open_in file in
  let lineno = ref 0 and cases = ref 0 and evals = ref 0 and mismatches = ref 0 in
  (try
     while true do
       let line = input_line ic in
       incr lineno;
       if String.length line > 0 && line.[0] <> '#' then begin
         incr cases;
         (try
            let x = parse line in
            let rec go = function
              | [] -> failwith "unknown command"
              | h :: hs -> (match h x with
                  | Some (e, ms) ->
                    evals := !evals + e;
                    List.iter (fun m -> incr mismatches; Printf.printf "MISMATCH line=%d %s\n" !lineno m) ms
                  | None -> go hs)
            in go handlers
          with Failure msg | Invalid_argument msg ->
            incr mismatches; Printf.printf "ERROR line=%d %s\n" !lineno msg)
       end
     done
   with End_of_file -> ());
  close_in ic;
  Printf.printf "DONE cases=%d evals=%d mismatches=%d\n" !cases !evals !mismatches;
  exit (if !mismatches = 0 then 0 else 3)
