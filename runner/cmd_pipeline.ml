(* cmd_pipeline.ml — pipeline and monitor commands of the model runner (C05, C10, C16).
   (9 ((etype id)... published) k ((etype id)... received))
        a subscriber created when k events had been published receives expected_suffix k published
   (11 ((etype id)... events) ((code id)... callbacks) complete)
        code: 0 create 1 update 2 delete 3 init; the callback log passes monitor_log_ok *)
open Model
open Codec

let rec nat_of_int k = if k <= 0 then O else S (nat_of_int (k - 1))
let d_pair = function L [I t; I id] -> (t, id) | _ -> bad "pair"
let str l = String.concat "," (List.map (fun (t, i) -> Printf.sprintf "%d:%d" t i) l)
let ety_to = function 0 -> Create | 1 -> Update | 2 -> Delete | _ -> bad "etype"

let cmd_suffix published k received =
  let published = d_list d_pair published and received = d_list d_pair received in
  let want = expected_suffix (nat_of_int (d_int k)) published in
  if want = received then (List.length received, [])
  else (List.length received, [Printf.sprintf "kind=sequence created_at=%d received=[%s] model=[%s]" (d_int k) (str received) (str want)])

let cmd_monitor events log complete =
  let events = List.map (fun (t, id) -> (ety_to t, n_of_int id)) (d_list d_pair events) in
  let log = List.map (fun (c, id) -> if c = 3 then CbInit [] else CbEvent (ety_to c, n_of_int id)) (d_list d_pair log) in
  if monitor_log_ok events log (d_bool complete) then (List.length log, [])
  else (List.length log, ["kind=callbacks the implementation's callback log is not a log of the monitor model (OnInitialize once and first, then one callback per event in order)"])

let handle (x : t) : (int * string list) option =
  match x with
  | L [I 9; p; k; r] -> Some (cmd_suffix p k r)
  | L [I 11; e; l; c] -> Some (cmd_monitor e l c)
  | _ -> None

(* (12 ((ids)... writer states) ((lo hi (ids))... reads))
   every read observed one of the writer's complete states between its call
   and its return (CacheActor.lin_ok) *)
let cmd_lin states reads =
  let states = d_list (d_list d_n) states in
  let ms = ref [] and n = ref 0 in
  List.iteri (fun i r ->
      match r with
      | L [I lo; I hi; obs] ->
        incr n;
        if not (lin_ok states (nat_of_int lo) (nat_of_int hi) (d_list d_n obs)) then
          ms := Printf.sprintf "kind=snapshot read=%d lo=%d hi=%d the observed content is none of the writer's states in that window" i lo hi :: !ms
      | _ -> bad "read") (match reads with L l -> l | _ -> bad "reads");
  (!n, List.rev !ms)

let handle (x : t) : (int * string list) option =
  match x with
  | L [I 12; states; reads] -> Some (cmd_lin states reads)
  | _ -> handle x

(* (13 (parent...) victim (done...))   parent -1 = root
   after closing node `victim` and letting the tree quiesce, exactly its
   subtree is done (Lifecycle.done_after_close) *)
let cmd_shutdown parents victim dones =
  let ps = List.map (fun p -> if p < 0 then None else Some (nat_of_int p)) (d_list d_int parents) in
  let dones = d_list d_bool dones in
  let m = done_after_close ps (nat_of_int (d_int victim)) in
  if m = dones then (List.length dones, [])
  else (List.length dones, [Printf.sprintf "kind=shutdown victim=%d impl_done=[%s] model_done=[%s]" (d_int victim)
                              (String.concat "," (List.map string_of_bool dones)) (String.concat "," (List.map string_of_bool m))])

let handle (x : t) : (int * string list) option =
  match x with
  | L [I 13; ps; v; ds] -> Some (cmd_shutdown ps v ds)
  | L [I 13; _] -> Some (0, [])
  | _ -> handle x

(* (15 kind (untyped objs) (typed ids))  the typed cache = typed_list *)
let cmd_typed kind objs ids =
  let objs = d_list d_obj objs in
  let ids = List.sort compare (d_list d_int ids) in
  let m = List.sort compare (List.map (fun o -> int_of_n o.o_id) (typed_list (d_n kind) objs)) in
  if m = ids then (List.length objs, [])
  else (List.length objs, [Printf.sprintf "kind=typedview impl=[%s] model=[%s]"
                             (String.concat "," (List.map string_of_int ids)) (String.concat "," (List.map string_of_int m))])

let handle (x : t) : (int * string list) option =
  match x with
  | L [I 15; k; objs; ids] -> Some (cmd_typed k objs ids)
  | _ -> handle x

(* (14 tag (src objs) (dst objs) (join ids))  tag: 12 service, 13 rc, 14 workload, 15 ingress->services
   the join's cache at quiescence = join_view of the selection filter *)
let cmd_join tag srcs dsts ids =
  let srcs = d_list d_obj srcs and dsts = d_list d_obj dsts in
  let ids = List.sort compare (d_list d_int ids) in
  let ffn = match d_int tag with
    | 12 -> service_pods_filter | 13 -> rc_pods_filter | 14 -> workload_pods_filter | 15 -> ingress_services_filter
    | _ -> bad "join tag" in
  let m = List.sort compare (List.map (fun o -> int_of_n o.o_id) (join_view ffn srcs dsts)) in
  if m = ids then (List.length dsts, [])
  else (List.length dsts, [Printf.sprintf "kind=joinview impl=[%s] model=[%s]"
                             (String.concat "," (List.map string_of_int ids)) (String.concat "," (List.map string_of_int m))])

let handle (x : t) : (int * string list) option =
  match x with
  | L [I 14; tag; s; d; ids] -> Some (cmd_join tag s d ids)
  | _ -> handle x

(* (16 cap (op...) ((received ids) ...))   op: (0 id) publish | (1) subscribe | (2 i) read one event from subscription i | (3 i) close subscription i
   the events each consumer has received are those of Pipeline.prun on the same operations *)
let rec int_of_nat = function O -> 0 | S n -> 1 + int_of_nat n
let cmd_buffers cap ops received =
  let cap = nat_of_int (d_int cap) in
  let ops = List.map (function
      | L [I 0; I id] -> PPublish (nat_of_int id)
      | L [I 1] -> PSubscribe cap
      | L [I 2; I i] -> PRead (nat_of_int i)
      | L [I 3; I i] -> PClose (nat_of_int i)
      | _ -> bad "buffer op") (match ops with L l -> l | _ -> bad "ops") in
  let received = d_list (d_list d_int) received in
  let view = prun_view ops in
  let model = List.map (fun ((p, _), _) -> List.map int_of_nat p) view in
  let show l = String.concat ";" (List.map (fun x -> String.concat "," (List.map string_of_int x)) l) in
  if model = received then (List.length ops, [])
  else (List.length ops, [Printf.sprintf "kind=buffers received=[%s] model=[%s]" (show received) (show model)])

let handle (x : t) : (int * string list) option =
  match x with
  | L [I 16; cap; ops; r] -> Some (cmd_buffers cap ops r)
  | _ -> handle x

(* (17 cap k (applied indices))   the controller holds entry 1 and is busy while k more entries arrive;
   what it applies afterwards is fst (Watcher.busy_burst_outcome cap k) *)
let cmd_burst cap k applied =
  let applied = d_list d_int applied in
  let (m, lost) = busy_burst_outcome (nat_of_int (d_int cap)) (nat_of_int (d_int k)) in
  let m = List.map int_of_nat m in
  let show l = String.concat "," (List.map string_of_int l) in
  if m = applied then (List.length applied, [])
  else (List.length applied, [Printf.sprintf "kind=overflow cap=%d k=%d applied=[%s] model=[%s] model_lost=%d" (d_int cap) (d_int k) (show applied) (show m) (int_of_nat lost)])

let handle (x : t) : (int * string list) option =
  match x with
  | L [I 17; cap; k; a] -> Some (cmd_burst cap k a)
  | _ -> handle x

(* (18 (op...) ((ok (done...) pubdone live) ...))   op: (0) subscribe | (1 i) close subscription i | (2) send | (3) stop
   after every call (and settling) the implementation reports: did the call succeed, Done() of every subscription,
   Done() of the publisher, and the class of its goroutine inventory; the model (PubTerm.urun) gives the same tuple with
   the number of subscriptions still owning a goroutine.  The inventory is compared where C12 pins it down: once the
   model says the publisher is done and nothing is live, the implementation is back at its baseline.  (What a closed
   subscription may keep alive while the publisher still runs is not C12's business and is not compared.) *)
let cmd_term ops obs =
  let ops = List.map (function
      | L [I 0] -> USubscribe
      | L [I 1; I i] -> UClose (nat_of_int i)
      | L [I 2] -> USend
      | L [I 3] -> UStop
      | _ -> bad "term op") (match ops with L l -> l | _ -> bad "ops") in
  let obs = List.map (function
      | L [I ok; dones; I pd; I g] -> (ok <> 0, List.map (fun x -> d_int x <> 0) (match dones with L l -> l | _ -> bad "dones"), pd <> 0, g)
      | _ -> bad "term obs") (match obs with L l -> l | _ -> bad "obs") in
  let model = List.map (fun (((ok, dones), pd), live) -> (ok, dones, pd, int_of_nat live)) (urun tinit ops) in
  let n = List.length ops in
  if List.length obs <> List.length model then (n, ["kind=term length"])
  else begin
    let errs = ref [] in
    List.iteri (fun k ((ok, dones, pd, g), (mok, mdones, mpd, mlive)) ->
        let sb l = String.concat "" (List.map (fun b -> if b then "1" else "0") l) in
        if ok <> mok then errs := Printf.sprintf "kind=term step=%d call-result impl=%b model=%b" k ok mok :: !errs;
        if dones <> mdones then errs := Printf.sprintf "kind=term step=%d subscriptions-done impl=%s model=%s" k (sb dones) (sb mdones) :: !errs;
        if pd <> mpd then errs := Printf.sprintf "kind=term step=%d publisher-done impl=%b model=%b" k pd mpd :: !errs;
        if mpd && mlive = 0 && g <> 0 then errs := Printf.sprintf "kind=goroutines step=%d publisher done and nothing live in the model, but %d library goroutines above the baseline" k g :: !errs)
      (List.combine obs model);
    (n, List.rev !errs)
  end

let handle (x : t) : (int * string list) option =
  match x with
  | L [I 18; ops; obs] -> Some (cmd_term ops obs)
  | _ -> handle x

(* (19 kind (untyped callback...) ((w id)...))   untyped callback: (3 (objs)) OnInitialize | (ty obj) with ty 0 create 1 update 2 delete
   the callbacks a unitary typed handler (ToUnitary) received, as (w id) with w 0 create 1 update 2 delete 3 initialise,
   are Typed.unitary_log of the untyped monitor's callbacks; maximal runs of one kind are compared as sets (the events of
   one synchronisation come in map order) *)
let canon_runs (l : (int * int) list) : (int * int) list =
  let flush cur acc = List.rev_append (List.sort compare cur) acc in
  let rec go acc cur = function
    | [] -> List.rev (flush cur acc)
    | (w, i) :: r ->
      (match cur with
       | (w', _) :: _ when w' = w -> go acc ((w, i) :: cur) r
       | _ -> go (flush cur acc) [(w, i)] r)
  in go [] [] l

let cmd_unitary kind ulog tlog =
  let kind = d_n kind in
  let ety = function 0 -> Create | 1 -> Update | 2 -> Delete | _ -> bad "event type" in
  let ulog = List.map (function
      | L [I 3; objs] -> TInit (d_list d_obj objs)
      | L [I ty; o] -> TEvent (ety ty, d_obj o)
      | _ -> bad "callback") (match ulog with L l -> l | _ -> bad "ulog") in
  let tlog = List.map (function L [I w; I id] -> (w, id) | _ -> bad "typed callback") (match tlog with L l -> l | _ -> bad "tlog") in
  let tyi = function Create -> 0 | Update -> 1 | Delete -> 2 in
  let model = List.concat_map (function
      | TInit objs -> List.map (fun o -> (3, int_of_n o.o_id)) objs
      | TEvent (ty, o) -> [(tyi ty, int_of_n o.o_id)]) (unitary_log kind ulog) in
  let show l = String.concat " " (List.map (fun (w, i) -> Printf.sprintf "%d:%d" w i) l) in
  if canon_runs model = canon_runs tlog then (List.length ulog, [])
  else (List.length ulog, [Printf.sprintf "kind=typedview unitary handler impl=[%s] model=[%s]" (show tlog) (show model)])

let handle (x : t) : (int * string list) option =
  match x with
  | L [I 19; k; u; t] -> Some (cmd_unitary k u t)
  | _ -> handle x

(* (20 cap (delta ids...) (received ids...))   RootHop.burst: the delta of a Refilter pushed without waiting into an
   empty channel of cap slots that nobody reads leaves as many events in it as the model says; which ones depends on
   the order of a Go map, so the elements are compared only as "distinct members of the delta" *)
let cmd_hop cap delta recv =
  let ints x = List.map d_int (match x with L l -> l | _ -> bad "ints") in
  let cap = d_int cap and delta = ints delta and recv = ints recv in
  let model = burst (nat_of_int cap) [] delta in
  let errs = ref [] in
  (* a delta that fits and is not delivered whole is a failing input for C07 as it stands *)
  let kind = if List.length delta <= cap then "hopfit" else "hop" in
  if List.length model <> List.length recv then
    errs := Printf.sprintf "kind=%s delta=%d cap=%d events-in-channel impl=%d model=%d" kind (List.length delta) cap (List.length recv) (List.length model) :: !errs;
  if List.exists (fun i -> not (List.mem i delta)) recv then errs := "kind=hop an event that is not in the delta" :: !errs;
  if List.length (List.sort_uniq compare recv) <> List.length recv then errs := "kind=hop an event twice" :: !errs;
  (1, List.rev !errs)

let handle (x : t) : (int * string list) option =
  match x with
  | L [I 20; cap; delta; recv] -> Some (cmd_hop cap delta recv)
  | _ -> handle x

(* (21 (input bytes) ok (ns bytes) (name bytes) (String() bytes))   nsname.Parse against NSName.ns_parse, and String of
   the result against ns_string.  (22 (ns) (name) (String() bytes) ok (ns') (name'))   String then Parse. *)
let d_bytes x = List.map (fun b -> n_of_int (d_int b)) (match x with L l -> l | _ -> bad "bytes")
let show_bytes l = String.concat "," (List.map (fun b -> string_of_int (int_of_n b)) l)

let cmd_nsparse input ok ns nm str =
  let input = d_bytes input and ok = d_int ok <> 0 and ns = d_bytes ns and nm = d_bytes nm and str = d_bytes str in
  match ns_parse input, ok with
  | None, false -> if ns = [] && nm = [] then (1, []) else (1, ["kind=nsname Parse failed but returned a non-zero NSName input=" ^ show_bytes input])
  | Some (a, b), true ->
    if a <> ns || b <> nm then (1, [Printf.sprintf "kind=nsname Parse input=%s impl=(%s | %s) model=(%s | %s)" (show_bytes input) (show_bytes ns) (show_bytes nm) (show_bytes a) (show_bytes b)])
    else if ns_string (a, b) <> str then (1, [Printf.sprintf "kind=nsname String of (%s | %s) impl=%s model=%s" (show_bytes a) (show_bytes b) (show_bytes str) (show_bytes (ns_string (a, b)))])
    else (1, [])
  | m, _ -> (1, [Printf.sprintf "kind=nsname Parse input=%s accepted impl=%b model=%b" (show_bytes input) ok (m <> None)])

let cmd_nsround a b str ok a' b' =
  let a = d_bytes a and b = d_bytes b and str = d_bytes str and ok = d_int ok <> 0 and a' = d_bytes a' and b' = d_bytes b' in
  let mstr = ns_string (a, b) in
  if mstr <> str then (1, [Printf.sprintf "kind=nsname String of (%s | %s) impl=%s model=%s" (show_bytes a) (show_bytes b) (show_bytes str) (show_bytes mstr)])
  else match ns_parse mstr, ok with
    | None, false -> (1, [])
    | Some (x, y), true when x = a' && y = b' -> (1, [])
    | _ -> (1, [Printf.sprintf "kind=nsname Parse(String(%s | %s)) differs from the model" (show_bytes a) (show_bytes b)])

let handle (x : t) : (int * string list) option =
  match x with
  | L [I 21; input; ok; ns; nm; str] -> Some (cmd_nsparse input ok ns nm str)
  | L [I 22; a; b; str; ok; a'; b'] -> Some (cmd_nsround a b str ok a' b')
  | _ -> handle x
