#!/bin/bash
# Extract the model from the compiled Coq development and build the runner.
set -e
cd "$(dirname "$0")"
rm -f model.ml model.mli
coqc -Q ../coq/theories KC ../coq/extract/Extract.v >/dev/null
rm -f ../coq/extract/Extract.vo ../coq/extract/Extract.glob ../coq/extract/.Extract.aux ../coq/extract/Extract.vos ../coq/extract/Extract.vok
ocamlfind ocamlopt -w -a -O2 -package str model.mli model.ml codec.ml cmd_filter.ml cmd_cache.ml cmd_lister.ml cmd_controller.ml cmd_fsub.ml cmd_pipeline.ml main.ml -o kmodel 2>/dev/null \
  || ocamlfind ocamlopt -w -a model.mli model.ml codec.ml cmd_filter.ml cmd_cache.ml cmd_lister.ml cmd_controller.ml cmd_fsub.ml cmd_pipeline.ml main.ml -o kmodel
rm -f *.cmi *.cmx *.o
