(* cmd_cache.ml — cache commands of the model runner (C01, C02, C07).
   (3 <filter> (<path op>...) (<alternative op>...))
   op  = (0 (objs) obs) | (1 etype obj obs) | (2 filter (objs) obs)
   obs = (0 ((etype id)...) (ids...)) | (1)        -- (1) = the implementation panicked *)
open Model
open Codec

type obs = Panicked | Res of (int * int) list * int list

let d_obs = function
  | L [I 1] -> Panicked
  | L [I 0; evs; ids] ->
    Res (d_list (function L [I t; I id] -> (t, id) | _ -> bad "event") evs, d_list d_int ids)
  | _ -> bad "obs"

let ety_of = function Create -> 0 | Update -> 1 | Delete -> 2
let ety_to = function 0 -> Create | 1 -> Update | 2 -> Delete | _ -> bad "etype"

let ids_of_cache (c : cache) : int list =
  List.sort compare (List.map (fun o -> int_of_n o.o_id) (do_list c))

let ev_pairs (evs : event list) = List.map (fun e -> (ety_of e.ev_ty, int_of_n e.ev_obj.o_id)) evs

let str_ids l = String.concat "," (List.map string_of_int l)
let str_evs l = String.concat "," (List.map (fun (t, i) -> Printf.sprintf "%d:%d" t i) l)

(* creates/updates in order, deletes as a multiset *)
let canon_events evs =
  (List.filter (fun (t, _) -> t <> 2) evs, List.sort compare (List.filter (fun (t, _) -> t = 2) evs))

type opk = OpSync of obj list | OpUpdate of etype * obj | OpRefilter of filter0 * obj list

let d_op tbl = function
  | L [I 0; objs; obs] ->
    let os = d_list d_obj objs in List.iter (fun o -> Hashtbl.replace tbl (int_of_n o.o_id) o) os;
    (OpSync os, d_obs obs)
  | L [I 1; ty; o; obs] ->
    let o = d_obj o in Hashtbl.replace tbl (int_of_n o.o_id) o;
    (OpUpdate (ety_to (d_int ty), o), d_obs obs)
  | L [I 2; f; objs; obs] ->
    let os = d_list d_obj objs in List.iter (fun o -> Hashtbl.replace tbl (int_of_n o.o_id) o) os;
    (OpRefilter (d_filter f, os), d_obs obs)
  | _ -> bad "op"

(* model step: returns None on (model) panic *)
let step (f : filter0) (c : cache) (op : opk) : (filter0 * cache * event list) option =
  match op with
  | OpSync os -> (match do_sync_raw (accept f) c os with
      | Ok (c', evs) -> Some (f, c', evs) | Panic -> None)
  | OpUpdate (ty, o) ->
    let (c', evs) = do_update (accept f) c { ev_ty = ty; ev_obj = o } in Some (f, c', evs)
  | OpRefilter (f', os) -> (match do_sync_raw (accept f') c os with
      | Ok (c', evs) -> Some (f', c', evs) | Panic -> None)

(* compare one op; returns mismatch strings *)
let compare_op tbl what (f, c) op obs : string list =
  let before = ids_of_cache c in
  match step f c op, obs with
  | None, Panicked -> []
  | None, Res _ -> [Printf.sprintf "kind=panic %s model panics, implementation does not" what]
  | Some _, Panicked -> [Printf.sprintf "kind=panic %s implementation panics, model does not" what]
  | Some (_, c', evs), Res (ievs, iids) ->
    let ms = ref [] in
    let add s = ms := s :: !ms in
    let mids = ids_of_cache c' in
    let iids = List.sort compare iids in
    if mids <> iids then
      add (Printf.sprintf "kind=content %s before=[%s] impl=[%s] model=[%s]" what (str_ids before) (str_ids iids) (str_ids mids));
    let mevs = ev_pairs evs in
    if canon_events mevs <> canon_events ievs then
      add (Printf.sprintf "kind=events %s impl=[%s] model=[%s]" what (str_evs ievs) (str_evs mevs));
    (* C02 oracle on the implementation's own events: they replay from the
       content before to the implementation's content after *)
    let ievents = List.map (fun (t, id) ->
        match Hashtbl.find_opt tbl id with
        | Some o -> { ev_ty = ety_to t; ev_obj = o }
        | None -> bad (Printf.sprintf "event for unknown object %d" id)) ievs in
    (match replay c ievents with
     | None -> add (Printf.sprintf "kind=replay %s implementation events are not a well-formed delta: before=[%s] events=[%s]" what (str_ids before) (str_evs ievs))
     | Some cr ->
       if ids_of_cache cr <> iids then
         add (Printf.sprintf "kind=replay %s implementation events replay to [%s], implementation content is [%s]" what (str_ids (ids_of_cache cr)) (str_ids iids)));
    if before = iids && ievs <> [] then
      add (Printf.sprintf "kind=minimal %s nothing changed but events=[%s]" what (str_evs ievs));
    (* an input that changes nothing by the proved semantics (a redelivered or
       stale version, a delete of an unknown key, a rejected unknown object, an
       unchanged relist) emits no event at all *)
    if mevs = [] && before = mids && ievs <> [] then
      add (Printf.sprintf "kind=spurious %s an input that changes nothing (before=[%s]) made the implementation emit [%s]" what (str_ids before) (str_evs ievs));
    List.rev !ms

let cmd_cache f path alts =
  let tbl = Hashtbl.create 64 in
  let f0 = d_filter f in
  let path = d_list (d_op tbl) path in
  let alts = d_list (d_op tbl) alts in
  let evals = ref 0 and ms = ref [] in
  let st = ref (Some (f0, ([] : cache))) in
  List.iteri (fun i (op, obs) ->
      match !st with
      | None -> ()
      | Some (f, c) ->
        incr evals;
        let m = compare_op tbl (Printf.sprintf "path=%d" i) (f, c) op obs in
        ms := !ms @ m;
        if m <> [] then st := None
        else (match step f c op with
            | Some (f', c', _) -> st := Some (f', c')
            | None -> st := None))
    path;
  (match !st with
   | None -> ()
   | Some (f, c) ->
     List.iteri (fun i (op, obs) ->
         incr evals;
         ms := !ms @ compare_op tbl (Printf.sprintf "alt=%d" i) (f, c) op obs)
       alts);
  (!evals, !ms)

let handle (x : t) : (int * string list) option =
  match x with
  | L [I 3; f; path; alts] -> Some (cmd_cache f path alts)
  | _ -> None

(* (5 <filter> (<listed objs>) ((etype obj)...) (final ids))
   the quiescent outcome of the watch path: the list, then the whole log in
   order (Watcher.watch_outcome) *)
let cmd_watch f listed log final =
  let f = d_filter f in
  let listed = d_list d_obj listed in
  let log = d_list (function L [ty; o] -> { ev_ty = ety_to (d_int ty); ev_obj = d_obj o } | _ -> bad "log entry") log in
  let final = List.sort compare (d_list d_int final) in
  match watch_outcome (accept f) listed log with
  | Panic -> (1, ["kind=panic the model panics on the initial list"])
  | Ok c ->
    let m = ids_of_cache c in
    if m = final then (1 + List.length log, [])
    else (1 + List.length log, [Printf.sprintf "kind=content quiescent watch outcome impl=[%s] model=[%s]" (str_ids final) (str_ids m)])

let handle (x : t) : (int * string list) option =
  match x with
  | L [I 5; f; listed; log; final] -> Some (cmd_watch f listed log final)
  | _ -> handle x
