(* codec.ml — part of the runner that drives the OCaml code extracted from the Coq model
   (model.ml) over a case file written by the Go harness and reports where
   the implementation's recorded behaviour differs from the model's.
   Hand-written glue: parsing, decoding, printing.  No semantics here. *)

open Model

(* ---------- tree parsing ---------- *)
type t = I of int | L of t list

let parse (s : string) : t =
  let n = String.length s in
  let i = ref 0 in
  let rec skip () = if !i < n && (s.[!i] = ' ' || s.[!i] = '\t' || s.[!i] = '\r') then (incr i; skip ()) in
  let rec p () =
    skip ();
    if !i >= n then failwith "unexpected end";
    if s.[!i] = '(' then begin
      incr i;
      let rec items acc =
        skip ();
        if !i >= n then failwith "unclosed";
        if s.[!i] = ')' then (incr i; L (List.rev acc))
        else let x = p () in items (x :: acc)
      in items []
    end else begin
      let j = ref !i in
      while !j < n && (s.[!j] = '-' || (s.[!j] >= '0' && s.[!j] <= '9')) do incr j done;
      if !j = !i then failwith (Printf.sprintf "bad token at %d" !i);
      let v = int_of_string (String.sub s !i (!j - !i)) in
      i := !j; I v
    end
  in
  let r = p () in skip ();
  if !i <> n then failwith "trailing input";
  r

(* ---------- numbers ---------- *)
let rec pos_of_int (k : int) : positive =
  if k <= 1 then XH
  else if k land 1 = 0 then XO (pos_of_int (k lsr 1))
  else XI (pos_of_int (k lsr 1))

let n_of_int (k : int) : n = if k <= 0 then N0 else Npos (pos_of_int k)
let z_of_int (k : int) : z =
  if k = 0 then Z0 else if k > 0 then Zpos (pos_of_int k) else Zneg (pos_of_int (-k))

let rec int_of_pos = function
  | XH -> 1
  | XO p -> 2 * int_of_pos p
  | XI p -> 2 * int_of_pos p + 1
let int_of_n = function N0 -> 0 | Npos p -> int_of_pos p
let int_of_z = function Z0 -> 0 | Zpos p -> int_of_pos p | Zneg p -> - (int_of_pos p)

(* ---------- decoders ---------- *)
let bad what = failwith ("decode: " ^ what)
let d_int = function I k -> k | _ -> bad "int"
let d_list f = function L l -> List.map f l | _ -> bad "list"
let d_n x = n_of_int (d_int x)
let d_bool x = d_int x <> 0
let d_kv = function L [a; b] -> (d_n a, d_n b) | _ -> bad "kv"
let d_map x : lmap = d_list d_kv x

let d_expr = function
  | L [k; op; vals] ->
    { le_key = d_n k;
      le_op = (match d_int op with 0 -> LIn | 1 -> LNotIn | 2 -> LExists | 3 -> LDoesNotExist | _ -> bad "lsel op");
      le_vals = d_list d_n vals }
  | _ -> bad "expr"

let d_lsel = function
  | L [] -> None
  | L [labels; exprs] -> Some { ls_labels = d_map labels; ls_exprs = d_list d_expr exprs }
  | _ -> bad "lsel"

let d_spec = function
  | L [I 0] -> SNone
  | L [I 1; node] -> SPod (d_n node)
  | L [I 2; sel] -> SService (d_map sel)
  | L [I 3; sel; tmpl] -> SRC (d_map sel, d_map tmpl)
  | L [I 4; sel; tmpl] -> SWorkload (d_lsel sel, d_map tmpl)
  | L [I 5; k; ns; nm] -> SEvent (d_n k, d_n ns, d_n nm)
  | L [I 6; b; paths] -> SIngress (d_n b, d_list d_n paths)
  | _ -> bad "spec"

let d_obj = function
  | L [id; kind; ns; nm; rv; labels; spec] ->
    { o_id = d_n id; o_kind = d_n kind; o_ns = d_n ns; o_nm = d_n nm;
      o_rv = d_list d_n rv; o_labels = d_map labels; o_spec = d_spec spec }
  | _ -> bad "obj"

(* filter constructor terms -> model terms, through the model's own
   constructor functions *)
let rec d_filter (x : t) : filter0 =
  match x with
  | L [I 0] -> FNull
  | L [I 1] -> FAll
  | L [I 2; c] -> FNot (d_filter c)
  | L [I 3; cs] -> FAnd (d_list d_filter cs)
  | L [I 4; cs] -> FOr (d_list d_filter cs)
  | L [I 5; ids] -> mk_nsname (d_list d_kv ids)
  | L [I 6; m] -> mk_labels (d_map m)
  | L [I 7; s] -> mk_label_selector (d_lsel s)
  | L [I 8; c] -> let inner = d_filter c in FFn (fun o -> accept inner o)
  | L [I 9; names] -> mk_node_filter (d_list d_n names)
  | L [I 10; k; ns; nm] -> mk_involved_filter (d_n k) (d_n ns) (d_n nm)
  | L [I 11; m] -> mk_selector_match_filter (d_map m)
  | L [I 12; objs] -> service_pods_filter (d_list d_obj objs)
  | L [I 13; objs] -> rc_pods_filter (d_list d_obj objs)
  | L [I 14; objs] -> workload_pods_filter (d_list d_obj objs)
  | L [I 15; objs] -> ingress_services_filter (d_list d_obj objs)
  | _ -> bad "filter"

let d_filter_opt = function
  | L [I 16] -> None
  | x -> Some (d_filter x)

