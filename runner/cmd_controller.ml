(* cmd_controller.ml — controller commands of the model runner (C03, C14, C08).
   (6 <filter> (<listed objs>) (impl ids))
       a converged cache equals the list's accepted objects (relist_outcome)
   (7 (<input>...) ready stopped)
       input = (0 k) list result kind k: 0 ok 1 error 2 not-a-list 3 no-items 4 non-objects
             | (1) watch fault | (2) Close | (3) context cancelled
       ready: 0/1   stopped: 0 running, 1 failed (a list failure), 3 context, 4 closed with no error *)
open Model
open Codec

let ids_of_cache (c : cache) : int list =
  List.sort compare (List.map (fun o -> int_of_n o.o_id) (do_list c))
let str_ids l = String.concat "," (List.map string_of_int l)

let cmd_relist f listed ids =
  let f = d_filter f in
  let listed = d_list d_obj listed in
  let ids = List.sort compare (d_list d_int ids) in
  match relist_outcome (accept f) listed with
  | Panic -> (1, ["kind=panic the model panics on the list"])
  | Ok c ->
    let m = ids_of_cache c in
    if m = ids then (1, [])
    else (1, [Printf.sprintf "kind=content cache after a relist impl=[%s] model=[%s]" (str_ids ids) (str_ids m)])

let d_input = function
  | L [I 0; I 0] -> IList (LROk ([], []))
  | L [I 0; I 1] -> IList LRErr
  | L [I 0; I 2] -> IList LRNotList
  | L [I 0; I 3] -> IList LRNoItems
  | L [I 0; I 4] -> IList LRNonObjects
  | L [I 1] -> IWatchFault
  | L [I 2] -> IClose
  | L [I 3] -> ICancel
  | _ -> bad "controller input"

let cmd_lifecycle inputs ready stopped =
  let inputs = d_list d_input inputs in
  let s = krun (kinit (fun _ -> true)) inputs in
  let mready = if s.k_ready then 1 else 0 in
  let mstopped = match s.k_stopped with
    | None -> 0
    | Some CListerResult | Some CExtractList -> 1
    | Some CContext -> 3
    | Some CNone -> 4 in
  let ms = ref [] in
  if mready <> d_int ready then
    ms := Printf.sprintf "kind=ready impl=%d model=%d" (d_int ready) mready :: !ms;
  if mstopped <> d_int stopped then
    ms := Printf.sprintf "kind=stopped impl=%d model=%d" (d_int stopped) mstopped :: !ms;
  (List.length inputs, !ms)

let handle (x : t) : (int * string list) option =
  match x with
  | L [I 6; f; listed; ids] -> Some (cmd_relist f listed ids)
  | L [I 7; inputs; ready; stopped] -> Some (cmd_lifecycle inputs ready stopped)
  | _ -> None
