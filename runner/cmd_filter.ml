(* cmd_filter.ml — filter commands of the model runner (C17, C18, C19). *)
open Model
open Codec

let sb b = if b then "1" else "0"

(* (1 (filters) (objs) ((accept results per filter))) *)
let cmd_accept fs os rows =
  let evals = ref 0 and ms = ref [] in
  let fs = d_list d_filter fs and os = d_list d_obj os in
  let rows = d_list (d_list d_bool) rows in
  List.iteri (fun i (f, row) ->
      List.iteri (fun j (o, impl) ->
          incr evals;
          let m = accept f o in
          if m <> impl then
            ms := Printf.sprintf "kind=accept filter=%d obj=%d impl=%s model=%s" i j (sb impl) (sb m) :: !ms)
        (List.combine os row))
    (List.combine fs rows);
  (!evals, List.rev !ms)

(* (2 (filters-or-nil) ((FiltersEqual results, row per left filter))) *)
let cmd_equal fs rows =
  let evals = ref 0 and ms = ref [] in
  let fs = d_list d_filter_opt fs in
  let rows = d_list (d_list d_bool) rows in
  List.iteri (fun i (f, row) ->
      List.iteri (fun j (g, impl) ->
          incr evals;
          let m = filters_equal f g in
          if m <> impl then
            ms := Printf.sprintf "kind=equal left=%d right=%d impl=%s model=%s" i j (sb impl) (sb m) :: !ms)
        (List.combine fs row))
    (List.combine fs rows);
  (!evals, List.rev !ms)

let handle (x : t) : (int * string list) option =
  match x with
  | L [I 1; fs; os; rows] -> Some (cmd_accept fs os rows)
  | L [I 2; fs; rows] -> Some (cmd_equal fs rows)
  | _ -> None
