(* Extraction of the executable model for the correspondence runner.
   Directives: exactly those of ExtrOcamlBasic; N, Z, positive and nat stay
   Coq datatypes. *)
From KC Require Import Base Filter Cache Lister Watcher Controller FilterSub Pipeline Monitor CacheActor Lifecycle Typed Join PubTerm RootHop NSName.
Require Import ExtrOcamlBasic.
Extraction Language OCaml.
Extraction "model.ml"
  atoi
  accept feq filters_equal
  mk_nsname mk_labels mk_label_selector
  service_pods_filter rc_pods_filter workload_pods_filter ingress_services_filter
  mk_node_filter mk_involved_filter mk_selector_match_filter
  do_sync_raw do_update do_list do_get replay create_entry
  trace_ok watch_outcome relist_outcome krun kinit
  fs_init fs_step nested_view view
  expected_suffix monitor_log_ok lin_ok done_after_close typed_list join_view prun_view busy_burst_outcome urun tinit unitary_log burst ns_parse ns_string.
