(* TickerFloat.v — ticker.go:nextPeriod in IEEE-754 binary64 arithmetic (C13).

     delta := fuzz * float64(period)
     min   := float64(period) - delta
     max   := float64(period) + delta
     r     := rand.Float64()                      // in [0,1)
     return time.Duration(min + r*(max-min+1))    // truncation toward zero

   ListerProps.next_period_bounds proves the bounds over the rationals.  Here
   every operation is rounded (round to nearest, ties to even, format binary64
   with gradual underflow), and the result is truncated to an integer: for
   periods up to 2^44 ns (4.8 hours) and fuzz 0.1 the next period is an integer
   number of nanoseconds in [0.9 P - 1, 1.1 P + 2] — the model's 0.9 P with the
   2 ns slack of the trace predicate.

   Two parts: (A) real arithmetic with an ABSOLUTE error u on every operation
   (linear, lra); it covers fused multiply-add as well, which the Go
   specification allows a compiler to use: a fused operation commits one
   rounding where the separate ones commit two.  (B) Flocq: every binary64
   rounding of a value of magnitude at most 2^45 commits an absolute error of
   at most u = 2^-7.

   This file depends on Flocq and therefore on the axioms of the standard
   library's real numbers; its theorem is reported separately (coq/float/C13f.v). *)
From Coq Require Import Reals ZArith Lra Lia.
From Flocq Require Import Core Relative.
Open Scope R_scope.

Definition u : R := / 128.

(* ------------------------------------------------------------------ *)
(* (A) with absolute error u per operation                              *)

Section Abstract.
  Variables P fz r : R.                      (* period, fuzz, random number *)
  Variables delta mn mx d d1 m s : R.        (* the computed intermediate values *)
  Hypothesis HP : 1 <= P <= 17592186044416.  (* 2^44 *)
  Hypothesis Hfz : Rabs (fz - / 10) <= / 1000000000000000.   (* the float nearest 0.1 *)
  Hypothesis Hr : 0 <= r < 1.
  Hypothesis Hdelta : Rabs (delta - fz * P) <= u.
  Hypothesis Hmn : Rabs (mn - (P - delta)) <= u.
  Hypothesis Hmx : Rabs (mx - (P + delta)) <= u.
  Hypothesis Hd : Rabs (d - (mx - mn)) <= u.
  Hypothesis Hd1 : Rabs (d1 - (d + 1)) <= u.
  Hypothesis Hm : Rabs (m - r * d1) <= u.
  Hypothesis Hs : Rabs (s - (mn + m)) <= u.

  Lemma abs_le x a : Rabs x <= a -> - a <= x <= a.
  Proof. intros H. apply Rabs_le_inv. exact H. Qed.

  Lemma next_period_real : 9 / 10 * P - 1 / 2 <= s <= 11 / 10 * P + 3 / 2.
  Proof.
    unfold u in *.
    destruct HP as [HP1 HP2]. destruct Hr as [Hr0 Hr1].
    (* fz * P is within 2^44 / 10^15 < 1/50 of P / 10 *)
    assert (Hfp : P / 10 - / 50 <= fz * P <= P / 10 + / 50).
    { assert (H1 : Rabs ((fz - / 10) * P) <= / 1000000000000000 * 17592186044416).
      { rewrite Rabs_mult. apply Rmult_le_compat; try apply Rabs_pos; [exact Hfz|]. rewrite Rabs_pos_eq; lra. }
      apply abs_le in H1. lra. }
    apply abs_le in Hdelta, Hmn, Hmx, Hd, Hd1, Hm, Hs.
    assert (Hd1pos : 0 <= d1) by lra.
    assert (Hrd : 0 <= r * d1 <= d1).
    { split; [apply Rmult_le_pos; lra|]. rewrite <- (Rmult_1_l d1) at 2. apply Rmult_le_compat_r; lra. }
    lra.
  Qed.
End Abstract.

(* ------------------------------------------------------------------ *)
(* (B) binary64                                                         *)

Definition f64 (x : R) : R := round radix2 (FLT_exp (-1074) 53) ZnearestE x.

Lemma f64_abs_error x : Rabs x <= 35184372088832 (* 2^45 *) -> Rabs (f64 x - x) <= u.
Proof.
  intros Hx. unfold f64.
  destruct (error_N_FLT radix2 (-1074) 53 eq_refl (fun z => negb (Z.even z)) x) as [eps [eta [He [Ht [_ Heq]]]]].
  change (Znearest (fun z => negb (Z.even z))) with ZnearestE in Heq. rewrite Heq.
  replace (x * (1 + eps) + eta - x) with (x * eps + eta) by ring.
  assert (He' : Rabs eps <= / 9007199254740992).   (* 2^-53 *)
  { eapply Rle_trans; [exact He|]. simpl. unfold Z.pow_pos; simpl. lra. }
  assert (Ht' : Rabs eta <= / 1000).
  { eapply Rle_trans; [exact Ht|].
    assert (Hb : bpow radix2 (-1074) <= bpow radix2 (-10)) by (apply bpow_le; lia).
    assert (H10 : bpow radix2 (-10) = / 1024) by (simpl; unfold Z.pow_pos; simpl; reflexivity).
    rewrite H10 in Hb. generalize dependent (bpow radix2 (-1074)). intros t _ Hb. lra. }
  eapply Rle_trans; [apply Rabs_triang|]. rewrite Rabs_mult.
  assert (Hm : Rabs x * Rabs eps <= 35184372088832 * / 9007199254740992).
  { apply Rmult_le_compat; try apply Rabs_pos; assumption. }
  unfold u. lra.
Qed.

(* the Go function, operation by operation *)
Definition fuzz64 : R := f64 (/ 10).

Definition next_period_f64 (P r : R) : R :=
  let delta := f64 (fuzz64 * P) in
  let mn := f64 (P - delta) in
  let mx := f64 (P + delta) in
  let d := f64 (mx - mn) in
  let d1 := f64 (d + 1) in
  let m := f64 (r * d1) in
  f64 (mn + m).

Lemma fuzz64_close : Rabs (fuzz64 - / 10) <= / 1000000000000000.
Proof.
  unfold fuzz64, f64.
  destruct (error_N_FLT radix2 (-1074) 53 eq_refl (fun z => negb (Z.even z)) (/ 10)) as [eps [eta [He [Ht [_ Heq]]]]].
  change (Znearest (fun z => negb (Z.even z))) with ZnearestE in Heq. rewrite Heq.
  replace (/ 10 * (1 + eps) + eta - / 10) with (/ 10 * eps + eta) by ring.
  assert (He' : Rabs eps <= / 9007199254740992).
  { eapply Rle_trans; [exact He|]. simpl. unfold Z.pow_pos; simpl. lra. }
  assert (Ht' : Rabs eta <= / 10000000000000000).
  { eapply Rle_trans; [exact Ht|].
    assert (Hb : bpow radix2 (-1074) <= bpow radix2 (-60)) by (apply bpow_le; lia).
    assert (H60 : bpow radix2 (-60) = / 1152921504606846976) by (simpl; unfold Z.pow_pos; simpl; reflexivity).
    rewrite H60 in Hb. generalize dependent (bpow radix2 (-1074)). intros t _ Hb. lra. }
  eapply Rle_trans; [apply Rabs_triang|]. rewrite Rabs_mult, (Rabs_pos_eq (/ 10)) by lra.
  assert (Hm : / 10 * Rabs eps <= / 10 * / 9007199254740992) by (apply Rmult_le_compat_l; lra).
  lra.
Qed.

Lemma abs_le' x a : Rabs x <= a -> - a <= x <= a.
Proof. intros H. apply Rabs_le_inv. exact H. Qed.

Lemma abs_bound x lo hi b : lo <= x <= hi -> - b <= lo -> hi <= b -> Rabs x <= b.
Proof. intros [H1 H2] Hl Hh. apply Rabs_le. lra. Qed.

Ltac err x lo hi H :=
  assert (H : Rabs (f64 x - x) <= u) by (apply f64_abs_error; apply (abs_bound x lo hi 35184372088832); lra).

(* C13: the next refresh period, computed in binary64 and truncated to whole
   nanoseconds, lies within one and a half nanoseconds of [0.9 P, 1.1 P + 1] *)
Theorem next_period_binary64 P r :
  1 <= P <= 17592186044416 -> 0 <= r < 1 ->
  9 / 10 * P - 1 / 2 <= next_period_f64 P r <= 11 / 10 * P + 3 / 2.
Proof.
  intros HP Hr. unfold next_period_f64.
  pose proof fuzz64_close as Hfz. set (fz := fuzz64) in *.
  assert (Hfzr : / 10 - / 1000000000000000 <= fz <= / 10 + / 1000000000000000) by (apply abs_le' in Hfz; lra).
  destruct HP as [HP1 HP2]. destruct Hr as [Hr0 Hr1].
  (* delta *)
  assert (Hx1 : 0 <= fz * P <= 2000000000000).
  { split; [apply Rmult_le_pos; lra|]. apply Rle_trans with ((/ 10 + / 1000000000000000) * 17592186044416); [apply Rmult_le_compat; lra | lra]. }
  err (fz * P) 0 2000000000000 Hdelta.
  set (delta := f64 (fz * P)) in *.
  assert (Hdb : - / 128 <= delta <= 2000000000001) by (apply abs_le' in Hdelta; unfold u in Hdelta; lra).
  (* min, max *)
  err (P - delta) (- 2000000000001) 17592186044417 Hmn.
  set (mn := f64 (P - delta)) in *.
  err (P + delta) 0 19592186044417 Hmx.
  set (mx := f64 (P + delta)) in *.
  assert (Hmnb : - 2000000000002 <= mn <= 17592186044418) by (apply abs_le' in Hmn; unfold u in Hmn; lra).
  assert (Hmxb : - 1 <= mx <= 19592186044418) by (apply abs_le' in Hmx; unfold u in Hmx; lra).
  (* d = max - min *)
  err (mx - mn) (- 17592186044419) 21592186044420 Hd.
  set (d := f64 (mx - mn)) in *.
  (* sharper: d is about 2 delta *)
  assert (Hdd : - 1 <= d <= 4000000000004).
  { apply abs_le' in Hd, Hmn, Hmx. unfold u in *. lra. }
  err (d + 1) 0 4000000000005 Hd1.
  set (d1 := f64 (d + 1)) in *.
  assert (Hd1b : - 1 <= d1 <= 4000000000006) by (apply abs_le' in Hd1; unfold u in Hd1; lra).
  (* m = r * d1 *)
  assert (Hrd : - 1 <= r * d1 <= 4000000000006).
  { destruct (Rle_dec 0 d1) as [Hp|Hn].
    - split; [assert (0 <= r * d1) by (apply Rmult_le_pos; lra); lra|].
      apply Rle_trans with (1 * d1); [apply Rmult_le_compat_r; lra | lra].
    - assert (Hneg : d1 < 0) by lra. split.
      + assert (H : r * (- d1) <= 1 * 1) by (apply Rmult_le_compat; lra). lra.
      + assert (H : 0 <= r * (- d1)) by (apply Rmult_le_pos; lra). lra. }
  err (r * d1) (- 1) 4000000000006 Hm.
  set (m := f64 (r * d1)) in *.
  assert (Hmb : - 2 <= m <= 4000000000007) by (apply abs_le' in Hm; unfold u in Hm; lra).
  (* s = min + m *)
  err (mn + m) (- 2000000000004) 21592186044425 Hs.
  (* now the abstract argument *)
  apply (next_period_real P fz r delta mn mx d d1 m (f64 (mn + m))); try assumption; lra.
Qed.

(* time.Duration(x): conversion to int64 truncates toward zero *)
Corollary next_period_ns P r :
  1 <= P <= 17592186044416 -> 0 <= r < 1 ->
  9 / 10 * P - 3 / 2 < IZR (Ztrunc (next_period_f64 P r)) <= 11 / 10 * P + 3 / 2.
Proof.
  intros HP Hr. destruct (next_period_binary64 P r HP Hr) as [H1 H2].
  set (s := next_period_f64 P r) in *.
  assert (Hpos : 0 <= s) by lra.
  rewrite Ztrunc_floor by exact Hpos.
  pose proof (Zfloor_lb s) as Hlb. pose proof (Zfloor_ub s) as Hub. lra.
Qed.
