(* C13f — the floating-point side of C13 (ticker.go:nextPeriod in IEEE-754
   binary64).  Property theorems only.  Unlike everything else in this
   development these two theorems depend on axioms: Flocq formalises
   floating-point numbers over the standard library's real numbers, whose
   axioms (and the classical logic Flocq uses) Print Assumptions lists below.
   ./check accepts exactly these four standard-library axioms for this file and
   names them in the evidence of C13. *)
From KCF Require Import TickerFloat.
From Coq Require Import Reals ZArith.
From Flocq Require Import Core.
Open Scope R_scope.

(* every operation rounded to nearest-even in binary64: the next period is
   within 1.5 ns of [0.9 P, 1.1 P + 1] for periods up to 2^44 ns (4.8 h) *)
Theorem C13_next_period_binary64 : forall P r,
  1 <= P <= 17592186044416 -> 0 <= r < 1 ->
  9 / 10 * P - 1 / 2 <= next_period_f64 P r <= 11 / 10 * P + 3 / 2.
Proof. exact next_period_binary64. Qed.
Print Assumptions C13_next_period_binary64.

(* time.Duration(x) truncates toward zero: in whole nanoseconds *)
Theorem C13_next_period_ns : forall P r,
  1 <= P <= 17592186044416 -> 0 <= r < 1 ->
  9 / 10 * P - 3 / 2 < IZR (Ztrunc (next_period_f64 P r)) <= 11 / 10 * P + 3 / 2.
Proof. exact next_period_ns. Qed.
Print Assumptions C13_next_period_ns.
