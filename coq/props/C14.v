(* C14 — list failures are fail-stop and reported; watch failures are never
   fatal.  Property theorems only. *)
From KC Require Import Base Cache CacheSpec Controller ControllerProps.

Theorem C14_list_failure_stops_with_cause : forall s r c,
  k_stopped s = None -> classify_list r = Fail c ->
  k_stopped (fst (kstep s (IList r))) = Some c /\
  k_ready (fst (kstep s (IList r))) = k_ready s /\
  snd (kstep s (IList r)) = [].
Proof. exact list_failure_stops_with_cause. Qed.
Print Assumptions C14_list_failure_stops_with_cause.

(* everything that is not a list of API objects is a failure with a cause *)
Theorem C14_every_bad_list_is_a_failure : forall r,
  (forall v items, r <> LROk v items) -> exists c, classify_list r = Fail c /\ c <> CNone.
Proof. exact every_bad_list_is_a_failure. Qed.
Print Assumptions C14_every_bad_list_is_a_failure.

(* once stopped the controller processes nothing more: the cause stays *)
Theorem C14_stop_is_final : forall s is c,
  k_stopped s = Some c -> k_stopped (krun s is) = Some c /\ k_cache (krun s is) = k_cache s.
Proof. exact stop_is_final. Qed.
Print Assumptions C14_stop_is_final.

Theorem C14_failed_first_list_never_ready : forall F pre r c post,
  Forall not_list pre -> classify_list r = Fail c ->
  k_ready (krun (kinit F) (pre ++ IList r :: post)) = false.
Proof. exact failed_first_list_never_ready. Qed.
Print Assumptions C14_failed_first_list_never_ready.

Theorem C14_watch_failures_never_fatal : forall s,
  kstep s IWatchFault = (s, []) /\
  forall ev, k_stopped (fst (kstep s (IWatch ev))) = k_stopped s.
Proof. exact watch_failures_never_fatal. Qed.
Print Assumptions C14_watch_failures_never_fatal.

Theorem C14_deliberate_close_reports_nil : forall F pre post,
  Forall benign pre -> k_stopped (krun (kinit F) (pre ++ IClose :: post)) = Some CNone.
Proof. exact deliberate_close_reports_nil. Qed.
Print Assumptions C14_deliberate_close_reports_nil.
