(* C10 — slow consumers are isolated: they lose only their own events.
   Property theorems only. *)
From KC Require Import Pipeline PipelineProps.

(* publishing treats every subscription independently of the others *)
Theorem C10_drop_is_local : forall (E : Type) (e : E) (p : pub E) (i : nat) (d : sub E),
  nth i (p_subs (publish e p)) d = match nth_error (p_subs p) i with
                                   | Some s => push e s
                                   | None => d
                                   end.
Proof. exact drop_is_local. Qed.
Print Assumptions C10_drop_is_local.

(* handing an event to a full subscription never blocks: the newest event is
   dropped, what is buffered and what was received stay *)
Theorem C10_push_full_drops_newest : forall (E : Type) (e : E) (s : sub E),
  length (s_queue s) >= s_cap s -> s_queue (push e s) = s_queue s /\ s_passed (push e s) = s_passed s.
Proof. exact push_full_drops_newest. Qed.
Print Assumptions C10_push_full_drops_newest.

Theorem C10_push_below_capacity_keeps : forall (E : Type) (e : E) (s : sub E),
  s_closed s = None -> length (s_queue s) < s_cap s -> s_queue (push e s) = s_queue s ++ [e] /\ s_drops (push e s) = s_drops s.
Proof. exact push_below_capacity_keeps. Qed.
Print Assumptions C10_push_below_capacity_keeps.

(* whatever was dropped, a consumer receives an in-order subsequence *)
Theorem C10_stalled_receives_subsequence : forall (E : Type) (l : list (pact E)) (s : sub E),
  In s (p_subs (prun l)) -> subseq (s_passed s ++ s_queue s) (expected_suffix (s_from s) (visible E (p_seen (prun l)) s)).
Proof. exact stalled_receives_subsequence. Qed.
Print Assumptions C10_stalled_receives_subsequence.

(* a consumer that never reads holds exactly the first EventBufsiz events
   published after its creation *)
Theorem C10_never_reading_gets_first_cap : forall (E : Type) (l : list (pact E)),
  Forall (never_read_inv E (p_seen (prun l))) (p_subs (prun l)).
Proof. exact never_reading_gets_first_cap. Qed.
Print Assumptions C10_never_reading_gets_first_cap.

(* healthy siblings keep the exact-suffix guarantee of C05 *)
Theorem C10_healthy_sibling_sees_everything : forall (E : Type) (l : list (pact E)) (s : sub E),
  In s (p_subs (prun l)) -> s_drops s = 0 -> s_closed s = None ->
  s_passed s ++ s_queue s = expected_suffix (s_from s) (p_seen (prun l)).
Proof. exact open_subscriber_sees_exact_suffix. Qed.
Print Assumptions C10_healthy_sibling_sees_everything.

(* on the goroutine-level protocol (PubLts.v): every step that concerns one
   subscription leaves every other subscription untouched; whatever was dropped
   or failed, what a consumer holds is an in-order subsequence; and the
   publisher never waits for a consumer — from every reachable state in which an
   event is being distributed, steps of the publisher and of the subscriptions'
   own goroutines alone (no consumer receives anything) complete the
   distribution *)
From KC Require Import PubLts PubLtsProps.
Theorem C10_lts_step_is_local : forall (E : Type) (p : cpub E) a p' i j, cstep p a = Some p' -> concerns E a = Some i -> i <> j ->
  nth_error (k_subs p') j = nth_error (k_subs p) j.
Proof. exact step_is_local. Qed.
Print Assumptions C10_lts_step_is_local.

Theorem C10_lts_receives_subsequence : forall (E : Type) l (p : cpub E) i c, crun cinit l = Some p ->
  nth_error (k_subs p) i = Some c ->
  subseq (held E c) (skipn (c_from c) (seen_for E p i)).
Proof. exact lts_receives_subsequence. Qed.
Print Assumptions C10_lts_receives_subsequence.

Theorem C10_publisher_never_waits_for_consumers : forall (E : Type) l (p : cpub E) e rem, crun cinit l = Some p ->
  k_cur p = Some (e, rem) ->
  exists l' p', Forall (library_step E) l' /\ crun p l' = Some p' /\ k_cur p' = None.
Proof. exact publisher_never_waits_for_consumers. Qed.
Print Assumptions C10_publisher_never_waits_for_consumers.
