(* C15 — cache reads are atomic snapshots, linearizable with updates.
   Property theorems only. *)
From KC Require Import Base Cache CacheActor CacheActorProps.

(* every concurrent execution of callers and the cache goroutine yields
   exactly the replies of the sequential specification run in the order the
   goroutine served the requests: each List/Get returns the complete content
   at its service point, never a half-applied relist or refilter *)
Theorem C15_actor_sequential_in_service_order : forall s0 l s,
  arun (ainit s0) l = Some s -> seq_run s0 (served_reqs s) = (a_state s, served_resps s).
Proof. exact actor_sequential_in_service_order. Qed.
Print Assumptions C15_actor_sequential_in_service_order.

(* and that order respects real time: every operation is served strictly
   between its call and its return, so the service order is a linearization
   and successive reads by one caller never go backwards *)
Theorem C15_served_between_call_and_return : forall s0 l s,
  arun (ainit s0) l = Some s ->
  Forall (fun x => match x with (_, tc, ts, tr) => tc < ts /\ ts < tr end) (a_log s).
Proof. exact served_between_call_and_return. Qed.
Print Assumptions C15_served_between_call_and_return.

Theorem C15_reads_do_not_modify : forall s, fst (serve s RList) = s /\ forall k, fst (serve s (RGet k)) = s.
Proof. exact reads_do_not_modify. Qed.
Print Assumptions C15_reads_do_not_modify.

Theorem C15_list_returns_whole_content : forall s, snd (serve s RList) = PList (do_list (c_items s)).
Proof. exact list_returns_whole_content. Qed.
Print Assumptions C15_list_returns_whole_content.
