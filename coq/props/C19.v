(* C19 — workload selection filters follow Kubernetes ownership semantics.
   Property theorems only. *)
From KC Require Import Base Filter FilterProps FilterSem.

(* replica set, deployment, daemon set, stateful set, job *)
Theorem C19_workload_pods_filter_spec : forall srcs p,
  Forall (fun w => is_workload w /\ o_ns w <> 0%N) srcs ->
  (accept (workload_pods_filter srcs) p = true <-> exists w, In w srcs /\ owns w p).
Proof. exact workload_pods_filter_spec. Qed.
Print Assumptions C19_workload_pods_filter_spec.

Theorem C19_service_pods_filter_spec : forall srcs p,
  Forall (fun w => is_service w /\ o_ns w <> 0%N) srcs ->
  (accept (service_pods_filter srcs) p = true <-> exists w, In w srcs /\ owns w p).
Proof. exact service_pods_filter_spec. Qed.
Print Assumptions C19_service_pods_filter_spec.

Theorem C19_service_without_selector_selects_nothing : forall w p,
  o_spec w = SService [] -> accept (service_pods_filter [w]) p = false.
Proof. exact service_without_selector_selects_nothing. Qed.
Print Assumptions C19_service_without_selector_selects_nothing.

(* replication controllers: the full statement is FALSE of the code as
   written (known finding D5) ... *)
Theorem C19_rc_pods_filter_refuted :
  exists srcs p, Forall (fun w => is_rc w /\ o_ns w <> 0%N) srcs /\
                 accept (rc_pods_filter srcs) p = true /\
                 ~ exists w, In w srcs /\ owns w p.
Proof. exact rc_pods_filter_refuted. Qed.
Print Assumptions C19_rc_pods_filter_refuted.

(* ... what does hold is selection without namespace scoping *)
Theorem C19_rc_pods_filter_partial : forall srcs p,
  Forall is_rc srcs ->
  (accept (rc_pods_filter srcs) p = true <-> exists w, In w srcs /\ workload_selects w p).
Proof. exact rc_pods_filter_partial. Qed.
Print Assumptions C19_rc_pods_filter_partial.

Theorem C19_ingress_services_filter_spec : forall ings s,
  Forall (fun ing => o_ns ing <> 0%N) ings ->
  (accept (ingress_services_filter ings) s = true <->
   exists ing, In ing ings /\ o_ns ing = o_ns s /\ In (o_nm s) (ingress_backends ing)).
Proof. exact ingress_services_filter_spec. Qed.
Print Assumptions C19_ingress_services_filter_spec.

Theorem C19_node_filter_spec : forall names o,
  accept (mk_node_filter names) o = true <->
  o_kind o = KPod /\ exists n, o_spec o = SPod n /\ In n names.
Proof. exact node_filter_spec. Qed.
Print Assumptions C19_node_filter_spec.

Theorem C19_involved_filter_spec : forall k ns nm o,
  accept (mk_involved_filter k ns nm) o = true <-> o_kind o = KEvent /\ o_spec o = SEvent k ns nm.
Proof. exact involved_filter_spec. Qed.
Print Assumptions C19_involved_filter_spec.

Theorem C19_selector_match_filter_spec : forall target o,
  accept (mk_selector_match_filter target) o = true <-> svcfor_sem target o.
Proof. exact selector_match_filter_spec. Qed.
Print Assumptions C19_selector_match_filter_spec.
