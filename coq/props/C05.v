(* C05 — every subscriber sees the published event sequence: in order,
   exactly once.  Property theorems only. *)
From KC Require Import Pipeline PipelineProps.

(* one publisher, any number of subscriptions created at any points of the
   stream, every sequence of publications, subscriptions and reads *)
Theorem C05_edge_invariant : forall (E : Type) (l : list (pact E)), pub_inv E (prun l).
Proof. exact edge_invariant. Qed.
Print Assumptions C05_edge_invariant.

(* while nothing was dropped (backlog below the buffer) a subscriber has
   received / still holds exactly the events published after its creation,
   in publication order: no duplicate, omission or reordering *)
Theorem C05_subscriber_sees_exact_suffix : forall (E : Type) (l : list (pact E)) (s : sub E),
  In s (p_subs (prun l)) -> s_drops s = 0 ->
  s_passed s ++ s_queue s = expected_suffix (s_from s) (p_seen (prun l)).
Proof. exact subscriber_sees_exact_suffix. Qed.
Print Assumptions C05_subscriber_sees_exact_suffix.

(* through clones of any depth: received ++ in flight = a suffix of what the
   root published; hence any two subscribers see subsequences of one sequence *)
Theorem C05_leaf_receives_suffix : forall (E : Type) (levels : list (level E)) (seen : list E),
  chain_ok seen levels ->
  leaf_passed seen levels ++ inflight levels = skipn (total_skip levels) seen.
Proof. exact leaf_receives_suffix. Qed.
Print Assumptions C05_leaf_receives_suffix.

(* the cache is updated before the event is handed over (controller model):
   after an event for an object its cache entry is at least as new *)
From KC Require Import Base Cache CacheSpec CacheProps.
Theorem C05_cache_not_older_after_event : forall F c ev e,
  In e (snd (do_update F c ev)) -> ev_ty e <> Delete ->
  exists cu, clookup (key_of (ev_obj e)) (fst (do_update F c ev)) = Some cu /\ e_obj cu = ev_obj e.
Proof. exact cache_not_older_after_event. Qed.
Print Assumptions C05_cache_not_older_after_event.
