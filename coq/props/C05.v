(* C05 — every subscriber sees the published event sequence: in order,
   exactly once.  Property theorems only. *)
From KC Require Import Pipeline PipelineProps.

(* one publisher, any number of subscriptions created (and closed) at any
   points of the stream, every sequence of publications, subscriptions, reads
   and closes *)
Theorem C05_edge_invariant : forall (E : Type) (l : list (pact E)), pub_inv E (prun l).
Proof. exact edge_invariant. Qed.
Print Assumptions C05_edge_invariant.

(* while nothing was dropped (backlog below the buffer) a subscriber has
   received / still holds exactly the events published after its creation,
   in publication order: no duplicate, omission or reordering *)
Theorem C05_subscriber_sees_exact_suffix : forall (E : Type) (l : list (pact E)) (s : sub E),
  In s (p_subs (prun l)) -> s_drops s = 0 -> s_closed s = None ->
  s_passed s ++ s_queue s = expected_suffix (s_from s) (p_seen (prun l)).
Proof. exact open_subscriber_sees_exact_suffix. Qed.
Print Assumptions C05_subscriber_sees_exact_suffix.

(* a subscription that was closed: exactly the events published between its
   creation and its close *)
Theorem C05_closed_subscriber_saw_exact_stretch : forall (E : Type) (l : list (pact E)) (s : sub E),
  In s (p_subs (prun l)) -> s_drops s = 0 ->
  s_passed s ++ s_queue s = expected_suffix (s_from s) (visible E (p_seen (prun l)) s).
Proof. exact subscriber_sees_exact_suffix. Qed.
Print Assumptions C05_closed_subscriber_saw_exact_stretch.

(* closing one subscription changes nothing for its siblings; the fan-out of
   later events goes past it (sending to it is a no-op) and still reaches every
   open subscription *)
Theorem C05_close_is_local : forall (E : Type) (p : pub E) (i j : nat) (d : sub E), i <> j ->
  nth j (p_subs (pclose i p)) d = nth j (p_subs p) d.
Proof. exact close_is_local. Qed.
Print Assumptions C05_close_is_local.

Theorem C05_publish_to_closed_is_noop : forall (E : Type) (e : E) (s : sub E) (k : nat),
  s_closed s = Some k -> push e s = s.
Proof. exact publish_to_closed_is_noop. Qed.
Print Assumptions C05_publish_to_closed_is_noop.

(* the same guarantee one level down, on the goroutine-level protocol
   (PubLts.v: one step per channel operation of publisher.run /
   distributeEvent / subscription.send / subscription.run, the publisher
   visiting its table in any order, consumers and closes interleaved
   arbitrarily): a subscription that is in the table, never found its buffer
   full and never had a send fail holds exactly the events picked up since it
   subscribed — received ++ buffered ++ in hand — in order *)
From KC Require Import PubLts PubLtsProps.
Theorem C05_lts_subscriber_sees_exact_suffix : forall (E : Type) l (p : cpub E) i c, crun cinit l = Some p ->
  nth_error (k_subs p) i = Some c ->
  c_drops c = 0 -> c_failed c = 0 -> c_listed c = true ->
  held E c = skipn (c_from c) (seen_for E p i).
Proof. exact lts_subscriber_sees_exact_suffix. Qed.
Print Assumptions C05_lts_subscriber_sees_exact_suffix.

Theorem C05_lts_quiescent_exact : forall (E : Type) l (p : cpub E) i c, crun cinit l = Some p ->
  nth_error (k_subs p) i = Some c -> k_cur p = None -> c_hand c = None ->
  c_drops c = 0 -> c_failed c = 0 -> c_listed c = true ->
  c_passed c ++ c_queue c = expected_suffix (c_from c) (k_seen p).
Proof. exact lts_quiescent_exact. Qed.
Print Assumptions C05_lts_quiescent_exact.

(* through clones of any depth: received ++ in flight = a suffix of what the
   root published; hence any two subscribers see subsequences of one sequence *)
Theorem C05_leaf_receives_suffix : forall (E : Type) (levels : list (level E)) (seen : list E),
  chain_ok seen levels ->
  leaf_passed seen levels ++ inflight levels = skipn (total_skip levels) seen.
Proof. exact leaf_receives_suffix. Qed.
Print Assumptions C05_leaf_receives_suffix.

(* the cache is updated before the event is handed over (controller model):
   after an event for an object its cache entry is at least as new *)
From KC Require Import Base Cache CacheSpec CacheProps.
Theorem C05_cache_not_older_after_event : forall F c ev e,
  In e (snd (do_update F c ev)) -> ev_ty e <> Delete ->
  exists cu, clookup (key_of (ev_obj e)) (fst (do_update F c ev)) = Some cu /\ e_obj cu = ev_obj e.
Proof. exact cache_not_older_after_event. Qed.
Print Assumptions C05_cache_not_older_after_event.

(* Known finding D13: the statement is FALSE once the channel in front of the
   publisher is taken as what it is — a buffer of EventBufsiz slots filled
   without waiting (RootHop.v; the theorems above take it as unbounded and
   speak about what the publisher picks up).  Of a batch larger than the
   channel that arrives before the publisher runs, a subscriber that reads at
   once receives exactly the first EventBufsiz events; its own backlog never
   exceeds one. *)
From KC Require Import RootHop.

Theorem C05_big_batch_is_truncated_at_the_root_refuted : forall (E : Type) (cap cap2 : nat) (es : list E),
  0 < cap2 ->
  exists maxb, relay E cap2 (burst E cap [] es) [] [] 0 = ([], firstn cap es, maxb) /\ maxb <= 1.
Proof. exact big_batch_is_truncated_at_the_root. Qed.
Print Assumptions C05_big_batch_is_truncated_at_the_root_refuted.

Theorem C05_prompt_subscriber_misses_events_refuted : forall (E : Type) (cap cap2 : nat) (es : list E),
  0 < cap2 -> cap < length es ->
  snd (fst (relay E cap2 (burst E cap [] es) [] [] 0)) <> es.
Proof. exact prompt_subscriber_misses_events. Qed.
Print Assumptions C05_prompt_subscriber_misses_events_refuted.
