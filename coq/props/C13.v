(* C13 — periodic relisting never stops while the controller runs.
   Property theorems only. *)
From KC Require Import Lts Lister ListerProps.
From Coq Require Import QArith.

(* lists are issued one at a time *)
Theorem C13_one_list_at_a_time : forall s, reach s -> step s ATick <> None -> wk s <> WRun.
Proof. exact one_list_at_a_time. Qed.
Print Assumptions C13_one_list_at_a_time.

(* no reachable state is stuck, whatever the order of list completion, timer
   expiry, consumption and ticks (all latency/period/delay ratios) *)
Theorem C13_lister_no_deadlock : forall s, reach s -> live_b s = true.
Proof. exact lister_no_deadlock. Qed.
Print Assumptions C13_lister_no_deadlock.

Theorem C13_lister_never_stuck : forall s, reach s -> lp s <> LDone ->
  exists a, a <> AStopReq /\ step s a <> None.
Proof. exact lister_never_stuck. Qed.
Print Assumptions C13_lister_never_stuck.

(* from every reachable state in which no stop was requested the next list
   start remains reachable *)
Theorem C13_relist_always_possible : forall s, reach s -> not_stopping s = true ->
  exists l s', run st act step s l = Some s' /\ step s' ATick <> None.
Proof. exact relist_always_possible. Qed.
Print Assumptions C13_relist_always_possible.

(* every observable trace: one list at a time, each start other than the
   first at least lo (= 0.9 period) after the previous result was consumed *)
Theorem C13_model_traces_ok : forall lo sc c tr,
  (0 <= lo)%Z -> crun lo (cinit lo) sc = Some (c, tr) -> trace_ok lo (EStart 0 :: tr) = true.
Proof. exact model_traces_ok. Qed.
Print Assumptions C13_model_traces_ok.

Theorem C13_start_after_consumption : forall lo c k t d c',
  rel lo c k -> cstep lo c ATick t d = Some c' -> (consumed_at c + lo <= t)%Z.
Proof. exact start_after_consumption. Qed.
Print Assumptions C13_start_after_consumption.

(* nextPeriod stays within [period - fuzz*period, period + fuzz*period + 1) *)
Theorem C13_next_period_bounds : forall (p fz r : Q),
  0 <= p -> 0 <= fz -> 0 <= r -> r < 1 ->
  let delta := fz * p in let mn := p - delta in let mx := p + delta in
  let v := mn + r * (mx - mn + 1) in
  mn <= v /\ v < mx + 1.
Proof. exact next_period_bounds. Qed.
Print Assumptions C13_next_period_bounds.

(* and it still shuts down promptly, leaving nothing behind *)
Theorem C13_lister_stops_promptly : forall s, reach s ->
  exists l s', Forall (fun a => In a stop_acts) l /\ run st act step s l = Some s' /\ lp s' = LDone.
Proof. exact lister_stops_promptly. Qed.
Print Assumptions C13_lister_stops_promptly.

Theorem C13_done_leaves_nothing : forall s, reach s -> lp s = LDone ->
  trun s = false /\ wk s <> WRun /\ tm s <> TArmed.
Proof. exact done_leaves_nothing. Qed.
Print Assumptions C13_done_leaves_nothing.

(* regression witness of defect D3: the code before the fix deadlocks *)
Theorem C13_ticker_deadlock_before_fix :
  exists s, run st act step_old init d3_witness = Some s /\
            lp s = LResetting /\
            (forall a, a <> AStopReq -> step_old s a = None) /\
            (forall s', step_old s AStopReq = Some s' -> forall a, step_old s' a = None).
Proof. exact ticker_deadlock_before_fix. Qed.
Print Assumptions C13_ticker_deadlock_before_fix.
