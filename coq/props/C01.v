(* C01 — cache content is exactly the accepted, newest-version view of its
   inputs.  Property theorems only. *)
From KC Require Import Base Cache CacheSpec CacheProps.

(* one sync, any list (duplicate keys, malformed versions, empty), any
   filter, any cache: every key looks up as the reference semantics says *)
Theorem C01_sync_refines_spec : forall F c l k,
  clookup k (fst (do_sync F c l)) = sync_spec F (clookup k c) (entries_for k l).
Proof. exact sync_refines_spec. Qed.
Print Assumptions C01_sync_refines_spec.

(* one watch event: its own key as the reference semantics says, every other
   key unchanged *)
Theorem C01_update_refines_spec : forall F c ev k,
  clookup k (fst (do_update F c ev)) =
  if key_eqb (key_of (ev_obj ev)) k then update_spec F (clookup k c) ev else clookup k c.
Proof. exact update_refines_spec. Qed.
Print Assumptions C01_update_refines_spec.

(* every finite history of sync / update / refilter, from every initial
   filter, for every key *)
Theorem C01_history_refines_spec : forall F0 ops k,
  (c_filter (run_ops (init_state F0) ops), clookup k (c_items (run_ops (init_state F0) ops))) =
  ref_run k F0 ops.
Proof. exact history_refines_spec. Qed.
Print Assumptions C01_history_refines_spec.

Theorem C01_cached_satisfy_filter : forall F0 ops, sat (run_ops (init_state F0) ops).
Proof. exact cached_satisfy_filter. Qed.
Print Assumptions C01_cached_satisfy_filter.

Theorem C01_no_version_regress : forall s o k c0 c1,
  clookup k (c_items s) = Some c0 ->
  clookup k (c_items (fst (do_op s o))) = Some c1 ->
  c1 = c0 \/ (e_ver c0 < e_ver c1)%Z.
Proof. exact no_version_regress. Qed.
Print Assumptions C01_no_version_regress.

Theorem C01_unlisted_absent : forall F c l k,
  entries_for k l = [] -> clookup k (fst (do_sync F c l)) = None.
Proof. exact unlisted_absent. Qed.
Print Assumptions C01_unlisted_absent.

Theorem C01_deleted_absent : forall F c ev,
  ev_ty ev = Delete -> create_entry (ev_obj ev) <> None ->
  clookup (key_of (ev_obj ev)) (fst (do_update F c ev)) = None.
Proof. exact deleted_absent. Qed.
Print Assumptions C01_deleted_absent.

(* no input crashes the cache: the one panic site of doSync
   (Accept(current.object) on a key that is not cached) is unreachable *)
Theorem C01_cache_never_panics : forall F c l, do_sync_raw F c l = Ok (do_sync F c l).
Proof. exact do_sync_raw_ok. Qed.
Print Assumptions C01_cache_never_panics.

(* the representation invariant holds in every reachable state *)
Theorem C01_wf_reachable : forall F0 ops, wf_state (run_ops (init_state F0) ops).
Proof. intros F0 ops. exact (wf_run_ops ops (init_state F0) (wf_init F0)). Qed.
Print Assumptions C01_wf_reachable.

(* non-vacuity: a concrete history with a duplicate key, a malformed version
   and a refilter *)
Definition o_ (id ns nm : N) (rv : list N) (lbl : lmap) : obj :=
  {| o_id := id; o_kind := KPod; o_ns := ns; o_nm := nm; o_rv := rv; o_labels := lbl; o_spec := SPod 0%N |}.
Definition has_label (o : obj) : bool := match lookup 1%N (o_labels o) with Some _ => true | None => false end.
Example C01_nonvacuous :
  let a1 := o_ 1 1 1 [49%N] [(1%N, 1%N)] in      (* a @ "1", labelled *)
  let a2 := o_ 2 1 1 [50%N] [] in                 (* a @ "2", unlabelled *)
  let b0 := o_ 3 1 2 [120%N] [(1%N, 1%N)] in      (* b @ "x": malformed *)
  let s := run_ops (init_state has_label)
             [OSync [a1; a2; b0]; OUpdate (mk_event Update a1); ORefilter (fun _ => true) [a2]] in
  map fst (c_items s) = [(1%N, 1%N)] /\ do_list (c_items s) = [a2].
Proof. vm_compute. split; reflexivity. Qed.
