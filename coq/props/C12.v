(* C12 — termination is clean: no hang, no leak, no zombie, no panic.
   Property theorems only. *)
From KC Require Import Lts Lifecycle LifecycleProps LcProto Lister ListerProps.
From Coq Require Import List.

(* no panic: ShutdownInitiated is called at most once whatever races between
   Close callers, context cancellation, the parent stopping and the run loop *)
Theorem C12_no_double_shutdown : forall s, preach s -> p_initiated s <= 1.
Proof. exact no_double_shutdown. Qed.
Print Assumptions C12_no_double_shutdown.

(* no leak / no hang at the component level: once stopping, the state where
   the run loop has exited, Done is closed and every helper goroutine and
   blocked Close caller is gone is reachable by their own steps alone *)
Theorem C12_no_goroutine_left : forall s, preach s -> stopping s = true ->
  exists l s', Forall (fun a => In a wind_down) l /\ run pst pact pstep s l = Some s' /\ all_gone s' = true.
Proof. exact no_goroutine_left. Qed.
Print Assumptions C12_no_goroutine_left.

Theorem C12_close_after_done_returns : forall s, preach s -> p_stopped s = true -> p_caller s = QIdle ->
  exists s', pstep s TCaller = Some s' /\ p_caller s' = QGone.
Proof. exact close_after_done_returns. Qed.
Print Assumptions C12_close_after_done_returns.

(* the tree: termination in at most 2 x nodes internal steps, ending with the
   whole stopped subtree done (C11) *)
Theorem C12_shutdown_measure_decreases : forall t i t',
  (lstep t (LPropagate i) = Some t' \/ lstep t (LFinish i) = Some t') -> lmeasure t' < lmeasure t.
Proof. exact shutdown_measure_decreases. Qed.
Print Assumptions C12_shutdown_measure_decreases.

Theorem C12_quiescent_implies_subtree_done : forall t r,
  well_formed t -> lquiescent t = true -> r < nnodes t -> state_of t r <> LRun ->
  forall i, i < nnodes t -> below t r i -> state_of t i = LDoneS.
Proof. exact quiescent_implies_subtree_done. Qed.
Print Assumptions C12_quiescent_implies_subtree_done.

(* the lister / ticker / list worker (where the hangs D3 lived): from every
   reachable state termination is reachable by stop / lister / ticker steps
   and the return of the list call, and nothing is left afterwards *)
Theorem C12_lister_stops_promptly : forall s, reach s ->
  exists l s', Forall (fun a => In a stop_acts) l /\ run st act step s l = Some s' /\ lp s' = LDone.
Proof. exact lister_stops_promptly. Qed.
Print Assumptions C12_lister_stops_promptly.

Theorem C12_done_leaves_nothing : forall s, reach s -> lp s = LDone ->
  trun s = false /\ wk s <> WRun /\ tm s <> TArmed.
Proof. exact done_leaves_nothing. Qed.
Print Assumptions C12_done_leaves_nothing.

(* the publisher / subscription / reaper lifetime protocol, one step per
   channel operation (PubTerm.v) *)
From KC Require Import PubTerm PubTermProps.

(* once the publisher has left its drain loop (a fortiori once it is done),
   every subscription goroutine and every reaper it started has returned *)
Theorem C12_publisher_done_means_all_finished : forall p,
  treach p -> receiving (t_mode p) = false -> all_finished p = true.
Proof. exact done_means_all_finished. Qed.
Print Assumptions C12_publisher_done_means_all_finished.

(* no reaper is ever blocked on the unsubscribe channel with nobody left to receive *)
Theorem C12_no_stuck_reaper : forall p, treach p -> ~ stuck_reaper p.
Proof. exact no_stuck_reaper. Qed.
Print Assumptions C12_no_stuck_reaper.

(* from EVERY reachable state the library's own steps — no user of any
   subscription reads, closes or does anything — take the publisher to done
   once its parent stops, leaving nothing behind *)
Theorem C12_shutdown_completes_without_users : forall p, treach p ->
  exists l p', Forall (fun a => library_act a = true) l /\ trun false p l = Some p' /\ t_mode p' = MDone /\
               all_finished p' = true /\ ~ stuck_reaper p'.
Proof. exact shutdown_completes_without_users. Qed.
Print Assumptions C12_shutdown_completes_without_users.

(* the states the correspondence compares (user call, then settle) are
   reachable and quiescent, and after Stop the model reports: publisher done,
   zero subscriptions owning a goroutine *)
Theorem C12_compared_states_reachable_quiescent : forall p o, treach p ->
  treach (unext p o) /\ forall a, internal_act a = true -> tstep false (unext p o) a = None.
Proof. exact unext_reachable_quiescent. Qed.
Print Assumptions C12_compared_states_reachable_quiescent.

Theorem C12_stop_leaves_nothing : forall p, treach p ->
  let q := unext p UStop in pub_done q = true /\ all_finished q = true /\ length (filter sub_live (t_subs q)) = 0.
Proof. exact stop_leaves_nothing. Qed.
Print Assumptions C12_stop_leaves_nothing.

(* the protocol is tight: deleting a table entry when a send to it fails (a
   plausible clean-up) lets the publisher finish while a reaper blocks for ever *)
Theorem C12_prune_on_failed_send_refuted :
  exists p, trun true tinit prune_trace = Some p /\ t_mode p = MDone /\ stuck_reaper p /\ all_finished p = false.
Proof. exact prune_on_failed_send_refuted. Qed.
Print Assumptions C12_prune_on_failed_send_refuted.

(* "every API call returns ErrNotRunning or a result instead of blocking": the
   request protocol of cache.sync/update/refilter/List/Get, publisher.Subscribe,
   filterSubscription.Refilter, watcher.reset/events, one step per channel
   operation, any number of callers, calls before, during and after shutdown
   (ApiCall.v) *)
From KC Require Import ApiCall ApiCallProps.

(* from every reachable state the steps of the actor and of the caller alone
   complete a pending call — whatever other callers do or do not do *)
Theorem C12_api_call_never_blocks : forall n r s i c,
  areach n r s -> nth_error (a_callers s) i = Some c -> pending c = true -> completes i s.
Proof. exact api_call_never_blocks. Qed.
Print Assumptions C12_api_call_never_blocks.

(* an accepted request is answered even when a shutdown was requested meanwhile *)
Theorem C12_accepted_request_is_served : forall n r s i,
  areach n r s -> nth_error (a_callers s) i = Some CWait -> a_actor s = AServing i.
Proof. exact accepted_request_is_served. Qed.
Print Assumptions C12_accepted_request_is_served.

(* once stopped, nothing is accepted any more and a caller gets ErrNotRunning *)
Theorem C12_stopped_actor_accepts_nothing : forall s i, a_actor s = AStopped -> astep s (XAccept i) = None.
Proof. exact stopped_actor_accepts_nothing. Qed.
Print Assumptions C12_stopped_actor_accepts_nothing.

Theorem C12_call_after_stop_returns_error : forall n r s i,
  areach n r s -> a_actor s = AStopped -> nth_error (a_callers s) i = Some CSelect ->
  exists s', astep s (XSeeStop i) = Some s' /\ nth_error (a_callers s') i = Some CErr.
Proof. exact call_after_stop_returns_error. Qed.
Print Assumptions C12_call_after_stop_returns_error.

(* a Subscribe racing with the shutdown: whatever subscription was handed out
   (at any index, at any moment) is itself shut down once the publisher has
   left its drain loop *)
Theorem C12_racing_subscribe_is_shut_down : forall p i c,
  treach p -> receiving (t_mode p) = false -> nth_error (t_subs p) i = Some c -> t_phase c = SClosed.
Proof. exact racing_subscribe_is_shut_down. Qed.
Print Assumptions C12_racing_subscribe_is_shut_down.

(* "Once the root is done every goroutine started by the library exits": the
   tail of controller.run / lister.run waits for every part it started; a part
   inside a client call finishes when the call has returned (WaitTail.v) *)
From KC Require Import WaitTail.

Theorem C12_parent_done_means_parts_done : forall n s,
  wreach n s -> w_parent s = QDone -> forall i p, nth_error (w_parts s) i = Some p -> p = PDone.
Proof. exact parent_done_means_parts_done. Qed.
Print Assumptions C12_parent_done_means_parts_done.

(* what the harness observes at the instant Done() closes: no List / Watch call
   made by a library goroutine is still out *)
Theorem C12_no_client_call_out_at_done : forall n s,
  wreach n s -> w_parent s = QDone -> ~ In PInCall (w_parts s) /\ ~ In PCancelled (w_parts s).
Proof. exact no_client_call_out_at_done. Qed.
Print Assumptions C12_no_client_call_out_at_done.

(* once the shutdown is requested the parts' and the parent's own steps reach
   done, provided cancelled client calls return (the proviso of C12 is the
   action WCallBack) *)
Theorem C12_tail_shutdown_completes : forall n s, wreach n s -> stopping (w_parent s) = true ->
  exists l s', Forall (fun a => own a = true) l /\ wrun s l = Some s' /\ w_parent s' = QDone.
Proof. exact shutdown_completes. Qed.
Print Assumptions C12_tail_shutdown_completes.
