(* C06 — a filtered subscription or clone is exactly its filter applied to
   its parent.  Property theorems only. *)
From KC Require Import Base Filter Cache CacheSpec CacheProps FilterSub FilterSubProps FilterRace FilterRaceProps.

(* consuming a parent event (a well-formed delta of the parent's cache, C02)
   keeps the child's cache equal to the filter applied to the parent's cache *)
Theorem C06_filter_update_commutes : forall F parent child ev parent',
  in_step F parent child -> parent_delta parent ev parent' ->
  in_step F parent' (fst (do_update F child ev)).
Proof. exact filter_update_commutes. Qed.
Print Assumptions C06_filter_update_commutes.

(* syncing from the parent's current content (at readiness or at a Refilter),
   under any filter, from any cache not newer than the parent, re-establishes
   it *)
Theorem C06_sync_establishes_in_step : forall F parent c0,
  wf_cache parent ->
  (forall k cu e, clookup k c0 = Some cu -> clookup k parent = Some e -> (e_ver cu < e_ver e)%Z \/ cu = e) ->
  in_step F parent (fst (do_sync F c0 (do_list parent))).
Proof. exact sync_establishes_in_step. Qed.
Print Assumptions C06_sync_establishes_in_step.

(* filters nested through clones compose as conjunction *)
Theorem C06_nested_conjunction : forall f1 f2 parent,
  wf_cache parent ->
  forall k, clookup k (view f2 (do_list (view f1 (do_list parent)))) =
            fview (fun o => accept f1 o && accept f2 o) (clookup k parent).
Proof. exact nested_conjunction. Qed.
Print Assumptions C06_nested_conjunction.

(* its own event stream is a well-formed delta of its own cache (C02 on the
   cache it owns), so the hypothesis parent_delta holds one level down *)
Theorem C06_own_events_wellformed : forall s o,
  wf_state s -> replay (c_items s) (snd (do_op s o)) = Some (c_items (fst (do_op s o))).
Proof. exact op_events_replay. Qed.
Print Assumptions C06_own_events_wellformed.

(* the state machine keeps its invariant under every input sequence: the
   cache actor's filter is the most recently set filter, the cache is empty
   until readiness *)
Theorem C06_fs_inv_reachable : forall s is, fs_inv s -> fs_inv (fst (fs_run s is)).
Proof. exact fs_inv_reachable. Qed.
Print Assumptions C06_fs_inv_reachable.

(* THE RACING CASE.  Per key: the parent's history is any list of events that
   are well-formed deltas of the parent's cache with entries that never get
   older (hist_ok); the child interleaves, in any order, consuming the next
   parent event with listing the parent at a point that is ANY number of
   events ahead of what it has consumed, under ANY new filter.  Once it is
   ready and the stale events have drained, its cache is the most recently set
   filter applied to the parent's cache ... *)
Theorem C06_fsub_converges : forall F p0 hist l s,
  hist_ok p0 p0 hist -> rrun (rinit F p0 hist) l = Some s ->
  r_ready s = true -> r_pend s = [] ->
  r_cur s = fview (r_F s) (r_P s).
Proof. exact fsub_converges. Qed.
Print Assumptions C06_fsub_converges.

(* ... and when the whole history has been consumed, to the parent's final cache *)
Theorem C06_fsub_converges_to_final : forall F p0 hist l s,
  hist_ok p0 p0 hist -> rrun (rinit F p0 hist) l = Some s ->
  r_ready s = true -> consumed_all s ->
  r_cur s = fview (r_F s) (pfold p0 hist).
Proof. exact fsub_converges_to_final. Qed.
Print Assumptions C06_fsub_converges_to_final.

(* the per-key semantics used there is what the cache operations do on every
   key, and what the parent's cache does under its own events *)
Theorem C06_child_sync_per_key : forall F' child parent k,
  wf_cache parent ->
  clookup k (fst (do_sync F' child (do_list parent))) =
  sync_spec F' (clookup k child) (plisting (clookup k parent)).
Proof. exact child_sync_per_key. Qed.
Print Assumptions C06_child_sync_per_key.

Theorem C06_child_update_per_key : forall F child ev k,
  clookup k (fst (do_update F child ev)) =
  if key_eqb (key_of (ev_obj ev)) k then update_spec F (clookup k child) ev else clookup k child.
Proof. exact child_update_per_key. Qed.
Print Assumptions C06_child_update_per_key.

Theorem C06_parent_apply_per_key : forall parent ev parent',
  apply_event parent ev = Some parent' ->
  clookup (key_of (ev_obj ev)) parent' = papply (clookup (key_of (ev_obj ev)) parent) ev.
Proof. exact parent_apply_per_key. Qed.
Print Assumptions C06_parent_apply_per_key.

(* the racing case for EVERY well-formed parent history: the events need only
   be well-formed deltas of the parent's own cache (C02) — an object may be
   deleted and re-created at a lower version, which hist_ok above excludes *)
From KC Require Import FilterRaceGen.
Theorem C06_fsub_converges_general : forall F p0 hist l s,
  hist_wf p0 hist -> rrun (rinit F p0 hist) l = Some s ->
  r_ready s = true -> r_pend s = [] ->
  r_cur s = fview (r_F s) (r_P s).
Proof. exact fsub_converges_general. Qed.
Print Assumptions C06_fsub_converges_general.

Theorem C06_fsub_converges_general_to_final : forall F p0 hist l s,
  hist_wf p0 hist -> rrun (rinit F p0 hist) l = Some s ->
  r_ready s = true -> consumed_all s ->
  r_cur s = fview (r_F s) (pfold p0 hist).
Proof. exact fsub_converges_general_to_final. Qed.
Print Assumptions C06_fsub_converges_general_to_final.

(* "its own event stream is a well-formed delta of its own cache, so anything
   subscribed below it converges as well": the events a filtered node emits on
   a key (the deltas of its own entry) form a well-formed history from its entry
   at the start to its entry at the end, whatever its interleaving ... *)
From KC Require Import FilterChain.
Theorem C06_emitted_history_wf : forall l s sf out, cwf s -> rtrace s l = Some (sf, out) ->
  hist_wf (r_cur s) out /\ pfold (r_cur s) out = r_cur sf /\ cwf sf.
Proof. exact emitted_history_wf. Qed.
Print Assumptions C06_emitted_history_wf.

(* ... hence a chain of filtered subscriptions / clones of ANY depth, each with
   ANY interleaving of consuming its parent's events, listing its parent any
   number of events ahead and Refilters, ends — once every node is ready and has
   consumed everything — with the filters most recently set along the chain
   applied in turn to the root's final entry: their conjunction *)
Theorem C06_chain_converges : forall levels p0 hist fs bottom,
  entry_wf p0 -> hist_wf p0 hist ->
  chain p0 hist levels = Some (fs, bottom) ->
  bottom = nested_fview fs (pfold p0 hist).
Proof. exact chain_converges. Qed.
Print Assumptions C06_chain_converges.

Theorem C06_chain_is_conjunction : forall levels p0 hist fs bottom,
  entry_wf p0 -> hist_wf p0 hist -> chain p0 hist levels = Some (fs, bottom) ->
  bottom = fview (fun o => forallb (fun F => F o) fs) (pfold p0 hist).
Proof. exact chain_is_conjunction. Qed.
Print Assumptions C06_chain_is_conjunction.

(* end to end, per key: the root cache performs ANY sequence of syncs, watch
   updates and refilters (its events on the key are a well-formed history:
   C02_cache_emits_wf_history); below it hangs a chain of filtered nodes of ANY
   depth with ANY interleavings.  When every node is ready and has consumed
   everything, the entry at the bottom is the conjunction of the filters most
   recently set along the chain applied to the root cache's entry *)
From KC Require Import CacheEvents CacheHistory.
Theorem C06_tree_converges_to_root_cache : forall F0 ops k levels fs bottom,
  chain None (kevs k (ops_events (init_state F0) ops)) levels = Some (fs, bottom) ->
  bottom = fview (fun o => forallb (fun F => F o) fs) (clookup k (c_items (run_ops (init_state F0) ops))).
Proof. exact tree_converges_to_root_cache. Qed.
Print Assumptions C06_tree_converges_to_root_cache.
