(* C20 — typed packages and generated joins are faithful instances of the
   generic core.  Property theorems only (the 20 source-level obligations
   gen_ok_* are generated from the tree under test on every run by
   harness/cmd/gentokens and checked by the kernel in work/GenTokens.v). *)
From KC Require Import Base Typed TypedProps.

(* the typed cache view is the untyped one restricted to the type, in order *)
Theorem C20_typed_list_is_restriction : forall k l,
  typed_list k l = filter (fun o => N.eqb (o_kind o) k) l.
Proof. exact typed_list_is_restriction. Qed.
Print Assumptions C20_typed_list_is_restriction.

Theorem C20_typed_list_all_of_type : forall k l, Forall (fun o => o_kind o = k) (typed_list k l).
Proof. exact typed_list_all_of_type. Qed.
Print Assumptions C20_typed_list_all_of_type.

(* on objects of its own type a typed package changes nothing *)
Theorem C20_typed_list_keeps_own_type : forall k l,
  Forall (fun o => o_kind o = k) l -> typed_list k l = l.
Proof. exact typed_list_keeps_own_type. Qed.
Print Assumptions C20_typed_list_keeps_own_type.

Theorem C20_typed_events_is_restriction : forall k evs,
  map ev_obj (typed_events k evs) = filter (fun o => N.eqb (o_kind o) k) (map ev_obj evs) /\
  map ev_ty (typed_events k evs) = map ev_ty (filter (fun ev => N.eqb (o_kind (ev_obj ev)) k) evs).
Proof. exact typed_events_is_restriction. Qed.
Print Assumptions C20_typed_events_is_restriction.

Theorem C20_typed_events_keeps_own_type : forall k evs,
  Forall (fun ev => o_kind (ev_obj ev) = k) evs -> typed_events k evs = evs.
Proof. exact typed_events_keeps_own_type. Qed.
Print Assumptions C20_typed_events_keeps_own_type.

(* objects of another type are skipped rather than crashing: no callback *)
Theorem C20_typed_callback_skips_foreign : forall k ty o,
  o_kind o <> k -> typed_callback k (TEvent ty o) = [].
Proof. exact typed_callback_skips_foreign. Qed.
Print Assumptions C20_typed_callback_skips_foreign.

Theorem C20_typed_get_spec : forall k r,
  typed_get k r = match r with
                  | None => TAbsent
                  | Some o => if N.eqb (o_kind o) k then TFound o else TInvalid
                  end.
Proof. exact typed_get_spec. Qed.
Print Assumptions C20_typed_get_spec.

(* template instantiation changes nothing but the placeholder *)
Theorem C20_instantiate_preserves_skeleton : forall ph ty template,
  ~ In ph template -> instantiate ph ty template = template.
Proof. exact instantiate_preserves_skeleton. Qed.
Print Assumptions C20_instantiate_preserves_skeleton.

Theorem C20_instantiate_app : forall ph ty a b,
  instantiate ph ty (a ++ b) = instantiate ph ty a ++ instantiate ph ty b.
Proof. exact instantiate_app. Qed.
Print Assumptions C20_instantiate_app.

(* the typed filtered nodes (CloneWithFilter, SubscribeWithFilter, the for-filter
   forms after Refilter): restricting to the type and filtering commute *)
Theorem C20_typed_list_filter_commute : forall k (f : obj -> bool) l,
  typed_list k (filter f l) = filter f (typed_list k l).
Proof. exact typed_list_filter_commute. Qed.
Print Assumptions C20_typed_list_filter_commute.

(* unitary handlers (ToUnitary): initialised only by exactly one object of the
   type, which is then that object; every other callback as for a typed handler *)
Theorem C20_unitary_init_iff : forall k objs,
  unitary_callback k (TInit objs) <> [] <-> exists o, typed_list k objs = [o].
Proof. exact unitary_init_iff. Qed.
Print Assumptions C20_unitary_init_iff.

Theorem C20_unitary_init_is_the_object : forall k objs o,
  typed_list k objs = [o] -> unitary_callback k (TInit objs) = [TInit [o]] /\ o_kind o = k.
Proof. exact unitary_init_is_the_object. Qed.
Print Assumptions C20_unitary_init_is_the_object.

Theorem C20_unitary_log_events : forall k l,
  filter (fun c => negb (is_init c)) (unitary_log k l) = filter (fun c => negb (is_init c)) (typed_log k l).
Proof. exact unitary_log_events. Qed.
Print Assumptions C20_unitary_log_events.
