(* C16 — monitor callbacks: initialize once first, then one callback per
   event, serially.  Property theorems only. *)
From KC Require Import Base Monitor MonitorProps.

Theorem C16_monitor_log_shape : forall is,
  mrun MWaitReady is = [] \/
  exists content pre post,
    is = pre ++ MReady content :: post /\
    Forall (fun i => i <> MDone /\ forall c, i <> MReady c) pre /\
    mrun MWaitReady is = CbInit content :: map (fun e => CbEvent (fst e) (snd e)) (received MRunning post).
Proof. exact monitor_log_shape. Qed.
Print Assumptions C16_monitor_log_shape.

Theorem C16_init_once_first : forall is c rest, mrun MWaitReady is = c :: rest ->
  is_init c = true /\ existsb is_init rest = false.
Proof. exact init_once_first. Qed.
Print Assumptions C16_init_once_first.

Theorem C16_no_callback_after_done : forall p pre post, mrun p (pre ++ MDone :: post) = mrun p pre.
Proof. exact no_callback_after_done. Qed.
Print Assumptions C16_no_callback_after_done.

Theorem C16_never_ready_no_callbacks : forall pre post,
  Forall (fun i => forall c, i <> MReady c) pre -> mrun MWaitReady (pre ++ MDone :: post) = [].
Proof. exact never_ready_no_callbacks. Qed.
Print Assumptions C16_never_ready_no_callbacks.

(* callbacks are serial: the model is one sequential program, its output is a
   list; the checker evaluated on implementation logs accepts every model log *)
Theorem C16_model_logs_ok : forall is,
  monitor_log_ok (received_by_monitor is) (mrun MWaitReady is) false = true.
Proof. exact model_logs_ok. Qed.
Print Assumptions C16_model_logs_ok.

(* the cache has stopped when the monitor lists at readiness: no callback at
   all (the monitor shuts down with the error) *)
Theorem C16_failed_listing_no_callbacks : forall pre post,
  Forall (fun i => forall c, i <> MReady c) pre -> mrun MWaitReady (pre ++ MReadyFail :: post) = [].
Proof. exact failed_listing_no_callbacks. Qed.
Print Assumptions C16_failed_listing_no_callbacks.

(* handlers built with any subset of the four callbacks see the callback log
   restricted to the callbacks they have; OnInitialize, if present, is still
   first and only once *)
Theorem C16_masked_init_first : forall m is c rest, mrun_masked m is = c :: rest ->
  existsb is_init rest = false.
Proof. exact masked_init_first. Qed.
Print Assumptions C16_masked_init_first.
