(* C09 — joins select exactly the destination objects matched by current
   source objects.  Property theorems only. *)
From KC Require Import Base Filter FilterProps FilterSem Cache CacheSpec CacheProps FilterSub FilterSubProps Join JoinProps Lifecycle LifecycleProps.

(* after the callback that follows the last source change the join's cache is
   its selection filter applied to the destination's cache — whether that
   Refilter found the filter changed (sync) or equal (nothing to do, C17) *)
Theorem C09_join_update_in_step : forall ffn s src dst,
  fs_inv s -> fs_pwait s = false ->
  wf_cache dst -> wf_filter (fs_filter s) -> wf_filter (ffn src) ->
  (fs_ready s = true -> in_step (accept (fs_filter s)) dst (fs_cache s)) ->
  let s' := fst (join_update ffn s src (do_list dst)) in
  fs_ready s' = true /\ in_step (accept (ffn src)) dst (fs_cache s').
Proof. exact join_update_in_step. Qed.
Print Assumptions C09_join_update_in_step.

(* with the selection rules of C19: exactly the destination objects owned by
   some current source object *)
Theorem C09_workload_pods_join_exact : forall srcs dst cache,
  Forall (fun w => is_workload w /\ o_ns w <> 0%N) srcs ->
  in_step (accept (workload_pods_filter srcs)) dst cache ->
  forall k e, clookup k cache = Some e <->
              (clookup k dst = Some e /\ exists w, In w srcs /\ owns w (e_obj e)).
Proof. exact workload_pods_join_exact. Qed.
Print Assumptions C09_workload_pods_join_exact.

Theorem C09_service_pods_join_exact : forall srcs dst cache,
  Forall (fun w => is_service w /\ o_ns w <> 0%N) srcs ->
  in_step (accept (service_pods_filter srcs)) dst cache ->
  forall k, clookup k cache =
            match clookup k dst with
            | Some e => if accept (service_pods_filter srcs) (e_obj e) then Some e else None
            | None => None
            end /\
            (forall e, clookup k cache = Some e -> exists w, In w srcs /\ owns w (e_obj e)).
Proof. exact service_pods_join_exact. Qed.
Print Assumptions C09_service_pods_join_exact.

Theorem C09_double_join_exact : forall ings svcs pods p,
  In p (double_join_view ings svcs pods) <->
  In p pods /\ accept (service_pods_filter (List.filter (accept (ingress_services_filter ings)) svcs)) p = true.
Proof. exact double_join_exact. Qed.
Print Assumptions C09_double_join_exact.

Theorem C09_join_ready_after_both : forall is,
  fs_ready (fst (fs_run fs_init_deferred is)) = true ->
  existsb is_pr is = true /\ existsb is_rf is = true.
Proof. exact join_ready_after_both. Qed.
Print Assumptions C09_join_ready_after_both.

Theorem C09_join_events_wellformed : forall F c l,
  wf_cache c -> replay c (snd (do_sync F c l)) = Some (fst (do_sync F c l)).
Proof. exact join_events_wellformed. Qed.
Print Assumptions C09_join_events_wellformed.

(* closing the join result stops its own subtree only (the clone, its
   subscription, the monitor; for the double join the intermediate join is a
   child of the result since the fix of D7) *)
Theorem C09_join_close_stops_own_only : forall t l t',
  well_formed t -> all_running t -> lrun t l = Some t' ->
  forall i, i < nnodes t' -> state_of t' i <> LRun -> exists c, In (LClose c) l /\ below t' c i.
Proof. exact close_affects_subtree_only. Qed.
Print Assumptions C09_join_close_stops_own_only.
