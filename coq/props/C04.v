(* C04 — watch continuity: events keep flowing across reconnects without a
   relist.  Property theorems only. *)
From KC Require Import Base Cache Watcher WatcherProps.

(* after every sequence of server changes, deliveries, stream closes, connect
   errors, non-object frames, reconnects and controller steps:
   applied ++ (channel the controller reads) = the log up to the last entry
   taken, in order; the session buffer continues it; nothing is skipped *)
Theorem C04_watch_pipeline_invariant : forall l s, wrun winit l = Some s -> winv s.
Proof. exact watch_pipeline_invariant. Qed.
Print Assumptions C04_watch_pipeline_invariant.

Theorem C04_applied_is_prefix_of_log : forall l s, wrun winit l = Some s ->
  w_applied s = wseq 0 (length (w_applied s)) /\ length (w_applied s) <= w_n s.
Proof. exact applied_is_prefix_of_log. Qed.
Print Assumptions C04_applied_is_prefix_of_log.

Theorem C04_reconnect_resumes_after_last_taken : forall l s s', wrun winit l = Some s ->
  wstep s WRetry = Some s' ->
  w_pos s' = w_cur s /\ w_cur s = length (w_applied s ++ w_obuf s) /\ w_obuf s' = w_obuf s.
Proof. exact reconnect_resumes_after_last_taken. Qed.
Print Assumptions C04_reconnect_resumes_after_last_taken.

Theorem C04_received_not_discarded : forall s a s', wstep s a = Some s' ->
  exists more, w_applied s' ++ w_obuf s' = (w_applied s ++ w_obuf s) ++ more.
Proof. exact received_not_discarded. Qed.
Print Assumptions C04_received_not_discarded.

(* when the server quiesces and the library has nothing left to do, the
   controller has applied the whole log: no relist needed *)
Theorem C04_watch_quiescent_complete : forall l s, wrun winit l = Some s ->
  wquiescent s = true -> w_applied s = wseq 0 (w_n s).
Proof. exact watch_quiescent_complete. Qed.
Print Assumptions C04_watch_quiescent_complete.

Theorem C04_watch_quiescent_cache : forall F c0 entry l s, wrun winit l = Some s ->
  wquiescent s = true ->
  cache_after F c0 entry (w_applied s) = cache_after F c0 entry (wseq 0 (w_n s)).
Proof. exact watch_quiescent_cache. Qed.
Print Assumptions C04_watch_quiescent_cache.

Theorem C04_non_object_frames_harmless : forall s s', wstep s WFrame = Some s' -> s' = s.
Proof. exact non_object_frames_harmless. Qed.
Print Assumptions C04_non_object_frames_harmless.
