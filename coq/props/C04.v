(* C04 — watch continuity: events keep flowing across reconnects without a
   relist.  Property theorems only. *)
From KC Require Import Base Cache Watcher WatcherProps WatcherBurst.

(* after every sequence of server changes, deliveries, stream closes, connect
   errors, non-object frames, buffer overflows, reconnects, relists and
   controller steps: what was applied and what the channel holds are in log
   order without duplicates; and while no buffer overflowed since the last
   list, applied ++ (channel the controller reads) = the log from the list's
   version up to the last entry taken, the session buffer continues it, and
   nothing is skipped *)
Theorem C04_watch_pipeline_invariant : forall cap l s, wrun (winit cap) l = Some s -> winv s.
Proof. exact watch_pipeline_invariant. Qed.
Print Assumptions C04_watch_pipeline_invariant.

Theorem C04_applied_is_prefix_of_log : forall cap l s, wrun (winit cap) l = Some s -> w_lost s = 0 ->
  w_applied s = wseq (w_base s) (length (w_applied s)) /\ w_base s + length (w_applied s) <= w_n s.
Proof. exact applied_is_prefix_of_log. Qed.
Print Assumptions C04_applied_is_prefix_of_log.

Theorem C04_applied_in_order_without_duplicates : forall cap l s, wrun (winit cap) l = Some s ->
  incr_within (w_base s) (w_cur s) (w_applied s ++ w_obuf s) /\ NoDup (w_applied s ++ w_obuf s).
Proof. exact applied_in_order_without_duplicates. Qed.
Print Assumptions C04_applied_in_order_without_duplicates.

Theorem C04_reconnect_resumes_after_last_taken : forall cap l s s', wrun (winit cap) l = Some s ->
  wstep s WRetry = Some s' ->
  w_pos s' = w_cur s /\ w_obuf s' = w_obuf s /\
  (w_lost s = 0 -> w_cur s = w_base s + length (w_applied s ++ w_obuf s)).
Proof. exact reconnect_resumes_after_last_taken. Qed.
Print Assumptions C04_reconnect_resumes_after_last_taken.

Theorem C04_received_not_discarded : forall s a s', (forall b, a <> WReset b) -> wstep s a = Some s' ->
  exists more, w_applied s' ++ w_obuf s' = (w_applied s ++ w_obuf s) ++ more.
Proof. exact received_not_discarded. Qed.
Print Assumptions C04_received_not_discarded.

(* an event is lost only when it finds one of the two EventBufsiz buffers full *)
Theorem C04_loss_needs_full_buffer : forall s a s', wstep s a = Some s' -> w_lost s' <> w_lost s ->
  (exists b, a = WReset b) \/
  (a = WDeliver /\ length (w_sbuf s) >= w_cap s) \/ (a = WTake /\ length (w_obuf s) >= w_cap s).
Proof. exact loss_needs_full_buffer. Qed.
Print Assumptions C04_loss_needs_full_buffer.

(* with the controller busy, exactly the first EventBufsiz entries that arrive
   after the one it holds survive in the watcher's channel; the other k - cap
   are lost (the history the correspondence replays on the implementation) *)
Theorem C04_busy_burst_closed_form : forall cap k, 1 <= cap ->
  busy_burst_outcome cap k = (wseq 0 (1 + Nat.min k cap), k - cap).
Proof. exact busy_burst_closed_form. Qed.
Print Assumptions C04_busy_burst_closed_form.

(* when the server quiesces and the library has nothing left to do, the
   controller has applied the whole log: no relist needed *)
Theorem C04_watch_quiescent_complete : forall cap l s, wrun (winit cap) l = Some s ->
  wquiescent s = true -> w_lost s = 0 -> w_applied s = wseq (w_base s) (w_n s - w_base s).
Proof. exact watch_quiescent_complete. Qed.
Print Assumptions C04_watch_quiescent_complete.

Theorem C04_watch_quiescent_cache : forall F c0 entry cap l s, wrun (winit cap) l = Some s ->
  wquiescent s = true -> w_lost s = 0 ->
  cache_after F c0 entry (w_applied s) = cache_after F c0 entry (wseq (w_base s) (w_n s - w_base s)).
Proof. exact watch_quiescent_cache. Qed.
Print Assumptions C04_watch_quiescent_cache.

(* across relists: nothing that predates the list the watcher was last reset
   to is applied, buffered or in flight after it; and the reset wipes the
   slate whatever overflowed before *)
Theorem C04_nothing_stale_after_reset : forall cap l s i, wrun (winit cap) l = Some s ->
  In i (w_applied s ++ w_obuf s ++ w_sbuf s) -> w_base s < i /\ i <= w_n s.
Proof. exact nothing_stale_after_reset. Qed.
Print Assumptions C04_nothing_stale_after_reset.

Theorem C04_reset_heals : forall s b s', wstep s (WReset b) = Some s' ->
  w_lost s' = 0 /\ w_base s' = b /\ w_applied s' = [] /\ w_obuf s' = [] /\ w_sbuf s' = [] /\ w_cur s' = b.
Proof. exact reset_heals. Qed.
Print Assumptions C04_reset_heals.

Theorem C04_non_object_frames_harmless : forall s s', wstep s WFrame = Some s' -> s' = s.
Proof. exact non_object_frames_harmless. Qed.
Print Assumptions C04_non_object_frames_harmless.

(* "when the server quiesces the cache equals the server state within the
   reconnect delay, not the refresh period": a cache equal to the accepted view
   of the server at the version of a list, applying the later log entries in
   order, equals the accepted view at the end; composed with the pipeline: at
   quiescence, with nothing lost since the last list, the controller's cache is
   the server's accepted view *)
From KC Require Import CacheSpec CacheProps Controller ControllerProps WatchConverges.
Theorem C04_watch_in_order_converges : forall F l2 l1 c,
  log_ok (l1 ++ l2) -> wf_cache c ->
  (forall k, clookup k c = accepted_view F l1 k) ->
  forall k, clookup k (fold_left (fun c ev => fst (do_update F c ev)) l2 c) = accepted_view F (l1 ++ l2) k.
Proof. exact watch_in_order_converges. Qed.
Print Assumptions C04_watch_in_order_converges.

Theorem C04_watch_quiescent_is_server_state : forall F l1 l2 c0 cap acts s (entry : nat -> event),
  log_ok (l1 ++ l2) -> wf_cache c0 ->
  (forall k, clookup k c0 = accepted_view F l1 k) ->
  wrun (winit cap) acts = Some s -> wquiescent s = true -> w_lost s = 0 ->
  map entry (wseq (w_base s) (w_n s - w_base s)) = l2 ->
  forall k, clookup k (cache_after F c0 entry (w_applied s)) = accepted_view F (l1 ++ l2) k.
Proof. exact watch_quiescent_is_server_state. Qed.
Print Assumptions C04_watch_quiescent_is_server_state.
