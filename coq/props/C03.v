(* C03 — the controller converges to the API server at every relist,
   whatever went wrong.  Property theorems only. *)
From KC Require Import Base Cache CacheSpec CacheProps Controller ControllerProps.

(* each completed list is applied as one doSync of the whole list *)
Theorem C03_relist_exact : forall s v items, k_stopped s = None ->
  k_cache (fst (kstep s (IList (LROk v items)))) = fst (do_sync (k_filter s) (k_cache s) items) /\
  k_ready (fst (kstep s (IList (LROk v items)))) = true /\
  k_watch_from (fst (kstep s (IList (LROk v items)))) = Some v.
Proof. exact ready_step_applies_whole_list. Qed.
Print Assumptions C03_relist_exact.

(* a snapshot of the server applied to any cache fed from the server's log
   leaves exactly the server's accepted objects *)
Theorem C03_relist_converges : forall F l c listed,
  log_ok l -> wf_cache c -> from_log l c -> is_list_of l listed ->
  forall k, clookup k (fst (do_sync F c listed)) = accepted_view F l k.
Proof. exact relist_converges. Qed.
Print Assumptions C03_relist_converges.

(* for every server history, controller filter, earlier lists and watch
   behaviour (losses, duplicates, replays, reorderings, nothing at all): the
   next list leaves cache = accepted(server) *)
Theorem C03_quiescent_server_one_relist : forall F l is v listed,
  log_ok l -> Forall (watch_from_log l) is -> is_list_of l listed ->
  k_stopped (krun (kinit F) is) = None ->
  forall k, clookup k (k_cache (fst (kstep (krun (kinit F) is) (IList (LROk v listed))))) = accepted_view F l k.
Proof. exact quiescent_server_one_relist. Qed.
Print Assumptions C03_quiescent_server_one_relist.

Theorem C03_relist_never_regresses : forall s v items k c0 c1,
  k_stopped s = None ->
  clookup k (k_cache s) = Some c0 ->
  clookup k (k_cache (fst (kstep s (IList (LROk v items))))) = Some c1 ->
  c1 = c0 \/ (e_ver c0 < e_ver c1)%Z.
Proof. exact relist_never_regresses. Qed.
Print Assumptions C03_relist_never_regresses.

(* subscribers receive the events that account for the difference *)
Theorem C03_relist_events_account : forall s v items,
  k_stopped s = None -> k_ready s = true -> wf_cache (k_cache s) ->
  replay (k_cache s) (snd (kstep s (IList (LROk v items)))) = Some (k_cache (fst (kstep s (IList (LROk v items))))).
Proof. exact relist_events_account. Qed.
Print Assumptions C03_relist_events_account.

Theorem C03_watch_restarts_at_list_version : forall s v items,
  k_stopped s = None -> k_watch_from (fst (kstep s (IList (LROk v items)))) = Some v.
Proof. exact watch_restarts_at_list_version. Qed.
Print Assumptions C03_watch_restarts_at_list_version.

(* "a further relist will happen" is C13's progress theorem *)
From KC Require Import Lts Lister ListerProps.
Theorem C03_relist_always_possible : forall s, reach s -> not_stopping s = true ->
  exists l s', run st act step s l = Some s' /\ step s' ATick <> None.
Proof. exact relist_always_possible. Qed.
Print Assumptions C03_relist_always_possible.

(* "subscribers receive the create/update/delete events that account for the
   difference", over whole runs and per key: from the moment the controller is
   ready, what it publishes on a key is a well-formed history from its cache
   entry then to its cache entry at the end *)
From KC Require Import CacheEvents FilterRace FilterRaceGen FilterChain CacheHistory ControllerTree.
Theorem C03_controller_publishes_wf_history : forall s is k,
  k_ready s = true -> wf_cache (k_cache s) ->
  hist_wf (clookup k (k_cache s)) (kevs k (kevents s is)) /\
  pfold (clookup k (k_cache s)) (kevs k (kevents s is)) = clookup k (k_cache (krun s is)).
Proof. exact controller_publishes_wf_history. Qed.
Print Assumptions C03_controller_publishes_wf_history.

(* end to end (C03 + C02 + C06): any server history, any watch behaviour that
   delivers only entries of the log, any earlier lists, a last list that is a
   snapshot of the server; below the controller a chain of filtered nodes of
   any depth with any interleavings: when every node has consumed everything,
   the entry at the bottom is the conjunction of the chain's filters applied to
   the SERVER's accepted object *)
Theorem C03_server_to_leaf : forall F (l : slog) pre post v listed k levels fs bottom,
  let s0 := Controller.krun (Controller.kinit F) pre in
  log_ok l ->
  Forall (watch_from_log l) (pre ++ post) -> is_list_of l listed ->
  k_ready s0 = true ->
  k_stopped (krun s0 post) = None ->
  chain (clookup k (k_cache s0)) (kevs k (kevents s0 (post ++ [IList (LROk v listed)]))) levels = Some (fs, bottom) ->
  bottom = FilterSubProps.fview (fun o => forallb (fun G => G o) fs) (accepted_view F l k).
Proof. exact server_to_leaf. Qed.
Print Assumptions C03_server_to_leaf.
