(* C17 — filter equality is sound.  Property theorems only. *)
From KC Require Import Base Filter FilterProps SelectorOrder.
From Coq Require Import Permutation.

(* Equals / FiltersEqual never report equality for filters that disagree on
   some object; terms of any nesting depth, every constructor *)
Theorem C17_feq_sound : forall f g,
  wf_filter f -> wf_filter g -> feq f g = true -> forall o, accept f o = accept g o.
Proof. exact feq_sound. Qed.
Print Assumptions C17_feq_sound.

Theorem C17_filters_equal_sound : forall f g,
  wf_filter f -> wf_filter g -> filters_equal (Some f) (Some g) = true ->
  forall o, accept f o = accept g o.
Proof. exact filters_equal_sound. Qed.
Print Assumptions C17_filters_equal_sound.

Theorem C17_filters_equal_nil : forall f,
  filters_equal None (Some f) = false /\ filters_equal (Some f) None = false.
Proof. exact filters_equal_nil. Qed.
Print Assumptions C17_filters_equal_nil.

Theorem C17_fn_never_equal : forall p g, feq (FFn p) g = false /\ feq g (FFn p) = false.
Proof. exact fn_never_equal. Qed.
Print Assumptions C17_fn_never_equal.

(* comparable filters built twice from the same arguments compare equal *)
Theorem C17_feq_refl_comparable : forall f, deep_comparable f -> wf_filter f -> feq f f = true.
Proof. exact feq_refl_comparable. Qed.
Print Assumptions C17_feq_refl_comparable.

(* workload filters do so regardless of the order of their sources *)
Theorem C17_service_pods_filter_order_independent : forall l1 l2,
  distinct_keys l1 -> Permutation l1 l2 ->
  feq (service_pods_filter l1) (service_pods_filter l2) = true.
Proof. exact service_pods_filter_order_independent. Qed.
Print Assumptions C17_service_pods_filter_order_independent.

Theorem C17_rc_pods_filter_order_independent : forall l1 l2,
  distinct_keys l1 -> Permutation l1 l2 ->
  feq (rc_pods_filter l1) (rc_pods_filter l2) = true.
Proof. exact rc_pods_filter_order_independent. Qed.
Print Assumptions C17_rc_pods_filter_order_independent.

Theorem C17_workload_pods_filter_order_independent : forall l1 l2,
  distinct_keys l1 -> Permutation l1 l2 ->
  feq (workload_pods_filter l1) (workload_pods_filter l2) = true.
Proof. exact workload_pods_filter_order_independent. Qed.
Print Assumptions C17_workload_pods_filter_order_independent.

(* non-vacuity: two distinct-looking but equal terms *)
Example C17_nonvacuous :
  feq (FAnd [mk_nsname [(1%N, 2%N); (3%N, 0%N)]; FNot (mk_labels [(1%N, 1%N)])])
      (FAnd [mk_nsname [(1%N, 2%N); (3%N, 0%N)]; FNot (mk_labels [(1%N, 1%N)])]) = true
  /\ wf_filter (FSvcFor [(1%N, 1%N); (2%N, 1%N)]).
Proof. split; [reflexivity | repeat constructor; simpl; intuition discriminate]. Qed.

(* KNOWN FINDING D14, as a theorem: C17_feq_refl_comparable above is about one
   build (Filter.v takes LabelSelectorAsSelector's result in the order a stable
   sort gives).  With more than twelve requirements the sort is unstable, and a
   build is any key-sorted arrangement; two arrangements of the same selector
   that differ in the order of two requirements on one key compare unequal and
   accept the same objects. *)
Theorem C17_builds_of_one_selector_compare_unequal_refuted :
  forall (input pre : list req) (a b : req) (post : list req),
  r_key a = r_key b -> req_eqb a b = false ->
  possible_build input (pre ++ a :: b :: post) ->
  possible_build input (pre ++ b :: a :: post) /\
  feq (FSel (SelReqs (pre ++ a :: b :: post))) (FSel (SelReqs (pre ++ b :: a :: post))) = false /\
  forall ls, selector_matches (SelReqs (pre ++ a :: b :: post)) ls =
             selector_matches (SelReqs (pre ++ b :: a :: post)) ls.
Proof. exact builds_of_one_selector_compare_unequal. Qed.
Print Assumptions C17_builds_of_one_selector_compare_unequal_refuted.
