(* C02 — emitted events are an exact, minimal, well-formed delta of the
   cache.  Property theorems only. *)
From KC Require Import Base Cache CacheSpec CacheProps CacheEvents.

(* replaying the events of any operation, in order, on the content before it
   yields exactly the content after it *)
Theorem C02_events_replay_exact : forall s o,
  wf_state s -> replay (c_items s) (snd (do_op s o)) = Some (c_items (fst (do_op s o))).
Proof. exact op_events_replay. Qed.
Print Assumptions C02_events_replay_exact.

(* ... with every event's precondition holding at its point of the replay *)
Theorem C02_events_wellformed : forall s o,
  wf_state s -> replay_pre (c_items s) (snd (do_op s o)).
Proof. exact op_events_wellformed. Qed.
Print Assumptions C02_events_wellformed.

(* an operation that changes nothing emits no event at all *)
Theorem C02_no_change_no_event : forall s o,
  wf_state s -> cache_eq (c_items (fst (do_op s o))) (c_items s) -> snd (do_op s o) = [].
Proof. exact no_change_no_event. Qed.
Print Assumptions C02_no_change_no_event.

(* ... and an operation that emits an event changes the content *)
Theorem C02_event_changes : forall s o,
  wf_state s -> snd (do_op s o) <> [] -> changed (c_items s) (c_items (fst (do_op s o))).
Proof. exact op_event_changes. Qed.
Print Assumptions C02_event_changes.

(* the hypothesis wf_state holds of every reachable state *)
Theorem C02_wf_reachable : forall F0 ops, wf_state (run_ops (init_state F0) ops).
Proof. intros F0 ops. exact (wf_run_ops ops (init_state F0) (wf_init F0)). Qed.
Print Assumptions C02_wf_reachable.

(* key by key: the events of one synchronisation on a key are exactly the one
   event that explains what happened to that key (Create only of an absent
   key, Update only to a strictly newer version, Delete only of a present
   key), and none if its entry stays: at most one event per key *)
Theorem C02_sync_events_per_key : forall F c l k,
  wf_cache c ->
  kevs k (snd (do_sync F c l)) =
  match clookup k c, clookup k (fst (do_sync F c l)) with
  | None, None => []
  | None, Some e => [mk_event Create (e_obj e)]
  | Some c0, None => [mk_event Delete (e_obj c0)]
  | Some c0, Some e => if Z.ltb (e_ver c0) (e_ver e) then [mk_event Update (e_obj e)] else []
  end.
Proof. exact sync_events_per_key. Qed.
Print Assumptions C02_sync_events_per_key.

Theorem C02_sync_at_most_one_event_per_key : forall F c l k,
  wf_cache c -> length (kevs k (snd (do_sync F c l))) <= 1.
Proof. exact sync_at_most_one_event_per_key. Qed.
Print Assumptions C02_sync_at_most_one_event_per_key.

(* over whole histories and per key: every sequence of syncs, watch updates and
   refilters emits, on each key, a well-formed history (Create on an absent
   key, Update to a strictly newer version of the entry present, Delete of a
   present key) that folds from the key's entry before to its entry after —
   the form in which C06's convergence theorems consume C02 *)
From KC Require Import CacheEvents FilterRace FilterRaceGen CacheHistory.
Theorem C02_cache_emits_wf_history : forall ops s k, wf_state s ->
  hist_wf (clookup k (c_items s)) (kevs k (ops_events s ops)) /\
  pfold (clookup k (c_items s)) (kevs k (ops_events s ops)) = clookup k (c_items (run_ops s ops)).
Proof. exact cache_emits_wf_history. Qed.
Print Assumptions C02_cache_emits_wf_history.
