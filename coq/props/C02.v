(* C02 — emitted events are an exact, minimal, well-formed delta of the
   cache.  Property theorems only. *)
From KC Require Import Base Cache CacheSpec CacheProps.

(* replaying the events of any operation, in order, on the content before it
   yields exactly the content after it *)
Theorem C02_events_replay_exact : forall s o,
  wf_state s -> replay (c_items s) (snd (do_op s o)) = Some (c_items (fst (do_op s o))).
Proof. exact op_events_replay. Qed.
Print Assumptions C02_events_replay_exact.

(* ... with every event's precondition holding at its point of the replay *)
Theorem C02_events_wellformed : forall s o,
  wf_state s -> replay_pre (c_items s) (snd (do_op s o)).
Proof. exact op_events_wellformed. Qed.
Print Assumptions C02_events_wellformed.

(* an operation that changes nothing emits no event at all *)
Theorem C02_no_change_no_event : forall s o,
  wf_state s -> cache_eq (c_items (fst (do_op s o))) (c_items s) -> snd (do_op s o) = [].
Proof. exact no_change_no_event. Qed.
Print Assumptions C02_no_change_no_event.

(* ... and an operation that emits an event changes the content *)
Theorem C02_event_changes : forall s o,
  wf_state s -> snd (do_op s o) <> [] -> changed (c_items s) (c_items (fst (do_op s o))).
Proof. exact op_event_changes. Qed.
Print Assumptions C02_event_changes.

(* the hypothesis wf_state holds of every reachable state *)
Theorem C02_wf_reachable : forall F0 ops, wf_state (run_ops (init_state F0) ops).
Proof. intros F0 ops. exact (wf_run_ops ops (init_state F0) (wf_init F0)). Qed.
Print Assumptions C02_wf_reachable.
