(* C08 — Ready means synced, and nothing is observable before it.
   Property theorems only. *)
From KC Require Import Base Filter Cache CacheSpec Controller ControllerProps FilterSub FilterSubProps.

(* controller: Ready() only after a list has been fully applied *)
Theorem C08_controller_ready_implies_synced : forall F is,
  k_ready (krun (kinit F) is) = true -> k_synced (krun (kinit F) is) = true.
Proof. exact ControllerProps.ready_implies_synced. Qed.
Print Assumptions C08_controller_ready_implies_synced.

Theorem C08_controller_nothing_published_before_ready : forall F is i,
  k_ready (krun (kinit F) is) = false -> snd (kstep (krun (kinit F) is) i) = [].
Proof. exact nothing_published_before_ready. Qed.
Print Assumptions C08_controller_nothing_published_before_ready.

Theorem C08_failed_first_list_never_ready : forall F pre r c post,
  Forall not_list pre -> classify_list r = Fail c ->
  k_ready (krun (kinit F) (pre ++ IList r :: post)) = false.
Proof. exact failed_first_list_never_ready. Qed.
Print Assumptions C08_failed_first_list_never_ready.

(* filtered subscription / clone: the transition that closes Ready() leaves
   the cache equal to the filtered parent content *)
Theorem C08_ready_implies_synced : forall s i,
  fs_inv s -> fs_ready s = false -> fs_ready (fst (fs_step s i)) = true ->
  match i with
  | FParentReady plist => fs_cache (fst (fs_step s i)) = view (fs_filter (fst (fs_step s i))) plist
  | FRefilter _ plist =>
      fs_cache (fst (fs_step s i)) = view (fs_filter (fst (fs_step s i))) plist \/
      (fs_cache (fst (fs_step s i)) = [] /\ rejects_all (fs_filter (fst (fs_step s i))))
  | FParentEvent _ => False
  end.
Proof. exact FilterSubProps.ready_implies_synced. Qed.
Print Assumptions C08_ready_implies_synced.

Theorem C08_no_event_before_ready : forall s i, fs_ready s = false -> snd (fs_step s i) = [].
Proof. exact FilterSubProps.no_event_before_ready. Qed.
Print Assumptions C08_no_event_before_ready.

(* for-filter subscriptions and clones (hence joins): ready only after the
   parent is ready AND a filter has been supplied *)
Theorem C08_deferred_ready_needs_parent_and_filter : forall is,
  fs_ready (fst (fs_run fs_init_deferred is)) = true ->
  existsb is_pr is = true /\ existsb is_rf is = true.
Proof. exact deferred_ready_needs_parent_and_filter. Qed.
Print Assumptions C08_deferred_ready_needs_parent_and_filter.

(* readych is closed at most once (a second close would panic) *)
Theorem C08_ready_closed_once : forall s is, fs_inv s -> fs_closes (fst (fs_run s is)) <= 1.
Proof. exact ready_closed_once. Qed.
Print Assumptions C08_ready_closed_once.

Theorem C08_invariant_holds_initially : forall f, fs_inv (fs_init false f) /\ fs_inv fs_init_deferred.
Proof. intros f. exact (conj (fs_inv_init_immediate f) fs_inv_init_deferred). Qed.
Print Assumptions C08_invariant_holds_initially.
