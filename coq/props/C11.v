(* C11 — shutdown cascades down the tree, never up or sideways.
   Property theorems only. *)
From KC Require Import Lifecycle LifecycleProps.

(* safety, for trees of any shape and every sequence of closes, propagations
   and completions: a node that is not running lies in the subtree of a node
   that was closed *)
Theorem C11_close_affects_subtree_only : forall t l t',
  well_formed t -> all_running t -> lrun t l = Some t' ->
  forall i, i < nnodes t' -> state_of t' i <> LRun -> exists c, In (LClose c) l /\ below t' c i.
Proof. exact close_affects_subtree_only. Qed.
Print Assumptions C11_close_affects_subtree_only.

(* progress: every internal step strictly decreases a measure bounded by
   twice the number of nodes ... *)
Theorem C11_shutdown_measure_decreases : forall t i t',
  (lstep t (LPropagate i) = Some t' \/ lstep t (LFinish i) = Some t') -> lmeasure t' < lmeasure t.
Proof. exact shutdown_measure_decreases. Qed.
Print Assumptions C11_shutdown_measure_decreases.

(* ... and when no internal step is left, whoever was stopped is done
   together with every descendant *)
Theorem C11_quiescent_implies_subtree_done : forall t r,
  well_formed t -> lquiescent t = true -> r < nnodes t -> state_of t r <> LRun ->
  forall i, i < nnodes t -> below t r i -> state_of t i = LDoneS.
Proof. exact quiescent_implies_subtree_done. Qed.
Print Assumptions C11_quiescent_implies_subtree_done.

Theorem C11_quiescent_no_stopping : forall t,
  well_formed t -> lquiescent t = true -> forall i, i < nnodes t -> state_of t i <> LStopping.
Proof. exact quiescent_no_stopping. Qed.
Print Assumptions C11_quiescent_no_stopping.

(* sideways isolation at the level of channel operations (PubLts.v): closing a
   subscription, the exit of its goroutine, its removal from the publisher's
   table and a send to it that fails leave every sibling untouched; and a send
   fails only at a subscription that was closed *)
From KC Require Import PubLts PubLtsProps.
Theorem C11_lts_step_is_local : forall (E : Type) (p : cpub E) a p' i j, cstep p a = Some p' -> concerns E a = Some i -> i <> j ->
  nth_error (k_subs p') j = nth_error (k_subs p) j.
Proof. exact step_is_local. Qed.
Print Assumptions C11_lts_step_is_local.

Theorem C11_send_fails_only_when_closing : forall (E : Type) (p : cpub E) i p', cstep p (CSendFail i) = Some p' ->
  exists c, nth_error (k_subs p) i = Some c /\ c_phase c <> Open.
Proof. exact send_fails_only_when_closing. Qed.
Print Assumptions C11_send_fails_only_when_closing.
