(* C11 — shutdown cascades down the tree, never up or sideways.
   Property theorems only. *)
From KC Require Import Lifecycle LifecycleProps.

(* safety, for trees of any shape and every sequence of closes, propagations
   and completions: a node that is not running lies in the subtree of a node
   that was closed *)
Theorem C11_close_affects_subtree_only : forall t l t',
  well_formed t -> all_running t -> lrun t l = Some t' ->
  forall i, i < nnodes t' -> state_of t' i <> LRun -> exists c, In (LClose c) l /\ below t' c i.
Proof. exact close_affects_subtree_only. Qed.
Print Assumptions C11_close_affects_subtree_only.

(* progress: every internal step strictly decreases a measure bounded by
   twice the number of nodes ... *)
Theorem C11_shutdown_measure_decreases : forall t i t',
  (lstep t (LPropagate i) = Some t' \/ lstep t (LFinish i) = Some t') -> lmeasure t' < lmeasure t.
Proof. exact shutdown_measure_decreases. Qed.
Print Assumptions C11_shutdown_measure_decreases.

(* ... and when no internal step is left, whoever was stopped is done
   together with every descendant *)
Theorem C11_quiescent_implies_subtree_done : forall t r,
  well_formed t -> lquiescent t = true -> r < nnodes t -> state_of t r <> LRun ->
  forall i, i < nnodes t -> below t r i -> state_of t i = LDoneS.
Proof. exact quiescent_implies_subtree_done. Qed.
Print Assumptions C11_quiescent_implies_subtree_done.

Theorem C11_quiescent_no_stopping : forall t,
  well_formed t -> lquiescent t = true -> forall i, i < nnodes t -> state_of t i <> LStopping.
Proof. exact quiescent_no_stopping. Qed.
Print Assumptions C11_quiescent_no_stopping.
