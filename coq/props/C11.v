(* C11 — shutdown cascades down the tree, never up or sideways.
   Property theorems only. *)
From KC Require Import Lifecycle LifecycleProps.

(* safety, for trees of any shape and every sequence of closes, propagations
   and completions: a node that is not running lies in the subtree of a node
   that was closed *)
Theorem C11_close_affects_subtree_only : forall t l t',
  well_formed t -> all_running t -> lrun t l = Some t' ->
  forall i, i < nnodes t' -> state_of t' i <> LRun -> exists c, In (LClose c) l /\ below t' c i.
Proof. exact close_affects_subtree_only. Qed.
Print Assumptions C11_close_affects_subtree_only.

(* progress: every internal step strictly decreases a measure bounded by
   twice the number of nodes ... *)
Theorem C11_shutdown_measure_decreases : forall t i t',
  (lstep t (LPropagate i) = Some t' \/ lstep t (LFinish i) = Some t') -> lmeasure t' < lmeasure t.
Proof. exact shutdown_measure_decreases. Qed.
Print Assumptions C11_shutdown_measure_decreases.

(* ... and when no internal step is left, whoever was stopped is done
   together with every descendant *)
Theorem C11_quiescent_implies_subtree_done : forall t r,
  well_formed t -> lquiescent t = true -> r < nnodes t -> state_of t r <> LRun ->
  forall i, i < nnodes t -> below t r i -> state_of t i = LDoneS.
Proof. exact quiescent_implies_subtree_done. Qed.
Print Assumptions C11_quiescent_implies_subtree_done.

Theorem C11_quiescent_no_stopping : forall t,
  well_formed t -> lquiescent t = true -> forall i, i < nnodes t -> state_of t i <> LStopping.
Proof. exact quiescent_no_stopping. Qed.
Print Assumptions C11_quiescent_no_stopping.

(* sideways isolation at the level of channel operations (PubLts.v): closing a
   subscription, the exit of its goroutine, its removal from the publisher's
   table and a send to it that fails leave every sibling untouched; and a send
   fails only at a subscription that was closed *)
From KC Require Import PubLts PubLtsProps.
Theorem C11_lts_step_is_local : forall (E : Type) (p : cpub E) a p' i j, cstep p a = Some p' -> concerns E a = Some i -> i <> j ->
  nth_error (k_subs p') j = nth_error (k_subs p) j.
Proof. exact step_is_local. Qed.
Print Assumptions C11_lts_step_is_local.

Theorem C11_send_fails_only_when_closing : forall (E : Type) (p : cpub E) i p', cstep p (CSendFail i) = Some p' ->
  exists c, nth_error (k_subs p) i = Some c /\ c_phase c <> Open.
Proof. exact send_fails_only_when_closing. Qed.
Print Assumptions C11_send_fails_only_when_closing.

(* "each descendant's ... Events() channel is closed after any buffered events":
   when the publisher stops, everything its parent ever published has been
   picked up and distributed (nothing buffered in the parent's channel at the
   moment it closed is lost); a subscription in its table that never overflowed
   holds everything published since it subscribed up to the last event before
   the shutdown; the exit of a subscription's goroutine (which closes its
   channel) leaves what is buffered in place, and a consumer still receives it *)
Theorem C11_publisher_drains_before_shutdown : forall (E : Type) l (p : cpub E), crun cinit l = Some p ->
  k_down p = true -> k_seen p = k_all p /\ k_in p = [] /\ k_cur p = None.
Proof. exact publisher_drains_before_shutdown. Qed.
Print Assumptions C11_publisher_drains_before_shutdown.

Theorem C11_subscriber_holds_everything_at_shutdown : forall (E : Type) l (p : cpub E) i c, crun cinit l = Some p ->
  k_down p = true -> nth_error (k_subs p) i = Some c ->
  c_drops c = 0 -> c_failed c = 0 -> c_listed c = true ->
  held E c = skipn (c_from c) (k_all p).
Proof. exact subscriber_holds_everything_at_shutdown. Qed.
Print Assumptions C11_subscriber_holds_everything_at_shutdown.

Theorem C11_exit_keeps_buffer : forall (E : Type) (p : cpub E) i p' c, cstep p (CExit i) = Some p' ->
  nth_error (k_subs p) i = Some c ->
  exists c', nth_error (k_subs p') i = Some c' /\ c_queue c' = c_queue c /\ c_passed c' = c_passed c /\ c_phase c' = Closed.
Proof. exact exit_keeps_buffer. Qed.
Print Assumptions C11_exit_keeps_buffer.

Theorem C11_closed_channel_still_yields : forall (E : Type) (p : cpub E) i c e q,
  nth_error (k_subs p) i = Some c -> c_queue c = e :: q ->
  exists p', cstep p (CPop i) = Some p'.
Proof. exact closed_channel_still_yields. Qed.
Print Assumptions C11_closed_channel_still_yields.
