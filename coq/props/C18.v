(* C18 — filter combinators implement boolean and label-selector semantics.
   Property theorems only; each is closed by [exact <lemma>]. *)
From KC Require Import Base Filter FilterProps FilterSem.

(* for terms of any depth, Accept computes the declarative reading *)
Theorem C18_accept_sem : forall f o, accept f o = true <-> sem f o.
Proof. exact accept_sem. Qed.
Print Assumptions C18_accept_sem.

Theorem C18_null_accepts_all_rejects : forall o, accept FNull o = true /\ accept FAll o = false.
Proof. exact null_accepts_all_rejects. Qed.
Print Assumptions C18_null_accepts_all_rejects.

Theorem C18_not_is_negation : forall c o, accept (FNot c) o = negb (accept c o).
Proof. exact not_is_negation. Qed.
Print Assumptions C18_not_is_negation.

Theorem C18_and_is_conjunction : forall cs o,
  accept (FAnd cs) o = true <-> Forall (fun c => accept c o = true) cs.
Proof. exact and_is_conjunction. Qed.
Print Assumptions C18_and_is_conjunction.

Theorem C18_or_is_disjunction : forall cs o,
  accept (FOr cs) o = true <-> Exists (fun c => accept c o = true) cs.
Proof. exact or_is_disjunction. Qed.
Print Assumptions C18_or_is_disjunction.

Theorem C18_empty_and_accepts_empty_or_rejects : forall o,
  accept (FAnd []) o = true /\ accept (FOr []) o = false.
Proof. exact empty_and_accepts_empty_or_rejects. Qed.
Print Assumptions C18_empty_and_accepts_empty_or_rejects.

Theorem C18_nsname_spec : forall ids o,
  Forall id_in_contract ids ->
  (accept (mk_nsname ids) o = true <-> exists id, In id ids /\ id_matches id (key_of o)).
Proof. exact nsname_spec. Qed.
Print Assumptions C18_nsname_spec.

Theorem C18_labels_spec : forall m o,
  accept (mk_labels m) o = true <-> labels_subset m (o_labels o).
Proof. exact labels_spec. Qed.
Print Assumptions C18_labels_spec.

Theorem C18_label_selector_spec : forall s o,
  accept (mk_label_selector s) o = true <-> lsel_sem s (o_labels o).
Proof. exact label_selector_spec. Qed.
Print Assumptions C18_label_selector_spec.

(* non-vacuity: a depth-3 term and an object meeting the hypotheses *)
Example C18_nonvacuous :
  let o := {| o_id := 1%N; o_kind := KPod; o_ns := 1%N; o_nm := 2%N; o_rv := [49%N];
              o_labels := [(1%N, 1%N)]; o_spec := SPod 1%N |} in
  Forall id_in_contract [(1%N, 0%N)] /\
  accept (FAnd [FNot (FOr [FAll]); mk_nsname [(1%N, 0%N)]; mk_labels [(1%N, 1%N)]]) o = true.
Proof. split; [repeat constructor; intros [H _]; discriminate | reflexivity]. Qed.

(* nsname/nsname.go, the textual form of the identities NSName filters are
   built from (NSName.v): Parse and String are inverse exactly on names
   without '/', and Parse accepts exactly the strings with one '/' *)
From KC Require Import NSName.

Theorem C18_nsname_parse_string : forall a b, no_slash a -> no_slash b -> ns_parse (ns_string (a, b)) = Some (a, b).
Proof. exact parse_to_string. Qed.
Print Assumptions C18_nsname_parse_string.

Theorem C18_nsname_parse_sound : forall s a b,
  ns_parse s = Some (a, b) -> ns_string (a, b) = s /\ no_slash a /\ no_slash b.
Proof. exact parse_sound. Qed.
Print Assumptions C18_nsname_parse_sound.

Theorem C18_nsname_parse_accepts_iff : forall s, (exists n, ns_parse s = Some n) <-> slashes s = 1.
Proof. exact parse_accepts_iff. Qed.
Print Assumptions C18_nsname_parse_accepts_iff.

Theorem C18_nsname_string_injective : forall a b a' b',
  no_slash a -> no_slash b -> no_slash a' -> no_slash b' ->
  ns_string (a, b) = ns_string (a', b') -> (a, b) = (a', b').
Proof. exact ns_string_injective. Qed.
Print Assumptions C18_nsname_string_injective.
