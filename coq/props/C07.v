(* C07 — Refilter emits precisely the membership changes; nothing if nothing
   changes.  Property theorems only. *)
From KC Require Import Base Filter FilterProps Cache CacheSpec CacheProps CacheEvents FilterSub FilterSubProps RefilterDelta RootHop RefilterHop.

(* on a node whose cache is the f1-view of the parent content, Refilter(f2)
   leaves exactly the f2-view *)
Theorem C07_refilter_exact : forall f1 f2 plist,
  distinct_listing plist ->
  cache_eq (fst (do_sync (accept f2) (view f1 plist) plist)) (view f2 plist).
Proof. exact refilter_exact. Qed.
Print Assumptions C07_refilter_exact.

(* the events are an exact well-formed delta from the old view to the new *)
Theorem C07_refilter_events_exact : forall f1 f2 plist,
  let c1 := view f1 plist in
  replay c1 (snd (do_sync (accept f2) c1 plist)) = Some (fst (do_sync (accept f2) c1 plist)).
Proof. exact refilter_events_exact. Qed.
Print Assumptions C07_refilter_events_exact.

Theorem C07_refilter_no_change_no_event : forall f1 f2 plist,
  let c1 := view f1 plist in
  cache_eq (fst (do_sync (accept f2) c1 plist)) c1 -> snd (do_sync (accept f2) c1 plist) = [].
Proof. exact refilter_no_change_no_event. Qed.
Print Assumptions C07_refilter_no_change_no_event.

(* refiltering to an equal filter emits and changes nothing ... *)
Theorem C07_refilter_equal_noop : forall s f plist,
  fs_ready s = true -> fs_pwait s = false ->
  filters_equal (Some (fs_filter s)) (Some f) = true ->
  fs_step s (FRefilter f plist) = (s, []).
Proof. exact refilter_equal_noop. Qed.
Print Assumptions C07_refilter_equal_noop.

(* ... which is right because equal filters have the same view (C17) *)
Theorem C07_refilter_equal_same_view : forall f g plist,
  wf_filter f -> wf_filter g -> filters_equal (Some f) (Some g) = true -> view f plist = view g plist.
Proof. exact refilter_equal_same_view. Qed.
Print Assumptions C07_refilter_equal_same_view.

(* refiltering back to an earlier filter restores the earlier view *)
Theorem C07_refilter_roundtrip : forall f1 f2 plist,
  distinct_listing plist ->
  cache_eq (fst (do_sync (accept f1) (fst (do_sync (accept f2) (view f1 plist) plist)) plist)) (view f1 plist).
Proof. exact refilter_roundtrip. Qed.
Print Assumptions C07_refilter_roundtrip.

(* the statement itself, key by key: exactly one Delete for each cached object
   f2 rejects, exactly one Create for each parent object newly accepted, no
   event for objects that remain *)
Theorem C07_refilter_delta_per_key : forall f1 f2 plist k,
  distinct_listing plist ->
  kevs k (snd (do_sync (accept f2) (view f1 plist) plist)) =
  match entries_for k plist with
  | [e] => match accept f1 (e_obj e), accept f2 (e_obj e) with
           | true, false => [mk_event Delete (e_obj e)]
           | false, true => [mk_event Create (e_obj e)]
           | _, _ => []
           end
  | _ => []
  end.
Proof. exact refilter_delta_per_key. Qed.
Print Assumptions C07_refilter_delta_per_key.

(* KNOWN FINDING D13 (C07 side), as a theorem about the faithful hop: the
   delta above is what filterSubscription.run computes; distributeEvents then
   pushes it without waiting into a channel of [cap] = EventBufsiz slots.  When
   the reader of that channel does not run meanwhile, what is sent is the first
   [cap] events, and some object whose membership changed is not announced. *)
Theorem C07_refilter_delta_is_truncated_refuted : forall (f1 f2 : Filter.filter) (plist : list obj) (cap : nat),
  let delta := snd (do_sync (accept f2) (view f1 plist) plist) in
  cap < length delta ->
  exists k, kevs k delta <> [] /\ kevs k (sent cap delta) = [].
Proof. exact refilter_delta_is_truncated. Qed.
Print Assumptions C07_refilter_delta_is_truncated_refuted.

(* ... and nothing but the size of the batch is wrong *)
Theorem C07_refilter_delta_fits : forall (f1 f2 : Filter.filter) (plist : list obj) (cap : nat),
  let delta := snd (do_sync (accept f2) (view f1 plist) plist) in
  length delta <= cap -> sent cap delta = delta.
Proof. exact refilter_delta_fits. Qed.
Print Assumptions C07_refilter_delta_fits.
