(* ApiCall.v — the request protocol every blocking API call of the library
   follows, at the level of single channel operations.

     caller   resultch := make(chan T, 1)
              select {
              case <-lc.ShuttingDown(): return ErrNotRunning
              case reqch <- request:                     (unbuffered: a rendezvous with the actor's select)
              }
              return <-resultch                          (only for calls with a reply)

     actor    for { select {
              case request := <-reqch:  request.resultch <- serve(request)   (buffered 1: never blocks)
              ... its own work (events, timers) ...
              case err := <-lc.ShutdownRequest(): lc.ShutdownInitiated(err); return
              } }

   cache.go: sync / update / refilter / List / Get (with reply);
   publisher.go: Subscribe (with reply); subscription_filter.go: Refilter,
   watcher.go: reset (no reply), events (with reply).  Any number of callers,
   calling at any time, before, during and after the shutdown.

   Definitions only; ApiCallProps.v has the theorems (C12: "every API call
   returns ErrNotRunning or a result instead of blocking"). *)
From Coq Require Export List Arith Bool Lia.
Export ListNotations.

Inductive aphase :=
| AIdle                 (* in its select *)
| ABusy                 (* doing work of its own (an event, a timer, a nested call that returns) *)
| AServing (i : nat)    (* has taken caller i's request, has not replied yet *)
| AStopped.             (* ShutdownInitiated: ShuttingDown() is closed, run has returned *)

Inductive cphase :=
| CIdle                 (* not calling *)
| CSelect               (* blocked in the select *)
| CWait                 (* request handed over, blocked on resultch *)
| CGot                  (* the reply sits in resultch *)
| CRet                  (* returned a result *)
| CErr.                 (* returned ErrNotRunning *)

Record api := {
  a_actor : aphase;
  a_stopreq : bool;       (* a shutdown request is pending (Close, context, parent) *)
  a_callers : list cphase;
  a_reply : bool          (* the call waits for a reply (List, Get, sync, Subscribe...) or not (Refilter, reset) *)
}.

Definition ainit (n : nat) (reply : bool) : api :=
  {| a_actor := AIdle; a_stopreq := false; a_callers := repeat CIdle n; a_reply := reply |}.

Inductive aact :=
| XCall (i : nat)       (* caller i enters the call *)
| XAccept (i : nat)     (* rendezvous on reqch between caller i and the actor *)
| XReply                (* actor: request.resultch <- result *)
| XTake (i : nat)       (* caller i: <-resultch *)
| XSeeStop (i : nat)    (* caller i: case <-lc.ShuttingDown() *)
| XWork                 (* actor picks up work of its own *)
| XWorkDone             (* ... and returns to its select *)
| XStopReq              (* somebody requests the shutdown *)
| XActorStop            (* actor: case <-ShutdownRequest: ShutdownInitiated; return *)
| XAgain (i : nat).     (* caller i, having returned, gets ready to call again *)

Fixpoint set_nth (i : nat) (x : cphase) (l : list cphase) : list cphase :=
  match l, i with
  | [], _ => []
  | _ :: r, O => x :: r
  | c :: r, S i' => c :: set_nth i' x r
  end.

Definition with_actor (s : api) (a : aphase) : api :=
  {| a_actor := a; a_stopreq := a_stopreq s; a_callers := a_callers s; a_reply := a_reply s |}.
Definition with_caller (s : api) (i : nat) (c : cphase) : api :=
  {| a_actor := a_actor s; a_stopreq := a_stopreq s; a_callers := set_nth i c (a_callers s); a_reply := a_reply s |}.

Definition astep (s : api) (x : aact) : option api :=
  match x with
  | XCall i => match nth_error (a_callers s) i with
               | Some CIdle => Some (with_caller s i CSelect)
               | _ => None
               end
  | XAccept i => match nth_error (a_callers s) i, a_actor s with
                 | Some CSelect, AIdle =>
                     if a_reply s then Some (with_caller (with_actor s (AServing i)) i CWait)
                     else Some (with_caller (with_actor s ABusy) i CRet)   (* Refilter / reset: returns nil at once; the actor works on it *)
                 | _, _ => None
                 end
  | XReply => match a_actor s with
              | AServing i => Some (with_caller (with_actor s AIdle) i CGot)
              | _ => None
              end
  | XTake i => match nth_error (a_callers s) i with
               | Some CGot => Some (with_caller s i CRet)
               | _ => None
               end
  | XSeeStop i => match nth_error (a_callers s) i, a_actor s with
                  | Some CSelect, AStopped => Some (with_caller s i CErr)
                  | _, _ => None
                  end
  | XWork => match a_actor s with AIdle => Some (with_actor s ABusy) | _ => None end
  | XWorkDone => match a_actor s with ABusy => Some (with_actor s AIdle) | _ => None end
  | XStopReq => Some {| a_actor := a_actor s; a_stopreq := true; a_callers := a_callers s; a_reply := a_reply s |}
  | XActorStop => match a_actor s with
                  | AIdle => if a_stopreq s then Some (with_actor s AStopped) else None
                  | _ => None
                  end
  | XAgain i => match nth_error (a_callers s) i with
                | Some CRet | Some CErr => Some (with_caller s i CIdle)
                | _ => None
                end
  end.

Fixpoint arun (s : api) (l : list aact) : option api :=
  match l with
  | [] => Some s
  | x :: r => match astep s x with Some s' => arun s' r | None => None end
  end.

(* the steps that need nobody but the actor and caller i *)
Definition own_act (i : nat) (x : aact) : bool :=
  match x with
  | XAccept j | XTake j | XSeeStop j => Nat.eqb i j
  | XReply | XWorkDone | XActorStop => true
  | _ => false
  end.

Definition returned (c : cphase) : bool := match c with CRet | CErr => true | _ => false end.
Definition pending (c : cphase) : bool := match c with CSelect | CWait | CGot => true | _ => false end.
