(* RefilterHop.v — the delta of a Refilter behind the subscription's own event
   channel, as it is in the code (known finding D13, C07 side):
   filterSubscription.run computes the delta with cache.refilter and hands it
   to filterSubscription.distributeEvents, which pushes every event WITHOUT
   WAITING into outch (EventBufsiz slots).  RefilterDelta.v proves the delta
   that is computed is exact; here the channel is bounded and the statement
   "the subscriber is sent exactly one event for every membership change" is
   refuted for the schedule in which the reader of outch does not run while the
   batch is pushed: a key whose membership changed gets no event at all. *)
From Coq Require Import List Arith Bool ZArith Lia.
Import ListNotations.
From KC Require Import Base Filter Cache CacheSpec CacheProps CacheEvents FilterSub RootHop.

(* what is in outch after distributeEvents(delta), the channel empty before *)
Definition sent (cap : nat) (delta : list event) : list event := burst event cap [] delta.

Lemma sent_spec cap delta : sent cap delta = firstn cap delta.
Proof. unfold sent. rewrite burst_spec by (simpl; lia). simpl. rewrite Nat.sub_0_r. reflexivity. Qed.

Lemma kevs_mem k e l : In e l -> on_key k e = true -> kevs k l <> [].
Proof.
  intros Hin Hk Hnil. assert (H : In e (kevs k l)) by (unfold kevs; apply filter_In; split; assumption).
  rewrite Hnil in H. exact H.
Qed.

(* a batch with at most one event per key, cut after [cap]: the key of the
   first event that was cut has lost its only event *)
Lemma cut_loses_a_key (delta : list event) (cap : nat) :
  (forall k, length (kevs k delta) <= 1) ->
  cap < length delta ->
  exists k, kevs k delta <> [] /\ kevs k (firstn cap delta) = [].
Proof.
  intros Hone Hlen.
  destruct (skipn cap delta) as [|e rest] eqn:Hsk.
  { assert (H : length (skipn cap delta) = 0) by (rewrite Hsk; reflexivity). rewrite skipn_length in H. lia. }
  exists (key_of (ev_obj e)).
  assert (Hk : on_key (key_of (ev_obj e)) e = true) by (unfold on_key; apply keqb_refl).
  assert (Hsplit : delta = firstn cap delta ++ e :: rest) by (rewrite <- Hsk; symmetry; apply firstn_skipn).
  split.
  - apply (kevs_mem _ e); [|exact Hk]. rewrite Hsplit. apply in_or_app. right. left. reflexivity.
  - specialize (Hone (key_of (ev_obj e))). rewrite Hsplit, kevs_app, app_length in Hone.
    assert (Hr : 1 <= length (kevs (key_of (ev_obj e)) (e :: rest))).
    { unfold kevs. simpl. rewrite Hk. simpl. lia. }
    destruct (kevs (key_of (ev_obj e)) (firstn cap delta)); [reflexivity|cbn [length] in Hone; lia].
Qed.

(* D13 for Refilter: when the delta is larger than the channel, some object
   whose membership changed is not announced *)
Theorem refilter_delta_is_truncated (f1 f2 : Filter.filter) (plist : list obj) (cap : nat) :
  let delta := snd (do_sync (accept f2) (view f1 plist) plist) in
  cap < length delta ->
  exists k, kevs k delta <> [] /\ kevs k (sent cap delta) = [].
Proof.
  intros delta Hlen. rewrite sent_spec. apply cut_loses_a_key; [|exact Hlen].
  intros k. apply sync_at_most_one_event_per_key. unfold view. apply wf_do_sync, wf_nil.
Qed.

(* ... and what is sent is exact when the delta fits: nothing but the size of
   the batch is wrong *)
Theorem refilter_delta_fits (f1 f2 : Filter.filter) (plist : list obj) (cap : nat) :
  let delta := snd (do_sync (accept f2) (view f1 plist) plist) in
  length delta <= cap -> sent cap delta = delta.
Proof. intros delta Hlen. rewrite sent_spec. apply firstn_all2. exact Hlen. Qed.

(* non-vacuity, the harness scenario in miniature: a channel of 1, a Refilter
   from "accept nothing" to "accept everything" over two objects: two Creates
   are due, one is sent *)
Example refilter_hop_witness :
  let o1 := {| o_id := 1%N; o_kind := KPod; o_ns := 1%N; o_nm := 1%N; o_rv := [49%N]; o_labels := []; o_spec := SPod 0%N |} in
  let o2 := {| o_id := 2%N; o_kind := KPod; o_ns := 1%N; o_nm := 2%N; o_rv := [49%N]; o_labels := []; o_spec := SPod 0%N |} in
  let delta := snd (do_sync (accept FNull) (view FAll [o1; o2]) [o1; o2]) in
  length delta = 2 /\ length (sent 1 delta) = 1.
Proof. vm_compute. split; reflexivity. Qed.
