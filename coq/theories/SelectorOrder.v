(* SelectorOrder.v — known finding D14 as a theorem.
   filter.LabelSelector builds its labels.Selector with
   metav1.LabelSelectorAsSelector: the requirements of matchLabels (a Go map:
   iteration order differs from one build to the next) followed by those of
   matchExpressions, sorted BY KEY ONLY with sort.Sort — an unstable sort as
   soon as there are more than twelve elements.  Filter.v takes the result in
   the one order a stable sort gives (sort_reqs), which is what the code yields
   up to twelve requirements.  Here a build is ANY key-sorted arrangement of
   the same requirements — what an unstable sort may return — and the sentence
   "built twice from the same arguments compare equal" is refuted: two such
   builds that differ in the order of two requirements on the same key compare
   unequal (selectorFilter.Equals is reflect.DeepEqual), although they accept
   exactly the same objects — soundness is untouched. *)
From Coq Require Import List NArith Bool Permutation Sorted Lia.
Import ListNotations.
From KC Require Import Base Filter FilterProps.

Definition key_le (a b : req) : Prop := (r_key a <= r_key b)%N.

(* a possible result of LabelSelectorAsSelector on the requirements [input] *)
Definition possible_build (input rs : list req) : Prop :=
  Permutation input rs /\ StronglySorted key_le rs.

Lemma reqs_eqb_swap pre a b post :
  req_eqb a b = false -> reqs_eqb (pre ++ a :: b :: post) (pre ++ b :: a :: post) = false.
Proof.
  intros Hab. induction pre as [|x pre IH]; simpl.
  - rewrite Hab. reflexivity.
  - rewrite IH. apply andb_false_r.
Qed.

Lemma matches_swap ls pre (a b : req) post :
  forallb (fun r => req_matches r ls) (pre ++ a :: b :: post) =
  forallb (fun r => req_matches r ls) (pre ++ b :: a :: post).
Proof.
  rewrite !forallb_app. simpl. f_equal.
  destruct (req_matches a ls), (req_matches b ls); reflexivity.
Qed.

Lemma sorted_swap pre a b post :
  r_key a = r_key b ->
  StronglySorted key_le (pre ++ a :: b :: post) -> StronglySorted key_le (pre ++ b :: a :: post).
Proof.
  intros Hk. induction pre as [|x pre IH]; simpl; intros Hs.
  - inversion Hs as [|? ? Hs1 Ha]; subst. inversion Hs1 as [|? ? Hs2 Hb]; subst.
    inversion Ha as [|? ? Hab Ha']; subst.
    constructor.
    + constructor; [exact Hs2|]. rewrite Forall_forall in *. intros y Hy. unfold key_le in *.
      rewrite Hk. apply Hb. exact Hy.
    + constructor; [unfold key_le; rewrite Hk; apply N.le_refl|].
      rewrite Forall_forall in *. intros y Hy. unfold key_le in *. rewrite <- Hk. apply Ha'. exact Hy.
  - inversion Hs as [|? ? Hs1 Hx]; subst. constructor; [apply IH; exact Hs1|].
    rewrite Forall_forall in *. intros y Hy. apply Hx.
    apply in_app_or in Hy. apply in_or_app. destruct Hy as [Hy|Hy]; [left; exact Hy|right].
    simpl in *. tauto.
Qed.

(* D14: whenever a key-sorted build holds two different requirements on one
   key next to each other, the arrangement with the two exchanged is a build of
   the same input too, the two filters compare unequal, and they accept the
   same label sets *)
Theorem builds_of_one_selector_compare_unequal (input pre : list req) (a b : req) (post : list req) :
  r_key a = r_key b -> req_eqb a b = false ->
  possible_build input (pre ++ a :: b :: post) ->
  possible_build input (pre ++ b :: a :: post) /\
  feq (FSel (SelReqs (pre ++ a :: b :: post))) (FSel (SelReqs (pre ++ b :: a :: post))) = false /\
  forall ls, selector_matches (SelReqs (pre ++ a :: b :: post)) ls =
             selector_matches (SelReqs (pre ++ b :: a :: post)) ls.
Proof.
  intros Hk Hab [Hp Hs]. split; [split|split].
  - eapply Permutation_trans; [exact Hp|]. apply Permutation_app_head. apply perm_swap.
  - apply sorted_swap; assumption.
  - simpl. apply reqs_eqb_swap. exact Hab.
  - intros ls. simpl. apply matches_swap.
Qed.

(* non-vacuity: matchLabels {1:1} with matchExpressions [1 In (1 2)] — one key,
   two requirements; both orders are builds of the same selector *)
Example two_builds_witness :
  let a := {| r_key := 1%N; r_op := REquals; r_vals := [1%N] |} in
  let b := {| r_key := 1%N; r_op := RIn; r_vals := [1%N; 2%N] |} in
  possible_build [a; b] ([] ++ a :: b :: []) /\ r_key a = r_key b /\ req_eqb a b = false.
Proof.
  simpl. split; [split|split; reflexivity].
  - apply Permutation_refl.
  - repeat constructor; unfold key_le; simpl; lia.
Qed.
