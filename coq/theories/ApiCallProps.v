(* ApiCallProps.v — no API call of the request protocol (ApiCall.v) can be left
   blocked: from every reachable state, whatever the other callers do or do
   not do and whether or not a shutdown is requested or has happened, the
   steps of the actor and of the caller itself complete the call with a result
   or with ErrNotRunning.  A request that was accepted is always answered; once
   the actor has stopped a call can only end with ErrNotRunning. *)
From KC Require Import ApiCall.

Definition areach (n : nat) (reply : bool) (s : api) : Prop := exists l, arun (ainit n reply) l = Some s.

Lemma arun_app s l1 l2 : arun s (l1 ++ l2) = match arun s l1 with Some s' => arun s' l2 | None => None end.
Proof. revert s; induction l1 as [|x l1 IH]; intro s; simpl; [reflexivity|]. destruct (astep s x); [apply IH|reflexivity]. Qed.

Lemma nth_set_same l i x : i < length l -> nth_error (set_nth i x l) i = Some x.
Proof. revert i; induction l as [|c l IH]; intros i H; simpl in *; [lia|]. destruct i; simpl; [reflexivity|apply IH; lia]. Qed.

Lemma nth_set_other l i j x : i <> j -> nth_error (set_nth i x l) j = nth_error l j.
Proof.
  revert i j; induction l as [|c l IH]; intros i j H; simpl; [destruct i; reflexivity|].
  destruct i, j; simpl; try reflexivity; [congruence|apply IH; congruence].
Qed.

Lemma nth_some_lt (l : list cphase) i c : nth_error l i = Some c -> i < length l.
Proof. intro H. apply nth_error_Some. congruence. Qed.

Lemma length_set_nth l i x : length (set_nth i x l) = length l.
Proof. revert i; induction l as [|c l IH]; intro i; simpl; [destruct i; reflexivity|]. destruct i; simpl; [reflexivity|f_equal; apply IH]. Qed.

(* ---- invariant: a caller waits for a reply iff the actor is serving it ---- *)
Definition ainv (s : api) : Prop :=
  (forall i, nth_error (a_callers s) i = Some CWait -> a_actor s = AServing i) /\
  (forall i, a_actor s = AServing i -> nth_error (a_callers s) i = Some CWait).

Lemma ainv_init n r : ainv (ainit n r).
Proof.
  split; simpl.
  - intros i H. exfalso. apply nth_error_In in H. apply repeat_spec in H. discriminate.
  - intros i H. discriminate.
Qed.

Lemma ainv_step s x s' : ainv s -> astep s x = Some s' -> ainv s'.
Proof.
  intros [H1 H2] Hs. destruct x as [i|i| |i|i| | | | |i]; simpl in Hs.
  - (* XCall *)
    destruct (nth_error (a_callers s) i) as [[]|] eqn:Hn; try discriminate. inversion Hs; subst; clear Hs.
    split; simpl.
    + intros j Hj. destruct (Nat.eq_dec i j) as [->|Hne].
      * rewrite nth_set_same in Hj by (eapply nth_some_lt; eauto). discriminate.
      * rewrite nth_set_other in Hj by exact Hne. apply H1; exact Hj.
    + intros j Hj. destruct (Nat.eq_dec i j) as [->|Hne].
      * apply H2 in Hj. congruence.
      * rewrite nth_set_other by exact Hne. apply H2; exact Hj.
  - (* XAccept *)
    destruct (nth_error (a_callers s) i) as [[]|] eqn:Hn; try discriminate.
    destruct (a_actor s) eqn:Ha; try discriminate.
    destruct (a_reply s); inversion Hs; subst; clear Hs; split; simpl.
    + intros j Hj. destruct (Nat.eq_dec i j) as [->|Hne]; [reflexivity|].
      rewrite nth_set_other in Hj by exact Hne. apply H1 in Hj. congruence.
    + intros j Hj. inversion Hj; subst. apply nth_set_same. eapply nth_some_lt; eauto.
    + intros j Hj. destruct (Nat.eq_dec i j) as [->|Hne].
      * rewrite nth_set_same in Hj by (eapply nth_some_lt; eauto). discriminate.
      * rewrite nth_set_other in Hj by exact Hne. apply H1 in Hj. congruence.
    + intros j Hj. discriminate.
  - (* XReply *)
    destruct (a_actor s) as [| |i|] eqn:Ha; try discriminate. inversion Hs; subst; clear Hs.
    pose proof (H2 i eq_refl) as Hw. split; simpl.
    + intros j Hj. destruct (Nat.eq_dec i j) as [->|Hne].
      * rewrite nth_set_same in Hj by (eapply nth_some_lt; eauto). discriminate.
      * rewrite nth_set_other in Hj by exact Hne. apply H1 in Hj. inversion Hj. congruence.
    + intros j Hj. discriminate.
  - (* XTake *)
    destruct (nth_error (a_callers s) i) as [[]|] eqn:Hn; try discriminate. inversion Hs; subst; clear Hs.
    split; simpl.
    + intros j Hj. destruct (Nat.eq_dec i j) as [->|Hne].
      * rewrite nth_set_same in Hj by (eapply nth_some_lt; eauto). discriminate.
      * rewrite nth_set_other in Hj by exact Hne. apply H1; exact Hj.
    + intros j Hj. destruct (Nat.eq_dec i j) as [->|Hne].
      * apply H2 in Hj. congruence.
      * rewrite nth_set_other by exact Hne. apply H2; exact Hj.
  - (* XSeeStop *)
    destruct (nth_error (a_callers s) i) as [[]|] eqn:Hn; try discriminate.
    destruct (a_actor s) eqn:Ha; try discriminate. inversion Hs; subst; clear Hs.
    split; simpl.
    + intros j Hj. destruct (Nat.eq_dec i j) as [->|Hne].
      * rewrite nth_set_same in Hj by (eapply nth_some_lt; eauto). discriminate.
      * rewrite nth_set_other in Hj by exact Hne. apply H1 in Hj. discriminate.
    + intros j Hj. congruence.
  - (* XWork *)
    destruct (a_actor s) eqn:Ha; try discriminate. inversion Hs; subst; clear Hs.
    split; simpl; [intros j Hj; apply H1 in Hj; congruence|intros j Hj; discriminate].
  - (* XWorkDone *)
    destruct (a_actor s) eqn:Ha; try discriminate. inversion Hs; subst; clear Hs.
    split; simpl; [intros j Hj; apply H1 in Hj; congruence|intros j Hj; discriminate].
  - (* XStopReq *)
    inversion Hs; subst; clear Hs. split; simpl; assumption.
  - (* XActorStop *)
    destruct (a_actor s) eqn:Ha; try discriminate.
    destruct (a_stopreq s); [|discriminate]. inversion Hs; subst; clear Hs.
    split; simpl; [intros j Hj; apply H1 in Hj; congruence|intros j Hj; discriminate].
  - (* XAgain *)
    destruct (nth_error (a_callers s) i) as [[]|] eqn:Hn; try discriminate; inversion Hs; subst; clear Hs;
      (split; simpl;
       [intros j Hj; destruct (Nat.eq_dec i j) as [->|Hne];
        [rewrite nth_set_same in Hj by (eapply nth_some_lt; eauto); discriminate
        |rewrite nth_set_other in Hj by exact Hne; apply H1; exact Hj]
       |intros j Hj; destruct (Nat.eq_dec i j) as [->|Hne];
        [apply H2 in Hj; congruence|rewrite nth_set_other by exact Hne; apply H2; exact Hj]]).
Qed.

Lemma ainv_reach n r s : areach n r s -> ainv s.
Proof.
  intros [l Hl]. revert Hl. generalize (ainv_init n r). generalize (ainit n r).
  induction l as [|x l IH]; intros q Hq Hr; simpl in Hr.
  - inversion Hr; subst; exact Hq.
  - destruct (astep q x) as [q'|] eqn:Hs; [|discriminate]. eapply IH; [eapply ainv_step; eauto|exact Hr].
Qed.

(* a request that was accepted is being served — also when a shutdown has
   been requested meanwhile: the actor answers before it looks at anything else *)
Theorem accepted_request_is_served n r s i :
  areach n r s -> nth_error (a_callers s) i = Some CWait -> a_actor s = AServing i.
Proof. intros Hr. apply (ainv_reach n r s Hr). Qed.

(* ---- no call can be left blocked ---- *)
Definition completes (i : nat) (s : api) : Prop :=
  exists l s' c, Forall (fun x => own_act i x = true) l /\ arun s l = Some s' /\
                 nth_error (a_callers s') i = Some c /\ returned c = true.

Lemma own_refl i : Nat.eqb i i = true.
Proof. apply Nat.eqb_refl. Qed.

Lemma completes_prefix i s x s' : own_act i x = true -> astep s x = Some s' -> completes i s' -> completes i s.
Proof.
  intros Hx Hs (l & s'' & c & Hl & Hr & Hn & Hc). exists (x :: l), s'', c.
  split; [constructor; assumption|]. split; [simpl; rewrite Hs; exact Hr|]. split; assumption.
Qed.

Lemma completes_now i s c : nth_error (a_callers s) i = Some c -> returned c = true -> completes i s.
Proof. intros Hn Hc. exists [], s, c. split; [constructor|]. split; [reflexivity|]. split; assumption. Qed.

Lemma take_completes s i : nth_error (a_callers s) i = Some CGot -> completes i s.
Proof.
  intro Hn. pose proof (nth_some_lt _ _ _ Hn) as Hlt.
  eapply (completes_prefix i s (XTake i)); [simpl; apply own_refl|simpl; rewrite Hn; reflexivity|].
  eapply completes_now; [simpl; apply nth_set_same; exact Hlt|reflexivity].
Qed.

Lemma reply_completes s i : a_actor s = AServing i -> nth_error (a_callers s) i = Some CWait -> completes i s.
Proof.
  intros Ha Hn. pose proof (nth_some_lt _ _ _ Hn) as Hlt.
  eapply (completes_prefix i s XReply); [reflexivity|simpl; rewrite Ha; reflexivity|].
  apply take_completes. simpl. apply nth_set_same. exact Hlt.
Qed.

(* from the actor's select *)
Lemma completes_from_idle s i : a_actor s = AIdle -> nth_error (a_callers s) i = Some CSelect -> completes i s.
Proof.
  intros Ha Hn. pose proof (nth_some_lt _ _ _ Hn) as Hlt.
  destruct (a_reply s) eqn:Hr.
  - eapply (completes_prefix i s (XAccept i)); [simpl; apply own_refl|simpl; rewrite Hn, Ha, Hr; reflexivity|].
    apply reply_completes; [reflexivity|]. simpl. apply nth_set_same. exact Hlt.
  - eapply (completes_prefix i s (XAccept i)); [simpl; apply own_refl|simpl; rewrite Hn, Ha, Hr; reflexivity|].
    eapply completes_now; [simpl; apply nth_set_same; exact Hlt|reflexivity].
Qed.

Theorem api_call_never_blocks n r s i c :
  areach n r s -> nth_error (a_callers s) i = Some c -> pending c = true -> completes i s.
Proof.
  intros Hr Hn Hp. destruct (ainv_reach n r s Hr) as [H1 H2].
  pose proof (nth_some_lt _ _ _ Hn) as Hlt.
  destruct c; try discriminate.
  - (* in the select *)
    destruct (a_actor s) as [| |j|] eqn:Ha.
    + apply completes_from_idle; assumption.
    + eapply (completes_prefix i s XWorkDone); [reflexivity|simpl; rewrite Ha; reflexivity|].
      apply completes_from_idle; [reflexivity|exact Hn].
    + assert (Hj := H2 j eq_refl).
      assert (Hne : j <> i) by (intro; subst; congruence).
      eapply (completes_prefix i s XReply); [reflexivity|simpl; rewrite Ha; reflexivity|].
      apply completes_from_idle; [reflexivity|]. simpl. rewrite nth_set_other by exact Hne. exact Hn.
    + eapply (completes_prefix i s (XSeeStop i)); [simpl; apply own_refl|simpl; rewrite Hn, Ha; reflexivity|].
      eapply completes_now; [simpl; apply nth_set_same; exact Hlt|reflexivity].
  - (* waiting for the reply *)
    apply reply_completes; [apply H1; exact Hn|exact Hn].
  - (* the reply is there *)
    apply take_completes; exact Hn.
Qed.

(* ---- after the actor has stopped ---- *)
Lemma stopped_forever s x s' : a_actor s = AStopped -> astep s x = Some s' -> a_actor s' = AStopped.
Proof.
  intros Ha Hs. destruct x as [i|i| |i|i| | | | |i]; simpl in Hs; rewrite ?Ha in Hs; simpl in Hs;
    repeat match type of Hs with
           | match ?y with _ => _ end = Some _ => destruct y eqn:?; try discriminate
           end; try discriminate; inversion Hs; subst; simpl; first [assumption|reflexivity].
Qed.

(* a stopped actor accepts nothing: a call entered after (or caught by) the
   shutdown can only end with ErrNotRunning *)
Theorem stopped_actor_accepts_nothing s i : a_actor s = AStopped -> astep s (XAccept i) = None.
Proof. intro Ha. simpl. rewrite Ha. destruct (nth_error (a_callers s) i) as [[]|]; reflexivity. Qed.

Theorem call_after_stop_returns_error n r s i :
  areach n r s -> a_actor s = AStopped -> nth_error (a_callers s) i = Some CSelect ->
  exists s', astep s (XSeeStop i) = Some s' /\ nth_error (a_callers s') i = Some CErr.
Proof.
  intros _ Ha Hn. eexists. simpl. rewrite Hn, Ha. split; [reflexivity|].
  simpl. apply nth_set_same. eapply nth_some_lt; eauto.
Qed.

(* non-vacuity: three callers, one served, one in the select, a shutdown requested *)
Example areach_nontrivial :
  areach 3 true {| a_actor := AServing 0; a_stopreq := true; a_callers := [CWait; CSelect; CIdle]; a_reply := true |}.
Proof. exists [XCall 0; XCall 1; XAccept 0; XStopReq]. reflexivity. Qed.
