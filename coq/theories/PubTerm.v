(* PubTerm.v — goroutine-level model of the LIFETIME protocol between
   publisher.go:run, the subscriptions it created and the reaper goroutine
   that createSubscription starts for each of them:

     subscription.run   Open -> Closing (Close(), or the publisher shutting
                        down, or the reaper killing it) -> Closed (run has
                        returned: outch closed, Done() closed);
     reaper             waits for sub.Done() or the publisher's ShuttingDown();
                        in the second case it calls sub.Close() and waits for
                        sub.Done(); then it blocks on  s.unsubscribech <- sub
                        (an unbuffered channel: a rendezvous with
                        publisher.run) and returns;
     publisher.run      main loop: distributes events (each send succeeds or
                        fails, nothing else), serves Subscribe, receives from
                        unsubscribech and deletes the entry; when the parent's
                        Events() is closed: ShutdownInitiated, then the DRAIN
                        loop  for len(s.subscriptions) > 0 { <-s.unsubscribech },
                        then  <-s.parent.Done(), then ShutdownCompleted.

   The drain loop counts table entries, the reapers count themselves: the
   protocol is right only as long as "in the table" and "its reaper has not
   handed it back yet" are the same thing.  The step function takes a flag
   [prune]: with [prune = false] it is publisher.go as it stands; with
   [prune = true] a failed send also deletes the entry (a plausible-looking
   clean-up) — PubTermProps.v proves the protocol correct for the first and
   exhibits the stuck reaper for the second.

   Event contents are irrelevant here and are left out (PubLts.v has them).
   Definitions only. *)
From Coq Require Export List Arith Bool Lia.
Export ListNotations.

Inductive sphase := SOpen | SClosing | SClosed.
Inductive rphase := RWait | RHand | RExit.
Inductive pmode := MMain | MDrain | MWaitParent | MDone.

Record tsub := { t_phase : sphase; t_reaper : rphase; t_listed : bool }.

Record tpub := {
  t_mode : pmode;
  t_subs : list tsub;
  t_pclosed : bool;     (* the parent's Events() is closed *)
  t_pdone : bool        (* the parent's Done() is closed *)
}.

Definition tinit : tpub := {| t_mode := MMain; t_subs := []; t_pclosed := false; t_pdone := false |}.

Inductive tact :=
| TSubscribe            (* publisher.run: case resultch := <-s.subscribech (main loop only) *)
| TClose (i : nat)      (* Subscription.Close() by its user *)
| TSubExit (i : nat)    (* subscription.run returns: Done() closes *)
| TStopSee (i : nat)    (* the subscription's lifecycle: case <-stopch (the publisher's ShuttingDown()) *)
| TReapKill (i : nat)   (* reaper: case <-s.lc.ShuttingDown(): sub.Close() *)
| TReapSee (i : nat)    (* reaper: <-sub.Done() received; now blocked on unsubscribech <- sub *)
| TUnsub (i : nat)      (* rendezvous on unsubscribech: publisher deletes the entry, reaper returns *)
| TSendOk (i : nat)     (* distributeEvent: sub.send succeeded *)
| TSendFail (i : nat)   (* distributeEvent: sub.send returned ErrNotRunning *)
| TParentClose          (* parent closes Events() *)
| TParentDone           (* parent's Done() closes *)
| TPubDown              (* publisher.run: !ok -> ShutdownInitiated: ShuttingDown() is closed *)
| TDrainExit            (* the drain loop's condition len(s.subscriptions) > 0 is false *)
| TPubDone.             (* <-s.parent.Done() received; ShutdownCompleted *)

Fixpoint tupd (i : nat) (f : tsub -> tsub) (l : list tsub) : list tsub :=
  match l, i with
  | [], _ => []
  | c :: l', O => f c :: l'
  | c :: l', S i' => c :: tupd i' f l'
  end.

Definition with_subs (p : tpub) (l : list tsub) : tpub :=
  {| t_mode := t_mode p; t_subs := l; t_pclosed := t_pclosed p; t_pdone := t_pdone p |}.
Definition with_mode (p : tpub) (m : pmode) : tpub :=
  {| t_mode := m; t_subs := t_subs p; t_pclosed := t_pclosed p; t_pdone := t_pdone p |}.

Definition sp (ph : sphase) (c : tsub) : tsub := {| t_phase := ph; t_reaper := t_reaper c; t_listed := t_listed c |}.
Definition rp (r : rphase) (c : tsub) : tsub := {| t_phase := t_phase c; t_reaper := r; t_listed := t_listed c |}.
Definition unl (c : tsub) : tsub := {| t_phase := t_phase c; t_reaper := t_reaper c; t_listed := false |}.

Definition is_main (m : pmode) : bool := match m with MMain => true | _ => false end.
Definition receiving (m : pmode) : bool := match m with MMain | MDrain => true | _ => false end.

Definition tstep (prune : bool) (p : tpub) (a : tact) : option tpub :=
  match a with
  | TSubscribe =>
      if is_main (t_mode p)
      then Some (with_subs p (t_subs p ++ [{| t_phase := SOpen; t_reaper := RWait; t_listed := true |}]))
      else None
  | TClose i =>
      match nth_error (t_subs p) i with
      | Some c => match t_phase c with
                  | SOpen => Some (with_subs p (tupd i (sp SClosing) (t_subs p)))
                  | _ => None
                  end
      | None => None
      end
  | TSubExit i =>
      match nth_error (t_subs p) i with
      | Some c => match t_phase c with
                  | SClosing => Some (with_subs p (tupd i (sp SClosed) (t_subs p)))
                  | _ => None
                  end
      | None => None
      end
  | TStopSee i =>
      match nth_error (t_subs p) i with
      | Some c => match t_phase c with
                  | SOpen => if is_main (t_mode p) then None
                             else Some (with_subs p (tupd i (sp SClosing) (t_subs p)))
                  | _ => None
                  end
      | None => None
      end
  | TReapKill i =>
      match nth_error (t_subs p) i with
      | Some c => match t_reaper c, t_phase c with
                  | RWait, SOpen => if is_main (t_mode p) then None
                                    else Some (with_subs p (tupd i (sp SClosing) (t_subs p)))
                  | _, _ => None
                  end
      | None => None
      end
  | TReapSee i =>
      match nth_error (t_subs p) i with
      | Some c => match t_reaper c, t_phase c with
                  | RWait, SClosed => Some (with_subs p (tupd i (rp RHand) (t_subs p)))
                  | _, _ => None
                  end
      | None => None
      end
  | TUnsub i =>
      match nth_error (t_subs p) i with
      | Some c => match t_reaper c with
                  | RHand => if receiving (t_mode p)
                             then Some (with_subs p (tupd i (fun c => unl (rp RExit c)) (t_subs p)))
                             else None
                  | _ => None
                  end
      | None => None
      end
  | TSendOk i =>
      match nth_error (t_subs p) i with
      | Some c => if is_main (t_mode p) && t_listed c
                  then match t_phase c with SClosed => None | _ => Some p end
                  else None
      | None => None
      end
  | TSendFail i =>
      match nth_error (t_subs p) i with
      | Some c => if is_main (t_mode p) && t_listed c
                  then match t_phase c with
                       | SOpen => None
                       | _ => Some (if prune then with_subs p (tupd i unl (t_subs p)) else p)
                       end
                  else None
      | None => None
      end
  | TParentClose => if t_pclosed p then None
                    else Some {| t_mode := t_mode p; t_subs := t_subs p; t_pclosed := true; t_pdone := t_pdone p |}
  | TParentDone => if t_pclosed p && negb (t_pdone p)
                   then Some {| t_mode := t_mode p; t_subs := t_subs p; t_pclosed := true; t_pdone := true |}
                   else None
  | TPubDown => if is_main (t_mode p) && t_pclosed p
                then Some (with_mode p MDrain)
                else None
  | TDrainExit => match t_mode p with
                  | MDrain => if existsb t_listed (t_subs p) then None else Some (with_mode p MWaitParent)
                  | _ => None
                  end
  | TPubDone => match t_mode p with
                | MWaitParent => if t_pdone p then Some (with_mode p MDone) else None
                | _ => None
                end
  end.

Fixpoint trun (prune : bool) (p : tpub) (l : list tact) : option tpub :=
  match l with
  | [] => Some p
  | a :: l' => match tstep prune p a with Some p' => trun prune p' l' | None => None end
  end.

(* a reaper that can never finish: it is blocked on unsubscribech and the
   publisher will not receive from that channel again *)
Definition stuck_reaper (p : tpub) : Prop :=
  exists c, In c (t_subs p) /\ t_reaper c = RHand /\ receiving (t_mode p) = false.

(* every goroutine the publisher started has returned *)
Definition sub_finished (c : tsub) : bool :=
  match t_phase c, t_reaper c with SClosed, RExit => negb (t_listed c) | _, _ => false end.
Definition all_finished (p : tpub) : bool := forallb sub_finished (t_subs p).

(* the actions taken by the library's own goroutines once the parent has
   stopped: no user of any subscription has to do anything *)
Definition library_act (a : tact) : bool :=
  match a with
  | TStopSee _ | TSubExit _ | TReapKill _ | TReapSee _ | TUnsub _ | TPubDown | TDrainExit | TPubDone | TParentClose | TParentDone => true
  | _ => false
  end.

(* ---- the user's view, for the correspondence with the implementation ----
   The harness drives a real publisher with Subscribe / Close / Send / Stop and
   lets everything settle (virtual time) after each call; the model does the
   same: the user's step, then library steps until none is enabled. *)
Inductive uop := USubscribe | UClose (i : nat) | USend | UStop.

Definition lib_candidates (p : tpub) : list tact :=
  flat_map (fun i => [TStopSee i; TSubExit i; TReapKill i; TReapSee i; TUnsub i]) (seq 0 (length (t_subs p)))
  ++ [TPubDown; TDrainExit; TPubDone].

Fixpoint first_step (p : tpub) (l : list tact) : option tpub :=
  match l with
  | [] => None
  | a :: r => match tstep false p a with Some q => Some q | None => first_step p r end
  end.

Fixpoint settle (fuel : nat) (p : tpub) : tpub :=
  match fuel with
  | O => p
  | S f => match first_step p (lib_candidates p) with Some q => settle f q | None => p end
  end.

Definition fuel_for (p : tpub) : nat := 4 * length (t_subs p) + 4.

(* the call's result: Subscribe / Send succeed (true) or report ErrNotRunning *)
Definition ustep (p : tpub) (o : uop) : tpub * bool :=
  match o with
  | USubscribe => match tstep false p TSubscribe with Some q => (q, true) | None => (p, false) end
  | UClose i => match tstep false p (TClose i) with Some q => (q, true) | None => (p, true) end
  | USend => (p, negb (t_pclosed p))
  | UStop => let q := match tstep false p TParentClose with Some q => q | None => p end in
             (match tstep false q TParentDone with Some r => r | None => q end, true)
  end.

Definition sub_done (c : tsub) : bool := match t_phase c with SClosed => true | _ => false end.
Definition sub_live (c : tsub) : bool := negb (sub_finished c).
Definition pub_done (p : tpub) : bool := match t_mode p with MDone => true | _ => false end.

(* (result of the call, Done() of every subscription, Done() of the publisher,
    number of subscriptions that still own a goroutine) *)
Definition uview (p : tpub) (ok : bool) : bool * list bool * bool * nat :=
  (ok, map sub_done (t_subs p), pub_done p, length (filter sub_live (t_subs p))).

Fixpoint urun (p : tpub) (ops : list uop) : list (bool * list bool * bool * nat) :=
  match ops with
  | [] => []
  | o :: r => let '(q, ok) := ustep p o in
              let q' := settle (fuel_for q) q in
              uview q' ok :: urun q' r
  end.
