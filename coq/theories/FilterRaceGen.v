(* FilterRaceGen.v — C06, the racing case, for EVERY well-formed parent
   history.  FilterRaceProps.fsub_converges assumes that the entries a key
   takes never get older along the parent's history (hist_ok's tle); this file
   drops that hypothesis: the parent's events need only be well-formed deltas
   of the parent's own cache (C02: Create on an absent key, Update to a
   strictly newer version of the entry present, Delete of a present key), so
   an object may be deleted and re-created at a LOWER version.

   The invariant: relative to the parent's state pj at the child's consumption
   point, the child's entry is in step (the filter applied to pj), or AHEAD
   (an entry the parent takes somewhere in the stretch of events the child's
   last listing already reflected), or blank with such a stretch still
   pending.  When nothing is pending only "in step" is possible. *)
From KC Require Import Base Cache CacheSpec CacheProps FilterSub FilterSubProps FilterRace FilterRaceProps.

Definition ev_wf (p : pstate) (ev : event) : Prop :=
  match ev_ty ev with
  | Delete => p <> None /\ create_entry (ev_obj ev) <> None
  | Create => p = None /\ exists e, create_entry (ev_obj ev) = Some e
  | Update => exists c e, p = Some c /\ create_entry (ev_obj ev) = Some e /\ (e_ver c < e_ver e)%Z
  end.

Fixpoint hist_wf (p : pstate) (evs : list event) : Prop :=
  match evs with
  | [] => True
  | ev :: r => ev_wf p ev /\ hist_wf (papply p ev) r
  end.

(* the monotone histories of FilterRace are well-formed in this sense as soon
   as their updates are strictly newer than the entry they replace *)

Lemma update_commutes F p ev : ev_wf p ev -> update_spec F (fview F p) ev = fview F (papply p ev).
Proof.
  unfold ev_wf, update_spec, papply, fview. destruct (ev_ty ev) eqn:Hty.
  - intros [-> [e He]]. rewrite He. rewrite (create_entry_obj _ _ He). reflexivity.
  - intros [c [e [-> [He Hlt]]]]. rewrite He. rewrite (create_entry_obj _ _ He).
    destruct (F (e_obj c)).
    + apply Z.ltb_lt in Hlt. rewrite Hlt. reflexivity.
    + reflexivity.
  - intros [_ Hce]. destruct (create_entry (ev_obj ev)); [|contradiction].
    destruct p as [c|]; [destruct (F (e_obj c))|]; reflexivity.
Qed.

Lemma update_blank F p ev : ev_wf p ev -> update_spec F None ev = fview F (papply p ev).
Proof.
  unfold ev_wf, update_spec, papply, fview. destruct (ev_ty ev) eqn:Hty.
  - intros [_ [e He]]. rewrite He, (create_entry_obj _ _ He). reflexivity.
  - intros [c [e [_ [He _]]]]. rewrite He, (create_entry_obj _ _ He). reflexivity.
  - intros [_ Hce]. destruct (create_entry (ev_obj ev)); [reflexivity | contradiction].
Qed.

(* the event that makes the parent take entry c leaves a child that already
   holds c (from a listing ahead of it) unchanged *)
Lemma update_arrives F p ev c : ev_wf p ev -> papply p ev = Some c -> update_spec F (Some c) ev = Some c.
Proof.
  unfold ev_wf, update_spec, papply. destruct (ev_ty ev) eqn:Hty.
  - intros _ He. rewrite He. rewrite Z.ltb_irrefl. reflexivity.
  - intros _ He. rewrite He. rewrite Z.ltb_irrefl. reflexivity.
  - intros _ H. discriminate.
Qed.

(* any other Create/Update either brings the child in step or leaves it ahead *)
Lemma update_ahead F p ev c : ev_wf p ev -> ev_ty ev <> Delete ->
  update_spec F (Some c) ev = fview F (papply p ev) \/ update_spec F (Some c) ev = Some c.
Proof.
  unfold ev_wf, update_spec, papply, fview. destruct (ev_ty ev) eqn:Hty; intros H Hnd; try contradiction.
  - destruct H as [_ [e He]]. rewrite He, (create_entry_obj _ _ He).
    destruct (Z.ltb (e_ver c) (e_ver e)); [left | right]; reflexivity.
  - destruct H as [c0 [e [_ [He _]]]]. rewrite He, (create_entry_obj _ _ He).
    destruct (Z.ltb (e_ver c) (e_ver e)); [left | right]; reflexivity.
Qed.

Lemma update_delete F X p ev : ev_wf p ev -> ev_ty ev = Delete -> update_spec F X ev = None /\ papply p ev = None.
Proof.
  unfold ev_wf, update_spec, papply. intros H Hty. rewrite Hty in *. destruct H as [_ Hce].
  destruct (create_entry (ev_obj ev)); [split; reflexivity | contradiction].
Qed.

Lemma hist_wf_app a : forall p b, hist_wf p (a ++ b) <-> hist_wf p a /\ hist_wf (pfold p a) b.
Proof.
  induction a as [|ev a IH]; intros p b; simpl; [tauto|]. rewrite IH. tauto.
Qed.

(* sync_spec against the parent's listing of one key *)
Lemma sync_listing_none F' X : sync_spec F' X (plisting None) = None.
Proof. reflexivity. Qed.

Lemma sync_listing_some F' X e :
  sync_spec F' X (plisting (Some e)) =
  match X with
  | Some c => if Z.leb (e_ver e) (e_ver c) then (if F' (e_obj c) then Some c else None) else fview F' (Some e)
  | None => fview F' (Some e)
  end.
Proof.
  unfold sync_spec, plisting, fview, newest_accepted. simpl. rewrite Z.eqb_refl. simpl.
  destruct X as [c|]; [destruct (Z.leb (e_ver e) (e_ver c))|]; reflexivity.
Qed.

Definition in_step (s : rst) (pj : pstate) : Prop := r_cur s = fview (r_F s) pj.
Definition ahead (s : rst) (pj : pstate) : Prop :=
  exists a b c, r_pend s = a ++ b /\ a <> [] /\ pfold pj a = Some c /\ r_cur s = Some c /\ r_F s (e_obj c) = true.
Definition blank (s : rst) : Prop := r_cur s = None /\ r_pend s <> [].

Definition ginv (s : rst) : Prop :=
  exists pj,
    pfold pj (r_pend s) = r_P s /\
    hist_wf pj (r_pend s ++ r_fut s) /\
    (r_ready s = false -> r_cur s = None) /\
    (r_ready s = true -> in_step s pj \/ ahead s pj \/ blank s).

Lemma ginv_init F p0 hist : hist_wf p0 hist -> ginv (rinit F p0 hist).
Proof.
  intros H. exists p0. simpl. repeat split; auto. discriminate.
Qed.

Lemma ginv_step s o s' : ginv s -> rstep s o = Some s' -> ginv s'.
Proof.
  intros [pj [Hp [Hw [Hnr Hr]]]] Hs. destruct s as [cur F rd pend fut P top].
  unfold in_step, ahead, blank in *. simpl in *.
  destruct o as [|F' d]; simpl in Hs.
  - (* the child consumes an event *)
    destruct pend as [|ev r].
    + destruct fut as [|ev f]; [discriminate|]. injection Hs as <-. simpl in *. subst pj.
      destruct Hw as [Hev Hf].
      exists (papply P ev). unfold in_step, ahead, blank; simpl. repeat split; auto.
      * intros Hrd. subst rd. apply Hnr. reflexivity.
      * intros Hrd. subst rd. left.
        destruct (Hr eq_refl) as [H1|[[a [b [c [Hab [Hne _]]]]]|[_ Hne]]].
        -- rewrite H1. apply update_commutes, Hev.
        -- destruct a; [contradiction | discriminate].
        -- contradiction.
    + injection Hs as <-. simpl in *. destruct Hw as [Hev Hrest].
      exists (papply pj ev). unfold in_step, ahead, blank; simpl. split; [exact Hp|]. split; [exact Hrest|]. split.
      * intros Hrd. subst rd. apply Hnr. reflexivity.
      * intros Hrd. subst rd.
        destruct (Hr eq_refl) as [H1|[[a [b [c [Hab [Hne [Hpa [Hc HF]]]]]]]|[Hc Hne]]].
        -- left. rewrite H1. apply update_commutes, Hev.
        -- destruct a as [|ev0 a']; [contradiction|]. simpl in Hab. injection Hab as <- Hr'. simpl in Hpa. subst cur.
           destruct a' as [|ev1 a''].
           ++ (* this very event makes the parent take c *)
              simpl in Hpa. left. rewrite (update_arrives F pj ev c Hev Hpa), Hpa. unfold fview. rewrite HF. reflexivity.
           ++ destruct (ev_ty ev) eqn:Hty.
              ** destruct (update_ahead F pj ev c Hev) as [H|H]; [rewrite Hty; discriminate| |].
                 --- left. exact H.
                 --- right. left. exists (ev1 :: a''), b, c. rewrite H. repeat split; auto. discriminate.
              ** destruct (update_ahead F pj ev c Hev) as [H|H]; [rewrite Hty; discriminate| |].
                 --- left. exact H.
                 --- right. left. exists (ev1 :: a''), b, c. rewrite H. repeat split; auto. discriminate.
              ** destruct (update_delete F (Some c) pj ev Hev Hty) as [Hu _]. right. right. rewrite Hu.
                 split; [reflexivity|]. rewrite Hr'. discriminate.
        -- left. subst cur. apply update_blank, Hev.
  - (* the child lists the parent, d events further on, under F' and syncs *)
    injection Hs as <-. simpl.
    exists pj. unfold in_step, ahead, blank; simpl.
    assert (Hp' : pfold pj (pend ++ firstn d fut) = pfold P (firstn d fut)) by (rewrite pfold_app, Hp; reflexivity).
    split; [exact Hp'|]. split; [rewrite <- app_assoc, firstn_skipn; exact Hw|]. split; [discriminate|]. intros _.
    set (P' := pfold P (firstn d fut)) in *. set (pend' := pend ++ firstn d fut) in *.
    assert (Hold : cur = None \/ exists c, cur = Some c /\ rd = true).
    { destruct cur as [c|]; [right; exists c; split; [reflexivity|] | left; reflexivity].
      destruct rd; [reflexivity|]. specialize (Hnr eq_refl). discriminate. }
    destruct P' as [e|] eqn:HP'.
    + rewrite sync_listing_some.
      assert (Hfresh : forall V, V = fview F' (Some e) ->
                (V = fview F' pj \/ (exists a b c, pend' = a ++ b /\ a <> [] /\ pfold pj a = Some c /\ V = Some c /\ F' (e_obj c) = true) \/ (V = None /\ pend' <> []))).
      { intros V HV. destruct pend' as [|x l] eqn:Hpe.
        - left. simpl in Hp'. rewrite Hp'. exact HV.
        - unfold fview in HV. destruct (F' (e_obj e)) eqn:HFe.
          + right. left. exists (x :: l), [], e. rewrite app_nil_r. repeat split; auto. discriminate.
          + right. right. split; [exact HV | discriminate]. }
      destruct Hold as [-> | [c [-> Hrd]]]; [apply Hfresh; reflexivity|].
      destruct (Z.leb (e_ver e) (e_ver c)) eqn:Hle; [|apply Hfresh; reflexivity].
      subst rd. destruct (Hr eq_refl) as [H1|[[a [b [c' [Hab [Hne [Hpa [Hc HF]]]]]]]|[Hc _]]]; [| |discriminate].
      * (* in step: the parent held c at the child's consumption point *)
        assert (Hpj : pj = Some c).
        { unfold fview in H1. destruct pj as [x|]; [|discriminate]. destruct (F (e_obj x)); [|discriminate]. injection H1 as ->. reflexivity. }
        destruct (F' (e_obj c)) eqn:HFc.
        -- left. rewrite Hpj. unfold fview. rewrite HFc. reflexivity.
        -- destruct pend' as [|x l] eqn:Hpe.
           ++ left. rewrite Hpj. unfold fview. rewrite HFc. reflexivity.
           ++ right. right. split; [reflexivity | discriminate].
      * injection Hc as <-. destruct (F' (e_obj c)) eqn:HFc.
        -- right. left. exists a, (b ++ firstn d fut), c. unfold pend'. rewrite Hab, app_assoc. repeat split; auto.
        -- right. right. split; [reflexivity|]. unfold pend'. rewrite Hab. destruct a; [contradiction | discriminate].
    + rewrite sync_listing_none. destruct pend' as [|x l] eqn:Hpe.
      * left. simpl in Hp'. rewrite Hp'. reflexivity.
      * right. right. split; [reflexivity | discriminate].
Qed.

Theorem ginv_reachable F p0 hist l s :
  hist_wf p0 hist -> rrun (rinit F p0 hist) l = Some s -> ginv s.
Proof.
  intros Hh.
  assert (H : forall s0, ginv s0 -> rrun s0 l = Some s -> ginv s).
  { induction l as [|o l IH]; intros s0 Hi Hr; simpl in Hr.
    - injection Hr as <-. exact Hi.
    - destruct (rstep s0 o) as [s1|] eqn:Hs; [|discriminate]. eapply IH; [|exact Hr]. eapply ginv_step; eassumption. }
  apply H, ginv_init, Hh.
Qed.

(* C06, the racing case, in full: for EVERY well-formed parent history (objects
   may be deleted and re-created at lower versions), every interleaving of
   consuming parent events with listings of the parent any number of events
   ahead under any new filter: once the child is ready and the stale events
   have drained, its cache is the most recently set filter applied to the
   parent's cache *)
Theorem fsub_converges_general F p0 hist l s :
  hist_wf p0 hist -> rrun (rinit F p0 hist) l = Some s ->
  r_ready s = true -> r_pend s = [] ->
  r_cur s = fview (r_F s) (r_P s).
Proof.
  intros Hh Hr Hrd Hpe. destruct (ginv_reachable F p0 hist l s Hh Hr) as [pj [Hp [_ [_ Hmain]]]].
  rewrite Hpe in Hp. simpl in Hp. subst pj.
  destruct (Hmain Hrd) as [H|[[a [b [c [Hab [Hne _]]]]]|[_ Hne]]].
  - exact H.
  - rewrite Hpe in Hab. destruct a; [contradiction | discriminate].
  - contradiction.
Qed.

Theorem fsub_converges_general_to_final F p0 hist l s :
  hist_wf p0 hist -> rrun (rinit F p0 hist) l = Some s ->
  r_ready s = true -> consumed_all s ->
  r_cur s = fview (r_F s) (pfold p0 hist).
Proof.
  intros Hh Hr Hrd [Hp Hf].
  rewrite (fsub_converges_general F p0 hist l s Hh Hr Hrd Hp). f_equal.
  assert (H : forall s0 pj, pfold pj (r_pend s0) = r_P s0 -> rrun s0 l = Some s ->
              pfold (r_P s) (r_fut s) = pfold (r_P s0) (r_fut s0)).
  { clear. induction l as [|o l IH]; intros s0 pj Hpj Hr; simpl in Hr.
    - injection Hr as <-. reflexivity.
    - destruct (rstep s0 o) as [s1|] eqn:Hs; [|discriminate].
      destruct (parent_final_step s0 o s1 pj Hs Hpj) as [pj' [Hpj' Heq]].
      rewrite (IH s1 pj' Hpj' Hr). exact Heq. }
  specialize (H (rinit F p0 hist) p0 eq_refl Hr). simpl in H. rewrite Hf in H. simpl in H. exact H.
Qed.

(* non-vacuity, and a history FilterRace.hist_ok excludes: the object is
   deleted and re-created at a LOWER version (5, deleted, 3); the child lists
   the parent under a new filter when it is all three events ahead, and then
   replays the stale events *)
Example lower_version_recreate :
  let hist := [mk_event Create (o1 1 [53%N] [(1%N, 1%N)]);     (* a@5 *)
               mk_event Delete (o1 1 [53%N] [(1%N, 1%N)]);     (* deleted *)
               mk_event Create (o1 3 [51%N] [])] in            (* re-created @3 *)
  hist_wf None hist /\ ~ hist_ok None None hist /\
  exists s, rrun (rinit (fun _ => true) None hist)
                 [RSyncOp (fun _ => true) 1; REvent; RSyncOp (fun _ => true) 2; REvent; REvent] = Some s /\
            r_ready s = true /\ consumed_all s /\
            option_map (fun e => o_id (e_obj e)) (r_cur s) = Some 3%N.
Proof.
  simpl. split; [|split].
  - repeat split; try discriminate; try (eexists; reflexivity).
  - intros [_ [_ [[_ [e [He Ht]]] _]]]. vm_compute in He. injection He as <-. vm_compute in Ht.
    destruct Ht as [Ht|Ht]; [discriminate Ht | discriminate Ht].
  - eexists. split; [vm_compute; reflexivity|]. vm_compute. repeat split; reflexivity.
Qed.
