(* LifecycleProps.v — theorems about Lifecycle.v (C11, C12). *)
From KC Require Import Lifecycle.

Lemma set_nth_length i x l : length (set_nth i x l) = length l.
Proof. revert i. induction l as [|y l IH]; intros i; destruct i; simpl; auto. Qed.

Lemma nth_set_nth_same i x l d : i < length l -> nth i (set_nth i x l) d = x.
Proof. revert i. induction l as [|y l IH]; intros i H; destruct i; simpl in *; try lia; auto. apply IH. lia. Qed.

Lemma nth_set_nth_other i j x l d : i <> j -> nth j (set_nth i x l) d = nth j l d.
Proof.
  revert i j. induction l as [|y l IH]; intros i j H; destruct i, j; simpl; auto; try congruence.
Qed.

Lemma state_set_same t i x : i < nnodes t -> state_of (set_state t i x) i = x.
Proof. intros H. unfold state_of, set_state; simpl. apply nth_set_nth_same. exact H. Qed.

Lemma state_set_other t i j x : i <> j -> state_of (set_state t i x) j = state_of t j.
Proof. intros H. unfold state_of, set_state; simpl. apply nth_set_nth_other. exact H. Qed.

Lemma nnodes_set t i x : nnodes (set_state t i x) = nnodes t.
Proof. unfold nnodes, set_state; simpl. apply set_nth_length. Qed.

Lemma parent_set t i x j : parent_of (set_state t i x) j = parent_of t j.
Proof. reflexivity. Qed.

Lemma lstep_parents t a t' : lstep t a = Some t' -> parents t' = parents t /\ nnodes t' = nnodes t.
Proof.
  destruct a as [i|i|i]; simpl; destruct (Nat.ltb i (nnodes t)); try discriminate.
  - destruct (state_of t i); intros [= <-]; auto using nnodes_set.
  - destruct (state_of t i); try discriminate. destruct (parent_of t i) as [p|]; try discriminate.
    destruct (state_of t p); try discriminate; intros [= <-]; auto using nnodes_set.
  - destruct (state_of t i); try discriminate. destruct (children_done t i); try discriminate.
    intros [= <-]; auto using nnodes_set.
Qed.

(* ------------------------------------------------------------------ *)
(* C11: shutdown never travels up or sideways                           *)

(* i is r or a descendant of r *)
Inductive below (t : ltree) (r : nat) : nat -> Prop :=
| below_refl : below t r r
| below_step : forall i p, parent_of t i = Some p -> below t r p -> below t r i.

Lemma below_parents t t' r i : parents t' = parents t -> below t r i -> below t' r i.
Proof.
  intros Hp H. induction H as [|i p Hpar _ IH]; [constructor|].
  eapply below_step; [|exact IH]. unfold parent_of in *. rewrite Hp. exact Hpar.
Qed.

Definition closed_in (l : list lact) (c : nat) : Prop := In (LClose c) l.

(* every node that is not running is in the subtree of a node that was closed *)
Definition blame (t : ltree) (l : list lact) : Prop :=
  forall i, i < nnodes t -> state_of t i <> LRun -> exists c, closed_in l c /\ below t c i.

Lemma blame_step t l a t' :
  well_formed t -> blame t l -> lstep t a = Some t' -> blame t' (l ++ [a]).
Proof.
  intros [_ Hwf] Hb Hs. destruct (lstep_parents _ _ _ Hs) as [Hp Hn].
  assert (Hold : forall i, i < nnodes t -> state_of t i <> LRun -> exists c, closed_in (l ++ [a]) c /\ below t' c i).
  { intros i Hi Hst. destruct (Hb i Hi Hst) as [c [Hc Hbl]]. exists c. split.
    - unfold closed_in. apply in_or_app. left. exact Hc.
    - eapply below_parents; [exact Hp | exact Hbl]. }
  intros i Hi Hst. rewrite Hn in Hi.
  destruct a as [k|k|k]; simpl in Hs; destruct (Nat.ltb_spec k (nnodes t)) as [Hk|]; try discriminate.
  - destruct (state_of t k) eqn:Hsk; injection Hs as <-; try (apply Hold; assumption).
    destruct (Nat.eq_dec i k) as [->|Hne].
    + exists k. split; [apply in_or_app; right; left; reflexivity | constructor].
    + rewrite state_set_other in Hst by congruence. apply Hold; assumption.
  - destruct (state_of t k) eqn:Hsk; try discriminate.
    destruct (parent_of t k) as [p|] eqn:Hpk; try discriminate.
    destruct (state_of t p) eqn:Hsp; try discriminate; injection Hs as <-;
      (destruct (Nat.eq_dec i k) as [->|Hne];
       [ assert (Hp' : exists c, closed_in (l ++ [LPropagate k]) c /\ below (set_state t k LStopping) c p);
         [ assert (Hplt : p < nnodes t) by (pose proof (Hwf k p Hpk); lia);
           apply Hold; [exact Hplt | rewrite Hsp; discriminate]
         | destruct Hp' as [c [Hc Hbl]]; exists c; split; [exact Hc | eapply below_step; [exact Hpk | exact Hbl]] ]
       | rewrite state_set_other in Hst by congruence; apply Hold; assumption ]).
  - destruct (state_of t k) eqn:Hsk; try discriminate. destruct (children_done t k); try discriminate.
    injection Hs as <-. destruct (Nat.eq_dec i k) as [->|Hne].
    + apply Hold; [exact Hk | rewrite Hsk; discriminate].
    + rewrite state_set_other in Hst by congruence. apply Hold; assumption.
Qed.

Lemma wf_step t a t' : well_formed t -> lstep t a = Some t' -> well_formed t'.
Proof.
  intros [Hl Hw] Hs. destruct (lstep_parents _ _ _ Hs) as [Hp Hn]. split.
  - unfold nnodes in Hn. rewrite Hp, Hn. exact Hl.
  - intros i p. unfold parent_of. rewrite Hp. apply Hw.
Qed.

Theorem close_affects_subtree_only t l t' :
  well_formed t -> all_running t -> lrun t l = Some t' ->
  forall i, i < nnodes t' -> state_of t' i <> LRun -> exists c, In (LClose c) l /\ below t' c i.
Proof.
  intros Hwf Hall Hr.
  assert (H : forall pre t0, well_formed t0 -> blame t0 pre -> lrun t0 l = Some t' -> blame t' (pre ++ l)).
  { clear Hwf Hall Hr. induction l as [|a l IH]; intros pre t0 Hw Hb Hr0; simpl in Hr0.
    - injection Hr0 as <-. rewrite app_nil_r. exact Hb.
    - destruct (lstep t0 a) as [t1|] eqn:Hs; [|discriminate].
      replace (pre ++ a :: l) with ((pre ++ [a]) ++ l) by (rewrite <- app_assoc; reflexivity).
      apply (IH _ t1); [eapply wf_step; eassumption | eapply blame_step; eassumption | exact Hr0]. }
  assert (H0 : blame t []).
  { intros i Hi Hst. exfalso. apply Hst, Hall, Hi. }
  exact (H [] t Hwf H0 Hr).
Qed.

(* ------------------------------------------------------------------ *)
(* C11 / C12: shutdown completes                                        *)

Definition wsum (l : list lstate) : nat :=
  fold_right (fun s acc => match s with LRun => 2 | LStopping => 1 | LDoneS => 0 end + acc) 0 l.

Lemma wsum_set i x l : i < length l ->
  wsum (set_nth i x l) + match nth i l LDoneS with LRun => 2 | LStopping => 1 | LDoneS => 0 end =
  wsum l + match x with LRun => 2 | LStopping => 1 | LDoneS => 0 end.
Proof.
  revert i. induction l as [|y l IH]; intros i H; simpl in H; [lia|].
  destruct i; simpl.
  - lia.
  - specialize (IH i ltac:(lia)). lia.
Qed.

(* every internal step strictly decreases the measure: no run of internal
   steps is longer than twice the number of nodes *)
Theorem shutdown_measure_decreases t i t' :
  (lstep t (LPropagate i) = Some t' \/ lstep t (LFinish i) = Some t') -> lmeasure t' < lmeasure t.
Proof.
  assert (Hm : forall x, lmeasure x = wsum (states x)) by reflexivity. rewrite !Hm. clear Hm.
  intros [Hs|Hs]; simpl in Hs;
    destruct (Nat.ltb_spec i (nnodes t)) as [Hk|]; try discriminate.
  - destruct (state_of t i) eqn:Hsi; try discriminate. destruct (parent_of t i) as [p|]; try discriminate.
    destruct (state_of t p); try discriminate; injection Hs as <-; simpl;
      pose proof (wsum_set i LStopping (states t) Hk) as H; unfold state_of in Hsi; rewrite Hsi in H; lia.
  - destruct (state_of t i) eqn:Hsi; try discriminate. destruct (children_done t i); try discriminate.
    injection Hs as <-. simpl.
    pose proof (wsum_set i LDoneS (states t) Hk) as H. unfold state_of in Hsi. rewrite Hsi in H. lia.
Qed.

Lemma quiescent_spec t : lquiescent t = true ->
  forall i, i < nnodes t -> lstep t (LPropagate i) = None /\ lstep t (LFinish i) = None.
Proof.
  unfold lquiescent. rewrite forallb_forall. intros H i Hi.
  specialize (H i ltac:(apply in_seq; lia)).
  destruct (lstep t (LPropagate i)); [discriminate|]. destruct (lstep t (LFinish i)); [discriminate|]. auto.
Qed.

Lemma children_done_false t i : children_done t i = false ->
  exists j, j < nnodes t /\ parent_of t j = Some i /\ state_of t j <> LDoneS.
Proof.
  unfold children_done. intros H.
  assert (Hex : exists j, In j (seq 0 (nnodes t)) /\
      (match parent_of t j with
       | Some p => if Nat.eqb p i then lstate_eqb (state_of t j) LDoneS else true
       | None => true end) = false).
  { induction (seq 0 (nnodes t)) as [|x l IH]; simpl in H; [discriminate|].
    apply andb_false_iff in H. destruct H as [H|H].
    - exists x. split; [left; reflexivity | exact H].
    - destruct (IH H) as [j [Hin Hj]]. exists j. split; [right; exact Hin | exact Hj]. }
  destruct Hex as [j [Hin Hj]]. apply in_seq in Hin. exists j. split; [lia|].
  destruct (parent_of t j) as [p|]; [|discriminate].
  destruct (Nat.eqb_spec p i) as [Heq|]; [subst p|discriminate].
  split; [reflexivity|]. intros Hd. rewrite Hd in Hj. discriminate.
Qed.

(* in a quiescent state no component is half-way: none is Stopping *)
Theorem quiescent_no_stopping t :
  well_formed t -> lquiescent t = true -> forall i, i < nnodes t -> state_of t i <> LStopping.
Proof.
  intros [Hlen Hwf] Hq.
  assert (H : forall k i, nnodes t - i <= k -> i < nnodes t -> state_of t i <> LStopping).
  { induction k as [|k IH]; intros i Hk Hi Hst; [lia|].
    destruct (quiescent_spec t Hq i Hi) as [_ Hfin].
    simpl in Hfin. destruct (Nat.ltb_spec i (nnodes t)); [|lia]. rewrite Hst in Hfin.
    destruct (children_done t i) eqn:Hcd; [discriminate|].
    destruct (children_done_false t i Hcd) as [j [Hj [Hpj Hsj]]].
    pose proof (Hwf j i Hpj) as Hlt.
    assert (Hns : state_of t j <> LStopping) by (apply IH; lia).
    destruct (state_of t j) eqn:Hs; try contradiction.
    destruct (quiescent_spec t Hq j Hj) as [Hprop _].
    simpl in Hprop. destruct (Nat.ltb_spec j (nnodes t)); [|lia].
    rewrite Hs, Hpj, Hst in Hprop. discriminate. }
  intros i Hi. apply (H (nnodes t) i); lia.
Qed.

(* in a quiescent state, whoever is not running is done together with its
   whole subtree *)
Theorem quiescent_implies_subtree_done t r :
  well_formed t -> lquiescent t = true -> r < nnodes t -> state_of t r <> LRun ->
  forall i, i < nnodes t -> below t r i -> state_of t i = LDoneS.
Proof.
  intros Hwf Hq Hr Hsr i Hi Hb.
  pose proof (quiescent_no_stopping t Hwf Hq) as Hns.
  induction Hb as [|i p Hpar Hbp IH].
  - destruct (state_of t r) eqn:Hs; [contradiction | exfalso; eapply Hns; eassumption | reflexivity].
  - destruct Hwf as [Hlen Hwf']. pose proof (Hwf' i p Hpar) as Hlt.
    assert (Hp : state_of t p = LDoneS) by (apply IH; lia).
    destruct (state_of t i) eqn:Hs; [| exfalso; eapply Hns; eassumption | reflexivity].
    destruct (quiescent_spec t Hq i Hi) as [Hprop _].
    simpl in Hprop. destruct (Nat.ltb_spec i (nnodes t)); [|lia].
    rewrite Hs, Hpar, Hp in Hprop. discriminate.
Qed.

(* non-vacuity: a controller with a clone, a filtered clone below it and two
   subscriptions; closing the clone stops its subtree only *)
Example close_clone_example :
  done_after_close [None; Some 0; Some 1; Some 1; Some 0] 1 = [false; true; true; true; false].
Proof. vm_compute. reflexivity. Qed.
