(* PipelineProps.v — theorems about Pipeline.v (C05, C10). *)
From KC Require Import Pipeline.

Section Props.
  Variable E : Type.
  Notation sub := (sub E).
  Notation pub := (pub E).

  Lemma subseq_refl (l : list E) : subseq l l.
  Proof. induction l; constructor; assumption. Qed.

  Lemma subseq_app_r (a b c : list E) : subseq a b -> subseq a (b ++ c).
  Proof. induction 1; simpl; constructor; assumption. Qed.

  Lemma subseq_snoc (a b : list E) x : subseq a b -> subseq (a ++ [x]) (b ++ [x]).
  Proof.
    induction 1 as [l|y l1 l2 H IH|y l1 l2 H IH]; simpl.
    - induction l; simpl; [apply subseq_refl | constructor; assumption].
    - constructor. exact IH.
    - constructor. exact IH.
  Qed.

  Lemma skipn_snoc (k : nat) (l : list E) x : k <= length l -> skipn k (l ++ [x]) = skipn k l ++ [x].
  Proof. intros H. rewrite skipn_app. replace (k - length l) with 0 by lia. reflexivity. Qed.

  (* what the publisher has published as far as a subscription is concerned:
     everything, or everything up to the moment the subscription was closed *)
  Definition visible (seen : list E) (s : sub) : list E :=
    match s_closed s with None => seen | Some k => firstn k seen end.

  (* the invariant of one subscription w.r.t. what its publisher has published *)
  Definition edge_inv (seen : list E) (s : sub) : Prop :=
    (forall k, s_closed s = Some k -> k <= length seen) /\
    s_from s <= length (visible seen s) /\
    length (s_queue s) <= s_cap s /\
    subseq (s_passed s ++ s_queue s) (skipn (s_from s) (visible seen s)) /\
    (s_drops s = 0 -> s_passed s ++ s_queue s = skipn (s_from s) (visible seen s)).

  Lemma firstn_app_le (k : nat) (l : list E) x : k <= length l -> firstn k (l ++ [x]) = firstn k l.
  Proof. intros H. rewrite firstn_app. replace (k - length l) with 0 by lia. simpl. apply app_nil_r. Qed.

  Lemma edge_inv_push seen s e : edge_inv seen s -> edge_inv (seen ++ [e]) (push e s).
  Proof.
    intros [Hk [Hf [Hc [Hs Hd]]]]. unfold push, visible in *.
    destruct (s_closed s) as [k|] eqn:Hcl.
    - (* closed: nothing changes, and what it may see does not grow *)
      assert (Hkl : k <= length seen) by (apply Hk; reflexivity).
      unfold edge_inv, visible. rewrite Hcl. rewrite firstn_app_le by exact Hkl.
      repeat split; try assumption. intros k' [= <-]. rewrite app_length. simpl. lia.
    - destruct (Nat.ltb_spec (length (s_queue s)) (s_cap s)) as [Hlt|Hge]; unfold edge_inv, visible; simpl.
      + repeat split.
        * intros k [=].
        * rewrite app_length. simpl. lia.
        * rewrite app_length. simpl. lia.
        * rewrite skipn_snoc by exact Hf. rewrite app_assoc. apply subseq_snoc, Hs.
        * intros H0. rewrite skipn_snoc by exact Hf. rewrite app_assoc, (Hd H0). reflexivity.
      + repeat split.
        * intros k [=].
        * rewrite app_length. simpl. lia.
        * exact Hc.
        * rewrite skipn_snoc by exact Hf. apply subseq_app_r, Hs.
        * intros H0. discriminate.
  Qed.

  Lemma edge_inv_pop seen s e s' : edge_inv seen s -> pop s = Some (e, s') -> edge_inv seen s'.
  Proof.
    intros [Hk [Hf [Hc [Hs Hd]]]] Hp. unfold pop in Hp.
    destruct (s_queue s) as [|x q] eqn:Hq; [discriminate|]. injection Hp as <- <-.
    unfold edge_inv, visible in *; simpl. repeat split.
    - exact Hk.
    - exact Hf.
    - simpl in Hc. lia.
    - rewrite <- app_assoc. exact Hs.
    - intros H0. rewrite <- app_assoc. apply Hd, H0.
  Qed.

  Lemma edge_inv_close seen s : edge_inv seen s -> edge_inv seen (close_sub (length seen) s).
  Proof.
    intros H. unfold close_sub. destruct (s_closed s) as [k|] eqn:Hcl; [exact H|].
    destruct H as [Hk [Hf [Hc [Hs Hd]]]]. unfold edge_inv, visible in *. rewrite Hcl in *. simpl.
    rewrite firstn_all. repeat split; try assumption. intros k [= <-]. lia.
  Qed.

  Lemma close_nth_inv seen : forall i l, Forall (edge_inv seen) l -> Forall (edge_inv seen) (close_nth E (length seen) i l).
  Proof.
    induction i as [|i IH]; intros l H; destruct l as [|s l]; simpl; try constructor.
    - inversion H; subst. apply edge_inv_close. assumption.
    - inversion H; subst; assumption.
    - inversion H; subst; assumption.
    - inversion H; subst. apply IH. assumption.
  Qed.

  Definition pub_inv (p : pub) : Prop := Forall (edge_inv (p_seen p)) (p_subs p).

  Lemma read_nth_inv seen : forall i l, Forall (edge_inv seen) l -> Forall (edge_inv seen) (read_nth E i l).
  Proof.
    induction i as [|i IH]; intros l H; destruct l as [|s l]; simpl; try constructor.
    - inversion H as [|? ? Hs Hl]; subst. destruct (pop s) as [[e s']|] eqn:Hp.
      + constructor; [eapply edge_inv_pop; eassumption | exact Hl].
      + exact H.
    - inversion H; subst; assumption.
    - inversion H; subst. apply IH. assumption.
  Qed.

  Lemma pub_inv_step p a : pub_inv p -> pub_inv (pstep p a).
  Proof.
    intros H. destruct a as [e|cap|i|i]; unfold pub_inv in *; simpl.
    - rewrite Forall_forall in *. intros s Hs. apply in_map_iff in Hs. destruct Hs as [s0 [<- Hin]].
      apply edge_inv_push, H, Hin.
    - apply Forall_app. split; [exact H|]. constructor; [|constructor].
      unfold edge_inv, visible; simpl. repeat split; try lia.
      + intros k [=].
      + rewrite skipn_all. constructor.
      + intros _. rewrite skipn_all. reflexivity.
    - apply read_nth_inv, H.
    - apply close_nth_inv, H.
  Qed.

  (* C05 / C10, one publisher, any number of subscriptions, every sequence of
     publications, subscriptions and reads *)
  Theorem edge_invariant (l : list (pact E)) : pub_inv (prun l).
  Proof.
    unfold prun. assert (H : forall p, pub_inv p -> pub_inv (fold_left pstep l p)).
    { induction l as [|a l IH]; intros p Hp; [exact Hp|]. simpl. apply IH, pub_inv_step, Hp. }
    apply H. constructor.
  Qed.

  (* no duplicate, omission or reordering while nothing was dropped *)
  Corollary subscriber_sees_exact_suffix (l : list (pact E)) (s : sub) :
    In s (p_subs (prun l)) -> s_drops s = 0 ->
    s_passed s ++ s_queue s = expected_suffix (s_from s) (visible (p_seen (prun l)) s).
  Proof.
    intros Hin Hd. pose proof (edge_invariant l) as H. unfold pub_inv in H. rewrite Forall_forall in H.
    destruct (H s Hin) as [_ [_ [_ [_ Heq]]]]. apply Heq, Hd.
  Qed.

  (* an open subscription: everything published since it was created *)
  Corollary open_subscriber_sees_exact_suffix (l : list (pact E)) (s : sub) :
    In s (p_subs (prun l)) -> s_drops s = 0 -> s_closed s = None ->
    s_passed s ++ s_queue s = expected_suffix (s_from s) (p_seen (prun l)).
  Proof.
    intros Hin Hd Ho. rewrite (subscriber_sees_exact_suffix l s Hin Hd). unfold visible. rewrite Ho. reflexivity.
  Qed.

  (* C05 / C11: closing one subscription changes nothing for the others, and
     the fan-out of later events still reaches every open one *)
  Theorem close_is_local (p : pub) i j d : i <> j ->
    nth j (p_subs (pclose i p)) d = nth j (p_subs p) d.
  Proof.
    unfold pclose; simpl. generalize (length (p_seen p)) as k. intros k. revert i j.
    induction (p_subs p) as [|s l IH]; intros i j Hne; destruct i, j; simpl; try reflexivity; try congruence.
    apply IH. congruence.
  Qed.

  Theorem publish_reaches_open_past_closed e (s : sub) :
    s_closed s = None -> length (s_queue s) < s_cap s -> s_queue (push e s) = s_queue s ++ [e].
  Proof.
    intros Ho Hlt. unfold push. rewrite Ho. destruct (Nat.ltb_spec (length (s_queue s)) (s_cap s)); [reflexivity|lia].
  Qed.

  Theorem publish_to_closed_is_noop e (s : sub) k : s_closed s = Some k -> push e s = s.
  Proof. intros H. unfold push. rewrite H. reflexivity. Qed.

  (* C10: whatever was dropped, what a consumer receives is an in-order
     subsequence of what was published to it *)
  Corollary stalled_receives_subsequence (l : list (pact E)) (s : sub) :
    In s (p_subs (prun l)) -> subseq (s_passed s ++ s_queue s) (expected_suffix (s_from s) (visible (p_seen (prun l)) s)).
  Proof.
    intros Hin. pose proof (edge_invariant l) as H. unfold pub_inv in H. rewrite Forall_forall in H.
    destruct (H s Hin) as [_ [_ [_ [Hs _]]]]. exact Hs.
  Qed.

  (* C10: a slow consumer is isolated — publishing treats every subscription
     independently of all the others (their capacity, backlog and reads) *)
  Theorem drop_is_local e (p : pub) i d :
    nth i (p_subs (publish e p)) d = match nth_error (p_subs p) i with
                                     | Some s => push e s
                                     | None => d
                                     end.
  Proof.
    unfold publish; simpl. revert i. induction (p_subs p) as [|s l IH]; intros i; destruct i; simpl; auto.
  Qed.

  (* publishing never blocks: it is a total function, and the queue of a full
     subscription is left unchanged (drop-newest) *)
  Theorem push_full_drops_newest e (s : sub) :
    length (s_queue s) >= s_cap s -> s_queue (push e s) = s_queue s /\ s_passed (push e s) = s_passed s.
  Proof.
    intros H. unfold push. destruct (s_closed s); [split; reflexivity|].
    destruct (Nat.ltb_spec (length (s_queue s)) (s_cap s)); [lia|]. split; reflexivity.
  Qed.

  Theorem push_below_capacity_keeps e (s : sub) :
    s_closed s = None ->
    length (s_queue s) < s_cap s -> s_queue (push e s) = s_queue s ++ [e] /\ s_drops (push e s) = s_drops s.
  Proof.
    intros Ho H. unfold push. rewrite Ho. destruct (Nat.ltb_spec (length (s_queue s)) (s_cap s)); [|lia]. split; reflexivity.
  Qed.

  (* a consumer that never reads holds exactly the first cap events published
     after its creation *)
  Definition never_read_inv (seen : list E) (s : sub) : Prop :=
    s_passed s = [] ->
    (forall k, s_closed s = Some k -> k <= length seen) /\
    s_from s <= length (visible seen s) /\ s_queue s = firstn (s_cap s) (skipn (s_from s) (visible seen s)).

  Lemma firstn_snoc_lt (c : nat) (l : list E) x : length l < c -> firstn c (l ++ [x]) = firstn c l ++ [x].
  Proof. intros H. rewrite firstn_app. replace (c - length l) with (S (c - length l - 1)) by lia. simpl.
         rewrite firstn_all2 by lia. rewrite firstn_nil. reflexivity. Qed.

  Lemma firstn_snoc_ge (c : nat) (l : list E) x : length l >= c -> firstn c (l ++ [x]) = firstn c l.
  Proof. intros H. rewrite firstn_app. replace (c - length l) with 0 by lia. simpl. apply app_nil_r. Qed.

  Lemma never_read_push seen s e : never_read_inv seen s -> never_read_inv (seen ++ [e]) (push e s).
  Proof.
    unfold never_read_inv, push, visible. intros H.
    destruct (s_closed s) as [k|] eqn:Hcl.
    - rewrite Hcl. intros Hp. destruct (H Hp) as [Hk [Hf Hq]].
      assert (Hkl : k <= length seen) by (apply Hk; reflexivity).
      rewrite firstn_app_le by exact Hkl. repeat split; try assumption.
      intros k' [= <-]. rewrite app_length. simpl. lia.
    - destruct (Nat.ltb_spec (length (s_queue s)) (s_cap s)) as [Hlt|Hge]; simpl; intros Hp;
        destruct (H Hp) as [_ [Hf Hq]]; (split; [intros k [=]|]); (split; [rewrite app_length; simpl; lia|]);
        rewrite skipn_snoc by exact Hf.
      + rewrite Hq in Hlt. rewrite firstn_length in Hlt.
        rewrite firstn_snoc_lt by lia. rewrite Hq. reflexivity.
      + rewrite Hq in Hge. rewrite firstn_length in Hge.
        rewrite firstn_snoc_ge by lia. exact Hq.
  Qed.

  Lemma never_read_close seen s : never_read_inv seen s -> never_read_inv seen (close_sub (length seen) s).
  Proof.
    unfold never_read_inv, close_sub, visible. intros H. destruct (s_closed s) as [k|] eqn:Hcl.
    - rewrite Hcl. exact H.
    - simpl. intros Hp. destruct (H Hp) as [_ [Hf Hq]]. rewrite firstn_all.
      repeat split; try assumption. intros k [= <-]. lia.
  Qed.

  Lemma never_read_pop seen s e s' : pop s = Some (e, s') -> never_read_inv seen s'.
  Proof.
    unfold pop. destruct (s_queue s); [discriminate|]. intros [= <- <-]. unfold never_read_inv; simpl.
    intros H. destruct (s_passed s); discriminate.
  Qed.

  Theorem never_reading_gets_first_cap (l : list (pact E)) :
    Forall (never_read_inv (p_seen (prun l))) (p_subs (prun l)).
  Proof.
    unfold prun.
    assert (H : forall p, Forall (never_read_inv (p_seen p)) (p_subs p) ->
                Forall (never_read_inv (p_seen (fold_left pstep l p))) (p_subs (fold_left pstep l p))).
    { induction l as [|a l IH]; intros p Hp; [exact Hp|]. simpl. apply IH.
      destruct a as [e|cap|i|i]; simpl.
      - rewrite Forall_forall in *. intros s Hs. apply in_map_iff in Hs. destruct Hs as [s0 [<- Hin]].
        apply never_read_push, Hp, Hin.
      - apply Forall_app. split; [exact Hp|]. constructor; [|constructor].
        unfold never_read_inv, visible; simpl. intros _. split; [intros k [=]|]. split; [lia|]. rewrite skipn_all. destruct cap; reflexivity.
      - clear IH. revert i. induction (p_subs p) as [|s l0 IH0]; intros i; destruct i; simpl; try constructor.
        + inversion Hp; subst. destruct (pop s) as [[e s']|] eqn:Hpop.
          * constructor; [eapply never_read_pop; eassumption | assumption].
          * constructor; assumption.
        + inversion Hp; subst; assumption.
        + inversion Hp; subst. apply IH0. assumption.
      - clear IH. revert i. induction (p_subs p) as [|s l0 IH0]; intros i; destruct i; simpl; try constructor.
        + inversion Hp; subst. apply never_read_close. assumption.
        + inversion Hp; subst; assumption.
        + inversion Hp; subst; assumption.
        + inversion Hp; subst. apply IH0. assumption. }
    apply H. constructor.
  Qed.

  (* C05: composition along a path of clones of any depth *)
  Lemma skipn_skipn' (a b : nat) (l : list E) : skipn a (skipn b l) = skipn (b + a) l.
  Proof.
    revert l. induction b as [|b IH]; intros l; simpl; [reflexivity|].
    destruct l as [|x l]; [rewrite skipn_nil; reflexivity | apply IH].
  Qed.

  Theorem leaf_receives_suffix : forall (levels : list (level E)) (seen : list E),
    chain_ok seen levels ->
    leaf_passed seen levels ++ inflight levels = skipn (total_skip levels) seen.
  Proof.
    induction levels as [|[[k passed] q] rest IH]; intros seen H; simpl.
    - rewrite app_nil_r. reflexivity.
    - simpl in H. destruct H as [Heq [Hk Hrest]].
      rewrite app_assoc, (IH passed Hrest).
      rewrite <- skipn_skipn', <- Heq.
      rewrite skipn_app.
      assert (Hlen : total_skip rest <= length passed).
      { clear -Hrest. revert passed Hrest. induction rest as [|[[k2 p2] q2] r IHr]; intros passed H; simpl; [lia|].
        simpl in H. destruct H as [Heq [Hk Hr]]. specialize (IHr p2 Hr).
        assert (length (p2 ++ q2) = length passed - k2) by (rewrite Heq; apply skipn_length).
        rewrite app_length in H. lia. }
      replace (total_skip rest - length passed) with 0 by lia. reflexivity.
  Qed.
End Props.
