(* CacheProps.v — lemmas about Cache.v / CacheSpec.v (C01, C02). *)
From KC Require Import Base Cache CacheSpec.
From Coq Require Import Permutation.

(* ------------------------------------------------------------------ *)
(* keys                                                                *)

Lemma keqb_eq a b : key_eqb a b = true <-> a = b.
Proof.
  destruct a as [a1 a2], b as [b1 b2]; unfold key_eqb; simpl.
  rewrite andb_true_iff, !N.eqb_eq. split; [intros [-> ->]; reflexivity | intros [= -> ->]; auto].
Qed.
Lemma keqb_refl a : key_eqb a a = true.
Proof. apply keqb_eq; reflexivity. Qed.
Lemma keqb_neq a b : key_eqb a b = false <-> a <> b.
Proof.
  split.
  - intros H Heq. apply keqb_eq in Heq. congruence.
  - intros H. destruct (key_eqb a b) eqn:E; [apply keqb_eq in E; contradiction | reflexivity].
Qed.
Lemma keqb_sym a b : key_eqb a b = key_eqb b a.
Proof.
  destruct (key_eqb a b) eqn:E.
  - apply keqb_eq in E. subst. symmetry. apply keqb_refl.
  - symmetry. apply keqb_neq. apply keqb_neq in E. congruence.
Qed.
Lemma keqb_spec a b : reflect (a = b) (key_eqb a b).
Proof. destruct (key_eqb a b) eqn:E; constructor; [apply keqb_eq, E | apply keqb_neq, E]. Qed.

Lemma mem_keyb_In k l : mem_keyb k l = true <-> In k l.
Proof.
  unfold mem_keyb. rewrite existsb_exists. split.
  - intros [y [Hy He]]. apply keqb_eq in He. subst; assumption.
  - intros H. exists k. split; [assumption | apply keqb_refl].
Qed.

(* ------------------------------------------------------------------ *)
(* the association list                                                *)

Lemma clookup_cset_same k e c : clookup k (cset k e c) = Some e.
Proof.
  induction c as [|[k' e'] c IH]; simpl.
  - rewrite keqb_refl. reflexivity.
  - destruct (keqb_spec k k') as [->|Hne]; simpl.
    + rewrite keqb_refl. reflexivity.
    + destruct (keqb_spec k k'); [contradiction | exact IH].
Qed.

Lemma clookup_cset_other k k' e c : k <> k' -> clookup k (cset k' e c) = clookup k c.
Proof.
  intros Hne. induction c as [|[k2 e2] c IH]; simpl.
  - destruct (keqb_spec k k'); [contradiction | reflexivity].
  - destruct (keqb_spec k' k2) as [->|Hne2]; simpl.
    + destruct (keqb_spec k k2); [contradiction | reflexivity].
    + destruct (keqb_spec k k2); [reflexivity | exact IH].
Qed.

Lemma clookup_cremove_same k c : clookup k (cremove k c) = None.
Proof.
  induction c as [|[k' e'] c IH]; simpl; [reflexivity|].
  destruct (keqb_spec k k') as [->|Hne]; simpl; [exact IH|].
  destruct (keqb_spec k k'); [contradiction | exact IH].
Qed.

Lemma clookup_cremove_other k k' c : k <> k' -> clookup k (cremove k' c) = clookup k c.
Proof.
  intros Hne. induction c as [|[k2 e2] c IH]; simpl; [reflexivity|].
  destruct (keqb_spec k' k2) as [->|Hne2]; simpl.
  - destruct (keqb_spec k k2); [contradiction | exact IH].
  - destruct (keqb_spec k k2); [reflexivity | exact IH].
Qed.

Lemma clookup_In k e c : clookup k c = Some e -> In (k, e) c.
Proof.
  induction c as [|[k' e'] c IH]; simpl; [discriminate|].
  destruct (keqb_spec k k') as [->|Hne].
  - intros [= ->]. left; reflexivity.
  - intros H. right. apply IH, H.
Qed.

Lemma clookup_None_notin k c : clookup k c = None <-> ~ In k (map fst c).
Proof.
  induction c as [|[k' e'] c IH]; simpl; [tauto|].
  destruct (keqb_spec k k') as [->|Hne].
  - split; [discriminate | intros H; exfalso; apply H; left; reflexivity].
  - rewrite IH. split; [intros H [Heq|Hin]; [congruence | contradiction] | intros H Hin; apply H; right; exact Hin].
Qed.

Lemma In_clookup k e c : NoDup (map fst c) -> In (k, e) c -> clookup k c = Some e.
Proof.
  induction c as [|[k' e'] c IH]; simpl; [tauto|].
  intros Hnd [Heq|Hin].
  - injection Heq as -> ->. rewrite keqb_refl. reflexivity.
  - inversion Hnd as [|? ? Hnotin Hnd']; subst.
    destruct (keqb_spec k k') as [->|Hne].
    + exfalso. apply Hnotin. apply (in_map fst) in Hin. exact Hin.
    + apply IH; assumption.
Qed.

Lemma keys_cset k e c :
  map fst (cset k e c) = if found (clookup k c) then map fst c else map fst c ++ [k].
Proof.
  induction c as [|[k' e'] c IH]; simpl; [reflexivity|].
  destruct (keqb_spec k k') as [->|Hne]; simpl; [reflexivity|].
  rewrite IH. destruct (found (clookup k c)); reflexivity.
Qed.

Lemma In_cremove x k c : In x (cremove k c) -> In x c /\ fst x <> k.
Proof.
  induction c as [|[k' e'] c IH]; simpl; [tauto|].
  destruct (keqb_spec k k') as [->|Hne].
  - intros H. destruct (IH H). split; [right; assumption | assumption].
  - intros [<-|H]; [split; [left; reflexivity | simpl; congruence]|].
    destruct (IH H). split; [right; assumption | assumption].
Qed.

Lemma keys_cremove_incl k c x : In x (map fst (cremove k c)) -> In x (map fst c).
Proof.
  intros H. apply in_map_iff in H. destruct H as [[k' e'] [<- Hin]].
  apply In_cremove in Hin. apply in_map_iff. exists (k', e'). tauto.
Qed.

Lemma NoDup_cremove k c : NoDup (map fst c) -> NoDup (map fst (cremove k c)).
Proof.
  induction c as [|[k' e'] c IH]; simpl; intros H; [constructor|].
  inversion H as [|? ? Hnotin Hnd]; subst.
  destruct (key_eqb k k'); [apply IH, Hnd|]. simpl. constructor; [|apply IH, Hnd].
  intros Hin. apply Hnotin. eapply keys_cremove_incl, Hin.
Qed.

Lemma cremove_notin k c : ~ In k (map fst c) -> cremove k c = c.
Proof.
  induction c as [|[k' e'] c IH]; simpl; intros H; [reflexivity|].
  destruct (keqb_spec k k') as [->|Hne]; [exfalso; apply H; left; reflexivity|].
  f_equal. apply IH. intros Hin. apply H. right. exact Hin.
Qed.

(* ------------------------------------------------------------------ *)
(* wf_cache is preserved                                               *)

Lemma wf_nil : wf_cache [].
Proof. split; constructor. Qed.

Lemma Forall_cset (P : key * entry -> Prop) k e (c : cache) : P (k, e) -> Forall P c -> Forall P (cset k e c).
Proof.
  intros Hp. induction 1 as [|[k' e'] c Hx Hc IH]; simpl; [repeat constructor; exact Hp|].
  destruct (key_eqb k k'); constructor; assumption.
Qed.

Lemma Forall_cremove (P : key * entry -> Prop) k (c : cache) : Forall P c -> Forall P (cremove k c).
Proof.
  induction 1 as [|[k' e'] c Hx Hc IH]; simpl; [constructor|].
  destruct (key_eqb k k'); [exact IH | constructor; assumption].
Qed.

Lemma NoDup_app_single (k : key) l : NoDup l -> ~ In k l -> NoDup (l ++ [k]).
Proof.
  induction l as [|x l IH]; simpl; intros Hnd Hnin; [repeat constructor; tauto|].
  inversion Hnd; subst. constructor.
  - rewrite in_app_iff. simpl. intros [H|[H|[]]]; [contradiction | subst; apply Hnin; left; reflexivity].
  - apply IH; [assumption | intros H; apply Hnin; right; exact H].
Qed.

Lemma wf_cset k e c : wf_cache c -> entry_ok (k, e) -> wf_cache (cset k e c).
Proof.
  intros [Hnd Hall] Hok. split.
  - rewrite keys_cset. destruct (clookup k c) eqn:Hl; simpl; [exact Hnd|].
    apply NoDup_app_single; [exact Hnd | apply clookup_None_notin, Hl].
  - apply Forall_cset; assumption.
Qed.

Lemma wf_cremove k c : wf_cache c -> wf_cache (cremove k c).
Proof. intros [Hnd Hall]. split; [apply NoDup_cremove, Hnd | apply Forall_cremove, Hall]. Qed.

Lemma create_entry_ok o e : create_entry o = Some e -> entry_ok (key_of o, e).
Proof.
  unfold create_entry, entry_ok. destruct (atoi (o_rv o)) eqn:Ha; [|discriminate].
  intros [= <-]. simpl. unfold create_entry. rewrite Ha. split; reflexivity.
Qed.

Lemma create_entry_obj o e : create_entry o = Some e -> e_obj e = o.
Proof. unfold create_entry. destruct (atoi (o_rv o)); [intros [= <-]; reflexivity | discriminate]. Qed.

Lemma wf_lookup_ok k e c : wf_cache c -> clookup k c = Some e -> entry_ok (k, e).
Proof.
  intros [_ Hall] Hl. apply clookup_In in Hl. rewrite Forall_forall in Hall. apply Hall, Hl.
Qed.

(* ------------------------------------------------------------------ *)
(* doUpdate                                                            *)

Lemma do_update_other F c ev k :
  k <> key_of (ev_obj ev) -> clookup k (fst (do_update F c ev)) = clookup k c.
Proof.
  intros Hne. unfold do_update.
  destruct (atoi (o_rv (ev_obj ev))) as [v|]; [|reflexivity].
  destruct (ev_ty ev).
  - destruct (clookup (key_of (ev_obj ev)) c) as [cu|].
    + destruct (Z.ltb (e_ver cu) v); [|reflexivity].
      destruct (F (ev_obj ev)); simpl; [apply clookup_cset_other | apply clookup_cremove_other]; exact Hne.
    + destruct (F (ev_obj ev)); simpl; [apply clookup_cset_other; exact Hne | reflexivity].
  - destruct (clookup (key_of (ev_obj ev)) c) as [cu|].
    + destruct (Z.ltb (e_ver cu) v); [|reflexivity].
      destruct (F (ev_obj ev)); simpl; [apply clookup_cset_other | apply clookup_cremove_other]; exact Hne.
    + destruct (F (ev_obj ev)); simpl; [apply clookup_cset_other; exact Hne | reflexivity].
  - destruct (clookup (key_of (ev_obj ev)) c); simpl; [apply clookup_cremove_other; exact Hne | reflexivity].
Qed.

Lemma do_update_same F c ev :
  clookup (key_of (ev_obj ev)) (fst (do_update F c ev)) =
  update_spec F (clookup (key_of (ev_obj ev)) c) ev.
Proof.
  unfold do_update, update_spec, create_entry.
  destruct (atoi (o_rv (ev_obj ev))) as [v|]; [|reflexivity].
  set (k := key_of (ev_obj ev)).
  destruct (ev_ty ev); simpl.
  - destruct (clookup k c) as [cu|] eqn:Hl.
    + destruct (Z.ltb (e_ver cu) v); [|simpl; exact Hl].
      destruct (F (ev_obj ev)); simpl; [apply clookup_cset_same | apply clookup_cremove_same].
    + destruct (F (ev_obj ev)); simpl; [apply clookup_cset_same | exact Hl].
  - destruct (clookup k c) as [cu|] eqn:Hl.
    + destruct (Z.ltb (e_ver cu) v); [|simpl; exact Hl].
      destruct (F (ev_obj ev)); simpl; [apply clookup_cset_same | apply clookup_cremove_same].
    + destruct (F (ev_obj ev)); simpl; [apply clookup_cset_same | exact Hl].
  - destruct (clookup k c) as [cu|] eqn:Hl; simpl; [apply clookup_cremove_same | exact Hl].
Qed.

(* C01, update: every key looks up exactly as the reference semantics says *)
Theorem update_refines_spec F c ev k :
  clookup k (fst (do_update F c ev)) =
  if key_eqb (key_of (ev_obj ev)) k then update_spec F (clookup k c) ev else clookup k c.
Proof.
  destruct (keqb_spec (key_of (ev_obj ev)) k) as [<-|Hne].
  - apply do_update_same.
  - apply do_update_other. congruence.
Qed.

Lemma wf_do_update F c ev : wf_cache c -> wf_cache (fst (do_update F c ev)).
Proof.
  intros Hwf. unfold do_update.
  destruct (atoi (o_rv (ev_obj ev))) as [v|] eqn:Ha; [|exact Hwf].
  assert (Hok : entry_ok (key_of (ev_obj ev), {| e_ver := v; e_obj := ev_obj ev |})).
  { apply create_entry_ok. unfold create_entry. rewrite Ha. reflexivity. }
  destruct (ev_ty ev).
  - destruct (clookup (key_of (ev_obj ev)) c) as [cu|].
    + destruct (Z.ltb (e_ver cu) v); [|exact Hwf].
      destruct (F (ev_obj ev)); simpl; [apply wf_cset; assumption | apply wf_cremove; assumption].
    + destruct (F (ev_obj ev)); simpl; [apply wf_cset; assumption | exact Hwf].
  - destruct (clookup (key_of (ev_obj ev)) c) as [cu|].
    + destruct (Z.ltb (e_ver cu) v); [|exact Hwf].
      destruct (F (ev_obj ev)); simpl; [apply wf_cset; assumption | apply wf_cremove; assumption].
    + destruct (F (ev_obj ev)); simpl; [apply wf_cset; assumption | exact Hwf].
  - destruct (clookup (key_of (ev_obj ev)) c); simpl; [apply wf_cremove; assumption | exact Hwf].
Qed.

(* C02, update: the events replay exactly to the new content *)
Theorem update_events_replay F c ev :
  replay c (snd (do_update F c ev)) = Some (fst (do_update F c ev)).
Proof.
  unfold do_update.
  destruct (atoi (o_rv (ev_obj ev))) as [v|] eqn:Ha; [|reflexivity].
  assert (Hce : create_entry (ev_obj ev) = Some {| e_ver := v; e_obj := ev_obj ev |}).
  { unfold create_entry. rewrite Ha. reflexivity. }
  destruct (ev_ty ev) eqn:Hty.
  - destruct (clookup (key_of (ev_obj ev)) c) as [cu|] eqn:Hl.
    + destruct (Z.ltb (e_ver cu) v) eqn:Hlt; [|reflexivity].
      destruct (F (ev_obj ev)); simpl; unfold apply_event; simpl; rewrite Hl, ?Hce; simpl; rewrite ?Hlt; reflexivity.
    + destruct (F (ev_obj ev)); simpl; [|reflexivity].
      unfold apply_event; simpl; rewrite Hl, Hce. reflexivity.
  - destruct (clookup (key_of (ev_obj ev)) c) as [cu|] eqn:Hl.
    + destruct (Z.ltb (e_ver cu) v) eqn:Hlt; [|reflexivity].
      destruct (F (ev_obj ev)); simpl; unfold apply_event; simpl; rewrite Hl, ?Hce; simpl; rewrite ?Hlt; reflexivity.
    + destruct (F (ev_obj ev)); simpl; [|reflexivity].
      unfold apply_event; simpl; rewrite Hl, Hce. reflexivity.
  - destruct (clookup (key_of (ev_obj ev)) c) as [cu|] eqn:Hl; simpl; [|reflexivity].
    unfold apply_event. rewrite Hty, Hl. reflexivity.
Qed.

(* ------------------------------------------------------------------ *)
(* doSync: projection of the loop on one key                           *)

Definition kst := (option entry * bool)%type.

Definition proj (k : key) (st : sstate) : kst :=
  (clookup k (s_items st), mem_keyb k (s_set st)).

Definition superseded (nv : option Z) (e : entry) : bool :=
  match nv with Some v => Z.ltb (e_ver e) v | None => false end.

Definition kstep (F : obj -> bool) (nv : option Z) (s : kst) (e : entry) : kst :=
  if superseded nv e then s else
  match fst s with
  | None => if F (e_obj e) then (Some e, true) else s
  | Some c => if F (e_obj e) && Z.ltb (e_ver c) (e_ver e) then (Some e, true)
              else if Z.leb (e_ver e) (e_ver c)
                   then (if F (e_obj c) then (fst s, true) else s)
                   else s
  end.

Lemma mem_keyb_cons_other k k' l : k <> k' -> mem_keyb k (k' :: l) = mem_keyb k l.
Proof. intros H. unfold mem_keyb. simpl. destruct (keqb_spec k k'); [contradiction | reflexivity]. Qed.
Lemma mem_keyb_cons_same k l : mem_keyb k (k :: l) = true.
Proof. unfold mem_keyb. simpl. rewrite keqb_refl. reflexivity. Qed.

Lemma proj_step_other F L st o k :
  key_of o <> k -> proj k (sync_step F L st o) = proj k st.
Proof.
  intros Hne. assert (Hne' : k <> key_of o) by congruence.
  unfold sync_step. destruct (create_entry o) as [e|]; [|reflexivity].
  destruct (match newest_ver (key_of o) L with Some v => Z.ltb (e_ver e) v | None => false end); [reflexivity|].
  destruct (clookup (key_of o) (s_items st)) as [c|].
  - destruct (F o && Z.ltb (e_ver c) (e_ver e)).
    + unfold proj; cbn [s_items s_set s_events]. rewrite clookup_cset_other, mem_keyb_cons_other by assumption. reflexivity.
    + destruct (Z.leb (e_ver e) (e_ver c)); [|reflexivity].
      destruct (F (e_obj c)); [|reflexivity].
      unfold proj; cbn [s_items s_set s_events]. rewrite mem_keyb_cons_other by assumption. reflexivity.
  - destruct (F o); [|reflexivity].
    unfold proj; cbn [s_items s_set s_events]. rewrite clookup_cset_other, mem_keyb_cons_other by assumption. reflexivity.
Qed.

Lemma proj_step_same F L st o e :
  create_entry o = Some e ->
  proj (key_of o) (sync_step F L st o) = kstep F (newest_ver (key_of o) L) (proj (key_of o) st) e.
Proof.
  intros Hce. pose proof (create_entry_obj _ _ Hce) as Hobj.
  unfold sync_step, kstep, superseded. rewrite Hce.
  destruct (match newest_ver (key_of o) L with Some v => Z.ltb (e_ver e) v | None => false end); [reflexivity|].
  unfold proj at 2. simpl fst. rewrite Hobj.
  destruct (clookup (key_of o) (s_items st)) as [c|] eqn:Hl.
  - destruct (F o && Z.ltb (e_ver c) (e_ver e)).
    + unfold proj; cbn [s_items s_set s_events]. rewrite clookup_cset_same, mem_keyb_cons_same. reflexivity.
    + destruct (Z.leb (e_ver e) (e_ver c)); [|unfold proj; rewrite Hl; reflexivity].
      destruct (F (e_obj c)); [|unfold proj; rewrite Hl; reflexivity].
      unfold proj; cbn [s_items s_set s_events]. rewrite Hl, mem_keyb_cons_same. reflexivity.
  - destruct (F o); [|unfold proj; rewrite Hl; reflexivity].
    unfold proj; cbn [s_items s_set s_events]. rewrite clookup_cset_same, mem_keyb_cons_same. reflexivity.
Qed.

Lemma proj_fold F L k l : forall st,
  proj k (fold_left (sync_step F L) l st) =
  fold_left (kstep F (newest_ver k L)) (entries_for k l) (proj k st).
Proof.
  induction l as [|o l IH]; intros st; [reflexivity|].
  simpl fold_left. rewrite IH. unfold entries_for. simpl flat_map. fold (entries_for k l).
  destruct (keqb_spec (key_of o) k) as [<-|Hne].
  - destruct (create_entry o) as [e|] eqn:Hce.
    + simpl. rewrite (proj_step_same F L st o e Hce). reflexivity.
    + simpl. unfold sync_step. rewrite Hce. reflexivity.
  - simpl. rewrite proj_step_other by exact Hne. reflexivity.
Qed.

Lemma prune_lookup k set items :
  clookup k (fst (prune set items)) = if mem_keyb k set then clookup k items else None.
Proof.
  induction items as [|[k' e'] items IH]; simpl.
  - destruct (mem_keyb k set); reflexivity.
  - destruct (prune set items) as [r evs] eqn:Hp. simpl in IH.
    destruct (mem_keyb k' set) eqn:Hm'; simpl.
    + destruct (keqb_spec k k') as [->|Hne].
      * rewrite Hm'. reflexivity.
      * exact IH.
    + destruct (keqb_spec k k') as [->|Hne].
      * rewrite Hm' in *. exact IH.
      * exact IH.
Qed.

Lemma newest_ver_max k l : newest_ver k l = max_ver (entries_for k l).
Proof.
  induction l as [|o l IH]; [reflexivity|].
  simpl newest_ver. unfold entries_for. simpl flat_map. fold (entries_for k l).
  destruct (key_eqb (key_of o) k); [|exact IH].
  destruct (create_entry o) as [e|]; [|exact IH].
  simpl. rewrite <- IH. reflexivity.
Qed.

Lemma max_ver_bound es v : max_ver es = Some v -> Forall (fun e => (e_ver e <= v)%Z) es.
Proof.
  revert v. induction es as [|e es IH]; intros v H; [constructor|].
  simpl in H. destruct (max_ver es) as [v'|] eqn:Hm.
  - injection H as <-. constructor; [lia|].
    specialize (IH v' eq_refl). eapply Forall_impl; [|exact IH]. simpl. intros; lia.
  - injection H as <-. constructor; [lia|]. destruct es; [constructor | simpl in Hm; destruct (max_ver es); discriminate].
Qed.

Lemma max_ver_attained es v : max_ver es = Some v -> existsb (fun e => Z.eqb (e_ver e) v) es = true.
Proof.
  revert v. induction es as [|e es IH]; intros v H; [discriminate|].
  simpl in H. simpl. destruct (max_ver es) as [v'|] eqn:Hm.
  - injection H as <-. destruct (Z.max_spec v' (e_ver e)) as [[Hlt ->]|[Hge ->]].
    + rewrite Z.eqb_refl. reflexivity.
    + rewrite (IH v' eq_refl). apply orb_true_r.
  - injection H as <-. rewrite Z.eqb_refl. reflexivity.
Qed.

Lemma max_ver_none es : max_ver es = None -> es = [].
Proof. destruct es as [|e es]; [reflexivity|]. simpl. destruct (max_ver es); discriminate. Qed.

(* the cached entry is at least as new as anything listed: it stays, and is
   in the working set iff the filter still accepts it *)
Lemma fold_caseA F vmax c es : forall inset,
  (vmax <= e_ver c)%Z -> Forall (fun e => (e_ver e <= vmax)%Z) es ->
  fold_left (kstep F (Some vmax)) es (Some c, inset) =
  (Some c, inset || (F (e_obj c) && existsb (fun e => Z.eqb (e_ver e) vmax) es)).
Proof.
  induction es as [|e es IH]; intros inset Hle Hall.
  - simpl. rewrite andb_false_r, orb_false_r. reflexivity.
  - inversion Hall as [|? ? He Hes]; subst. simpl fold_left.
    unfold kstep at 2. unfold superseded. simpl fst.
    destruct (Z.ltb_spec (e_ver e) vmax) as [Hlt|Hge].
    + rewrite IH by assumption. simpl existsb.
      destruct (Z.eqb_spec (e_ver e) vmax); [lia|]. reflexivity.
    + assert (Heq : e_ver e = vmax) by lia.
      destruct (Z.ltb_spec (e_ver c) (e_ver e)); [lia|]. rewrite andb_false_r.
      destruct (Z.leb_spec (e_ver e) (e_ver c)); [|lia].
      simpl existsb. destruct (Z.eqb_spec (e_ver e) vmax); [|contradiction]. simpl.
      destruct (F (e_obj c)) eqn:HF.
      * rewrite IH by assumption. simpl. rewrite !orb_true_r. reflexivity.
      * rewrite IH by assumption. simpl. rewrite !orb_false_r. reflexivity.
Qed.

(* nothing cached, or something older than the newest listed version: the
   first accepted entry at the newest version wins *)
Lemma fold_caseB F vmax es : forall cur inset,
  (match cur with Some c => (e_ver c < vmax)%Z | None => True end) ->
  Forall (fun e => (e_ver e <= vmax)%Z) es ->
  fold_left (kstep F (Some vmax)) es (cur, inset) =
  match newest_accepted F vmax es with
  | Some e => (Some e, true)
  | None => (cur, inset)
  end.
Proof.
  induction es as [|e es IH]; intros cur inset Hcur Hall; [reflexivity|].
  inversion Hall as [|? ? He Hes]; subst. simpl fold_left.
  unfold newest_accepted. simpl find. fold (newest_accepted F vmax es).
  unfold kstep at 2. unfold superseded. simpl fst.
  destruct (Z.ltb_spec (e_ver e) vmax) as [Hlt|Hge].
  - destruct (Z.eqb_spec (e_ver e) vmax); [lia|]. simpl. apply IH; assumption.
  - assert (Heq : e_ver e = vmax) by lia.
    destruct (Z.eqb_spec (e_ver e) vmax); [|contradiction]. simpl.
    destruct cur as [c|].
    + destruct (Z.ltb_spec (e_ver c) (e_ver e)); [|lia].
      destruct (F (e_obj e)) eqn:HF; simpl.
      * rewrite fold_caseA by (try lia; assumption). reflexivity.
      * destruct (Z.leb_spec (e_ver e) (e_ver c)); [lia|]. apply IH; assumption.
    + destruct (F (e_obj e)) eqn:HF; simpl.
      * rewrite fold_caseA by (try lia; assumption). reflexivity.
      * apply IH; assumption.
Qed.

Lemma newest_accepted_some F vmax es e :
  newest_accepted F vmax es = Some e -> In e es /\ e_ver e = vmax /\ F (e_obj e) = true.
Proof.
  unfold newest_accepted. intros H. apply find_some in H. destruct H as [Hin Hp].
  rewrite andb_true_iff, Z.eqb_eq in Hp. tauto.
Qed.

(* C01, sync: every key looks up exactly as the reference semantics says,
   for arbitrary lists (duplicates, malformed versions, empty) *)
Theorem sync_refines_spec F c l k :
  clookup k (fst (do_sync F c l)) = sync_spec F (clookup k c) (entries_for k l).
Proof.
  unfold do_sync.
  set (st := fold_left (sync_step F l) l {| s_items := c; s_set := []; s_events := [] |}).
  destruct (prune (s_set st) (s_items st)) as [r dels] eqn:Hp. simpl fst.
  replace r with (fst (prune (s_set st) (s_items st))) by (rewrite Hp; reflexivity).
  rewrite prune_lookup.
  pose proof (proj_fold F l k l {| s_items := c; s_set := []; s_events := [] |}) as Hproj.
  fold st in Hproj. unfold proj in Hproj. simpl in Hproj.
  change (mem_keyb k []) with false in Hproj.
  rewrite newest_ver_max in Hproj.
  unfold sync_spec.
  destruct (max_ver (entries_for k l)) as [vmax|] eqn:Hmax.
  - pose proof (max_ver_bound _ _ Hmax) as Hb.
    destruct (clookup k c) as [c0|] eqn:Hc0.
    + destruct (Z.leb_spec vmax (e_ver c0)) as [Hle|Hgt].
      * rewrite fold_caseA in Hproj by assumption.
        rewrite (max_ver_attained _ _ Hmax), andb_true_r in Hproj. simpl in Hproj.
        injection Hproj as -> ->. destruct (F (e_obj c0)); reflexivity.
      * rewrite fold_caseB in Hproj by assumption.
        destruct (newest_accepted F vmax (entries_for k l)) as [e|]; injection Hproj as -> ->; reflexivity.
    + rewrite fold_caseB in Hproj by (try exact I; assumption).
      destruct (newest_accepted F vmax (entries_for k l)) as [e|]; injection Hproj as -> ->; reflexivity.
  - apply max_ver_none in Hmax. rewrite Hmax in Hproj. simpl in Hproj.
    injection Hproj as -> ->. reflexivity.
Qed.

(* ------------------------------------------------------------------ *)
(* the Accept(nil) site is unreachable: doSync never panics            *)

Lemma sync_step_raw_ok F L st o : sync_step_raw F L st o = Ok (sync_step F L st o).
Proof.
  unfold sync_step_raw, sync_step.
  destruct (create_entry o) as [e|]; [|reflexivity].
  destruct (match newest_ver (key_of o) L with Some v => Z.ltb (e_ver e) v | None => false end); [reflexivity|].
  destruct (clookup (key_of o) (s_items st)) as [c|]; simpl.
  - rewrite andb_false_r.
    destruct (F o && Z.ltb (e_ver c) (e_ver e)); [reflexivity|].
    destruct (Z.leb (e_ver e) (e_ver c)); [|reflexivity].
    destruct (F (e_obj c)); reflexivity.
  - rewrite andb_true_r. destruct (F o); [reflexivity|]. reflexivity.
Qed.

Lemma sync_loop_raw_ok F L rest : forall st,
  sync_loop_raw F L st rest = Ok (fold_left (sync_step F L) rest st).
Proof.
  induction rest as [|o rest IH]; intros st; [reflexivity|].
  simpl. rewrite sync_step_raw_ok. apply IH.
Qed.

Theorem do_sync_raw_ok F c l : do_sync_raw F c l = Ok (do_sync F c l).
Proof.
  unfold do_sync_raw, do_sync. rewrite sync_loop_raw_ok.
  destruct (prune _ _); reflexivity.
Qed.

(* ------------------------------------------------------------------ *)
(* wf is preserved by doSync                                           *)

Lemma wf_sync_step F L st o : wf_cache (s_items st) -> wf_cache (s_items (sync_step F L st o)).
Proof.
  intros Hwf. unfold sync_step.
  destruct (create_entry o) as [e|] eqn:Hce; [|exact Hwf].
  destruct (match newest_ver (key_of o) L with Some v => Z.ltb (e_ver e) v | None => false end); [exact Hwf|].
  pose proof (create_entry_ok _ _ Hce) as Hok.
  destruct (clookup (key_of o) (s_items st)) as [c|].
  - destruct (F o && Z.ltb (e_ver c) (e_ver e)); [apply wf_cset; assumption|].
    destruct (Z.leb (e_ver e) (e_ver c)); [|exact Hwf].
    destruct (F (e_obj c)); exact Hwf.
  - destruct (F o); [apply wf_cset; assumption | exact Hwf].
Qed.

Lemma wf_sync_fold F L l : forall st, wf_cache (s_items st) -> wf_cache (s_items (fold_left (sync_step F L) l st)).
Proof.
  induction l as [|o l IH]; intros st H; [exact H|]. simpl. apply IH, wf_sync_step, H.
Qed.

Lemma prune_incl set items x : In x (fst (prune set items)) -> In x items.
Proof.
  induction items as [|[k e] items IH]; simpl; [tauto|].
  destruct (prune set items) as [r evs]. simpl in IH.
  destruct (mem_keyb k set); simpl; [intros [<-|H]; [left; reflexivity | right; apply IH, H] | intros H; right; apply IH, H].
Qed.

Lemma wf_prune set items : wf_cache items -> wf_cache (fst (prune set items)).
Proof.
  induction items as [|[k e] items IH]; simpl; intros Hwf; [exact Hwf|].
  destruct Hwf as [Hnd Hall]. inversion Hnd as [|? ? Hnotin Hnd']; subst. inversion Hall as [|? ? Hx Hall']; subst.
  specialize (IH (conj Hnd' Hall')).
  pose proof (prune_incl set items) as Hincl.
  destruct (prune set items) as [r evs]. simpl in *.
  destruct (mem_keyb k set); simpl; [|exact IH].
  destruct IH as [IH1 IH2]. split.
  - simpl. constructor; [|exact IH1]. intros Hin. apply Hnotin.
    apply in_map_iff in Hin. destruct Hin as [x [Hfx Hin]]. apply in_map_iff. exists x. split; [exact Hfx | apply Hincl, Hin].
  - constructor; assumption.
Qed.

Lemma wf_do_sync F c l : wf_cache c -> wf_cache (fst (do_sync F c l)).
Proof.
  intros Hwf. unfold do_sync.
  set (st := fold_left (sync_step F l) l _).
  assert (Hst : wf_cache (s_items st)) by (apply wf_sync_fold; exact Hwf).
  pose proof (wf_prune (s_set st) (s_items st) Hst) as Hp.
  destruct (prune (s_set st) (s_items st)). exact Hp.
Qed.

(* ------------------------------------------------------------------ *)
(* C02: the events of doSync replay exactly to the new content          *)

Lemma replay_app c evs1 evs2 :
  replay c (evs1 ++ evs2) = match replay c evs1 with Some c' => replay c' evs2 | None => None end.
Proof.
  revert c. induction evs1 as [|ev evs1 IH]; intros c; simpl; [reflexivity|].
  destruct (apply_event c ev); [apply IH | reflexivity].
Qed.

Lemma sync_step_replay F L c st o :
  replay c (s_events st) = Some (s_items st) ->
  replay c (s_events (sync_step F L st o)) = Some (s_items (sync_step F L st o)).
Proof.
  intros H. unfold sync_step.
  destruct (create_entry o) as [e|] eqn:Hce; [|exact H].
  destruct (match newest_ver (key_of o) L with Some v => Z.ltb (e_ver e) v | None => false end); [exact H|].
  destruct (clookup (key_of o) (s_items st)) as [cu|] eqn:Hl.
  - destruct (F o && Z.ltb (e_ver cu) (e_ver e)) eqn:Hc.
    + cbn [s_events s_items]. rewrite replay_app, H. simpl.
      unfold apply_event. simpl. rewrite Hl, Hce.
      rewrite andb_true_iff in Hc. destruct Hc as [_ Hlt]. rewrite Hlt. reflexivity.
    + destruct (Z.leb (e_ver e) (e_ver cu)); [|exact H].
      destruct (F (e_obj cu)); exact H.
  - destruct (F o); [|exact H].
    cbn [s_events s_items]. rewrite replay_app, H. simpl.
    unfold apply_event. simpl. rewrite Hl, Hce. reflexivity.
Qed.

Lemma sync_fold_replay F L c l : forall st,
  replay c (s_events st) = Some (s_items st) ->
  replay c (s_events (fold_left (sync_step F L) l st)) = Some (s_items (fold_left (sync_step F L) l st)).
Proof.
  induction l as [|o l IH]; intros st H; [exact H|]. simpl. apply IH, sync_step_replay, H.
Qed.

Definition is_delete_of_other (k : key) (ev : event) : Prop :=
  ev_ty ev = Delete /\ key_of (ev_obj ev) <> k.

Lemma replay_cons_other k e c evs :
  Forall (is_delete_of_other k) evs ->
  replay ((k, e) :: c) evs = match replay c evs with Some r => Some ((k, e) :: r) | None => None end.
Proof.
  revert c. induction evs as [|ev evs IH]; intros c Hall; [reflexivity|].
  inversion Hall as [|? ? [Hty Hne] Hall']; subst.
  simpl. unfold apply_event. rewrite Hty. simpl.
  destruct (keqb_spec (key_of (ev_obj ev)) k); [contradiction|].
  destruct (clookup (key_of (ev_obj ev)) c); [|reflexivity].
  apply IH, Hall'.
Qed.

Lemma prune_events_shape set items :
  wf_cache items ->
  Forall (fun ev => ev_ty ev = Delete /\ In (key_of (ev_obj ev)) (map fst items)) (snd (prune set items)).
Proof.
  induction items as [|[k e] items IH]; simpl; intros Hwf; [constructor|].
  destruct Hwf as [Hnd Hall]. inversion Hnd as [|? ? Hnotin Hnd']; subst. inversion Hall as [|? ? Hx Hall']; subst.
  specialize (IH (conj Hnd' Hall')).
  destruct (prune set items) as [r evs]. simpl in *.
  assert (Hevs : Forall (fun ev => ev_ty ev = Delete /\ (k = key_of (ev_obj ev) \/ In (key_of (ev_obj ev)) (map fst items))) evs).
  { eapply Forall_impl; [|exact IH]. simpl. intros ev [H1 H2]. tauto. }
  destruct (mem_keyb k set); simpl; [exact Hevs|].
  constructor; [|exact Hevs]. simpl. split; [reflexivity|]. left. destruct Hx as [Hk _]. simpl in Hk. congruence.
Qed.

Lemma prune_replay set items :
  wf_cache items ->
  replay items (snd (prune set items)) = Some (fst (prune set items)).
Proof.
  induction items as [|[k e] items IH]; simpl; intros Hwf; [reflexivity|].
  pose proof Hwf as [Hnd Hall]. inversion Hnd as [|? ? Hnotin Hnd']; subst. inversion Hall as [|? ? Hx Hall']; subst.
  specialize (IH (conj Hnd' Hall')).
  pose proof (prune_events_shape set items (conj Hnd' Hall')) as Hshape.
  destruct (prune set items) as [r evs]. simpl in *.
  assert (Hother : Forall (is_delete_of_other k) evs).
  { eapply Forall_impl; [|exact Hshape]. simpl. intros ev [H1 H2]. split; [exact H1|].
    intros Heq. apply Hnotin. rewrite <- Heq. exact H2. }
  destruct (mem_keyb k set); simpl.
  - rewrite replay_cons_other by exact Hother. rewrite IH. reflexivity.
  - unfold apply_event. simpl. destruct Hx as [Hk _]. simpl in Hk. rewrite Hk.
    simpl. rewrite !keqb_refl.
    rewrite cremove_notin by exact Hnotin. exact IH.
Qed.

Theorem sync_events_replay F c l :
  wf_cache c -> replay c (snd (do_sync F c l)) = Some (fst (do_sync F c l)).
Proof.
  intros Hwf. unfold do_sync.
  set (st0 := {| s_items := c; s_set := []; s_events := [] |}).
  set (st := fold_left (sync_step F l) l st0).
  assert (Hloop : replay c (s_events st) = Some (s_items st)).
  { apply sync_fold_replay. reflexivity. }
  assert (Hst : wf_cache (s_items st)) by (apply wf_sync_fold; exact Hwf).
  pose proof (prune_replay (s_set st) (s_items st) Hst) as Hp.
  destruct (prune (s_set st) (s_items st)) as [r dels]. simpl in *.
  rewrite replay_app, Hloop. exact Hp.
Qed.

(* ------------------------------------------------------------------ *)
(* C02: minimality — a mutation that emits an event changes the content *)

Definition changed (c c' : cache) : Prop := exists k, clookup k c' <> clookup k c.

Theorem update_event_changes F c ev :
  snd (do_update F c ev) <> [] -> changed c (fst (do_update F c ev)).
Proof.
  intros Hne. exists (key_of (ev_obj ev)). rewrite do_update_same.
  revert Hne. unfold do_update, update_spec, create_entry.
  destruct (atoi (o_rv (ev_obj ev))) as [v|]; [|intros H; exfalso; apply H; reflexivity].
  assert (Hcase : forall (t : etype), t <> Delete ->
     snd (match clookup (key_of (ev_obj ev)) c with
          | Some cu => if Z.ltb (e_ver cu) v
                       then if F (ev_obj ev)
                            then (cset (key_of (ev_obj ev)) {| e_ver := v; e_obj := ev_obj ev |} c, [mk_event Update (ev_obj ev)])
                            else (cremove (key_of (ev_obj ev)) c, [mk_event Delete (ev_obj ev)])
                       else (c, [])
          | None => if F (ev_obj ev)
                    then (cset (key_of (ev_obj ev)) {| e_ver := v; e_obj := ev_obj ev |} c, [mk_event Create (ev_obj ev)])
                    else (c, [])
          end) <> [] ->
     match clookup (key_of (ev_obj ev)) c with
     | Some c0 => if Z.ltb (e_ver c0) v
                  then if F (ev_obj ev) then Some {| e_ver := v; e_obj := ev_obj ev |} else None
                  else Some c0
     | None => if F (ev_obj ev) then Some {| e_ver := v; e_obj := ev_obj ev |} else None
     end <> clookup (key_of (ev_obj ev)) c).
  { intros t _. destruct (clookup (key_of (ev_obj ev)) c) as [cu|].
    - destruct (Z.ltb_spec (e_ver cu) v) as [Hlt|Hge]; [|intros H; exfalso; apply H; reflexivity].
      destruct (F (ev_obj ev)); intros _; [|discriminate].
      intros [= Heq]. rewrite <- Heq in Hlt. simpl in Hlt. lia.
    - destruct (F (ev_obj ev)); [intros _; discriminate | intros H; exfalso; apply H; reflexivity]. }
  destruct (ev_ty ev); simpl.
  - apply (Hcase Create). discriminate.
  - apply (Hcase Update). discriminate.
  - destruct (clookup (key_of (ev_obj ev)) c); simpl; [intros _; discriminate | intros H; exfalso; apply H; reflexivity].
Qed.

Definition grew (c items : cache) (k : key) : Prop :=
  match clookup k c, clookup k items with
  | None, Some _ => True
  | Some c0, Some c1 => (e_ver c0 < e_ver c1)%Z
  | _, _ => False
  end.

Lemma grew_step F L c st o k :
  grew c (s_items st) k -> grew c (s_items (sync_step F L st o)) k.
Proof.
  intros Hg. unfold sync_step.
  destruct (create_entry o) as [e|] eqn:Hce; [|exact Hg].
  destruct (match newest_ver (key_of o) L with Some v => Z.ltb (e_ver e) v | None => false end); [exact Hg|].
  destruct (clookup (key_of o) (s_items st)) as [cu|] eqn:Hl.
  - destruct (F o && Z.ltb (e_ver cu) (e_ver e)) eqn:Hc.
    + cbn [s_items]. unfold grew in *.
      destruct (keqb_spec k (key_of o)) as [->|Hne].
      * rewrite clookup_cset_same. rewrite Hl in Hg.
        rewrite andb_true_iff, Z.ltb_lt in Hc.
        destruct (clookup (key_of o) c); [lia | exact I].
      * rewrite clookup_cset_other by exact Hne. exact Hg.
    + destruct (Z.leb (e_ver e) (e_ver cu)); [|exact Hg]. destruct (F (e_obj cu)); exact Hg.
  - destruct (F o); [|exact Hg]. cbn [s_items]. unfold grew in *.
    destruct (keqb_spec k (key_of o)) as [->|Hne].
    + rewrite Hl in Hg. destruct (clookup (key_of o) c); contradiction.
    + rewrite clookup_cset_other by exact Hne. exact Hg.
Qed.

Definition loop_inv (c : cache) (st : sstate) : Prop :=
  (s_events st = [] /\ s_items st = c) \/
  (exists k, In k (s_set st) /\ grew c (s_items st) k).

Lemma set_step_mono F L st o k : In k (s_set st) -> In k (s_set (sync_step F L st o)).
Proof.
  intros H. unfold sync_step.
  destruct (create_entry o) as [e|]; [|exact H].
  destruct (match newest_ver (key_of o) L with Some v => Z.ltb (e_ver e) v | None => false end); [exact H|].
  destruct (clookup (key_of o) (s_items st)) as [cu|].
  - destruct (F o && Z.ltb (e_ver cu) (e_ver e)); [right; exact H|].
    destruct (Z.leb (e_ver e) (e_ver cu)); [|exact H]. destruct (F (e_obj cu)); [right; exact H | exact H].
  - destruct (F o); [right; exact H | exact H].
Qed.

Lemma loop_inv_step F L c st o : loop_inv c st -> loop_inv c (sync_step F L st o).
Proof.
  intros [[Hev Hit]|[k [Hin Hg]]].
  - unfold sync_step.
    destruct (create_entry o) as [e|] eqn:Hce; [|left; auto].
    destruct (match newest_ver (key_of o) L with Some v => Z.ltb (e_ver e) v | None => false end); [left; auto|].
    destruct (clookup (key_of o) (s_items st)) as [cu|] eqn:Hl.
    + destruct (F o && Z.ltb (e_ver cu) (e_ver e)) eqn:Hc.
      * right. exists (key_of o). cbn [s_set s_items]. split; [left; reflexivity|].
        unfold grew. rewrite clookup_cset_same. rewrite Hit in Hl. rewrite Hl.
        rewrite andb_true_iff, Z.ltb_lt in Hc. tauto.
      * destruct (Z.leb (e_ver e) (e_ver cu)); [|left; auto]. destruct (F (e_obj cu)); left; auto.
    + destruct (F o); [|left; auto].
      right. exists (key_of o). cbn [s_set s_items]. split; [left; reflexivity|].
      unfold grew. rewrite clookup_cset_same. rewrite Hit in Hl. rewrite Hl. exact I.
  - right. exists k. split; [apply set_step_mono, Hin | apply grew_step, Hg].
Qed.

Lemma loop_inv_fold F L c l : forall st, loop_inv c st -> loop_inv c (fold_left (sync_step F L) l st).
Proof. induction l as [|o l IH]; intros st H; [exact H|]. simpl. apply IH, loop_inv_step, H. Qed.

Lemma prune_no_events set items :
  snd (prune set items) <> [] -> exists k e, In (k, e) items /\ mem_keyb k set = false.
Proof.
  induction items as [|[k e] items IH]; simpl; [intros H; exfalso; apply H; reflexivity|].
  destruct (prune set items) as [r evs]. simpl in *.
  destruct (mem_keyb k set) eqn:Hm; simpl.
  - intros H. destruct (IH H) as [k' [e' [Hin Hm']]]. exists k', e'. split; [right; exact Hin | exact Hm'].
  - intros _. exists k, e. split; [left; reflexivity | exact Hm].
Qed.

Theorem sync_event_changes F c l :
  wf_cache c -> snd (do_sync F c l) <> [] -> changed c (fst (do_sync F c l)).
Proof.
  intros Hwf. unfold do_sync.
  set (st0 := {| s_items := c; s_set := []; s_events := [] |}).
  set (st := fold_left (sync_step F l) l st0).
  assert (Hinv : loop_inv c st) by (apply loop_inv_fold; left; split; reflexivity).
  pose proof (prune_lookup) as Hpl.
  destruct (prune (s_set st) (s_items st)) as [r dels] eqn:Hp. simpl.
  assert (Hr : forall k, clookup k r = if mem_keyb k (s_set st) then clookup k (s_items st) else None).
  { intros k. specialize (Hpl k (s_set st) (s_items st)). rewrite Hp in Hpl. exact Hpl. }
  destruct Hinv as [[Hev Hit]|[k [Hin Hg]]].
  - rewrite Hev. simpl. intros Hne.
    assert (Hd : snd (prune (s_set st) (s_items st)) <> []) by (rewrite Hp; exact Hne).
    destruct (prune_no_events _ _ Hd) as [k [e [Hin Hm]]].
    exists k. rewrite Hr, Hm. rewrite Hit in Hin.
    rewrite (In_clookup k e c (proj1 Hwf) Hin). discriminate.
  - intros _. exists k. rewrite Hr. apply mem_keyb_In in Hin. rewrite Hin.
    unfold grew in Hg. destruct (clookup k c) as [c0|], (clookup k (s_items st)) as [c1|]; try contradiction.
    + intros [= Heq]. subst. lia.
    + discriminate.
Qed.

(* ------------------------------------------------------------------ *)
(* Histories                                                           *)

Definition wf_state (s : cstate) : Prop := wf_cache (c_items s).

Lemma wf_do_op s o : wf_state s -> wf_state (fst (do_op s o)).
Proof.
  unfold wf_state. intros H. destruct o as [l|ev|F' l]; simpl.
  - pose proof (wf_do_sync (c_filter s) (c_items s) l H) as Hs. destruct (do_sync _ _ _). exact Hs.
  - pose proof (wf_do_update (c_filter s) (c_items s) ev H) as Hs. destruct (do_update _ _ _). exact Hs.
  - unfold do_refilter. pose proof (wf_do_sync F' (c_items s) l H) as Hs. destruct (do_sync _ _ _). exact Hs.
Qed.

Lemma wf_run_ops ops : forall s, wf_state s -> wf_state (run_ops s ops).
Proof.
  induction ops as [|o ops IH]; intros s H; [exact H|]. simpl. apply IH, wf_do_op, H.
Qed.

Lemma wf_init F : wf_state (init_state F).
Proof. apply wf_nil. Qed.

(* one operation, one key: the implementation model and the reference
   machine agree *)
Theorem op_refines_spec s o k :
  (c_filter (fst (do_op s o)), clookup k (c_items (fst (do_op s o)))) =
  ref_step k (c_filter s, clookup k (c_items s)) o.
Proof.
  destruct o as [l|ev|F' l]; simpl.
  - pose proof (sync_refines_spec (c_filter s) (c_items s) l k) as H.
    destruct (do_sync _ _ _). simpl in *. rewrite H. reflexivity.
  - pose proof (update_refines_spec (c_filter s) (c_items s) ev k) as H.
    destruct (do_update _ _ _). simpl in *. rewrite H. reflexivity.
  - unfold do_refilter. pose proof (sync_refines_spec F' (c_items s) l k) as H.
    destruct (do_sync _ _ _). simpl in *. rewrite H. reflexivity.
Qed.

(* C01: after any finite sequence of sync / update / refilter operations,
   from any initial filter, what the cache holds at every key is what the
   per-key reference semantics prescribes *)
Theorem history_refines_spec F0 ops k :
  (c_filter (run_ops (init_state F0) ops), clookup k (c_items (run_ops (init_state F0) ops))) =
  ref_run k F0 ops.
Proof.
  unfold ref_run.
  change (F0, @None entry) with (c_filter (init_state F0), clookup k (c_items (init_state F0))).
  generalize (init_state F0) as s. induction ops as [|o ops IH]; intros s; [reflexivity|].
  simpl. rewrite IH. rewrite op_refines_spec. reflexivity.
Qed.

Lemma sync_spec_sat F cur es e : sync_spec F cur es = Some e -> F (e_obj e) = true.
Proof.
  unfold sync_spec. destruct (max_ver es) as [vmax|]; [|discriminate].
  destruct cur as [c|].
  - destruct (Z.leb vmax (e_ver c)).
    + destruct (F (e_obj c)) eqn:HF; [intros [= <-]; exact HF | discriminate].
    + intros H. apply newest_accepted_some in H. tauto.
  - intros H. apply newest_accepted_some in H. tauto.
Qed.

Definition sat (s : cstate) : Prop :=
  forall k e, clookup k (c_items s) = Some e -> c_filter s (e_obj e) = true.

Lemma sat_do_op s o : sat s -> sat (fst (do_op s o)).
Proof.
  intros Hs k e Hl.
  pose proof (op_refines_spec s o k) as Href.
  rewrite Hl in Href.
  unfold sat. remember (c_filter (fst (do_op s o))) as Fn eqn:HFn. clear HFn Hl.
  destruct o as [l|ev|F' l]; unfold ref_step in Href.
  - injection Href as Hf Hk. rewrite Hf. symmetry in Hk. apply sync_spec_sat in Hk. exact Hk.
  - injection Href as Hf Hk. rewrite Hf.
    destruct (key_eqb (key_of (ev_obj ev)) k).
    + unfold update_spec in Hk. destruct (create_entry (ev_obj ev)) as [e'|] eqn:Hce.
      * pose proof (create_entry_obj _ _ Hce) as Hobj.
        destruct (ev_ty ev); try discriminate;
          (destruct (clookup k (c_items s)) as [c0|] eqn:Hc0;
           [destruct (Z.ltb (e_ver c0) (e_ver e'));
            [destruct (c_filter s (ev_obj ev)) eqn:HF; [injection Hk as ->; rewrite Hobj; exact HF | discriminate]
            | injection Hk as ->; apply (Hs k c0 Hc0)]
           | destruct (c_filter s (ev_obj ev)) eqn:HF; [injection Hk as ->; rewrite Hobj; exact HF | discriminate]]).
      * apply (Hs k e). congruence.
    + apply (Hs k e). congruence.
  - injection Href as Hf Hk. rewrite Hf. symmetry in Hk. apply sync_spec_sat in Hk. exact Hk.
Qed.

(* C01: every cached object satisfies the current filter, in every reachable
   state *)
Theorem cached_satisfy_filter F0 ops : sat (run_ops (init_state F0) ops).
Proof.
  assert (H0 : sat (init_state F0)) by (intros k e H; discriminate).
  revert H0. generalize (init_state F0) as s.
  induction ops as [|o ops IH]; intros s H; [exact H|]. simpl. apply IH, sat_do_op, H.
Qed.

(* C01: a version that is not newer than the cached one never replaces it *)
Theorem no_version_regress s o k c0 c1 :
  clookup k (c_items s) = Some c0 ->
  clookup k (c_items (fst (do_op s o))) = Some c1 ->
  c1 = c0 \/ (e_ver c0 < e_ver c1)%Z.
Proof.
  intros H0 H1. pose proof (op_refines_spec s o k) as Href. rewrite H0, H1 in Href.
  assert (Hsync : forall F l, Some c1 = sync_spec F (Some c0) (entries_for k l) -> c1 = c0 \/ (e_ver c0 < e_ver c1)%Z).
  { intros F l H. unfold sync_spec in H. destruct (max_ver (entries_for k l)) as [vmax|]; [|discriminate].
    destruct (Z.leb_spec vmax (e_ver c0)).
    - destruct (F (e_obj c0)); [injection H as ->; left; reflexivity | discriminate].
    - symmetry in H. apply newest_accepted_some in H. right. lia. }
  destruct o as [l|ev|F' l]; simpl in Href.
  - injection Href as _ Hk. eapply Hsync, Hk.
  - injection Href as _ Hk. destruct (key_eqb (key_of (ev_obj ev)) k); [|left; congruence].
    unfold update_spec in Hk. destruct (create_entry (ev_obj ev)) as [e'|]; [|left; congruence].
    destruct (ev_ty ev); try discriminate;
      (destruct (Z.ltb_spec (e_ver c0) (e_ver e'));
       [destruct (c_filter s (ev_obj ev)); [injection Hk as ->; right; assumption | discriminate]
       | left; congruence]).
  - injection Href as _ Hk. eapply Hsync, Hk.
Qed.

(* C01: objects missing from a synchronised list are absent; objects deleted
   by an event are absent *)
Theorem unlisted_absent F c l k :
  entries_for k l = [] -> clookup k (fst (do_sync F c l)) = None.
Proof. intros H. rewrite sync_refines_spec, H. reflexivity. Qed.

Theorem deleted_absent F c ev :
  ev_ty ev = Delete -> create_entry (ev_obj ev) <> None ->
  clookup (key_of (ev_obj ev)) (fst (do_update F c ev)) = None.
Proof.
  intros Hty Hce. rewrite do_update_same. unfold update_spec.
  destruct (create_entry (ev_obj ev)); [|contradiction]. rewrite Hty. reflexivity.
Qed.

(* C02 over operations *)
Theorem op_events_replay s o :
  wf_state s -> replay (c_items s) (snd (do_op s o)) = Some (c_items (fst (do_op s o))).
Proof.
  intros Hwf. destruct o as [l|ev|F' l]; simpl.
  - pose proof (sync_events_replay (c_filter s) (c_items s) l Hwf) as H. destruct (do_sync _ _ _). exact H.
  - pose proof (update_events_replay (c_filter s) (c_items s) ev) as H. destruct (do_update _ _ _). exact H.
  - unfold do_refilter. pose proof (sync_events_replay F' (c_items s) l Hwf) as H. destruct (do_sync _ _ _). exact H.
Qed.

Theorem op_event_changes s o :
  wf_state s -> snd (do_op s o) <> [] -> changed (c_items s) (c_items (fst (do_op s o))).
Proof.
  intros Hwf. destruct o as [l|ev|F' l]; simpl.
  - pose proof (sync_event_changes (c_filter s) (c_items s) l Hwf) as H. destruct (do_sync _ _ _). exact H.
  - pose proof (update_event_changes (c_filter s) (c_items s) ev) as H. destruct (do_update _ _ _). exact H.
  - unfold do_refilter. pose proof (sync_event_changes F' (c_items s) l Hwf) as H. destruct (do_sync _ _ _). exact H.
Qed.

(* the contrapositive, as the property words it: an input that changes
   nothing emits no event at all *)
Theorem no_change_no_event s o :
  wf_state s -> cache_eq (c_items (fst (do_op s o))) (c_items s) -> snd (do_op s o) = [].
Proof.
  intros Hwf Heq. destruct (snd (do_op s o)) as [|ev evs] eqn:He; [reflexivity|].
  exfalso. assert (Hne : snd (do_op s o) <> []) by (rewrite He; discriminate).
  destruct (op_event_changes s o Hwf Hne) as [k Hk]. apply Hk, Heq.
Qed.

(* every event's precondition holds at its point of the replay: Create only
   for an absent key, Update only for a present key with a strictly newer
   version, Delete only for a present key *)
Definition event_pre (c : cache) (ev : event) : Prop :=
  match ev_ty ev with
  | Create => clookup (key_of (ev_obj ev)) c = None
  | Update => exists cu e, clookup (key_of (ev_obj ev)) c = Some cu /\
                           create_entry (ev_obj ev) = Some e /\ (e_ver cu < e_ver e)%Z
  | Delete => clookup (key_of (ev_obj ev)) c <> None
  end.

Fixpoint replay_pre (c : cache) (evs : list event) : Prop :=
  match evs with
  | [] => True
  | ev :: evs' => event_pre c ev /\
                  match apply_event c ev with Some c' => replay_pre c' evs' | None => False end
  end.

Lemma apply_event_pre c ev c' : apply_event c ev = Some c' -> event_pre c ev.
Proof.
  unfold apply_event, event_pre. destruct (ev_ty ev).
  - destruct (clookup (key_of (ev_obj ev)) c); [discriminate | reflexivity].
  - destruct (clookup (key_of (ev_obj ev)) c) as [cu|]; [|discriminate].
    destruct (create_entry (ev_obj ev)) as [e|]; [|discriminate].
    destruct (Z.ltb_spec (e_ver cu) (e_ver e)); [|discriminate]. intros _. exists cu, e. auto.
  - destruct (clookup (key_of (ev_obj ev)) c); [discriminate | discriminate].
Qed.

Lemma replay_some_pre evs : forall c c', replay c evs = Some c' -> replay_pre c evs.
Proof.
  induction evs as [|ev evs IH]; intros c c' H; [exact I|].
  simpl in H. simpl. destruct (apply_event c ev) as [c1|] eqn:Ha; [|discriminate].
  split; [eapply apply_event_pre, Ha | eapply IH, H].
Qed.

Theorem op_events_wellformed s o :
  wf_state s -> replay_pre (c_items s) (snd (do_op s o)).
Proof. intros Hwf. eapply replay_some_pre, op_events_replay, Hwf. Qed.

(* C05 (cache clause): the cache is updated before the event is handed over —
   after a Create/Update event for an object, a Get returns that object (or,
   later, something newer: no_version_regress) *)
Theorem cache_not_older_after_event F c ev e :
  In e (snd (do_update F c ev)) -> ev_ty e <> Delete ->
  exists cu, clookup (key_of (ev_obj e)) (fst (do_update F c ev)) = Some cu /\ e_obj cu = ev_obj e.
Proof.
  intros Hin Hty. unfold do_update in *.
  destruct (atoi (o_rv (ev_obj ev))) as [v|]; [|destruct Hin].
  set (k := key_of (ev_obj ev)) in *.
  set (en := {| e_ver := v; e_obj := ev_obj ev |}) in *.
  assert (Hcase : forall t, t <> Delete ->
     In e (snd (match clookup k c with
                | Some cu => if Z.ltb (e_ver cu) v
                             then if F (ev_obj ev) then (cset k en c, [mk_event Update (ev_obj ev)])
                                  else (cremove k c, [mk_event Delete (ev_obj ev)])
                             else (c, [])
                | None => if F (ev_obj ev) then (cset k en c, [mk_event Create (ev_obj ev)]) else (c, [])
                end)) ->
     exists cu, clookup (key_of (ev_obj e))
                  (fst (match clookup k c with
                        | Some cu => if Z.ltb (e_ver cu) v
                                     then if F (ev_obj ev) then (cset k en c, [mk_event Update (ev_obj ev)])
                                          else (cremove k c, [mk_event Delete (ev_obj ev)])
                                     else (c, [])
                        | None => if F (ev_obj ev) then (cset k en c, [mk_event Create (ev_obj ev)]) else (c, [])
                        end)) = Some cu /\ e_obj cu = ev_obj e).
  { intros t _ H. destruct (clookup k c) as [cu|].
    - destruct (Z.ltb (e_ver cu) v); [|destruct H].
      destruct (F (ev_obj ev)); simpl in H; destruct H as [<-|[]]; simpl.
      + exists en. split; [apply clookup_cset_same | reflexivity].
      + exfalso. apply Hty. reflexivity.
    - destruct (F (ev_obj ev)); simpl in H; [|destruct H]. destruct H as [<-|[]]. simpl.
      exists en. split; [apply clookup_cset_same | reflexivity]. }
  destruct (ev_ty ev) eqn:Hte.
  - apply (Hcase Create); [discriminate | exact Hin].
  - apply (Hcase Update); [discriminate | exact Hin].
  - destruct (clookup k c); simpl in Hin; [|destruct Hin].
    destruct Hin as [<-|[]]. exfalso. apply Hty. exact Hte.
Qed.
