(* RootHop.v — the hop in front of a publisher, as it is in the code (known
   finding D13): controller.distributeEvents hands each event of a batch to the
   controller's root subscription, whose goroutine pushes it WITHOUT WAITING into
   a channel of EventBufsiz slots; the publisher goroutine takes events out of
   that channel and distributes them.  PubLts.v takes that channel as an
   unbounded list (k_in): its theorems are about what the publisher picks up.
   Here the channel is bounded, and the statement "a subscriber that reads at
   once receives every event of the batch" is refuted: of a batch that arrives
   before the publisher gets to run, exactly the first EventBufsiz events reach
   the subscriber — although the subscriber's own backlog never exceeds one. *)
From Coq Require Import List Arith Bool Lia.
Import ListNotations.

Section RootHop.
  Variable E : Type.

  (* subscription.run: select { case outch <- evt: default: (dropped) } *)
  Definition pushq (cap : nat) (q : list E) (e : E) : list E :=
    if Nat.ltb (length q) cap then q ++ [e] else q.

  (* a batch handed over while the reader of the channel does not run *)
  Definition burst (cap : nat) (q : list E) (es : list E) : list E := fold_left (pushq cap) es q.

  (* the publisher takes the events out one by one and pushes each into the
     subscriber's channel (cap2 slots); the subscriber receives at once.
     Returns (what is left in the subscriber's channel, what it received, the
     largest backlog it ever had). *)
  Fixpoint relay (cap2 : nat) (root subq recv : list E) (maxb : nat) : list E * list E * nat :=
    match root with
    | [] => (subq, recv, maxb)
    | e :: r =>
        let subq' := pushq cap2 subq e in
        let maxb' := Nat.max maxb (length subq') in
        match subq' with
        | x :: q => relay cap2 r q (recv ++ [x]) maxb'
        | [] => relay cap2 r [] recv maxb'
        end
    end.

  Lemma burst_spec cap : forall es q, length q <= cap -> burst cap q es = q ++ firstn (cap - length q) es.
  Proof.
    induction es as [|e es IH]; intros q Hq; unfold burst; simpl.
    - rewrite firstn_nil, app_nil_r. reflexivity.
    - unfold pushq at 2. destruct (Nat.ltb (length q) cap) eqn:Hlt.
      + apply Nat.ltb_lt in Hlt. fold (burst cap (q ++ [e]) es). rewrite IH by (rewrite app_length; simpl; lia).
        rewrite app_length. simpl. replace (cap - length q) with (S (cap - (length q + 1))) by lia.
        simpl. rewrite <- app_assoc. reflexivity.
      + apply Nat.ltb_ge in Hlt. fold (burst cap q es). rewrite IH by exact Hq.
        replace (cap - length q) with 0 by lia. reflexivity.
  Qed.

  Lemma relay_prompt cap2 : 0 < cap2 -> forall root recv maxb,
    relay cap2 root [] recv maxb = ([], recv ++ root, match root with [] => maxb | _ => Nat.max maxb 1 end).
  Proof.
    intros Hc. induction root as [|e r IH]; intros recv maxb; simpl.
    - rewrite app_nil_r. reflexivity.
    - unfold pushq. simpl. destruct (Nat.ltb 0 cap2) eqn:H0; [|apply Nat.ltb_ge in H0; lia].
      simpl. rewrite IH. rewrite <- app_assoc. simpl. f_equal.
      destruct r; [reflexivity|]. replace (Nat.max (Nat.max maxb 1) 1) with (Nat.max maxb 1) by lia. reflexivity.
  Qed.

  (* D13, as a statement about the faithful (bounded) hop: of a batch handed
     over before the publisher runs, a subscriber that reads at once receives
     exactly the first [cap] events; its own backlog never exceeds 1 *)
  Theorem big_batch_is_truncated_at_the_root (cap cap2 : nat) (es : list E) :
    0 < cap2 ->
    exists maxb, relay cap2 (burst cap [] es) [] [] 0 = ([], firstn cap es, maxb) /\ maxb <= 1.
  Proof.
    intros Hc. rewrite burst_spec by (simpl; lia). simpl. rewrite Nat.sub_0_r.
    rewrite (relay_prompt cap2 Hc). simpl. eexists. split; [reflexivity|].
    destruct (firstn cap es); simpl; lia.
  Qed.

  (* ... so "receives every event" is false as soon as the batch is larger than the channel *)
  Corollary prompt_subscriber_misses_events (cap cap2 : nat) (es : list E) :
    0 < cap2 -> cap < length es ->
    snd (fst (relay cap2 (burst cap [] es) [] [] 0)) <> es.
  Proof.
    intros Hc Hl. destruct (big_batch_is_truncated_at_the_root cap cap2 es Hc) as (maxb & Hr & _).
    rewrite Hr. simpl. intro Heq.
    assert (H : length (firstn cap es) = length es) by (rewrite Heq; reflexivity).
    rewrite firstn_length in H. lia.
  Qed.
End RootHop.

(* the numbers of the harness scenario in miniature: a channel of 3, a batch of 5 *)
Example root_hop_witness :
  relay nat 3 (burst nat 3 [] [1; 2; 3; 4; 5]) [] [] 0 = ([], [1; 2; 3], 1).
Proof. reflexivity. Qed.
