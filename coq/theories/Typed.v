(* Typed.v — model of the typed packages (types/gen/template.go and its 12
   instances): thin adapters around the untyped core that type-assert every
   object.  Definitions only. *)
From KC Require Export Base.

(* adapter.adaptObject: the type assertion obj.(ObjectType) *)
Definition adapt (k : kind) (o : obj) : option obj :=
  if N.eqb (o_kind o) k then Some o else None.

(* adapter.adaptList / cache.List: objects of another type are skipped *)
Definition typed_list (k : kind) (l : list obj) : list obj :=
  flat_map (fun o => match adapt k o with Some x => [x] | None => [] end) l.

(* cache.Get: nil stays nil; an object of another type is ErrInvalidType *)
Inductive tget := TAbsent | TFound (o : obj) | TInvalid.
Definition typed_get (k : kind) (r : option obj) : tget :=
  match r with
  | None => TAbsent
  | Some o => match adapt k o with Some x => TFound x | None => TInvalid end
  end.

(* subscription.run: wrapEvent, skip on error, non-blocking push *)
Definition typed_events (k : kind) (evs : list event) : list event :=
  flat_map (fun ev => match adapt k (ev_obj ev) with
                      | Some x => [{| ev_ty := ev_ty ev; ev_obj := x |}]
                      | None => []
                      end) evs.

(* the typed monitor's callbacks (after the fix of D6: foreign objects skipped) *)
Inductive tcb := TInit (objs : list obj) | TEvent (ty : etype) (o : obj).
Definition typed_callback (k : kind) (c : tcb) : list tcb :=
  match c with
  | TInit objs => [TInit (typed_list k objs)]
  | TEvent ty o => match adapt k o with Some x => [TEvent ty x] | None => [] end
  end.

(* ToUnitary(log, delegate): OnInitialize reaches the delegate only when the
   (typed) initial list holds exactly one object; every other callback is
   passed on as it is *)
Definition unitary_callback (k : kind) (c : tcb) : list tcb :=
  match c with
  | TInit objs => match typed_list k objs with
                  | [o] => [TInit [o]]
                  | _ => []
                  end
  | TEvent ty o => typed_callback k (TEvent ty o)
  end.

(* a whole callback log of the untyped monitor, seen through the typed
   monitor / through a unitary handler *)
Definition typed_log (k : kind) (l : list tcb) : list tcb := flat_map (typed_callback k) l.
Definition unitary_log (k : kind) (l : list tcb) : list tcb := flat_map (unitary_callback k) l.

(* ------------------------------------------------------------------ *)
(* source level: the generated files are the template with its
   placeholders replaced.  Tokens are interned by the translator
   (tools/gentokens); [ph] is the placeholder identifier. *)
Definition tok := N.

Definition instantiate (ph : tok) (ty : list tok) (template : list tok) : list tok :=
  flat_map (fun t => if N.eqb t ph then ty else [t]) template.

Fixpoint toks_eqb (a b : list tok) : bool :=
  match a, b with
  | [], [] => true
  | x :: a', y :: b' => N.eqb x y && toks_eqb a' b'
  | _, _ => false
  end.
