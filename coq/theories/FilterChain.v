(* FilterChain.v — C06, last sentence: "its own event stream is a well-formed
   delta of its own cache, so anything subscribed below it converges as well".

   Per key.  A filtered node (FilterRace.rstep) consumes its parent's history of
   events on the key; the events it emits itself are the deltas of its own
   entry (cev).  This file proves that the emitted history is again a
   well-formed history (hist_wf) that folds to the node's final entry, whatever
   the interleaving — so FilterRaceGen.fsub_converges_general applies to a node
   subscribed below it, and by induction to a chain of filtered nodes of ANY
   depth, each with its own interleaving of events, listings and Refilters: when
   everything has drained, the entry at the bottom is the conjunction of the
   filters most recently set along the chain applied to the root's entry. *)
From KC Require Import Base Cache CacheSpec CacheProps FilterSub FilterSubProps FilterRace FilterRaceProps FilterRaceGen.

Definition entry_wf (p : pstate) : Prop :=
  match p with Some e => create_entry (e_obj e) = Some e | None => True end.

(* the event that explains the change of one entry (sync_events_per_key,
   the update analogue): none when it stays *)
Definition cev (a b : pstate) : list event :=
  match a, b with
  | None, None => []
  | None, Some e => [mk_event Create (e_obj e)]
  | Some c, None => [mk_event Delete (e_obj c)]
  | Some c, Some e => if Z.ltb (e_ver c) (e_ver e) then [mk_event Update (e_obj e)] else []
  end.

(* an entry is only ever replaced by a strictly newer one *)
Definition trans_ok (a b : pstate) : Prop :=
  match a, b with
  | Some c, Some e => c = e \/ (e_ver c < e_ver e)%Z
  | _, _ => True
  end.

Lemma cev_wf a b : trans_ok a b -> entry_wf a -> entry_wf b ->
  hist_wf a (cev a b) /\ pfold a (cev a b) = b.
Proof.
  unfold trans_ok, entry_wf, cev. destruct a as [c|], b as [e|]; intros Ht Ha Hb; simpl.
  - destruct Ht as [->|Hlt].
    + rewrite Z.ltb_irrefl. simpl. split; [exact I | reflexivity].
    + pose proof Hlt as Hlt'. apply Z.ltb_lt in Hlt'. rewrite Hlt'. simpl. unfold papply, ev_wf. simpl. rewrite Hb.
      split; [|reflexivity]. split; [|exact I]. exists c, e. repeat split; assumption.
  - unfold papply, ev_wf. simpl. split; [|reflexivity]. split; [|exact I]. split; [discriminate|]. rewrite Ha. discriminate.
  - unfold papply, ev_wf. simpl. rewrite Hb. split; [|reflexivity]. split; [|exact I]. split; [reflexivity|]. exists e. reflexivity.
  - split; [exact I | reflexivity].
Qed.

Lemma entry_wf_papply p ev : entry_wf (papply p ev).
Proof.
  unfold papply, entry_wf. destruct (ev_ty ev); try exact I;
    destruct (create_entry (ev_obj ev)) as [e|] eqn:He; try exact I;
    rewrite (create_entry_obj _ _ He); exact He.
Qed.

Lemma entry_wf_pfold evs : forall p, entry_wf p -> entry_wf (pfold p evs).
Proof.
  induction evs as [|ev r IH]; intros p Hp; simpl; [exact Hp|]. apply IH, entry_wf_papply.
Qed.

(* one update: the entry stays, goes, or is replaced by a strictly newer one *)
Lemma update_trans F X ev : entry_wf X -> trans_ok X (update_spec F X ev) /\ entry_wf (update_spec F X ev).
Proof.
  intros HX. unfold update_spec.
  destruct (create_entry (ev_obj ev)) as [e|] eqn:He.
  - assert (Hwe : entry_wf (Some e)) by (simpl; rewrite (create_entry_obj _ _ He); exact He).
    destruct (ev_ty ev).
    + destruct X as [c|].
      * destruct (Z.ltb_spec (e_ver c) (e_ver e)).
        -- destruct (F (ev_obj ev)); simpl; auto.
        -- simpl. auto.
      * destruct (F (ev_obj ev)); simpl; auto.
    + destruct X as [c|].
      * destruct (Z.ltb_spec (e_ver c) (e_ver e)).
        -- destruct (F (ev_obj ev)); simpl; auto.
        -- simpl. auto.
      * destruct (F (ev_obj ev)); simpl; auto.
    + destruct X; simpl; auto.
  - destruct X as [c|]; simpl; auto.
Qed.

(* one sync against the parent's listing of the key *)
Lemma sync_trans F X P : entry_wf X -> entry_wf P ->
  trans_ok X (sync_spec F X (plisting P)) /\ entry_wf (sync_spec F X (plisting P)).
Proof.
  intros HX HP. destruct P as [e|].
  - rewrite sync_listing_some. unfold fview. destruct X as [c|].
    + destruct (Z.leb_spec (e_ver e) (e_ver c)).
      * destruct (F (e_obj c)); simpl; auto.
      * destruct (F (e_obj e)); simpl; auto.
    + destruct (F (e_obj e)); simpl; auto.
  - rewrite sync_listing_none. destruct X; simpl; auto.
Qed.

(* ------------------------------------------------------------------ *)
(* a run together with the events the node emits                        *)

Fixpoint rtrace (s : rst) (l : list rop) : option (rst * list event) :=
  match l with
  | [] => Some (s, [])
  | o :: l' =>
      match rstep s o with
      | Some s' => match rtrace s' l' with
                   | Some (sf, out) => Some (sf, cev (r_cur s) (r_cur s') ++ out)
                   | None => None
                   end
      | None => None
      end
  end.

Lemma rtrace_rrun s l : forall sf out, rtrace s l = Some (sf, out) -> rrun s l = Some sf.
Proof.
  revert s. induction l as [|o l IH]; intros s sf out H; simpl in *.
  - injection H as <- _. reflexivity.
  - destruct (rstep s o) as [s'|]; [|discriminate].
    destruct (rtrace s' l) as [[sf' out']|] eqn:Ht; [|discriminate]. injection H as <- _. eapply IH, Ht.
Qed.

Lemma rrun_rtrace s l sf : rrun s l = Some sf -> exists out, rtrace s l = Some (sf, out).
Proof.
  revert s. induction l as [|o l IH]; intros s H; simpl in *.
  - injection H as <-. eexists. reflexivity.
  - destruct (rstep s o) as [s'|]; [|discriminate]. destruct (IH s' H) as [out Ho]. rewrite Ho. eexists. reflexivity.
Qed.

(* the parent side stays canonical, the child's entry too, and each step is a
   legal transition of the child's entry *)
Definition cwf (s : rst) : Prop := entry_wf (r_cur s) /\ entry_wf (r_P s).

Lemma rstep_cwf s o s' : cwf s -> rstep s o = Some s' -> cwf s' /\ trans_ok (r_cur s) (r_cur s').
Proof.
  intros [Hc HP] Hs. destruct s as [cur F rd pend fut P top]. simpl in *.
  destruct o as [|F' d]; simpl in Hs.
  - destruct pend as [|ev r].
    + destruct fut as [|ev f]; [discriminate|]. injection Hs as <-. unfold cwf; simpl.
      destruct rd.
      * destruct (update_trans F cur ev Hc) as [Ht Hw]. repeat split; auto. apply entry_wf_papply.
      * repeat split; auto; [apply entry_wf_papply | destruct cur; simpl; auto].
    + injection Hs as <-. unfold cwf; simpl. destruct rd.
      * destruct (update_trans F cur ev Hc) as [Ht Hw]. repeat split; auto.
      * repeat split; auto. destruct cur; simpl; auto.
  - injection Hs as <-. unfold cwf; simpl.
    assert (HP' : entry_wf (pfold P (firstn d fut))) by (apply entry_wf_pfold, HP).
    destruct (sync_trans F' cur _ Hc HP') as [Ht Hw]. repeat split; auto.
Qed.

Lemma hist_wf_app' a : forall p b, hist_wf p a -> hist_wf (pfold p a) b -> hist_wf p (a ++ b).
Proof. intros p b Ha Hb. apply hist_wf_app. split; assumption. Qed.

(* C06: the events a filtered node emits on a key are a well-formed history
   from its entry at the start to its entry at the end *)
Theorem emitted_history_wf : forall l s sf out, cwf s -> rtrace s l = Some (sf, out) ->
  hist_wf (r_cur s) out /\ pfold (r_cur s) out = r_cur sf /\ cwf sf.
Proof.
  induction l as [|o l IH]; intros s sf out Hw H; simpl in H.
  - injection H as <- <-. simpl. auto.
  - destruct (rstep s o) as [s'|] eqn:Hs; [|discriminate].
    destruct (rtrace s' l) as [[sf' out']|] eqn:Ht; [|discriminate]. injection H as <- <-.
    destruct (rstep_cwf s o s' Hw Hs) as [Hw' Htr].
    destruct (IH s' sf' out' Hw' Ht) as [H1 [H2 H3]].
    destruct Hw as [Hc _]. destruct Hw' as [Hc' _].
    destruct (cev_wf _ _ Htr Hc Hc') as [Hh Hp].
    split; [|split; [|exact H3]].
    + apply hist_wf_app'; [exact Hh | rewrite Hp; exact H1].
    + rewrite pfold_app, Hp. exact H2.
Qed.

(* ------------------------------------------------------------------ *)
(* a chain of filtered nodes                                            *)

(* level = the node's construction-time filter and its own schedule (events
   consumed, listings ahead, Refilters) *)
Definition level := ((obj -> bool) * list rop)%type.

(* run the chain top-down: each node consumes the history emitted by the one
   above it; returns the filters most recently set (top first) and the bottom
   entry, provided every node ends ready with everything consumed *)
Fixpoint chain (p0 : pstate) (hist : list event) (levels : list level) : option (list (obj -> bool) * pstate) :=
  match levels with
  | [] => Some ([], pfold p0 hist)
  | (F, l) :: rest =>
      match rtrace (rinit F p0 hist) l with
      | Some (sf, out) =>
          if r_ready sf && (match r_pend sf, r_fut sf with [], [] => true | _, _ => false end)
          then match chain None out rest with
               | Some (fs, bottom) => Some (r_F sf :: fs, bottom)
               | None => None
               end
          else None
      | None => None
      end
  end.

Fixpoint nested_fview (fs : list (obj -> bool)) (p : pstate) : pstate :=
  match fs with
  | [] => p
  | F :: fs' => nested_fview fs' (fview F p)
  end.

(* C06: a chain of filtered subscriptions / clones of ANY depth, each with ANY
   interleaving of consuming its parent's events, listing its parent any number
   of events ahead, and Refilters: when every node is ready and has consumed
   everything, the entry at the bottom is the filters most recently set along
   the chain, applied in turn, to the root's final entry *)
Theorem chain_converges : forall levels p0 hist fs bottom,
  entry_wf p0 -> hist_wf p0 hist ->
  chain p0 hist levels = Some (fs, bottom) ->
  bottom = nested_fview fs (pfold p0 hist).
Proof.
  induction levels as [|[F l] rest IH]; intros p0 hist fs bottom Hp Hh H; simpl in H.
  - injection H as <- <-. reflexivity.
  - destruct (rtrace (rinit F p0 hist) l) as [[sf out]|] eqn:Ht; [|discriminate].
    destruct (r_ready sf) eqn:Hrd; simpl in H; [|discriminate].
    destruct (r_pend sf) eqn:Hpe; [|discriminate]. destruct (r_fut sf) eqn:Hfu; [|discriminate].
    destruct (chain None out rest) as [[fs' b']|] eqn:Hc; [|discriminate]. injection H as <- <-.
    assert (Hw0 : cwf (rinit F p0 hist)) by (split; simpl; [exact I | exact Hp]).
    destruct (emitted_history_wf l _ _ _ Hw0 Ht) as [Hout [Hfold _]]. simpl in Hout, Hfold.
    pose proof (fsub_converges_general_to_final F p0 hist l sf Hh (rtrace_rrun _ _ _ _ Ht) Hrd (conj Hpe Hfu)) as Hcur.
    rewrite (IH None out fs' b' I Hout Hc). simpl. rewrite Hfold, Hcur. reflexivity.
Qed.

(* filters applied in turn are their conjunction *)
Lemma nested_fview_conj fs : forall p,
  nested_fview fs p = fview (fun o => forallb (fun F => F o) fs) p.
Proof.
  induction fs as [|F fs IH]; intros p; simpl.
  - unfold fview. destruct p; reflexivity.
  - rewrite IH. unfold fview. destruct p as [e|]; [|reflexivity].
    destruct (F (e_obj e)); simpl; reflexivity.
Qed.

Corollary chain_is_conjunction levels p0 hist fs bottom :
  entry_wf p0 -> hist_wf p0 hist -> chain p0 hist levels = Some (fs, bottom) ->
  bottom = fview (fun o => forallb (fun F => F o) fs) (pfold p0 hist).
Proof. intros Hp Hh H. rewrite <- nested_fview_conj. eapply chain_converges; eassumption. Qed.

(* non-vacuity: a chain of depth 2 over a history that re-creates the object at
   a lower version; the first node lists its parent two events ahead, later
   refilters to "labelled only" while two more events are in flight; the second
   node (accept all) lists the first when it is three of its events ahead *)
Definition has_label (o : obj) : bool := match o_labels o with [] => false | _ => true end.
Example chain_example :
  let hist := [mk_event Create (o1 1 [49%N] [(1%N, 1%N)]);
               mk_event Update (o1 2 [50%N] []);
               mk_event Update (o1 3 [51%N] [(1%N, 1%N)]);
               mk_event Delete (o1 3 [51%N] [(1%N, 1%N)]);
               mk_event Create (o1 4 [50%N] [(1%N, 2%N)])] in
  let l1 := [RSyncOp (fun _ => true) 2; REvent; REvent; RSyncOp has_label 2; REvent; REvent; REvent] in
  let l2 := [RSyncOp (fun _ => true) 3; REvent; REvent; REvent; REvent; REvent] in
  hist_wf None hist /\
  exists fs bottom, chain None hist [((fun _ => true), l1); ((fun _ => true), l2)] = Some (fs, bottom) /\
                    length fs = 2 /\ option_map (fun e => o_id (e_obj e)) bottom = Some 4%N.
Proof.
  split.
  - vm_compute. repeat split; try discriminate.
    + eexists. reflexivity.
    + do 2 eexists. repeat split.
    + do 2 eexists. repeat split.
    + eexists. reflexivity.
  - vm_compute. do 2 eexists. split; [reflexivity|]. split; reflexivity.
Qed.
