(* FilterSem.v — declarative semantics of filters and of the workload
   selection filters (C18, C19), with the theorems tying `accept` to them. *)
From KC Require Import Base Filter FilterProps.
From Coq Require Import Permutation.

(* ------------------------------------------------------------------ *)
(* Kubernetes label-selector semantics                                 *)

Definition req_sem (r : req) (ls : lmap) : Prop :=
  match r_op r with
  | RIn | REquals => exists v, lookup (r_key r) ls = Some v /\ In v (r_vals r)
  | RNotIn => forall v, lookup (r_key r) ls = Some v -> ~ In v (r_vals r)
  | RExists => exists v, lookup (r_key r) ls = Some v
  | RDoesNotExist => lookup (r_key r) ls = None
  end.

Definition selector_sem (s : selector) (ls : lmap) : Prop :=
  match s with
  | SelNothing => False
  | SelReqs rs => Forall (fun r => req_sem r ls) rs
  end.

Lemma req_matches_sem r ls : req_matches r ls = true <-> req_sem r ls.
Proof.
  unfold req_matches, req_sem. destruct (r_op r); destruct (lookup (r_key r) ls) as [v|] eqn:Hl.
  - rewrite mem_name_In. split; [intros H; exists v; auto | intros [v' [[= ->] H]]; exact H].
  - split; [discriminate | intros [v [H _]]; discriminate].
  - rewrite negb_true_iff. split.
    + intros H v' [= <-] Hin. apply mem_name_In in Hin. congruence.
    + intros H. destruct (mem_name v (r_vals r)) eqn:Hm; [|reflexivity].
      exfalso. apply (H v eq_refl). apply mem_name_In, Hm.
  - split; [intros _ v H; discriminate | reflexivity].
  - split; [intros _; exists v; reflexivity | reflexivity].
  - split; [discriminate | intros [v H]; discriminate].
  - split; [discriminate | discriminate].
  - split; reflexivity.
  - rewrite mem_name_In. split; [intros H; exists v; auto | intros [v' [[= ->] H]]; exact H].
  - split; [discriminate | intros [v [H _]]; discriminate].
Qed.

Lemma selector_matches_sem s ls : selector_matches s ls = true <-> selector_sem s ls.
Proof.
  destruct s as [|rs]; simpl; [split; [discriminate | tauto]|].
  rewrite forallb_forall, Forall_forall. split; intros H r Hr; apply req_matches_sem, H, Hr.
Qed.

(* ------------------------------------------------------------------ *)
(* Declarative reading of every filter term                            *)

Definition field_match (pat x : name) : Prop := pat = 0%N \/ pat = x.

Definition partial_sem (id k : key) : Prop :=
  (fst id = 0%N /\ snd id = snd k) \/ (fst id <> 0%N /\ snd id = 0%N /\ fst id = fst k).

Definition svcfor_sem (target : lmap) (o : obj) : Prop :=
  o_kind o = KService /\
  exists sel, o_spec o = SService sel /\ sel <> [] /\ target <> [] /\
              forall k v, In (k, v) sel -> lookup k target = Some v.

Fixpoint sem (f : filter) (o : obj) : Prop :=
  match f with
  | FNull => True
  | FAll => False
  | FNot c => ~ sem c o
  | FAnd cs => (fix all (l : list filter) : Prop :=
                  match l with [] => True | c :: l' => sem c o /\ all l' end) cs
  | FOr cs => (fix any (l : list filter) : Prop :=
                 match l with [] => False | c :: l' => sem c o \/ any l' end) cs
  | FNSName full partials =>
      In (key_of o) full \/ exists id, In id partials /\ partial_sem id (key_of o)
  | FSel s => selector_sem s (o_labels o)
  | FFn p => p o = true
  | FNode names => o_kind o = KPod /\ exists n, o_spec o = SPod n /\ In n names
  | FInvolved k ns nm => o_kind o = KEvent /\ o_spec o = SEvent k ns nm
  | FSvcFor t => svcfor_sem t o
  end.

Lemma sem_and cs o : sem (FAnd cs) o <-> Forall (fun c => sem c o) cs.
Proof.
  induction cs as [|c cs IH]; simpl; split; intros H; auto.
  - destruct H as [H1 H2]. constructor; [exact H1 | apply IH, H2].
  - inversion H; subst. split; [assumption | apply IH; assumption].
Qed.

Lemma sem_or cs o : sem (FOr cs) o <-> Exists (fun c => sem c o) cs.
Proof.
  induction cs as [|c cs IH]; simpl; split; intros H.
  - destruct H.
  - inversion H.
  - destruct H as [H|H]; [left; exact H | right; apply IH, H].
  - inversion H; subst; [left; assumption | right; apply IH; assumption].
Qed.

Lemma partial_matches_sem k id : partial_matches k id = true <-> partial_sem id k.
Proof.
  unfold partial_matches, partial_sem.
  destruct (N.eqb_spec (fst id) 0) as [H0|H0].
  - rewrite N.eqb_eq. split; [intros H; left; auto | intros [[_ H]|[H _]]; [exact H | contradiction]].
  - destruct (N.eqb_spec (snd id) 0) as [H1|H1].
    + rewrite N.eqb_eq. split; [intros H; right; auto | intros [[H _]|[_ [_ H]]]; [contradiction | exact H]].
    + split; [discriminate | intros [[H _]|[_ [H _]]]; contradiction].
Qed.

Lemma length_zero_nil {A} (l : list A) : Nat.eqb (length l) 0 = true <-> l = [].
Proof. destruct l; simpl; split; congruence. Qed.

Lemma svcfor_accept_sem t o : svcfor_accept t o = true <-> svcfor_sem t o.
Proof.
  unfold svcfor_accept, svcfor_sem.
  destruct (o_spec o) as [| |sel| | | |] eqn:Hs;
    try (split; [discriminate | intros [_ [sel' [H _]]]; discriminate]).
  destruct (N.eqb_spec (o_kind o) KService) as [Hk|Hk];
    [|split; [discriminate | intros [H _]; contradiction]].
  destruct (Nat.eqb (length sel) 0) eqn:Hs0.
  { apply length_zero_nil in Hs0. simpl.
    split; [discriminate | intros [_ [sel' [[= <-] [H _]]]]; contradiction]. }
  destruct (Nat.eqb (length t) 0) eqn:Ht0.
  { apply length_zero_nil in Ht0. simpl.
    split; [discriminate | intros [_ [sel' [_ [_ [H _]]]]]; contradiction]. }
  simpl orb. cbv iota.
  assert (Hsne : sel <> []) by (intros ->; discriminate).
  assert (Htne : t <> []) by (intros ->; discriminate).
  rewrite forallb_forall. split.
  - intros H. split; [exact Hk|]. exists sel. repeat split; try assumption.
    intros k v Hin. specialize (H _ Hin). simpl fst in H; simpl snd in H.
    destruct (lookup k t) as [v'|]; [|discriminate]. apply N.eqb_eq in H. congruence.
  - intros [_ [sel' [[= <-] [_ [_ H]]]]]. intros [k v] Hin. simpl fst; simpl snd.
    rewrite (H k v Hin). apply N.eqb_refl.
Qed.

(* C18: accept computes exactly the declarative semantics, for terms of any
   depth *)
Theorem accept_sem : forall f o, accept f o = true <-> sem f o.
Proof.
  induction f using filter_ind'; intros o.
  - simpl; tauto.
  - simpl; split; [discriminate | tauto].
  - simpl. rewrite negb_true_iff. rewrite <- IHf. destruct (accept f o); split; congruence.
  - rewrite sem_and. simpl. rewrite forallb_forall, Forall_forall.
    rewrite Forall_forall in H. split; intros Hx c Hc; apply (H c Hc o), Hx, Hc.
  - rewrite sem_or. simpl. rewrite existsb_exists, Exists_exists.
    rewrite Forall_forall in H. split; intros [c [Hc Hx]]; exists c; (split; [exact Hc|]); apply (H c Hc o), Hx.
  - simpl. rewrite orb_true_iff, mem_key_In, existsb_exists. split.
    + intros [Hl|[id [Hin Hm]]]; [left; exact Hl | right; exists id; split; [exact Hin | apply partial_matches_sem, Hm]].
    + intros [Hl|[id [Hin Hm]]]; [left; exact Hl | right; exists id; split; [exact Hin | apply partial_matches_sem, Hm]].
  - simpl. apply selector_matches_sem.
  - simpl. tauto.
  - simpl. destruct (o_spec o) as [|node| | | | |] eqn:Hs;
      try (split; [discriminate | intros [_ [n [Hn _]]]; discriminate]).
    rewrite andb_true_iff, N.eqb_eq, mem_name_In. split.
    + intros [Hk Hin]. split; [exact Hk | exists node; auto].
    + intros [Hk [n [[= <-] Hin]]]. auto.
  - simpl. destruct (o_spec o) as [| | | | |ik ins inm|] eqn:Hs;
      try (split; [discriminate | intros [_ Hn]; discriminate]).
    rewrite !andb_true_iff, !N.eqb_eq. split.
    + intros [[[Hk ->] ->] ->]. auto.
    + intros [Hk [= -> -> ->]]. auto.
  - simpl. apply svcfor_accept_sem.
Qed.

(* The property's sentences, one by one *)

Theorem null_accepts_all_rejects o : accept FNull o = true /\ accept FAll o = false.
Proof. split; reflexivity. Qed.

Theorem not_is_negation c o : accept (FNot c) o = negb (accept c o).
Proof. reflexivity. Qed.

Theorem and_is_conjunction cs o :
  accept (FAnd cs) o = true <-> Forall (fun c => accept c o = true) cs.
Proof. simpl. rewrite forallb_forall, Forall_forall. tauto. Qed.

Theorem or_is_disjunction cs o :
  accept (FOr cs) o = true <-> Exists (fun c => accept c o = true) cs.
Proof. simpl. rewrite existsb_exists, Exists_exists. tauto. Qed.

Theorem empty_and_accepts_empty_or_rejects o :
  accept (FAnd []) o = true /\ accept (FOr []) o = false.
Proof. split; reflexivity. Qed.

(* NSName: some entry matches namespace and name, an empty field matching
   anything; entries with both fields empty are outside the contract *)
Definition id_matches (id k : key) : Prop :=
  field_match (fst id) (fst k) /\ field_match (snd id) (snd k).

Definition id_in_contract (id : key) : Prop := ~ (fst id = 0%N /\ snd id = 0%N).

Theorem nsname_spec ids o :
  Forall id_in_contract ids ->
  (accept (mk_nsname ids) o = true <-> exists id, In id ids /\ id_matches id (key_of o)).
Proof.
  intros Hc. rewrite Forall_forall in Hc.
  rewrite accept_sem. unfold mk_nsname. simpl. split.
  - intros [Hin|[id [Hin Hp]]].
    + apply filter_In in Hin. destruct Hin as [Hin _]. exists (key_of o). split; [exact Hin|].
      split; right; reflexivity.
    + apply filter_In in Hin. destruct Hin as [Hin Hnf]. exists id. split; [exact Hin|].
      unfold id_matches, field_match. destruct Hp as [[H0 H1]|[H0 [H1 H2]]]; auto.
  - intros [id [Hin [Hm1 Hm2]]]. unfold field_match in *.
    destruct (is_full id) eqn:Hf.
    + left. unfold is_full in Hf. rewrite andb_true_iff, !negb_true_iff, !N.eqb_neq in Hf.
      destruct Hf as [Hf1 Hf2].
      destruct Hm1 as [Hm1|Hm1]; [contradiction|]. destruct Hm2 as [Hm2|Hm2]; [contradiction|].
      apply filter_In. split; [|].
      * destruct id as [a b], (key_of o) as [c d]; simpl in *; subst; exact Hin.
      * destruct id as [a b], (key_of o) as [c d]; simpl in *; subst.
        unfold is_full; simpl. apply N.eqb_neq in Hf1, Hf2. rewrite Hf1, Hf2. reflexivity.
    + right. exists id. split; [apply filter_In; split; [exact Hin | rewrite Hf; reflexivity]|].
      unfold is_full in Hf. rewrite andb_false_iff, !negb_false_iff, !N.eqb_eq in Hf.
      unfold partial_sem. specialize (Hc id Hin). unfold id_in_contract in Hc.
      destruct (N.eq_dec (fst id) 0) as [H0|H0].
      * left. split; [exact H0|]. destruct Hm2 as [Hm2|Hm2]; [exfalso; apply Hc; auto | exact Hm2].
      * right. destruct Hf as [Hf|Hf]; [contradiction|]. split; [exact H0|]. split; [exact Hf|].
        destruct Hm1 as [Hm1|Hm1]; [contradiction | exact Hm1].
Qed.

(* Labels(m): the map is a subset of the object's labels *)
Lemma insert_req_perm r l : Permutation (r :: l) (insert_req r l).
Proof.
  induction l as [|x l IH]; simpl; [reflexivity|].
  destruct (N.ltb (r_key r) (r_key x)); [reflexivity|].
  rewrite perm_swap. constructor. exact IH.
Qed.
Lemma sort_reqs_perm l : Permutation l (sort_reqs l).
Proof.
  induction l as [|x l IH]; simpl; [reflexivity|].
  rewrite <- insert_req_perm. constructor. exact IH.
Qed.

Lemma selector_sem_sort rs ls :
  selector_sem (SelReqs (sort_reqs rs)) ls <-> Forall (fun r => req_sem r ls) rs.
Proof.
  simpl. rewrite !Forall_forall. split; intros H r Hr; apply H.
  - apply (Permutation_in _ (sort_reqs_perm rs)), Hr.
  - apply (Permutation_in _ (Permutation_sym (sort_reqs_perm rs))), Hr.
Qed.

Definition labels_subset (m ls : lmap) : Prop :=
  forall k v, In (k, v) m -> lookup k ls = Some v.

Theorem labels_spec m o :
  accept (mk_labels m) o = true <-> labels_subset m (o_labels o).
Proof.
  rewrite accept_sem. unfold mk_labels, selector_from_set. cbn [sem]. rewrite selector_sem_sort.
  rewrite Forall_forall. unfold labels_subset. split.
  - intros H k v Hin.
    specialize (H _ (in_map _ _ _ Hin)). unfold req_sem in H. simpl in H.
    destruct H as [v' [Hl [<-|[]]]]. exact Hl.
  - intros H r Hr. apply in_map_iff in Hr. destruct Hr as [[k v] [<- Hin]].
    unfold req_sem; simpl. exists v. split; [apply H, Hin | left; reflexivity].
Qed.

(* LabelSelector: matchLabels all present and every expression holds; a nil
   selector selects nothing *)
Definition expr_sem (e : lsel_expr) (ls : lmap) : Prop :=
  match le_op e with
  | LIn => exists v, lookup (le_key e) ls = Some v /\ In v (le_vals e)
  | LNotIn => forall v, lookup (le_key e) ls = Some v -> ~ In v (le_vals e)
  | LExists => exists v, lookup (le_key e) ls = Some v
  | LDoesNotExist => lookup (le_key e) ls = None
  end.

Definition lsel_sem (s : option lsel) (ls : lmap) : Prop :=
  match s with
  | None => False
  | Some s => labels_subset (ls_labels s) ls /\ Forall (fun e => expr_sem e ls) (ls_exprs s)
  end.

Theorem label_selector_spec s o :
  accept (mk_label_selector s) o = true <-> lsel_sem s (o_labels o).
Proof.
  rewrite accept_sem. unfold mk_label_selector, label_selector_as_selector.
  destruct s as [s|]; [|simpl; tauto].
  cbn [sem]. rewrite selector_sem_sort. unfold lsel_sem.
  rewrite Forall_app, !Forall_forall. unfold labels_subset. split.
  - intros [H1 H2]. split.
    + intros k v Hin. specialize (H1 _ (in_map _ _ _ Hin)). unfold req_sem in H1; simpl in H1.
      destruct H1 as [v' [Hl [<-|[]]]]. exact Hl.
    + intros e He. specialize (H2 _ (in_map _ _ _ He)). unfold req_sem in H2; simpl in H2.
      unfold expr_sem. destruct (le_op e); exact H2.
  - intros [H1 H2]. split.
    + intros r Hr. apply in_map_iff in Hr. destruct Hr as [[k v] [<- Hin]].
      unfold req_sem; simpl. exists v. split; [apply H1, Hin | left; reflexivity].
    + intros r Hr. apply in_map_iff in Hr. destruct Hr as [e [<- Hin]].
      specialize (H2 _ Hin). unfold expr_sem in H2. unfold req_sem; simpl.
      destruct (le_op e); exact H2.
Qed.

(* ------------------------------------------------------------------ *)
(* C19: workload selection                                             *)

(* the ownership predicate of the property *)
Definition workload_selects (w p : obj) : Prop :=
  match o_spec w with
  | SWorkload (Some sel) _ => lsel_sem (Some sel) (o_labels p)
  | SWorkload None tmpl => labels_subset tmpl (o_labels p)
  | SService sel => sel <> [] /\ labels_subset sel (o_labels p)
  | SRC sel tmpl => labels_subset (rc_sel sel tmpl) (o_labels p)
  | _ => False
  end.

Definition owns (w p : obj) : Prop := o_ns w = o_ns p /\ workload_selects w p.

Lemma ns_filter_spec ns o : ns <> 0%N -> (accept (ns_filter ns) o = true <-> o_ns o = ns).
Proof.
  intros Hns. unfold ns_filter. rewrite nsname_spec.
  - split.
    + intros [id [[<-|[]] [Hm _]]]. simpl in Hm. destruct Hm as [Hm|Hm]; [contradiction | simpl in Hm; auto].
    + intros H. exists (ns, 0%N). split; [left; reflexivity|]. split; [right; simpl; auto | left; reflexivity].
  - constructor; [|constructor]. intros [H _]. simpl in H. contradiction.
Qed.

Lemma in_sort_objs x l : In x (sort_objs l) <-> In x l.
Proof.
  split; intros H.
  - apply (Permutation_in _ (Permutation_sym (sort_objs_perm l))), H.
  - apply (Permutation_in _ (sort_objs_perm l)), H.
Qed.

Definition is_workload (w : obj) : Prop := exists s t, o_spec w = SWorkload s t.
Definition is_service (w : obj) : Prop := exists s, o_spec w = SService s.
Definition is_rc (w : obj) : Prop := exists s t, o_spec w = SRC s t.

Theorem workload_pods_filter_spec srcs p :
  Forall (fun w => is_workload w /\ o_ns w <> 0%N) srcs ->
  (accept (workload_pods_filter srcs) p = true <-> exists w, In w srcs /\ owns w p).
Proof.
  intros Hw. rewrite Forall_forall in Hw.
  unfold workload_pods_filter. rewrite or_is_disjunction, Exists_exists. split.
  - intros [f [Hf Ha]]. apply in_map_iff in Hf. destruct Hf as [w [<- Hin]].
    apply (proj1 (in_sort_objs _ _)) in Hin. exists w. split; [exact Hin|].
    destruct (Hw w Hin) as [[s [t Hs]] Hns]. unfold owns, workload_selects. rewrite Hs in *.
    destruct s as [sel|]; apply and_is_conjunction in Ha;
      inversion Ha as [|? ? Ha1 Ha2]; subst; inversion Ha2 as [|? ? Ha3 _]; subst.
    + apply ns_filter_spec in Ha1; [|exact Hns]. apply label_selector_spec in Ha3. auto.
    + apply ns_filter_spec in Ha1; [|exact Hns]. apply labels_spec in Ha3. auto.
  - intros [w [Hin [Hns Hsel]]]. destruct (Hw w Hin) as [[s [t Hs]] Hnz].
    exists (match o_spec w with
            | SWorkload (Some sel) _ => FAnd [ns_filter (o_ns w); mk_label_selector (Some sel)]
            | SWorkload None tmpl => FAnd [ns_filter (o_ns w); mk_labels tmpl]
            | _ => FAnd [ns_filter (o_ns w); mk_labels []]
            end).
    split; [apply in_map_iff; exists w; split; [reflexivity | apply (proj2 (in_sort_objs _ _)), Hin]|].
    unfold workload_selects in Hsel. rewrite Hs in *.
    destruct s as [sel|]; apply and_is_conjunction; repeat constructor.
    + apply ns_filter_spec; auto.
    + apply label_selector_spec, Hsel.
    + apply ns_filter_spec; auto.
    + apply labels_spec, Hsel.
Qed.

Theorem service_pods_filter_spec srcs p :
  Forall (fun w => is_service w /\ o_ns w <> 0%N) srcs ->
  (accept (service_pods_filter srcs) p = true <-> exists w, In w srcs /\ owns w p).
Proof.
  intros Hw. rewrite Forall_forall in Hw.
  unfold service_pods_filter. rewrite or_is_disjunction, Exists_exists. split.
  - intros [f [Hf Ha]]. apply in_flat_map in Hf. destruct Hf as [w [Hin Hf]].
    apply (proj1 (in_sort_objs _ _)) in Hin. exists w. split; [exact Hin|].
    destruct (Hw w Hin) as [[s Hs] Hns]. unfold owns, workload_selects. rewrite Hs in *.
    destruct s as [|kv s]; simpl in Hf; [destruct Hf|]. destruct Hf as [<-|[]].
    apply and_is_conjunction in Ha.
    inversion Ha as [|? ? Ha1 Ha2]; subst; inversion Ha2 as [|? ? Ha3 _]; subst.
    apply ns_filter_spec in Ha1; [|exact Hns]. apply labels_spec in Ha3.
    split; [auto|]. split; [discriminate | exact Ha3].
  - intros [w [Hin [Hns Hsel]]]. destruct (Hw w Hin) as [[s Hs] Hnz].
    unfold workload_selects in Hsel. rewrite Hs in Hsel. destruct Hsel as [Hne Hsub].
    exists (FAnd [ns_filter (o_ns w); mk_labels s]). split.
    + apply in_flat_map. exists w. split; [apply (proj2 (in_sort_objs _ _)), Hin|]. rewrite Hs.
      destruct s as [|kv s]; [contradiction|]. simpl. left; reflexivity.
    + apply and_is_conjunction; repeat constructor; [apply ns_filter_spec; auto | apply labels_spec, Hsub].
Qed.

(* a service without selector selects nothing *)
Theorem service_without_selector_selects_nothing w p :
  o_spec w = SService [] -> accept (service_pods_filter [w]) p = false.
Proof. intros H. unfold service_pods_filter. simpl. rewrite H. reflexivity. Qed.

(* replication controllers: what the filter as coded guarantees (no
   namespace scoping) ... *)
Theorem rc_pods_filter_partial srcs p :
  Forall is_rc srcs ->
  (accept (rc_pods_filter srcs) p = true <-> exists w, In w srcs /\ workload_selects w p).
Proof.
  intros Hw. rewrite Forall_forall in Hw.
  unfold rc_pods_filter. rewrite or_is_disjunction, Exists_exists. split.
  - intros [f [Hf Ha]]. apply in_map_iff in Hf. destruct Hf as [w [<- Hin]].
    apply (proj1 (in_sort_objs _ _)) in Hin. exists w. split; [exact Hin|].
    destruct (Hw w Hin) as [s [t Hs]]. unfold workload_selects. rewrite Hs in *.
    apply labels_spec, Ha.
  - intros [w [Hin Hsel]]. destruct (Hw w Hin) as [s [t Hs]].
    exists (mk_labels (rc_sel s t)). split.
    + apply in_map_iff. exists w. rewrite Hs. split; [reflexivity | apply (proj2 (in_sort_objs _ _)), Hin].
    + unfold workload_selects in Hsel. rewrite Hs in Hsel. apply labels_spec, Hsel.
Qed.

(* ... and the witness that the ownership statement is false for it: a
   replication controller in namespace 1 and a pod in namespace 2 *)
Definition rc_witness : obj :=
  {| o_id := 1%N; o_kind := KRC; o_ns := 1%N; o_nm := 1%N; o_rv := [49%N]; o_labels := [];
     o_spec := SRC [(1%N, 1%N)] [] |}.
Definition pod_witness : obj :=
  {| o_id := 2%N; o_kind := KPod; o_ns := 2%N; o_nm := 1%N; o_rv := [49%N]; o_labels := [(1%N, 1%N)];
     o_spec := SPod 0%N |}.

Theorem rc_pods_filter_refuted :
  exists srcs p, Forall (fun w => is_rc w /\ o_ns w <> 0%N) srcs /\
                 accept (rc_pods_filter srcs) p = true /\
                 ~ exists w, In w srcs /\ owns w p.
Proof.
  exists [rc_witness], pod_witness. split; [|split].
  - constructor; [|constructor]. split; [exists [(1%N, 1%N)], []; reflexivity | discriminate].
  - vm_compute. reflexivity.
  - intros [w [[<-|[]] [Hns _]]]. discriminate.
Qed.

(* ingress -> services *)
Definition ingress_backends (ing : obj) : list name :=
  match o_spec ing with
  | SIngress backend paths => List.filter (fun n => negb (N.eqb n 0)) (backend :: paths)
  | _ => []
  end.

Lemma ingress_service_ids_spec ing id :
  In id (ingress_service_ids ing) <-> fst id = o_ns ing /\ In (snd id) (ingress_backends ing).
Proof.
  unfold ingress_service_ids, ingress_backends. destruct (o_spec ing) as [| | | | | |backend paths]; try (simpl; tauto).
  rewrite in_app_iff, in_flat_map. simpl List.filter.
  split.
  - intros [H|[x [Hx H]]].
    + destruct (N.eqb_spec backend 0); [destruct H|]. destruct H as [<-|[]]. simpl.
      split; [reflexivity | left; reflexivity].
    + destruct (N.eqb_spec x 0); [destruct H|]. destruct H as [<-|[]]. simpl. split; [reflexivity|].
      assert (Hin : In x (List.filter (fun n0 => negb (N.eqb n0 0)) paths)).
      { apply filter_In. split; [exact Hx|]. apply negb_true_iff, N.eqb_neq. assumption. }
      destruct (negb (N.eqb backend 0)); [right|]; exact Hin.
  - intros [Hns Hin]. destruct id as [a b]; simpl in *. subst a.
    destruct (N.eqb_spec backend 0) as [Hb|Hb]; simpl in Hin.
    + right. apply filter_In in Hin. destruct Hin as [Hin Hnz]. exists b. split; [exact Hin|].
      destruct (N.eqb b 0); [discriminate | left; reflexivity].
    + destruct Hin as [<-|Hin]; [left; left; reflexivity|].
      right. apply filter_In in Hin. destruct Hin as [Hin Hnz]. exists b. split; [exact Hin|].
      destruct (N.eqb b 0); [discriminate | left; reflexivity].
Qed.

Theorem ingress_services_filter_spec ings s :
  Forall (fun ing => o_ns ing <> 0%N) ings ->
  (accept (ingress_services_filter ings) s = true <->
   exists ing, In ing ings /\ o_ns ing = o_ns s /\ In (o_nm s) (ingress_backends ing)).
Proof.
  intros Hns. rewrite Forall_forall in Hns.
  unfold ingress_services_filter. rewrite nsname_spec.
  - split.
    + intros [id [Hin [Hm1 Hm2]]]. apply in_flat_map in Hin. destruct Hin as [ing [Hing Hid]].
      apply ingress_service_ids_spec in Hid. destruct Hid as [Hf Hb].
      exists ing. split; [exact Hing|].
      assert (Hnz : snd id <> 0%N).
      { unfold ingress_backends in Hb. destruct (o_spec ing); try destruct Hb.
        apply filter_In in Hb. destruct Hb as [_ Hb]. apply negb_true_iff, N.eqb_neq in Hb. exact Hb. }
      unfold field_match in *. simpl in *.
      destruct Hm1 as [Hm1|Hm1]; [rewrite Hf in Hm1; exfalso; apply (Hns ing Hing Hm1)|].
      destruct Hm2 as [Hm2|Hm2]; [contradiction|].
      split; [congruence | rewrite <- Hm2; exact Hb].
    + intros [ing [Hing [Hsame Hb]]]. exists (o_ns s, o_nm s). split.
      * apply in_flat_map. exists ing. split; [exact Hing|]. apply ingress_service_ids_spec. simpl. auto.
      * split; right; reflexivity.
  - apply Forall_forall. intros id Hin. apply in_flat_map in Hin. destruct Hin as [ing [Hing Hid]].
    apply ingress_service_ids_spec in Hid. destruct Hid as [Hf _].
    intros [H0 _]. rewrite Hf in H0. apply (Hns ing Hing H0).
Qed.

(* node / involved-object / selector-match filters, rejecting other kinds *)
Theorem node_filter_spec names o :
  accept (mk_node_filter names) o = true <->
  o_kind o = KPod /\ exists n, o_spec o = SPod n /\ In n names.
Proof. apply accept_sem. Qed.

Theorem involved_filter_spec k ns nm o :
  accept (mk_involved_filter k ns nm) o = true <-> o_kind o = KEvent /\ o_spec o = SEvent k ns nm.
Proof. apply accept_sem. Qed.

Theorem selector_match_filter_spec target o :
  accept (mk_selector_match_filter target) o = true <-> svcfor_sem target o.
Proof. apply accept_sem. Qed.
