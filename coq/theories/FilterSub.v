(* FilterSub.v — model of subscription_filter.go: filterSubscription.run as a
   step function over the select cases, for the immediate (SubscribeWithFilter,
   CloneWithFilter) and deferred (SubscribeForFilter, CloneForFilter)
   variants.  Definitions only.

   The parent is seen through (i) the moment its Ready channel closes,
   (ii) the content its cache lists when the child asks, (iii) its event
   stream. *)
From KC Require Export Base Filter Cache.

Record fsub := {
  fs_defer : bool;          (* deferReady *)
  fs_pwait : bool;          (* preadych != nil: the parent's readiness has not been seen yet *)
  fs_pending : bool;        (* a Refilter arrived before the parent was ready *)
  fs_ready : bool;          (* close(s.readych) executed *)
  fs_filter : Filter.filter;       (* s.filter *)
  fs_cfilter : Filter.filter;      (* the filter the cache actor holds *)
  fs_cache : cache;
  fs_closes : nat           (* how many times readych was closed (a second close panics) *)
}.

Inductive fin :=
| FParentReady (plist : list obj)              (* case <-preadych; plist = parent.Cache().List() *)
| FRefilter (f : Filter.filter) (plist : list obj)    (* case f := <-s.refilterch *)
| FParentEvent (ev : event).                   (* case evt := <-s.parent.Events() *)

(* newFilterSubscription(log, parent, f, deferReady); SubscribeForFilter
   passes filter.All() *)
Definition fs_init (deferred : bool) (f : Filter.filter) : fsub :=
  {| fs_defer := deferred; fs_pwait := true; fs_pending := false; fs_ready := false;
     fs_filter := f; fs_cfilter := f; fs_cache := []; fs_closes := 0 |}.

Definition fs_init_deferred : fsub := fs_init true FAll.

(* one select case: the new state and the events put on the output channel *)
Definition fs_step (s : fsub) (i : fin) : fsub * list event :=
  match i with
  | FParentReady plist =>
      if negb (fs_pwait s) then (s, []) else
      if fs_defer s && negb (fs_pending s) then
        (* "parent ready: deferring ready" *)
        ({| fs_defer := fs_defer s; fs_pwait := false; fs_pending := fs_pending s; fs_ready := fs_ready s;
            fs_filter := fs_filter s; fs_cfilter := fs_cfilter s; fs_cache := fs_cache s; fs_closes := fs_closes s |}, [])
      else
        let (c', _) := do_sync (accept (fs_cfilter s)) (fs_cache s) plist in
        ({| fs_defer := fs_defer s; fs_pwait := false; fs_pending := fs_pending s; fs_ready := true;
            fs_filter := fs_filter s; fs_cfilter := fs_cfilter s; fs_cache := c'; fs_closes := S (fs_closes s) |}, [])
  | FRefilter f plist =>
      let isNew := negb (filters_equal (Some (fs_filter s)) (Some f)) in
      if fs_pwait s then
        if isNew then
          (* cache.refilter(nil, f); s.filter = f; pending = true *)
          let (c', _) := do_sync (accept f) (fs_cache s) [] in
          ({| fs_defer := fs_defer s; fs_pwait := true; fs_pending := true; fs_ready := fs_ready s;
              fs_filter := f; fs_cfilter := f; fs_cache := c'; fs_closes := fs_closes s |}, [])
        else
          ({| fs_defer := fs_defer s; fs_pwait := true; fs_pending := true; fs_ready := fs_ready s;
              fs_filter := fs_filter s; fs_cfilter := fs_cfilter s; fs_cache := fs_cache s; fs_closes := fs_closes s |}, [])
      else if negb isNew then
        if fs_ready s then (s, [])
        else
          (* "refilter: making ready (filter unchanged)": ready without a sync *)
          ({| fs_defer := fs_defer s; fs_pwait := false; fs_pending := fs_pending s; fs_ready := true;
              fs_filter := fs_filter s; fs_cfilter := fs_cfilter s; fs_cache := fs_cache s; fs_closes := S (fs_closes s) |}, [])
      else
        let (c', evs) := do_sync (accept f) (fs_cache s) plist in
        if fs_ready s then
          ({| fs_defer := fs_defer s; fs_pwait := false; fs_pending := fs_pending s; fs_ready := true;
              fs_filter := f; fs_cfilter := f; fs_cache := c'; fs_closes := fs_closes s |}, evs)
        else
          ({| fs_defer := fs_defer s; fs_pwait := false; fs_pending := fs_pending s; fs_ready := true;
              fs_filter := f; fs_cfilter := f; fs_cache := c'; fs_closes := S (fs_closes s) |}, [])
  | FParentEvent ev =>
      if fs_ready s then
        let (c', evs) := do_update (accept (fs_cfilter s)) (fs_cache s) ev in
        ({| fs_defer := fs_defer s; fs_pwait := fs_pwait s; fs_pending := fs_pending s; fs_ready := true;
            fs_filter := fs_filter s; fs_cfilter := fs_cfilter s; fs_cache := c'; fs_closes := fs_closes s |}, evs)
      else (s, [])
  end.

Fixpoint fs_run (s : fsub) (is : list fin) : fsub * list event :=
  match is with
  | [] => (s, [])
  | i :: is' => let (s1, e1) := fs_step s i in
                let (s2, e2) := fs_run s1 is' in
                (s2, e1 ++ e2)
  end.

(* the filtered view of a parent content: what a cache holds after one sync
   of the parent's list under filter f *)
Definition view (f : Filter.filter) (plist : list obj) : cache := fst (do_sync (accept f) [] plist).

(* filters nested through clones: the view of the view *)
Fixpoint nested_view (fs : list Filter.filter) (plist : list obj) : list obj :=
  match fs with
  | [] => plist
  | f :: fs' => nested_view fs' (do_list (view f plist))
  end.
