(* ControllerTree.v — end to end (C03 + C02 + C06), per key: the API server
   has any history; the controller is fed by any watch behaviour that delivers
   only entries of the server's log (in any order, with losses, duplicates and
   replays) and by any earlier lists; a last list is a snapshot of the server.
   Below the controller hangs a chain of filtered subscriptions / clones of any
   depth, each with any interleaving of events, listings and Refilters.  When
   every node is ready and has consumed everything, the entry at the bottom is
   the conjunction of the chain's filters applied to the SERVER's accepted
   object. *)
From KC Require Import Base Cache CacheSpec CacheProps CacheEvents Controller ControllerProps
  FilterSub FilterSubProps FilterRace FilterRaceProps FilterRaceGen FilterChain CacheHistory.

(* the events the controller hands to its subscription along a run *)
Fixpoint kevents (s : kst) (is : list cinput) : list event :=
  match is with
  | [] => []
  | i :: is' => snd (kstep s i) ++ kevents (fst (kstep s i)) is'
  end.

(* a ready, running controller is a cache performing operations *)
Definition kop (s : kst) (i : cinput) : list op :=
  match k_stopped s with
  | Some _ => []
  | None =>
      match i with
      | IList r => match classify_list r with Apply _ items => [OSync items] | Fail _ => [] end
      | IWatch ev => match k_watch_from s with Some _ => [OUpdate ev] | None => [] end
      | _ => []
      end
  end.

Fixpoint kops (s : kst) (is : list cinput) : list op :=
  match is with
  | [] => []
  | i :: is' => kop s i ++ kops (fst (kstep s i)) is'
  end.

Definition cst_of (s : kst) : cstate := {| c_filter := k_filter s; c_items := k_cache s |}.

Lemma kstep_as_ops s i : k_ready s = true ->
  cst_of (fst (kstep s i)) = run_ops (cst_of s) (kop s i) /\
  snd (kstep s i) = ops_events (cst_of s) (kop s i) /\
  k_ready (fst (kstep s i)) = true.
Proof.
  intros Hr. unfold kstep, kop, cst_of. destruct (k_stopped s); [simpl; auto|].
  destruct i as [r|ev| | |]; simpl; auto.
  - destruct (classify_list r) as [c|v items]; simpl; auto.
    destruct (do_sync (k_filter s) (k_cache s) items) as [c' evs] eqn:Hd. simpl. rewrite Hr, app_nil_r. auto.
  - destruct (k_watch_from s); simpl; auto.
    destruct (do_update (k_filter s) (k_cache s) ev) as [c' evs] eqn:Hd. simpl. rewrite app_nil_r. auto.
Qed.

Lemma run_ops_app s a b : run_ops s (a ++ b) = run_ops (run_ops s a) b.
Proof. unfold run_ops. apply fold_left_app. Qed.

Lemma ops_events_app a : forall s b, ops_events s (a ++ b) = ops_events s a ++ ops_events (run_ops s a) b.
Proof.
  induction a as [|o a IH]; intros s b; simpl; [reflexivity|].
  rewrite IH, app_assoc. reflexivity.
Qed.

Lemma krun_as_ops is : forall s, k_ready s = true ->
  cst_of (krun s is) = run_ops (cst_of s) (kops s is) /\
  kevents s is = ops_events (cst_of s) (kops s is).
Proof.
  induction is as [|i is IH]; intros s Hr; simpl; [auto|].
  destruct (kstep_as_ops s i Hr) as [H1 [H2 H3]].
  destruct (IH (fst (kstep s i)) H3) as [H4 H5].
  unfold krun in *. simpl. split.
  - rewrite H4, H1, run_ops_app. reflexivity.
  - rewrite H2, H5, H1, ops_events_app. reflexivity.
Qed.

(* C02 for the controller: what it publishes on a key, from the moment it is
   ready, is a well-formed history from its cache entry then to its cache
   entry at the end *)
Theorem controller_publishes_wf_history s is k :
  k_ready s = true -> wf_cache (k_cache s) ->
  hist_wf (clookup k (k_cache s)) (kevs k (kevents s is)) /\
  pfold (clookup k (k_cache s)) (kevs k (kevents s is)) = clookup k (k_cache (krun s is)).
Proof.
  intros Hr Hwf. destruct (krun_as_ops is s Hr) as [H1 H2].
  destruct (cache_emits_wf_history (kops s is) (cst_of s) k Hwf) as [H3 H4].
  rewrite H2. split; [exact H3|]. etransitivity; [exact H4|]. rewrite <- H1. reflexivity.
Qed.

(* end to end *)
Theorem server_to_leaf F (l : slog) pre post v listed k levels fs bottom :
  let s0 := krun (kinit F) pre in
  log_ok l ->
  Forall (watch_from_log l) (pre ++ post) -> is_list_of l listed ->
  k_ready s0 = true ->
  k_stopped (krun s0 post) = None ->
  chain (clookup k (k_cache s0)) (kevs k (kevents s0 (post ++ [IList (LROk v listed)]))) levels = Some (fs, bottom) ->
  bottom = fview (fun o => forallb (fun G => G o) fs) (accepted_view F l k).
Proof.
  intros s0 Hok Hall Hlist Hr Hrun Hch.
  assert (Hwf : wf_cache (k_cache s0)) by (unfold s0; apply wf_krun, wf_nil).
  destruct (controller_publishes_wf_history s0 (post ++ [IList (LROk v listed)]) k Hr Hwf) as [H1 H2].
  rewrite (chain_is_conjunction levels _ _ fs bottom (lookup_wf k _ Hwf) H1 Hch). f_equal.
  rewrite H2.
  assert (Hk : krun s0 (post ++ [IList (LROk v listed)]) = fst (kstep (krun (kinit F) (pre ++ post)) (IList (LROk v listed)))).
  { unfold s0, krun. rewrite !fold_left_app. reflexivity. }
  rewrite Hk. apply quiescent_server_one_relist; try assumption.
  unfold s0, krun in Hrun. unfold krun. rewrite fold_left_app. exact Hrun.
Qed.
