(* Monitor.v — model of monitor.go: monitor.run is one sequential program
   over the subscription's Ready, Done and Events channels; the handler
   callbacks are its outputs.  Definitions only. *)
From KC Require Export Base.

Inductive cb :=
| CbInit (content : list N)                 (* OnInitialize(objs): ids of the cache content *)
| CbEvent (ty : etype) (id : N).            (* OnCreate / OnUpdate / OnDelete(obj) *)

(* what monitor.run's selects can receive *)
Inductive minput :=
| MReady (content : list N)    (* <-m.sub.Ready(), then Cache().List() *)
| MReadyFail                   (* <-m.sub.Ready(), and Cache().List() fails (the cache has stopped):
                                  ShutdownInitiated(err); sub.Close(); no callback *)
| MDone                        (* <-m.sub.Done() *)
| MEvent (ty : etype) (id : N) (* ev := <-m.sub.Events() *)
| MClosed.                     (* Events() closed *)

Inductive mphase := MWaitReady | MRunning | MStopped.

(* the first select listens to Done and Ready only; the loop to Done and Events *)
Definition mstep (p : mphase) (i : minput) : mphase * list cb :=
  match p, i with
  | MWaitReady, MDone => (MStopped, [])
  | MWaitReady, MReady l => (MRunning, [CbInit l])
  | MWaitReady, MReadyFail => (MStopped, [])
  | MWaitReady, _ => (MWaitReady, [])          (* not received in this phase *)
  | MRunning, MDone => (MStopped, [])
  | MRunning, MClosed => (MStopped, [])
  | MRunning, MEvent ty id => (MRunning, [CbEvent ty id])
  | MRunning, MReady _ => (MRunning, [])       (* Ready is not listened to any more *)
  | MRunning, MReadyFail => (MRunning, [])
  | MStopped, _ => (MStopped, [])
  end.

Fixpoint mrun (p : mphase) (is : list minput) : list cb :=
  match is with
  | [] => []
  | i :: is' => let (p', out) := mstep p i in out ++ mrun p' is'
  end.

Definition is_init (c : cb) : bool := match c with CbInit _ => true | _ => false end.

Definition cb_eqb (a b : cb) : bool :=
  match a, b with
  | CbEvent t1 i1, CbEvent t2 i2 => etype_eqb t1 t2 && N.eqb i1 i2
  | _, _ => false
  end.

Fixpoint is_prefix (a b : list cb) : bool :=
  match a, b with
  | [], _ => true
  | x :: a', y :: b' => cb_eqb x y && is_prefix a' b'
  | _ :: _, [] => false
  end.

(* the checker evaluated on the implementation's callback logs: empty, or
   OnInitialize first and once, then one callback per event received, in
   order, matching type and object; all of them when the monitor was never
   closed *)
Definition monitor_log_ok (events : list (etype * N)) (log : list cb) (complete : bool) : bool :=
  match log with
  | [] => negb complete
  | CbInit _ :: rest =>
      let want := map (fun e => CbEvent (fst e) (snd e)) events in
      negb (existsb is_init rest) && is_prefix rest want &&
      (negb complete || Nat.eqb (length rest) (length want))
  | CbEvent _ _ :: _ => false
  end.

(* a handler built with BuildHandler() has any subset of the four callbacks;
   a callback that is absent is skipped (handler.OnX checks for nil) *)
Record hmask := { h_init : bool; h_create : bool; h_update : bool; h_delete : bool }.

Definition has_cb (m : hmask) (c : cb) : bool :=
  match c with
  | CbInit _ => h_init m
  | CbEvent Create _ => h_create m
  | CbEvent Update _ => h_update m
  | CbEvent Delete _ => h_delete m
  end.

(* what the user's functions see *)
Definition mrun_masked (m : hmask) (is : list minput) : list cb := List.filter (has_cb m) (mrun MWaitReady is).
