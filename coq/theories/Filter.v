(* Filter.v — model of filter/*.go and types/*/filter.go.
   Definitions only.  One Go function -> one Gallina function of the same
   shape; `accept` mirrors each Accept, `feq` mirrors each Equals,
   `filters_equal` mirrors FiltersEqual, the mk_* / *_pods_filter functions
   mirror the Go constructors. *)
From KC Require Export Base.

(* labels.Requirement as produced by SelectorFromSet / LabelSelectorAsSelector *)
Inductive rop := RIn | RNotIn | RExists | RDoesNotExist | REquals.
Record req := { r_key : name; r_op : rop; r_vals : list name }.

(* labels.Selector: Nothing() or an internalSelector *)
Inductive selector := SelNothing | SelReqs (rs : list req).

Inductive filter :=
| FNull                                   (* filter.Null(): accepts everything *)
| FAll                                    (* filter.All(): accepts nothing *)
| FNot (c : filter)
| FAnd (cs : list filter)
| FOr (cs : list filter)
| FNSName (full : list key) (partials : list key)
| FSel (s : selector)
| FFn (p : obj -> bool)                   (* filter.FN: not comparable *)
| FNode (names : list name)               (* pod.NodeFilter *)
| FInvolved (k ns nm : name)              (* event.InvolvedFilter *)
| FSvcFor (target : lmap).                (* service.SelectorMatchFilter *)

(* ---------- small helpers ---------- *)

Definition mem_name (x : name) (l : list name) : bool := existsb (N.eqb x) l.
Definition mem_key (x : key) (l : list key) : bool := existsb (key_eqb x) l.

Definition rop_eqb (a b : rop) : bool :=
  match a, b with
  | RIn, RIn | RNotIn, RNotIn | RExists, RExists
  | RDoesNotExist, RDoesNotExist | REquals, REquals => true
  | _, _ => false
  end.

Fixpoint names_eqb (a b : list name) : bool :=
  match a, b with
  | [], [] => true
  | x :: a', y :: b' => N.eqb x y && names_eqb a' b'
  | _, _ => false
  end.

Fixpoint keys_eqb (a b : list key) : bool :=
  match a, b with
  | [], [] => true
  | x :: a', y :: b' => key_eqb x y && keys_eqb a' b'
  | _, _ => false
  end.

Definition req_eqb (a b : req) : bool :=
  N.eqb (r_key a) (r_key b) && rop_eqb (r_op a) (r_op b) && names_eqb (r_vals a) (r_vals b).

Fixpoint reqs_eqb (a b : list req) : bool :=
  match a, b with
  | [], [] => true
  | x :: a', y :: b' => req_eqb x y && reqs_eqb a' b'
  | _, _ => false
  end.

(* reflect.DeepEqual on two labels.Selector values *)
Definition selector_eqb (a b : selector) : bool :=
  match a, b with
  | SelNothing, SelNothing => true
  | SelReqs x, SelReqs y => reqs_eqb x y
  | _, _ => false
  end.

(* reflect.DeepEqual on two Go maps used as sets: same key set *)
Definition keyset_eqb (a b : list key) : bool :=
  forallb (fun x => mem_key x b) a && forallb (fun x => mem_key x a) b.
Definition nameset_eqb (a b : list name) : bool :=
  forallb (fun x => mem_name x b) a && forallb (fun x => mem_name x a) b.

(* labels.Equals *)
Definition labels_equals (a b : lmap) : bool :=
  Nat.eqb (length a) (length b) &&
  forallb (fun kv => match lookup (fst kv) b with
                     | Some v => N.eqb v (snd kv)
                     | None => false
                     end) a.

(* ---------- Accept ---------- *)

(* labels.Requirement.Matches *)
Definition req_matches (r : req) (ls : lmap) : bool :=
  match r_op r with
  | RIn | REquals =>
      match lookup (r_key r) ls with
      | None => false
      | Some v => mem_name v (r_vals r)
      end
  | RNotIn =>
      match lookup (r_key r) ls with
      | None => true
      | Some v => negb (mem_name v (r_vals r))
      end
  | RExists => match lookup (r_key r) ls with None => false | Some _ => true end
  | RDoesNotExist => match lookup (r_key r) ls with None => true | Some _ => false end
  end.

Definition selector_matches (s : selector) (ls : lmap) : bool :=
  match s with
  | SelNothing => false
  | SelReqs rs => forallb (fun r => req_matches r ls) rs
  end.

(* nsNameFilter.Accept's scan of the partial entries *)
Definition partial_matches (k : key) (id : key) : bool :=
  if N.eqb (fst id) 0 then N.eqb (snd id) (snd k)
  else if N.eqb (snd id) 0 then N.eqb (fst id) (fst k)
  else false.

(* serviceForFilter.Accept *)
Definition svcfor_accept (target : lmap) (o : obj) : bool :=
  match o_spec o with
  | SService sel =>
      if N.eqb (o_kind o) KService then
        if (Nat.eqb (length sel) 0 || Nat.eqb (length target) 0)%bool then false
        else forallb (fun kv => match lookup (fst kv) target with
                                | Some v => N.eqb v (snd kv)
                                | None => false
                                end) sel
      else false
  | _ => false
  end.

Fixpoint accept (f : filter) (o : obj) : bool :=
  match f with
  | FNull => true
  | FAll => false
  | FNot c => negb (accept c o)
  | FAnd cs => forallb (fun c => accept c o) cs
  | FOr cs => existsb (fun c => accept c o) cs
  | FNSName full partials =>
      mem_key (key_of o) full || existsb (partial_matches (key_of o)) partials
  | FSel s => selector_matches s (o_labels o)
  | FFn p => p o
  | FNode names =>
      match o_spec o with
      | SPod node => N.eqb (o_kind o) KPod && mem_name node names
      | _ => false
      end
  | FInvolved k ns nm =>
      match o_spec o with
      | SEvent ik ins inm =>
          N.eqb (o_kind o) KEvent && N.eqb ik k && N.eqb ins ns && N.eqb inm nm
      | _ => false
      end
  | FSvcFor target => svcfor_accept target o
  end.

(* ---------- Equals / FiltersEqual ---------- *)

(* `_, ok := f.(ComparableFilter)`: everything but FN *)
Definition comparable (f : filter) : bool :=
  match f with FFn _ => false | _ => true end.

Fixpoint feq (f g : filter) : bool :=
  match f, g with
  | FNull, FNull => true
  | FAll, FAll => true
  | FNot c, FNot d => feq c d
  | FAnd cs, FAnd ds =>
      (fix go (cs ds : list filter) : bool :=
         match cs, ds with
         | [], [] => true
         | c :: cs', d :: ds' => comparable c && comparable d && feq c d && go cs' ds'
         | _, _ => false
         end) cs ds
  | FOr cs, FOr ds =>
      (fix go (cs ds : list filter) : bool :=
         match cs, ds with
         | [], [] => true
         | c :: cs', d :: ds' => comparable c && comparable d && feq c d && go cs' ds'
         | _, _ => false
         end) cs ds
  | FNSName fa pa, FNSName fb pb => keyset_eqb fa fb && keys_eqb pa pb
  | FSel s, FSel t => selector_eqb s t
  | FNode a, FNode b => nameset_eqb a b
  | FInvolved k ns nm, FInvolved k' ns' nm' => N.eqb k k' && N.eqb ns ns' && N.eqb nm nm'
  | FSvcFor a, FSvcFor b => labels_equals a b
  | _, _ => false                         (* includes FFn on either side *)
  end.

(* filter.FiltersEqual with its nil handling *)
Definition filters_equal (f g : option filter) : bool :=
  match f, g with
  | None, None => true
  | Some f, Some g => comparable f && feq f g
  | _, _ => false
  end.

(* ---------- constructors ---------- *)

(* filter.NSName(ids...) *)
Definition is_full (id : key) : bool := negb (N.eqb (fst id) 0) && negb (N.eqb (snd id) 0).
Definition mk_nsname (ids : list key) : filter :=
  FNSName (List.filter is_full ids) (List.filter (fun id => negb (is_full id)) ids).

(* stable insertion sort of requirements by key (sort.Sort(ByKey) on the
   sizes the library meets) *)
Fixpoint insert_req (r : req) (l : list req) : list req :=
  match l with
  | [] => [r]
  | x :: l' => if N.ltb (r_key r) (r_key x) then r :: l else x :: insert_req r l'
  end.
Definition sort_reqs (l : list req) : list req := fold_right insert_req [] l.

(* labels.SelectorFromSet on a map given in key order *)
Definition selector_from_set (m : lmap) : selector :=
  SelReqs (sort_reqs (map (fun kv => {| r_key := fst kv; r_op := REquals; r_vals := [snd kv] |}) m)).

(* filter.Labels *)
Definition mk_labels (m : lmap) : filter := FSel (selector_from_set m).

Definition rop_of (op : lsel_op) : rop :=
  match op with LIn => RIn | LNotIn => RNotIn | LExists => RExists | LDoesNotExist => RDoesNotExist end.

(* metav1.LabelSelectorAsSelector; `None` is the nil *LabelSelector *)
Definition label_selector_as_selector (ls : option lsel) : selector :=
  match ls with
  | None => SelNothing
  | Some ls =>
      SelReqs (sort_reqs
        (map (fun kv => {| r_key := fst kv; r_op := REquals; r_vals := [snd kv] |}) (ls_labels ls)
         ++ map (fun e => {| r_key := le_key e; r_op := rop_of (le_op e); r_vals := le_vals e |}) (ls_exprs ls)))
  end.

(* filter.LabelSelector *)
Definition mk_label_selector (ls : option lsel) : filter := FSel (label_selector_as_selector ls).

(* ---------- workload filters (types/*/filter.go) ---------- *)

(* the sort.Slice by (namespace, name) *)
Definition key_ltb (a b : key) : bool :=
  if N.eqb (fst a) (fst b) then N.ltb (snd a) (snd b) else N.ltb (fst a) (fst b).
Fixpoint insert_obj (o : obj) (l : list obj) : list obj :=
  match l with
  | [] => [o]
  | x :: l' => if key_ltb (key_of o) (key_of x) then o :: l else x :: insert_obj o l'
  end.
Definition sort_objs (l : list obj) : list obj := fold_right insert_obj [] l.

Definition ns_filter (ns : name) : filter := mk_nsname [(ns, 0%N)].

(* service.PodsFilter *)
Definition service_pods_filter (svcs : list obj) : filter :=
  FOr (flat_map (fun s =>
         match o_spec s with
         | SService sel =>
             if Nat.ltb 0 (length sel)
             then [FAnd [ns_filter (o_ns s); mk_labels sel]]
             else []
         | _ => []
         end) (sort_objs svcs)).

(* replicationcontroller.PodsFilter *)
(* a replication controller's selector, or, lacking one, its template labels *)
Definition rc_sel (sel tmpl : lmap) : lmap := match sel with [] => tmpl | _ => sel end.

Definition rc_pods_filter (srcs : list obj) : filter :=
  FOr (map (fun s =>
         match o_spec s with
         | SRC sel tmpl => mk_labels (rc_sel sel tmpl)
         | _ => mk_labels []
         end) (sort_objs srcs)).

(* replicaset / deployment / daemonset / statefulset / job PodsFilter *)
Definition workload_pods_filter (srcs : list obj) : filter :=
  FOr (map (fun s =>
         match o_spec s with
         | SWorkload (Some sel) _ => FAnd [ns_filter (o_ns s); mk_label_selector (Some sel)]
         | SWorkload None tmpl => FAnd [ns_filter (o_ns s); mk_labels tmpl]
         | _ => FAnd [ns_filter (o_ns s); mk_labels []]
         end) (sort_objs srcs)).

(* ingress.ServicesFilter / buildServicesFilter *)
Definition ingress_service_ids (ing : obj) : list key :=
  match o_spec ing with
  | SIngress backend paths =>
      (if N.eqb backend 0 then [] else [(o_ns ing, backend)])
      ++ flat_map (fun p => if N.eqb p 0 then [] else [(o_ns ing, p)]) paths
  | _ => []
  end.
Definition ingress_services_filter (ings : list obj) : filter :=
  mk_nsname (flat_map ingress_service_ids ings).

(* pod.NodeFilter, event.InvolvedFilter, service.SelectorMatchFilter *)
Definition mk_node_filter (names : list name) : filter := FNode names.
Definition mk_involved_filter (k ns nm : name) : filter := FInvolved k ns nm.
Definition mk_selector_match_filter (target : lmap) : filter := FSvcFor target.
