(* WatcherProps.v — theorems about Watcher.v (C04, and the watch side of C03). *)
From KC Require Import Base Cache Watcher.

Lemma wseq_snoc a k : wseq a k ++ [S (a + k)] = wseq a (S k).
Proof.
  revert a. induction k as [|k IH]; intros a; simpl.
  - rewrite Nat.add_0_r. reflexivity.
  - f_equal. rewrite Nat.add_succ_r. change (S (a + k)) with (S a + k). apply IH.
Qed.

Lemma wseq_length a k : length (wseq a k) = k.
Proof. revert a. induction k; intros a; simpl; auto. Qed.

Lemma wseq_prefix l1 : forall l2 a c, l1 ++ l2 = wseq a c -> l1 = wseq a (length l1).
Proof.
  induction l1 as [|x l1 IH]; intros l2 a c H; [reflexivity|].
  destruct c as [|c]; simpl in H; [discriminate|].
  injection H as -> H. simpl. f_equal. eapply IH, H.
Qed.

Lemma wseq_in a k i : In i (wseq a k) -> a < i /\ i <= a + k.
Proof.
  revert a. induction k as [|k IH]; intros a H; simpl in H; [contradiction|].
  destruct H as [<- | H]; [lia|]. apply IH in H. lia.
Qed.

(* ------------------------------------------------------------------ *)
(* strictly increasing lists inside a window (lo, hi]                   *)

Fixpoint incr_within (lo hi : nat) (l : list nat) : Prop :=
  match l with
  | [] => lo <= hi
  | x :: r => lo < x /\ incr_within x hi r
  end.

Lemma incr_bounds lo hi l : incr_within lo hi l -> lo <= hi.
Proof. revert lo. induction l as [|x r IH]; intros lo H; simpl in H; [exact H|]. destruct H as [H1 H2]. apply IH in H2. lia. Qed.

Lemma incr_widen lo hi hi' l : incr_within lo hi l -> hi <= hi' -> incr_within lo hi' l.
Proof. revert lo. induction l as [|x r IH]; intros lo H Hh; simpl in *; [lia|]. destruct H. split; [assumption|]. apply IH; assumption. Qed.

Lemma incr_snoc lo hi l x : incr_within lo hi l -> hi < x -> incr_within lo x (l ++ [x]).
Proof.
  revert lo. induction l as [|y r IH]; intros lo H Hx; simpl in *.
  - split; lia.
  - destruct H. split; [assumption|]. apply IH; assumption.
Qed.

Lemma incr_in lo hi l i : incr_within lo hi l -> In i l -> lo < i /\ i <= hi.
Proof.
  revert lo. induction l as [|x r IH]; intros lo H Hi; simpl in *; [contradiction|].
  destruct H as [H1 H2]. destruct Hi as [<- | Hi].
  - apply incr_bounds in H2. lia.
  - apply IH in H2; [lia | exact Hi].
Qed.

Lemma incr_nodup lo hi l : incr_within lo hi l -> NoDup l.
Proof.
  revert lo. induction l as [|x r IH]; intros lo H; [constructor|].
  simpl in H. destruct H as [H1 H2]. constructor; [|eapply IH; exact H2].
  intros Hin. eapply incr_in in Hin; [|exact H2]. lia.
Qed.

Lemma wseq_incr a k : incr_within a (a + k) (wseq a k).
Proof.
  revert a. induction k as [|k IH]; intros a; simpl; [lia|].
  split; [lia|]. replace (a + S k) with (S a + k) by lia. apply IH.
Qed.

(* ------------------------------------------------------------------ *)
(* the invariant: an exact part that holds while nothing was lost, and  *)
(* an order part that holds whatever was lost                           *)

Definition winv_exact (s : wst) : Prop :=
  w_applied s ++ w_obuf s = wseq (w_base s) (w_cur s - w_base s) /\
  (w_has s = true -> w_sbuf s = wseq (w_cur s) (w_pos s - w_cur s)).

Definition winv_order (s : wst) : Prop :=
  incr_within (w_base s) (w_cur s) (w_applied s ++ w_obuf s) /\
  (w_has s = true -> incr_within (w_cur s) (w_pos s) (w_sbuf s) /\ w_pos s <= w_n s) /\
  (w_has s = false -> w_sbuf s = []) /\
  w_cur s <= w_n s /\
  (w_conn s = true -> w_has s = true).

Definition winv (s : wst) : Prop := winv_order s /\ (w_lost s = 0 -> winv_exact s).

Lemma winv_init cap : winv (winit cap).
Proof.
  unfold winv, winv_order, winv_exact, winit; simpl. repeat split; auto; try discriminate; try lia.
Qed.

Ltac wsimp := cbn [w_n w_conn w_has w_pos w_sbuf w_obuf w_applied w_cur w_base w_cap w_lost] in *.

Ltac word := unfold winv_order; wsimp; split; [|split; [|split; [|split]]].

Lemma winv_step s a s' : winv s -> wstep s a = Some s' -> winv s'.
Proof.
  intros [[O1 [O2 [O3 [O4 O5]]]] HX] Hs.
  destruct s as [n conn has pos sbuf obuf applied cur base cap lost]. unfold winv_exact in HX. wsimp.
  assert (Hbc : base <= cur) by (eapply incr_bounds; exact O1).
  destruct a; simpl in Hs.
  - (* WEmit *)
    injection Hs as <-. split; [|exact HX]. word.
    + exact O1.
    + intros Hh. destruct (O2 Hh). split; [assumption | lia].
    + exact O3.
    + lia.
    + exact O5.
  - (* WDeliver *)
    destruct conn; simpl in Hs; [|discriminate]. destruct has; simpl in Hs; [|discriminate].
    destruct (Nat.ltb_spec pos n) as [Hpn|]; [|discriminate].
    destruct (O2 eq_refl) as [Hsb Hp].
    destruct (Nat.ltb_spec (length sbuf) cap) as [Hroom|Hfull]; injection Hs as <-.
    + split.
      * word; [exact O1 | | discriminate | exact O4 | reflexivity].
        intros _. split; [|lia]. apply incr_snoc with (hi := pos); [exact Hsb | lia].
      * intros Hl; wsimp. destruct (HX Hl) as [X1 X2]. unfold winv_exact; wsimp. split; [exact X1|]. intros _.
        rewrite (X2 eq_refl).
        assert (Hcp : cur <= pos) by (eapply incr_bounds; exact Hsb).
        replace (S pos - cur) with (S (pos - cur)) by lia. rewrite <- wseq_snoc. do 2 f_equal. lia.
    + split.
      * word; [exact O1 | | discriminate | exact O4 | reflexivity].
        intros _. split; [|lia]. eapply incr_widen; [exact Hsb | lia].
      * wsimp. discriminate.
  - (* WFrame *)
    destruct conn; [|discriminate]. injection Hs as <-. split; [|exact HX].
    word; assumption.
  - (* WSessEnd *)
    destruct conn; [|discriminate]. injection Hs as <-. split; [|exact HX].
    word; try assumption. discriminate.
  - (* WTake *)
    destruct has; [|discriminate]. destruct sbuf as [|i rest]; [discriminate|].
    destruct (O2 eq_refl) as [Hsb Hp]. simpl in Hsb. destruct Hsb as [Hci Hrest].
    assert (Hip : i <= pos) by (eapply incr_bounds; exact Hrest).
    destruct (Nat.ltb_spec (length obuf) cap) as [Hroom|Hfull]; injection Hs as <-.
    + split.
      * word; [ | | discriminate | lia | exact O5].
        -- rewrite app_assoc. apply incr_snoc with (hi := cur); assumption.
        -- intros _. split; assumption.
      * intros Hl; wsimp. destruct (HX Hl) as [X1 X2]. specialize (X2 eq_refl).
        destruct (pos - cur) as [|k] eqn:Hk; simpl in X2; [discriminate|]. injection X2 as -> ->.
        unfold winv_exact; wsimp. split.
        -- rewrite app_assoc, X1. replace (S cur - base) with (S (cur - base)) by lia.
           rewrite <- wseq_snoc. do 2 f_equal. lia.
        -- intros _. f_equal. lia.
    + split.
      * word; [ | | discriminate | lia | exact O5].
        -- eapply incr_widen; [exact O1 | lia].
        -- intros _. split; assumption.
      * wsimp. discriminate.
  - (* WDone *)
    destruct has; simpl in Hs; [|discriminate]. destruct conn; simpl in Hs; [discriminate|].
    injection Hs as <-. split.
    + word; [exact O1 | discriminate | reflexivity | exact O4 | discriminate].
    + intros Hl; wsimp. destruct (HX Hl) as [X1 _]. unfold winv_exact; wsimp. split; [exact X1|discriminate].
  - (* WRetry *)
    destruct has; simpl in Hs; [discriminate|]. injection Hs as <-. split.
    + word; [exact O1 | | discriminate | exact O4 | reflexivity].
      intros _. split; [simpl; lia | exact O4].
    + intros Hl; wsimp. destruct (HX Hl) as [X1 _]. unfold winv_exact; wsimp. split; [exact X1|].
      intros _. rewrite Nat.sub_diag. reflexivity.
  - (* WRetryFail *)
    destruct has; simpl in Hs; [discriminate|]. injection Hs as <-. split.
    + word; [exact O1 | | discriminate | exact O4 | discriminate].
      intros _. split; [simpl; lia | exact O4].
    + intros Hl; wsimp. destruct (HX Hl) as [X1 _]. unfold winv_exact; wsimp. split; [exact X1|].
      intros _. rewrite Nat.sub_diag. reflexivity.
  - (* WApply *)
    destruct obuf as [|i rest]; [discriminate|]. injection Hs as <-. split.
    + word; try assumption. rewrite <- app_assoc. exact O1.
    + intros Hl; wsimp. destruct (HX Hl) as [X1 X2]. unfold winv_exact; wsimp. split; [|exact X2].
      rewrite <- app_assoc. exact X1.
  - (* WReset *)
    destruct (Nat.leb_spec b n); [|discriminate]. injection Hs as <-. split.
    + word; [simpl; lia | | discriminate | assumption | reflexivity].
      intros _. split; [simpl; lia | assumption].
    + intros _. unfold winv_exact; wsimp. rewrite Nat.sub_diag. split; reflexivity.
Qed.

(* C04: the pipeline invariant holds after every sequence of server changes,
   deliveries, faults, buffer overflows, reconnects, relists and controller
   steps *)
Theorem watch_pipeline_invariant : forall cap l s, wrun (winit cap) l = Some s -> winv s.
Proof.
  intros cap l. assert (H : forall s0, winv s0 -> forall s, wrun s0 l = Some s -> winv s).
  { induction l as [|a l IH]; intros s0 H0 s Hr; simpl in Hr.
    - injection Hr as <-. exact H0.
    - destruct (wstep s0 a) as [s1|] eqn:Hs; [|discriminate]. eapply IH; [|exact Hr]. eapply winv_step; eassumption. }
  apply H, winv_init.
Qed.

(* while no buffer overflowed since the last list: what the controller applied
   since then is the server's log from that list's version on, in order, with
   no duplicate and no omission *)
Theorem applied_is_prefix_of_log : forall cap l s, wrun (winit cap) l = Some s -> w_lost s = 0 ->
  w_applied s = wseq (w_base s) (length (w_applied s)) /\ w_base s + length (w_applied s) <= w_n s.
Proof.
  intros cap l s Hr Hl. destruct (watch_pipeline_invariant cap l s Hr) as [[O1 [_ [_ [O4 _]]]] HX].
  destruct (HX Hl) as [X1 _]. split.
  - eapply wseq_prefix, X1.
  - assert (Hlen : length (w_applied s ++ w_obuf s) = w_cur s - w_base s) by (rewrite X1; apply wseq_length).
    rewrite app_length in Hlen. apply incr_bounds in O1. lia.
Qed.

(* whatever overflowed: what was applied since the last list is in log order
   without duplicates, and nothing in it, in the channel or in the session
   predates that list (C03: the old session and the old channel are discarded
   with everything they held) *)
Theorem applied_in_order_without_duplicates : forall cap l s, wrun (winit cap) l = Some s ->
  incr_within (w_base s) (w_cur s) (w_applied s ++ w_obuf s) /\ NoDup (w_applied s ++ w_obuf s).
Proof.
  intros cap l s Hr. destruct (watch_pipeline_invariant cap l s Hr) as [[O1 _] _].
  split; [exact O1 | eapply incr_nodup; exact O1].
Qed.

Theorem nothing_stale_after_reset : forall cap l s i, wrun (winit cap) l = Some s ->
  In i (w_applied s ++ w_obuf s ++ w_sbuf s) -> w_base s < i /\ i <= w_n s.
Proof.
  intros cap l s i Hr Hi. destruct (watch_pipeline_invariant cap l s Hr) as [[O1 [O2 [O3 [O4 O5]]]] _].
  rewrite app_assoc in Hi. apply in_app_or in Hi. destruct Hi as [Hi | Hi].
  - eapply incr_in in Hi; [|exact O1]. lia.
  - destruct (w_has s) eqn:Hh.
    + destruct (O2 eq_refl) as [Hsb Hp]. eapply incr_in in Hi; [|exact Hsb].
      apply incr_bounds in O1. lia.
    + rewrite (O3 eq_refl) in Hi. contradiction.
Qed.

(* a reconnect resumes right after the last entry taken *)
Theorem reconnect_resumes_after_last_taken : forall cap l s s', wrun (winit cap) l = Some s ->
  wstep s WRetry = Some s' ->
  w_pos s' = w_cur s /\ w_obuf s' = w_obuf s /\
  (w_lost s = 0 -> w_cur s = w_base s + length (w_applied s ++ w_obuf s)).
Proof.
  intros cap l s s' Hr Hs. destruct (watch_pipeline_invariant cap l s Hr) as [[O1 _] HX].
  simpl in Hs. destruct (w_has s); simpl in Hs; [discriminate|]. injection Hs as <-. simpl.
  repeat split. intros Hl. destruct (HX Hl) as [X1 _]. rewrite X1, wseq_length. apply incr_bounds in O1. lia.
Qed.

(* an entry that made it into the channel the controller reads is applied or
   still there: no step but a relist's reset discards it *)
Theorem received_not_discarded : forall s a s', (forall b, a <> WReset b) -> wstep s a = Some s' ->
  exists more, w_applied s' ++ w_obuf s' = (w_applied s ++ w_obuf s) ++ more.
Proof.
  intros s a s' Hnr Hs. destruct s as [n conn has pos sbuf obuf applied cur base cap lost].
  destruct a; simpl in Hs; [| | | | | | | | |exfalso; eapply Hnr; reflexivity].
  - injection Hs as <-. exists []. simpl. rewrite app_nil_r. reflexivity.
  - destruct (conn && has && Nat.ltb pos n); [|discriminate].
    destruct (Nat.ltb (length sbuf) cap); injection Hs as <-; exists []; simpl; rewrite app_nil_r; reflexivity.
  - destruct conn; [|discriminate]. injection Hs as <-. exists []. simpl. rewrite app_nil_r. reflexivity.
  - destruct conn; [|discriminate]. injection Hs as <-. exists []. simpl. rewrite app_nil_r. reflexivity.
  - destruct has; [|discriminate]. destruct sbuf as [|i rest]; [discriminate|].
    destruct (Nat.ltb (length obuf) cap); injection Hs as <-.
    + exists [i]. simpl. rewrite app_assoc. reflexivity.
    + exists []. simpl. rewrite app_nil_r. reflexivity.
  - destruct (has && negb conn); [|discriminate]. injection Hs as <-. exists []. simpl. rewrite app_nil_r. reflexivity.
  - destruct (negb has); [|discriminate]. injection Hs as <-. exists []. simpl. rewrite app_nil_r. reflexivity.
  - destruct (negb has); [|discriminate]. injection Hs as <-. exists []. simpl. rewrite app_nil_r. reflexivity.
  - destruct obuf as [|i rest]; [discriminate|]. injection Hs as <-. exists []. simpl.
    rewrite app_nil_r, <- app_assoc. reflexivity.
Qed.

(* nothing is lost while the two buffers have room: loss needs a full buffer *)
Theorem loss_needs_full_buffer : forall s a s', wstep s a = Some s' -> w_lost s' <> w_lost s ->
  (exists b, a = WReset b) \/
  (a = WDeliver /\ length (w_sbuf s) >= w_cap s) \/ (a = WTake /\ length (w_obuf s) >= w_cap s).
Proof.
  intros s a s' Hs Hne. destruct s as [n conn has pos sbuf obuf applied cur base cap lost].
  destruct a; simpl in Hs; wsimp.
  - injection Hs as <-. simpl in Hne. congruence.
  - destruct (conn && has && Nat.ltb pos n); [|discriminate].
    destruct (Nat.ltb_spec (length sbuf) cap); injection Hs as <-; simpl in Hne; [congruence|].
    right. left. split; [reflexivity | assumption].
  - destruct conn; [|discriminate]. injection Hs as <-. simpl in Hne. congruence.
  - destruct conn; [|discriminate]. injection Hs as <-. simpl in Hne. congruence.
  - destruct has; [|discriminate]. destruct sbuf as [|i rest]; [discriminate|].
    destruct (Nat.ltb_spec (length obuf) cap); injection Hs as <-; simpl in Hne; [congruence|].
    right. right. split; [reflexivity | assumption].
  - destruct (has && negb conn); [|discriminate]. injection Hs as <-. simpl in Hne. congruence.
  - destruct (negb has); [|discriminate]. injection Hs as <-. simpl in Hne. congruence.
  - destruct (negb has); [|discriminate]. injection Hs as <-. simpl in Hne. congruence.
  - destruct obuf; [discriminate|]. injection Hs as <-. simpl in Hne. congruence.
  - left. eexists. reflexivity.
Qed.

(* C03: a relist's reset wipes the slate — whatever overflowed before it, the
   exact invariant holds again from the list's version on *)
Theorem reset_heals : forall s b s', wstep s (WReset b) = Some s' ->
  w_lost s' = 0 /\ w_base s' = b /\ w_applied s' = [] /\ w_obuf s' = [] /\ w_sbuf s' = [] /\ w_cur s' = b.
Proof.
  intros s b s' Hs. simpl in Hs. destruct (Nat.leb b (w_n s)); [|discriminate]. injection Hs as <-. simpl.
  repeat split.
Qed.

(* C04: when nothing the library can do is left and no buffer overflowed,
   everything the server emitted since the last list has been applied, in
   order — no relist needed *)
Theorem watch_quiescent_complete : forall cap l s, wrun (winit cap) l = Some s ->
  wquiescent s = true -> w_lost s = 0 -> w_applied s = wseq (w_base s) (w_n s - w_base s).
Proof.
  intros cap l s Hr Hq Hl. destruct (watch_pipeline_invariant cap l s Hr) as [[O1 [O2 [O3 [O4 O5]]]] HX].
  destruct (HX Hl) as [X1 X2].
  destruct s as [n conn has pos sbuf obuf applied cur base cp lost]. unfold wquiescent in Hq. wsimp. simpl in Hq.
  destruct has.
  - destruct (O2 eq_refl) as [Hsb Hp]. specialize (X2 eq_refl).
    destruct conn; simpl in Hq.
    + destruct (Nat.ltb_spec pos n).
      * destruct (Nat.ltb (length sbuf) cp); discriminate.
      * destruct sbuf as [|i rest]; [|destruct (Nat.ltb (length obuf) cp); discriminate].
        destruct obuf as [|j rest']; [|discriminate].
        rewrite app_nil_r in X1. rewrite X1. f_equal.
        assert (pos - cur = 0) by (destruct (pos - cur); [reflexivity | discriminate]).
        apply incr_bounds in Hsb. lia.
    + destruct sbuf; [discriminate|]. destruct (Nat.ltb (length obuf) cp); discriminate.
  - simpl in Hq. destruct conn; simpl in Hq; discriminate.
Qed.

Theorem watch_quiescent_cache : forall F c0 entry cap l s, wrun (winit cap) l = Some s ->
  wquiescent s = true -> w_lost s = 0 ->
  cache_after F c0 entry (w_applied s) = cache_after F c0 entry (wseq (w_base s) (w_n s - w_base s)).
Proof. intros. f_equal. eapply watch_quiescent_complete; eassumption. Qed.

(* status, bookmark and unknown frames change nothing *)
Theorem non_object_frames_harmless : forall s s', wstep s WFrame = Some s' -> s' = s.
Proof. intros s s' H. simpl in H. destruct (w_conn s); [injection H as <-; reflexivity | discriminate]. Qed.

(* and quiescence is always reachable again by the library's own steps once
   the server stops: from every reachable state *)
Fixpoint settle (fuel : nat) (s : wst) : wst :=
  match fuel with
  | O => s
  | S f =>
      match wstep s WApply with
      | Some s' => settle f s'
      | None =>
          match wstep s WTake with
          | Some s' => settle f s'
          | None =>
              match wstep s WDeliver with
              | Some s' => settle f s'
              | None =>
                  match wstep s WDone with
                  | Some s' => settle f s'
                  | None =>
                      match wstep s WRetry with
                      | Some s' => settle f s'
                      | None => s
                      end
                  end
              end
          end
      end
  end.

(* non-vacuity and the D4 history: one event, the server closes the stream,
   one more event; the library's own steps bring the second event in *)
Example d4_history_converges :
  exists s, wrun (winit 4) [WEmit; WDeliver; WTake; WApply; WSessEnd; WEmit] = Some s /\
            w_applied s = [1] /\
            wquiescent (settle 10 s) = true /\ w_applied (settle 10 s) = [1; 2] /\ w_lost (settle 10 s) = 0.
Proof. eexists. split; [vm_compute; reflexivity|]. vm_compute. repeat split; reflexivity. Qed.

(* the stale-buffer history: two entries sit in the output channel when a
   list taken at version 2 arrives; the reset discards them, and only what
   follows the list is applied afterwards *)
Example stale_buffer_discarded_at_reset :
  exists s, wrun (winit 4) [WEmit; WEmit; WDeliver; WDeliver; WTake; WTake; WReset 2; WEmit] = Some s /\
            w_obuf s = [] /\ w_applied (settle 10 s) = [3] /\ wquiescent (settle 10 s) = true.
Proof. eexists. split; [vm_compute; reflexivity|]. vm_compute. repeat split; reflexivity. Qed.

(* an overflow history (capacity 1): the second of two entries taken while the
   controller is busy is lost and stays lost — applied = [1; 3] — until the
   relist's reset, after which the exact invariant holds again *)
Example overflow_lost_until_relist :
  exists s, wrun (winit 1) [WEmit; WEmit; WDeliver; WTake; WDeliver; WTake; WApply; WEmit; WDeliver; WTake; WApply] = Some s /\
            w_applied s = [1; 3] /\ w_lost s = 1 /\ wquiescent s = true /\
            exists s', wstep s (WReset 3) = Some s' /\ w_lost s' = 0 /\ winv_exact s'.
Proof.
  eexists. split; [vm_compute; reflexivity|]. vm_compute. repeat split; try reflexivity.
  eexists. split; [reflexivity|]. vm_compute. repeat split; reflexivity.
Qed.
