(* WatcherProps.v — theorems about Watcher.v (C04). *)
From KC Require Import Base Cache Watcher.

Lemma wseq_snoc a k : wseq a k ++ [S (a + k)] = wseq a (S k).
Proof.
  revert a. induction k as [|k IH]; intros a; simpl.
  - rewrite Nat.add_0_r. reflexivity.
  - f_equal. rewrite Nat.add_succ_r. change (S (a + k)) with (S a + k). apply IH.
Qed.

Lemma wseq_length a k : length (wseq a k) = k.
Proof. revert a. induction k; intros a; simpl; auto. Qed.

Lemma wseq_prefix l1 : forall l2 a c, l1 ++ l2 = wseq a c -> l1 = wseq a (length l1).
Proof.
  induction l1 as [|x l1 IH]; intros l2 a c H; [reflexivity|].
  destruct c as [|c]; simpl in H; [discriminate|].
  injection H as -> H. simpl. f_equal. eapply IH, H.
Qed.

Definition winv (s : wst) : Prop :=
  w_applied s ++ w_obuf s = wseq 0 (w_cur s) /\
  (w_has s = true -> w_sbuf s = wseq (w_cur s) (w_pos s - w_cur s) /\ w_cur s <= w_pos s /\ w_pos s <= w_n s) /\
  (w_has s = false -> w_sbuf s = []) /\
  w_cur s <= w_n s /\
  (w_conn s = true -> w_has s = true).

Lemma winv_init : winv winit.
Proof. unfold winv, winit; simpl. repeat split; auto; try discriminate. Qed.

Ltac wfin :=
  unfold winv; cbn [w_n w_conn w_has w_pos w_sbuf w_obuf w_applied w_cur]; repeat split; intros;
  try discriminate; try lia; auto; try tauto.

Lemma winv_step s a s' : winv s -> wstep s a = Some s' -> winv s'.
Proof.
  intros [H1 [H2 [H3 [H4 H5]]]] Hs. destruct s as [n conn has pos sbuf obuf applied cur]. simpl in *.
  destruct has.
  - (* the watcher holds a session *)
    destruct (H2 eq_refl) as [Hb [Hc Hp]]. clear H2 H3.
    destruct a; simpl in Hs.
    + injection Hs as <-. wfin.
    + destruct conn; simpl in Hs; [|discriminate].
      destruct (Nat.ltb_spec pos n); [|discriminate]. injection Hs as <-.
      assert (Hkey : wseq cur (pos - cur) ++ [S pos] = wseq cur (S pos - cur)).
      { replace (S pos - cur) with (S (pos - cur)) by lia. rewrite <- wseq_snoc. do 2 f_equal. lia. }
      wfin. rewrite Hb. exact Hkey.
    + destruct conn; [|discriminate]. injection Hs as <-. wfin.
    + destruct conn; [|discriminate]. injection Hs as <-. wfin.
    + destruct sbuf as [|i rest]; [discriminate|]. injection Hs as <-.
      destruct (pos - cur) as [|k] eqn:Hk; simpl in Hb; [discriminate|]. injection Hb as -> ->.
      assert (Hkey : wseq 0 cur ++ [S cur] = wseq 0 (S cur)) by (rewrite <- wseq_snoc; reflexivity).
      wfin.
      * rewrite app_assoc, H1. exact Hkey.
      * f_equal. lia.
    + destruct conn; simpl in Hs; [discriminate|]. injection Hs as <-. wfin.
    + discriminate.
    + discriminate.
    + destruct obuf as [|i rest]; [discriminate|]. injection Hs as <-. wfin.
      rewrite <- app_assoc. exact H1.
  - (* no session: waiting for the retry *)
    assert (Hsb : sbuf = []) by (apply H3; reflexivity). subst sbuf.
    assert (Hcn : conn = false) by (destruct conn; [specialize (H5 eq_refl); discriminate | reflexivity]). subst conn.
    clear H2 H3.
    destruct a; simpl in Hs; try discriminate.
    + injection Hs as <-. wfin.
    + injection Hs as <-. wfin. rewrite Nat.sub_diag. reflexivity.
    + injection Hs as <-. wfin. rewrite Nat.sub_diag. reflexivity.
    + destruct obuf as [|i rest]; [discriminate|]. injection Hs as <-. wfin.
      rewrite <- app_assoc. exact H1.
Qed.

(* C04: the pipeline invariant holds after every sequence of server changes,
   deliveries, faults, reconnects and controller steps *)
Theorem watch_pipeline_invariant : forall l s, wrun winit l = Some s -> winv s.
Proof.
  intros l. assert (H : forall s0, winv s0 -> forall s, wrun s0 l = Some s -> winv s).
  { induction l as [|a l IH]; intros s0 H0 s Hr; simpl in Hr.
    - injection Hr as <-. exact H0.
    - destruct (wstep s0 a) as [s1|] eqn:Hs; [|discriminate]. eapply IH; [|exact Hr]. eapply winv_step; eassumption. }
  apply H, winv_init.
Qed.

(* what the controller applied is the server's log from the start, in order,
   with no duplicate and no omission *)
Theorem applied_is_prefix_of_log : forall l s, wrun winit l = Some s ->
  w_applied s = wseq 0 (length (w_applied s)) /\ length (w_applied s) <= w_n s.
Proof.
  intros l s Hr. destruct (watch_pipeline_invariant l s Hr) as [H1 [_ [_ [H4 _]]]].
  split.
  - eapply wseq_prefix, H1.
  - assert (Hl : length (w_applied s ++ w_obuf s) = w_cur s) by (rewrite H1; apply wseq_length).
    rewrite app_length in Hl. lia.
Qed.

(* a reconnect resumes right after the last entry taken *)
Theorem reconnect_resumes_after_last_taken : forall l s s', wrun winit l = Some s ->
  wstep s WRetry = Some s' ->
  w_pos s' = w_cur s /\ w_cur s = length (w_applied s ++ w_obuf s) /\ w_obuf s' = w_obuf s.
Proof.
  intros l s s' Hr Hs. destruct (watch_pipeline_invariant l s Hr) as [H1 _].
  simpl in Hs. destruct (w_has s); simpl in Hs; [discriminate|]. injection Hs as <-. simpl.
  repeat split. rewrite H1, wseq_length. reflexivity.
Qed.

(* an entry taken from a session is applied or still in the channel the
   controller reads: no step discards it *)
Theorem received_not_discarded : forall s a s', wstep s a = Some s' ->
  exists more, w_applied s' ++ w_obuf s' = (w_applied s ++ w_obuf s) ++ more.
Proof.
  intros s a s' Hs. destruct s as [n conn has pos sbuf obuf applied cur].
  destruct a; simpl in Hs.
  - injection Hs as <-. exists []. simpl. rewrite app_nil_r. reflexivity.
  - destruct (conn && has && Nat.ltb pos n); [|discriminate]. injection Hs as <-. exists []. simpl. rewrite app_nil_r. reflexivity.
  - destruct conn; [|discriminate]. injection Hs as <-. exists []. simpl. rewrite app_nil_r. reflexivity.
  - destruct conn; [|discriminate]. injection Hs as <-. exists []. simpl. rewrite app_nil_r. reflexivity.
  - destruct has; [|discriminate]. destruct sbuf as [|i rest]; [discriminate|]. injection Hs as <-.
    exists [i]. simpl. rewrite app_assoc. reflexivity.
  - destruct (has && negb conn); [|discriminate]. injection Hs as <-. exists []. simpl. rewrite app_nil_r. reflexivity.
  - destruct (negb has); [|discriminate]. injection Hs as <-. exists []. simpl. rewrite app_nil_r. reflexivity.
  - destruct (negb has); [|discriminate]. injection Hs as <-. exists []. simpl. rewrite app_nil_r. reflexivity.
  - destruct obuf as [|i rest]; [discriminate|]. injection Hs as <-. exists []. simpl.
    rewrite app_nil_r, <- app_assoc. reflexivity.
Qed.

(* C04: when nothing the library can do is left, everything the server
   emitted has been applied, in order — no relist needed *)
Theorem watch_quiescent_complete : forall l s, wrun winit l = Some s ->
  wquiescent s = true -> w_applied s = wseq 0 (w_n s).
Proof.
  intros l s Hr Hq. destruct (watch_pipeline_invariant l s Hr) as [H1 [H2 [H3 [H4 H5]]]].
  destruct s as [n conn has pos sbuf obuf applied cur]. unfold wquiescent in Hq. simpl in *.
  destruct has.
  - destruct (H2 eq_refl) as [Hb [Hc Hp]].
    destruct conn; simpl in Hq.
    + destruct (Nat.ltb_spec pos n); [discriminate|].
      destruct sbuf as [|i rest]; [|discriminate].
      destruct obuf as [|j rest']; [|discriminate].
      rewrite app_nil_r in H1. rewrite H1. f_equal.
      assert (pos - cur = 0) by (destruct (pos - cur); [reflexivity | discriminate]). lia.
    + destruct sbuf; discriminate.
  - simpl in Hq. destruct conn; simpl in Hq; discriminate.
Qed.

Theorem watch_quiescent_cache : forall F c0 entry l s, wrun winit l = Some s ->
  wquiescent s = true ->
  cache_after F c0 entry (w_applied s) = cache_after F c0 entry (wseq 0 (w_n s)).
Proof. intros. f_equal. eapply watch_quiescent_complete; eassumption. Qed.

(* status, bookmark and unknown frames change nothing *)
Theorem non_object_frames_harmless : forall s s', wstep s WFrame = Some s' -> s' = s.
Proof. intros s s' H. simpl in H. destruct (w_conn s); [injection H as <-; reflexivity | discriminate]. Qed.

(* and quiescence is always reachable again by the library's own steps once
   the server stops: from every reachable state *)
Fixpoint settle (fuel : nat) (s : wst) : wst :=
  match fuel with
  | O => s
  | S f =>
      match wstep s WApply with
      | Some s' => settle f s'
      | None =>
          match wstep s WTake with
          | Some s' => settle f s'
          | None =>
              match wstep s WDeliver with
              | Some s' => settle f s'
              | None =>
                  match wstep s WDone with
                  | Some s' => settle f s'
                  | None =>
                      match wstep s WRetry with
                      | Some s' => settle f s'
                      | None => s
                      end
                  end
              end
          end
      end
  end.

(* non-vacuity and the D4 history: one event, the server closes the stream,
   one more event; the library's own steps bring the second event in *)
Example d4_history_converges :
  exists s, wrun winit [WEmit; WDeliver; WTake; WApply; WSessEnd; WEmit] = Some s /\
            w_applied s = [1] /\
            wquiescent (settle 10 s) = true /\ w_applied (settle 10 s) = [1; 2].
Proof. eexists. split; [reflexivity|]. vm_compute. repeat split; reflexivity. Qed.
