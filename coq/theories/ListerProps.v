(* ListerProps.v — theorems about Lister.v (C13, and the lister part of C12). *)
From KC Require Import Lts Lister.

(* ------------------------------------------------------------------ *)
(* plumbing for the closed-set argument                                *)

Lemma lphase_eqb_eq a b : lphase_eqb a b = true -> a = b.
Proof. destruct a, b; simpl; congruence. Qed.
Lemma timer_eqb_eq a b : timer_eqb a b = true -> a = b.
Proof. destruct a, b; simpl; congruence. Qed.
Lemma worker_eqb_eq a b : worker_eqb a b = true -> a = b.
Proof. destruct a, b; simpl; congruence. Qed.

Lemma st_eqb_eq a b : st_eqb a b = true -> a = b.
Proof.
  destruct a, b. unfold st_eqb. simpl. rewrite !andb_true_iff.
  intros [[[[[H1 H2] H3] H4] H5] H6].
  apply lphase_eqb_eq in H1. apply worker_eqb_eq in H2. apply timer_eqb_eq in H3.
  apply Bool.eqb_prop in H4, H5, H6. subst. reflexivity.
Qed.

Lemma all_acts_complete a : In a all_acts.
Proof. destruct a; simpl; tauto. Qed.

Definition reach (s : st) : Prop := reachable st act step init s.

(* the reachable states, computed by exploration and then *checked* closed *)
Definition R : list st := Eval vm_compute in explore st act step all_acts st_eqb 400 [init] [init].

Lemma R_init : mem st st_eqb init R = true.
Proof. vm_compute. reflexivity. Qed.

Lemma R_closed : closed st act step all_acts st_eqb R = true.
Proof. vm_compute. reflexivity. Qed.

Lemma reach_sweep (P : st -> bool) : forallb P R = true -> forall s, reach s -> P s = true.
Proof.
  intros HP s Hs.
  exact (sweep st act step all_acts st_eqb st_eqb_eq all_acts_complete init R P R_init R_closed HP s Hs).
Qed.

Definition enabled (s : st) (a : act) : bool :=
  match step s a with Some _ => true | None => false end.

(* ------------------------------------------------------------------ *)
(* C13: one list at a time                                             *)

Definition one_at_a_time_b (s : st) : bool :=
  negb (enabled s ATick) || negb (worker_eqb (wk s) WRun).

Theorem one_list_at_a_time : forall s, reach s ->
  step s ATick <> None -> wk s <> WRun.
Proof.
  intros s Hs Hen.
  assert (H : one_at_a_time_b s = true) by (apply reach_sweep; [vm_compute; reflexivity | exact Hs]).
  unfold one_at_a_time_b, enabled in H. destruct (step s ATick); [|contradiction].
  simpl in H. intros Hw. rewrite Hw in H. discriminate.
Qed.

(* a list is started only from the tick-waiting phase, where no result is
   pending either *)
Definition waittick_clean_b (s : st) : bool :=
  negb (lphase_eqb (lp s) LWaitTick) || worker_eqb (wk s) WNone.

Lemma waittick_clean : forall s, reach s -> lp s = LWaitTick -> wk s = WNone.
Proof.
  intros s Hs Hl.
  assert (H : waittick_clean_b s = true) by (apply reach_sweep; [vm_compute; reflexivity | exact Hs]).
  unfold waittick_clean_b in H. rewrite Hl in H. simpl in H. apply worker_eqb_eq, H.
Qed.

(* ------------------------------------------------------------------ *)
(* C13: no deadlock.  Every reachable state that has not terminated has an
   enabled action besides "a stop is requested"; states where only the
   environment can move are exactly: the list call is running, the consumer
   has not taken the result, the timer has not expired yet.              *)

Definition internal (a : act) : bool :=
  match a with
  | AWorkerFin | AConsume | ATimerFire | AStopReq => false
  | _ => true
  end.

Definition waits_for_environment (s : st) : bool :=
  match lp s with
  | LListing => worker_eqb (wk s) WRun                      (* waiting for the list call *)
  | LHasResult => true                                       (* waiting for the consumer *)
  | LWaitTick => timer_eqb (tm s) TArmed                     (* waiting for the period to elapse *)
  | LWaitWorker => worker_eqb (wk s) WRun                    (* shutting down: the list call must return *)
  | _ => false
  end.

Definition live_b (s : st) : bool :=
  lphase_eqb (lp s) LDone ||
  existsb (fun a => internal a && enabled s a) all_acts ||
  (waits_for_environment s &&
   existsb (fun a => negb (internal a) && negb (match a with AStopReq => true | _ => false end) && enabled s a) all_acts).

Theorem lister_no_deadlock : forall s, reach s -> live_b s = true.
Proof. intros s Hs. apply reach_sweep; [vm_compute; reflexivity | exact Hs]. Qed.

(* spelled out: a non-terminated reachable state is never stuck *)
Theorem lister_never_stuck : forall s, reach s -> lp s <> LDone ->
  exists a, a <> AStopReq /\ step s a <> None.
Proof.
  intros s Hs Hnd. pose proof (lister_no_deadlock s Hs) as H. unfold live_b in H.
  apply orb_true_iff in H. destruct H as [H|H].
  - apply orb_true_iff in H. destruct H as [H|H].
    + apply lphase_eqb_eq in H. contradiction.
    + apply existsb_exists in H. destruct H as [a [_ Ha]]. apply andb_true_iff in Ha. destruct Ha as [Hi He].
      exists a. split; [intros ->; discriminate|]. unfold enabled in He. destruct (step s a); [discriminate | discriminate].
  - apply andb_true_iff in H. destruct H as [_ H].
    apply existsb_exists in H. destruct H as [a [_ Ha]].
    rewrite !andb_true_iff in Ha. destruct Ha as [[_ Hns] He].
    exists a. split; [intros ->; discriminate|]. unfold enabled in He. destruct (step s a); [discriminate | discriminate].
Qed.

(* ------------------------------------------------------------------ *)
(* C13: relisting never stops — from every reachable state in which no stop
   has been requested, a state where the next list starts can be reached
   (AG EF tick; with fairness of the environment this is "infinitely often") *)

Definition not_stopping (s : st) : bool :=
  negb (stopreq s) && match lp s with LStopping | LWaitWorker | LDone => false | _ => true end.

Definition EF_tick : list st :=
  Eval vm_compute in ef_iter st act step all_acts st_eqb 12 (fun s' => enabled s' ATick && not_stopping s') R.

Definition can_relist_b (s : st) : bool := negb (not_stopping s) || mem st st_eqb s EF_tick.

Theorem relist_always_possible : forall s, reach s -> not_stopping s = true ->
  exists l s', run st act step s l = Some s' /\ step s' ATick <> None.
Proof.
  intros s Hs Hns.
  assert (H : can_relist_b s = true) by (apply reach_sweep; [vm_compute; reflexivity | exact Hs]).
  unfold can_relist_b in H. apply orb_true_iff in H.
  destruct H as [H|H]; [rewrite Hns in H; discriminate|].
  apply (mem_In st st_eqb st_eqb_eq) in H.
  assert (HE : EF_tick = ef_iter st act step all_acts st_eqb 12 (fun s' => enabled s' ATick && not_stopping s') R)
    by (vm_compute; reflexivity).
  rewrite HE in H. clear HE.
  apply (ef_iter_sound st act step all_acts st_eqb st_eqb_eq) in H. destruct H as [l [s' [_ [Hl Hp]]]].
  exists l, s'. split; [exact Hl|]. apply andb_true_iff in Hp. destruct Hp as [Hp _].
  unfold enabled in Hp. destruct (step s' ATick); [discriminate | discriminate].
Qed.

(* ------------------------------------------------------------------ *)
(* C13/C12: it still shuts down promptly — from every reachable state,
   termination is reachable using only the stop request, the lister's and
   ticker's own steps and the return of the list call (whose context is
   cancelled): no tick, no timer expiry, no consumer needed.             *)

Definition stop_acts : list act := [AStopReq; ALShutdown; AWorkerFin; AReset; ATickerStop; AWorkerWait].

Definition EF_done : list st :=
  Eval vm_compute in ef_iter st act step stop_acts st_eqb 12 (fun s' => lphase_eqb (lp s') LDone) R.

Definition can_stop_b (s : st) : bool := mem st st_eqb s EF_done.

Theorem lister_stops_promptly : forall s, reach s ->
  exists l s', Forall (fun a => In a stop_acts) l /\ run st act step s l = Some s' /\ lp s' = LDone.
Proof.
  intros s Hs.
  assert (H : can_stop_b s = true) by (apply reach_sweep; [vm_compute; reflexivity | exact Hs]).
  unfold can_stop_b in H. apply (mem_In st st_eqb st_eqb_eq) in H.
  assert (HE : EF_done = ef_iter st act step stop_acts st_eqb 12 (fun s' => lphase_eqb (lp s') LDone) R)
    by (vm_compute; reflexivity).
  rewrite HE in H. clear HE.
  apply (ef_iter_sound st act step stop_acts st_eqb st_eqb_eq) in H. destruct H as [l [s' [Hall [Hl Hp]]]].
  exists l, s'. repeat split; [exact Hall | exact Hl | apply lphase_eqb_eq, Hp].
Qed.

(* after the stop no ticker, timer or worker is left *)
Definition done_clean_b (s : st) : bool :=
  negb (lphase_eqb (lp s) LDone) ||
  (negb (trun s) && negb (worker_eqb (wk s) WRun) && negb (timer_eqb (tm s) TArmed)).

Theorem done_leaves_nothing : forall s, reach s -> lp s = LDone ->
  trun s = false /\ wk s <> WRun /\ tm s <> TArmed.
Proof.
  intros s Hs Hd.
  assert (H : done_clean_b s = true) by (apply reach_sweep; [vm_compute; reflexivity | exact Hs]).
  unfold done_clean_b in H. rewrite Hd in H. simpl in H.
  rewrite !andb_true_iff, !negb_true_iff in H. destruct H as [[H1 H2] H3].
  repeat split; [exact H1 | intros Hw; rewrite Hw in H2; discriminate | intros Ht; rewrite Ht in H3; discriminate].
Qed.

(* ------------------------------------------------------------------ *)
(* D3: the code before the fix deadlocks (kept as the regression witness) *)

Definition d3_witness : list act := [ATimerFire; ATimerRead; AWorkerFin; ATakeResult; AConsume].

Theorem ticker_deadlock_before_fix :
  exists s, run st act step_old init d3_witness = Some s /\
            lp s = LResetting /\
            (forall a, a <> AStopReq -> step_old s a = None) /\
            (forall s', step_old s AStopReq = Some s' -> forall a, step_old s' a = None).
Proof.
  eexists. split; [vm_compute; reflexivity|]. split; [reflexivity|]. split.
  - intros a Ha. destruct a; try reflexivity. contradiction.
  - intros s' Hs'. vm_compute in Hs'. injection Hs' as <-. intros a. destruct a; reflexivity.
Qed.

(* the same action sequence is harmless in the repaired code *)
Theorem d3_witness_fixed :
  exists s, run st act step init (d3_witness ++ [AReset]) = Some s /\ lp s = LWaitTick /\ tm s = TArmed.
Proof. eexists. split; [vm_compute; reflexivity|]. split; reflexivity. Qed.

(* ------------------------------------------------------------------ *)
(* C13: timing.  Each list start other than the first comes at least [lo]
   after the consumption of the previous result, and the observable trace
   of every run satisfies the checker.                                   *)

Record script_item := { si_act : act; si_t : Z; si_d : Z }.

Fixpoint crun (lo : Z) (c : cst) (sc : list script_item) : option (cst * list tev) :=
  match sc with
  | [] => Some (c, [])
  | i :: sc' =>
      match cstep lo c (si_act i) (si_t i) (si_d i) with
      | None => None
      | Some c' => match crun lo c' sc' with
                   | None => None
                   | Some (c'', tr) => Some (c'', obs_of (si_act i) (si_t i) ++ tr)
                   end
      end
  end.

(* the timer armed by newTicker expires no earlier than lo *)
Definition cinit (lo : Z) : cst := {| sk := init; now := 0; deadline := lo; fired_at := 0; consumed_at := 0 |}.

(* the checker's state after the first list start at time 0 *)
Definition kinit : chk :=
  {| k_inflight := true; k_pending := false; k_first := false; k_consumed := false;
     k_last_consumed := 0; k_last_time := 0 |}.

Lemma kinit_is_after_first_start lo : chk_step lo chk_init (EStart 0) = Some kinit.
Proof. reflexivity. Qed.

Definition rel (lo : Z) (c : cst) (k : chk) : Prop :=
  k_first k = false /\ (k_last_time k <= now c)%Z /\ (fired_at c <= now c)%Z /\
  (k_inflight k = true <-> wk (sk c) = WRun) /\
  match lp (sk c) with
  | LWaitWorker | LDone => True
  | _ => trun (sk c) = true
  end /\
  match lp (sk c) with
  | LListing => wk (sk c) <> WNone /\ (wk (sk c) = WRun -> k_pending k = false) /\ (wk (sk c) = WFin -> k_pending k = true)
  | LHasResult => k_pending k = true /\ wk (sk c) = WNone
  | LResetting => k_pending k = false /\ k_consumed k = true /\ k_last_consumed k = consumed_at c /\
                  (consumed_at c <= now c)%Z /\ wk (sk c) = WNone
  | LWaitTick => k_pending k = false /\ k_consumed k = true /\ k_last_consumed k = consumed_at c /\
                 wk (sk c) = WNone /\
                 (tm (sk c) = TArmed -> (consumed_at c + lo <= deadline c)%Z) /\
                 (tm (sk c) = TFired \/ nextch (sk c) = true -> (consumed_at c + lo <= fired_at c)%Z)
  | _ => True
  end.

Lemma rel_init lo : rel lo (cinit lo) kinit.
Proof.
  unfold rel, cinit, kinit, init; simpl.
  repeat split; try lia; try discriminate; try reflexivity; auto.
Qed.

Definition run_obs (lo : Z) (k : chk) (evs : list tev) : option chk :=
  fold_left (fun ok e => match ok with Some k => chk_step lo k e | None => None end) evs (Some k).

Ltac finish :=
  unfold rel; simpl;
  repeat match goal with
         | |- _ /\ _ => split
         | |- _ <-> _ => split
         end;
  simpl in *; intros;
  try lia; try discriminate; try congruence; try tauto; auto;
  try (intuition (try lia; try discriminate; try congruence)).

Lemma rel_step lo c k a t d c' :
  (0 <= lo)%Z -> rel lo c k -> cstep lo c a t d = Some c' ->
  exists k', run_obs lo k (obs_of a t) = Some k' /\ rel lo c' k'.
Proof.
  intros Hlo Hr Hs. unfold cstep in Hs.
  destruct (Z.ltb_spec t (now c)) as [|Ht]; [discriminate|].
  destruct c as [s nw dl fa ca]. destruct s as [lp0 wk0 tm0 nx0 tr0 sr0].
  destruct k as [kin kpe kfi kco klc klt].
  unfold rel in Hr. simpl in Hr, Ht.
  destruct Hr as [Hfi [Hlt [Hfa [Hin [Htr Hm]]]]]. simpl in Hfi. subst kfi.
  destruct a; simpl in Hs.
  - (* AWorkerFin: the list call returns -> EEnd *)
    destruct wk0; try discriminate. injection Hs as <-.
    assert (kin = true) by (apply Hin; reflexivity). subst kin.
    unfold run_obs, obs_of, chk_step; simpl.
    destruct (Z.ltb_spec t klt); [lia|]. eexists. split; [reflexivity|].
    destruct lp0; finish.
  - (* ATakeResult *)
    destruct lp0; try discriminate. destruct wk0; try discriminate. injection Hs as <-.
    unfold run_obs, obs_of; simpl. eexists. split; [reflexivity|]. finish.
  - (* AConsume -> EConsumed *)
    destruct lp0; try discriminate. injection Hs as <-.
    simpl in Hm. destruct Hm as [Hp Hw]. subst.
    unfold run_obs, obs_of, chk_step; simpl.
    destruct (Z.ltb_spec t klt); [lia|]. eexists. split; [reflexivity|]. finish.
  - (* AReset: the timer is re-armed after the consumption *)
    destruct lp0; try discriminate. simpl in Htr. subst tr0. simpl in Hs.
    destruct (Z.ltb_spec d lo); [destruct tm0; discriminate|].
    unfold run_obs, obs_of; simpl. eexists. split; [reflexivity|].
    destruct tm0; injection Hs as <-; finish.
  - (* ATimerFire *)
    destruct tm0; try discriminate. simpl in Hs.
    destruct (Z.ltb_spec t dl); [discriminate|]. injection Hs as <-.
    unfold run_obs, obs_of; simpl. eexists. split; [reflexivity|].
    destruct lp0; finish.
  - (* ATimerRead *)
    destruct tm0; try discriminate. destruct tr0; try discriminate. injection Hs as <-.
    unfold run_obs, obs_of; simpl. eexists. split; [reflexivity|].
    destruct lp0; finish.
  - (* ATick: the next list starts -> EStart *)
    destruct lp0; try discriminate. destruct tr0; simpl in Hs; try discriminate.
    destruct nx0; simpl in Hs; try discriminate.
    destruct (Z.ltb_spec d lo); [discriminate|]. injection Hs as <-.
    simpl in Hm. destruct Hm as [Hp [Hc [Hlc [Hw [Harm Hfired]]]]]. subst.
    assert (Hf : (ca + lo <= fa)%Z) by (apply Hfired; right; reflexivity).
    assert (kin = false).
    { destruct kin; [|reflexivity]. assert (WNone = WRun) by (apply Hin; reflexivity). discriminate. }
    subst kin.
    unfold run_obs, obs_of, chk_step; simpl.
    destruct (Z.ltb_spec t klt); [lia|].
    destruct (Z.leb_spec (ca + lo) t) as [_|Hbad]; [|lia].
    simpl. eexists. split; [reflexivity|]. finish.
  - (* AStopReq *)
    destruct sr0; try discriminate.
    destruct lp0; try discriminate; injection Hs as <-;
      unfold run_obs, obs_of; simpl; eexists; (split; [reflexivity|]); finish.
  - (* ALShutdown *)
    destruct sr0; simpl in Hs; try discriminate.
    destruct lp0; simpl in Hs; try discriminate; injection Hs as <-;
      unfold run_obs, obs_of; simpl; eexists; (split; [reflexivity|]); finish.
  - (* ATickerStop *)
    destruct lp0; try discriminate. injection Hs as <-.
    unfold run_obs, obs_of; simpl. eexists. split; [reflexivity|]. finish.
  - (* AWorkerWait *)
    destruct lp0; try discriminate. destruct wk0; try discriminate; injection Hs as <-;
      unfold run_obs, obs_of; simpl; eexists; (split; [reflexivity|]); finish.
Qed.

Lemma crun_rel lo : (0 <= lo)%Z -> forall sc c k c' tr,
  rel lo c k -> crun lo c sc = Some (c', tr) -> chk_run lo k tr = true /\ exists k', rel lo c' k'.
Proof.
  intros Hlo. induction sc as [|i sc IH]; intros c k c' tr Hr Hc; simpl in Hc.
  - injection Hc as <- <-. split; [reflexivity | exists k; exact Hr].
  - destruct (cstep lo c (si_act i) (si_t i) (si_d i)) as [c1|] eqn:Hs; [|discriminate].
    destruct (crun lo c1 sc) as [[c2 tr2]|] eqn:Hc2; [|discriminate].
    injection Hc as <- <-.
    destruct (rel_step lo c k _ _ _ c1 Hlo Hr Hs) as [k1 [Hobs Hr1]].
    destruct (IH c1 k1 c2 tr2 Hr1 Hc2) as [Hok Hex].
    split; [|exact Hex].
    destruct (si_act i); unfold obs_of, run_obs in Hobs |- *; simpl in Hobs |- *;
      try (injection Hobs as <-; exact Hok);
      (destruct (chk_step lo k _) as [k2|]; [injection Hobs as ->; exact Hok | discriminate]).
Qed.

(* C13: the observable trace of every run of the model — every
   interleaving, every latency / period / consumption-delay relation (the
   model has no constraint tying them) — passes the checker: one list at a
   time, and each list start other than the first at least lo after the
   consumption of the previous result *)
Theorem model_traces_ok lo sc c tr :
  (0 <= lo)%Z -> crun lo (cinit lo) sc = Some (c, tr) -> trace_ok lo (EStart 0 :: tr) = true.
Proof.
  intros Hlo Hc. unfold trace_ok. simpl chk_run. 
  change (chk_step lo chk_init (EStart 0)) with (Some kinit).
  apply (crun_rel lo Hlo sc (cinit lo) kinit c tr (rel_init lo) Hc).
Qed.

(* the same fact stated on the model directly *)
Theorem start_after_consumption lo c k t d c' :
  rel lo c k -> cstep lo c ATick t d = Some c' -> (consumed_at c + lo <= t)%Z.
Proof.
  intros Hr Hs. unfold cstep in Hs.
  destruct (Z.ltb_spec t (now c)) as [|Ht]; [discriminate|].
  destruct c as [s nw dl fa ca]. destruct s as [lp0 wk0 tm0 nx0 tr0 sr0].
  unfold rel in Hr. simpl in *.
  destruct lp0; try discriminate. destruct tr0; simpl in Hs; try discriminate.
  destruct nx0; simpl in Hs; try discriminate.
  destruct Hr as [_ [_ [Hfa [_ [_ [_ [_ [_ [_ [_ Hfired]]]]]]]]]].
  assert ((ca + lo <= fa)%Z) by (apply Hfired; right; reflexivity). lia.
Qed.

(* non-vacuity: a run with a list slower than the period (the D3 scenario)
   followed by the next list *)
Example clocked_run_exists :
  exists c tr, crun 900 (cinit 900)
    [ {| si_act := ATimerFire; si_t := 950; si_d := 0 |};
      {| si_act := ATimerRead; si_t := 950; si_d := 0 |};
      {| si_act := AWorkerFin; si_t := 2000; si_d := 0 |};
      {| si_act := ATakeResult; si_t := 2000; si_d := 0 |};
      {| si_act := AConsume; si_t := 2500; si_d := 0 |};
      {| si_act := AReset; si_t := 2500; si_d := 1000 |};
      {| si_act := ATimerFire; si_t := 3500; si_d := 0 |};
      {| si_act := ATimerRead; si_t := 3501; si_d := 0 |};
      {| si_act := ATick; si_t := 3501; si_d := 1050 |} ] = Some (c, tr)
    /\ tr = [EEnd 2000; EConsumed 2500; EStart 3501].
Proof. eexists. eexists. split; vm_compute; reflexivity. Qed.

(* ------------------------------------------------------------------ *)
(* nextPeriod: min + r * (max - min + 1) with r in [0,1)                *)
From Coq Require Import QArith Lqa.

Theorem next_period_bounds (p fz r : Q) :
  0 <= p -> 0 <= fz -> 0 <= r -> r < 1 ->
  let delta := fz * p in
  let mn := p - delta in
  let mx := p + delta in
  let v := mn + r * (mx - mn + 1) in
  mn <= v /\ v < mx + 1.
Proof.
  intros Hp Hf Hr0 Hr1 delta mn mx v.
  assert (Hw : 0 < mx - mn + 1).
  { unfold mx, mn, delta. assert (0 <= fz * p) by (apply Qmult_le_0_compat; assumption). lra. }
  assert (H1 : 0 <= r * (mx - mn + 1)) by (apply Qmult_le_0_compat; lra).
  assert (H2 : r * (mx - mn + 1) < 1 * (mx - mn + 1)) by (apply Qmult_lt_compat_r; assumption).
  unfold v. split; lra.
Qed.
