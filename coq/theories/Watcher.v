(* Watcher.v — model of the watch path between two relists:
   the API server's stream, watch_session.go (one session = one stream and a
   buffer), watcher.go:run (takes events from the session, remembers the
   version of the last one taken, reconnects from it after a delay, keeps its
   output channel across reconnects) and controller.go:run's watch case
   (applies what it takes from that channel).  Definitions only.

   Server log entries are numbered 1..n; w_base is the list version the
   watcher was last reset to (0 at the start), and a relist resets it to the
   version its list was taken at (WReset).  Buffers hold entry numbers.
   Both buffers are bounded (w_cap = EventBufsiz) and both senders are
   non-blocking: a frame that finds the session's buffer full, and an entry
   taken from a session when the watcher's output channel is full, are logged
   and LOST (w_lost counts them since the last reset) while the stream
   position / curVersion still move past them — only the next relist brings
   a lost change in. *)
From KC Require Export Base Cache.

Record wst := {
  w_n : nat;             (* entries emitted by the server so far *)
  w_conn : bool;         (* the session's stream is open *)
  w_has : bool;          (* watcher.run holds a session object (not nullWatchSession) *)
  w_pos : nat;           (* entries the current session has received from its stream *)
  w_sbuf : list nat;     (* session.outch *)
  w_obuf : list nat;     (* watcher's outch, read by the controller *)
  w_applied : list nat;  (* entries the controller has applied since the last reset, in order *)
  w_cur : nat;           (* curVersion: the last entry taken from a session *)
  w_base : nat;          (* the version of the list the watcher was last reset to *)
  w_cap : nat;           (* capacity of the watcher's output channel *)
  w_lost : nat           (* entries dropped since the last reset because that channel was full *)
}.

Inductive wact :=
| WEmit            (* the server changes an object *)
| WDeliver         (* the stream delivers the next entry; the session buffers it *)
| WFrame           (* a status / bookmark / unknown frame: skipped by the session *)
| WSessEnd         (* the stream closes, or the connection attempt failed *)
| WTake            (* watcher: case evt := <-session.events() *)
| WDone            (* watcher: case <-session.done(): drop the session, schedule a retry *)
| WRetry           (* watcher: case <-retrych: new session from curVersion *)
| WRetryFail       (* the same, and Watch() returns an error: the session ends at once *)
| WApply           (* controller: case evt := <-c.watcher.events(): cache.update, publish *)
| WReset (b : nat). (* controller: a list taken at version b arrived: cache.sync, watcher.reset(b):
                      old session stopped, NEW output channel, curVersion := b *)

Definition wall_acts : list wact :=
  [WEmit; WDeliver; WFrame; WSessEnd; WTake; WDone; WRetry; WRetryFail; WApply].

(* after watcher.reset(list version): a fresh session from version 0 *)
Definition winit (cap : nat) : wst :=
  {| w_n := 0; w_conn := true; w_has := true; w_pos := 0; w_sbuf := []; w_obuf := [];
     w_applied := []; w_cur := 0; w_base := 0; w_cap := cap; w_lost := 0 |}.

Definition wstep (s : wst) (a : wact) : option wst :=
  match a with
  | WEmit => Some {| w_n := S (w_n s); w_conn := w_conn s; w_has := w_has s; w_pos := w_pos s;
                     w_sbuf := w_sbuf s; w_obuf := w_obuf s; w_applied := w_applied s; w_cur := w_cur s; w_base := w_base s; w_cap := w_cap s; w_lost := w_lost s |}
  | WDeliver =>
      if w_conn s && w_has s && Nat.ltb (w_pos s) (w_n s)
      then if Nat.ltb (length (w_sbuf s)) (w_cap s)
           then Some {| w_n := w_n s; w_conn := true; w_has := true; w_pos := S (w_pos s);
                        w_sbuf := w_sbuf s ++ [S (w_pos s)]; w_obuf := w_obuf s;
                        w_applied := w_applied s; w_cur := w_cur s; w_base := w_base s; w_cap := w_cap s; w_lost := w_lost s |}
           else (* select { case s.outch <- evt: default: log "output buffer full; event missed." } *)
                Some {| w_n := w_n s; w_conn := true; w_has := true; w_pos := S (w_pos s);
                        w_sbuf := w_sbuf s; w_obuf := w_obuf s;
                        w_applied := w_applied s; w_cur := w_cur s; w_base := w_base s; w_cap := w_cap s; w_lost := S (w_lost s) |}
      else None
  | WFrame => if w_conn s then Some s else None
  | WSessEnd =>
      if w_conn s
      then Some {| w_n := w_n s; w_conn := false; w_has := w_has s; w_pos := w_pos s;
                   w_sbuf := w_sbuf s; w_obuf := w_obuf s; w_applied := w_applied s; w_cur := w_cur s; w_base := w_base s; w_cap := w_cap s; w_lost := w_lost s |}
      else None
  | WTake =>
      match w_has s, w_sbuf s with
      | true, i :: rest =>
          if Nat.ltb (length (w_obuf s)) (w_cap s)
          then Some {| w_n := w_n s; w_conn := w_conn s; w_has := true; w_pos := w_pos s;
                       w_sbuf := rest; w_obuf := w_obuf s ++ [i]; w_applied := w_applied s; w_cur := i; w_base := w_base s; w_cap := w_cap s; w_lost := w_lost s |}
          else (* select { case outch <- evt: default: log "output buffer full" }; curVersion = evt's version *)
               Some {| w_n := w_n s; w_conn := w_conn s; w_has := true; w_pos := w_pos s;
                       w_sbuf := rest; w_obuf := w_obuf s; w_applied := w_applied s; w_cur := i; w_base := w_base s; w_cap := w_cap s; w_lost := S (w_lost s) |}
      | _, _ => None
      end
  | WDone =>
      if w_has s && negb (w_conn s)
      then (* whatever the session still buffers is dropped with it *)
        Some {| w_n := w_n s; w_conn := false; w_has := false; w_pos := w_pos s;
                w_sbuf := []; w_obuf := w_obuf s; w_applied := w_applied s; w_cur := w_cur s; w_base := w_base s; w_cap := w_cap s; w_lost := w_lost s |}
      else None
  | WRetry =>
      if negb (w_has s)
      then Some {| w_n := w_n s; w_conn := true; w_has := true; w_pos := w_cur s;
                   w_sbuf := []; w_obuf := w_obuf s; w_applied := w_applied s; w_cur := w_cur s; w_base := w_base s; w_cap := w_cap s; w_lost := w_lost s |}
      else None
  | WRetryFail =>
      if negb (w_has s)
      then Some {| w_n := w_n s; w_conn := false; w_has := true; w_pos := w_cur s;
                   w_sbuf := []; w_obuf := w_obuf s; w_applied := w_applied s; w_cur := w_cur s; w_base := w_base s; w_cap := w_cap s; w_lost := w_lost s |}
      else None
  | WApply =>
      match w_obuf s with
      | i :: rest =>
          Some {| w_n := w_n s; w_conn := w_conn s; w_has := w_has s; w_pos := w_pos s;
                  w_sbuf := w_sbuf s; w_obuf := rest; w_applied := w_applied s ++ [i]; w_cur := w_cur s; w_base := w_base s; w_cap := w_cap s; w_lost := w_lost s |}
      | [] => None
      end
  | WReset b =>
      if Nat.leb b (w_n s)
      then Some {| w_n := w_n s; w_conn := true; w_has := true; w_pos := b; w_sbuf := []; w_obuf := [];
                   w_applied := []; w_cur := b; w_base := b; w_cap := w_cap s; w_lost := 0 |}
      else None
  end.

Fixpoint wrun (s : wst) (l : list wact) : option wst :=
  match l with
  | [] => Some s
  | a :: l' => match wstep s a with Some s' => wrun s' l' | None => None end
  end.

(* entries a+1 .. a+k *)
Fixpoint wseq (a k : nat) : list nat :=
  match k with O => [] | S k' => S a :: wseq (S a) k' end.

(* nothing the library itself can do is enabled: only the server (or a
   fault) can move *)
Definition wquiescent (s : wst) : bool :=
  match wstep s WDeliver, wstep s WTake, wstep s WDone, wstep s WRetry, wstep s WApply with
  | None, None, None, None, None => true
  | _, _, _, _, _ => false
  end.

(* the cache the controller holds after applying entries, in order, to the
   cache produced by the list *)
Definition cache_after (F : obj -> bool) (c0 : cache) (entry : nat -> event) (applied : list nat) : cache :=
  fold_left (fun c i => fst (do_update F c (entry i))) applied c0.

(* deterministic quiescent outcome used by the correspondence: the list,
   then the whole log in order *)
Definition watch_outcome (F : obj -> bool) (listed : list obj) (log : list event) : outcome cache :=
  match do_sync_raw F [] listed with
  | Panic => Panic
  | Ok (c0, _) => Ok (fold_left (fun c ev => fst (do_update F c ev)) log c0)
  end.

(* the deterministic overflow history used by the correspondence: the
   controller takes the first entry and is then busy (a slow filter) while k
   further entries arrive and are taken by the watcher; afterwards it applies
   what the channel holds *)
Fixpoint wrepeat (n : nat) (l : list wact) : list wact :=
  match n with O => [] | S n' => l ++ wrepeat n' l end.

Definition busy_burst (cap k : nat) : list wact :=
  [WEmit; WDeliver; WTake; WApply] ++ wrepeat k [WEmit; WDeliver; WTake] ++ wrepeat cap [WApply].

(* apply as many buffered entries as there are: WApply on an empty channel is
   not enabled, so the tail of the schedule is cut to what is there *)
Fixpoint wrun_lenient (s : wst) (l : list wact) : wst :=
  match l with
  | [] => s
  | a :: l' => match wstep s a with Some s' => wrun_lenient s' l' | None => wrun_lenient s l' end
  end.

Definition busy_burst_outcome (cap k : nat) : list nat * nat :=
  let s := wrun_lenient (winit cap) (busy_burst cap k) in (w_applied s, w_lost s).
