(* CacheActor.v — model of the cache goroutine (cache.go: run and the request
   methods).  Callers block on unbuffered request channels; the goroutine
   picks one pending request, executes the sequential function atomically and
   replies.  Definitions only. *)
From KC Require Export Base Cache.

Inductive req :=
| RSync (l : list obj)
| RUpdate (ev : event)
| RRefilter (F' : obj -> bool) (l : list obj)
| RList
| RGet (k : key).

Inductive resp :=
| PEvents (evs : list event)
| PList (l : list obj)
| PGet (o : option obj).

(* the sequential specification: one request executed alone *)
Definition serve (s : cstate) (r : req) : cstate * resp :=
  match r with
  | RSync l => let (s', evs) := do_op s (OSync l) in (s', PEvents evs)
  | RUpdate ev => let (s', evs) := do_op s (OUpdate ev) in (s', PEvents evs)
  | RRefilter F' l => let (s', evs) := do_op s (ORefilter F' l) in (s', PEvents evs)
  | RList => (s, PList (do_list (c_items s)))
  | RGet k => (s, PGet (do_get (c_items s) k))
  end.

(* a concurrent execution: callers issue requests, the actor serves one pending
   request at a time, callers receive their reply *)
Definition client := nat.

Inductive aact :=
| ACall (c : client) (r : req)     (* the caller reaches the request channel *)
| AServe (c : client)              (* the actor receives c's request, runs it, replies *)
| AReturn (c : client).            (* the caller takes the reply *)

Record ast := {
  a_state : cstate;
  a_pending : list (client * req);           (* calls not yet served *)
  a_replied : list (client * resp);          (* served, reply not yet taken *)
  a_served : list (client * req * resp);     (* service order, oldest first *)
  a_time : nat;                              (* number of actions so far *)
  a_log : list (client * nat * nat * nat)    (* completed ops: client, call time, serve time, return time *)
    ; a_calltime : list (client * nat)
    ; a_servetime : list (client * nat)
}.

Fixpoint assoc {A} (c : client) (l : list (client * A)) : option A :=
  match l with
  | [] => None
  | (c', a) :: l' => if Nat.eqb c c' then Some a else assoc c l'
  end.

Fixpoint remove_assoc {A} (c : client) (l : list (client * A)) : list (client * A) :=
  match l with
  | [] => []
  | (c', a) :: l' => if Nat.eqb c c' then l' else (c', a) :: remove_assoc c l'
  end.

Definition ainit (s : cstate) : ast :=
  {| a_state := s; a_pending := []; a_replied := []; a_served := []; a_time := 0; a_log := [];
     a_calltime := []; a_servetime := [] |}.

Definition astep (s : ast) (a : aact) : option ast :=
  let t := S (a_time s) in
  match a with
  | ACall c r =>
      (* one outstanding request per caller *)
      match assoc c (a_pending s), assoc c (a_replied s) with
      | None, None =>
          Some {| a_state := a_state s; a_pending := a_pending s ++ [(c, r)]; a_replied := a_replied s;
                  a_served := a_served s; a_time := t; a_log := a_log s;
                  a_calltime := (c, t) :: remove_assoc c (a_calltime s); a_servetime := a_servetime s |}
      | _, _ => None
      end
  | AServe c =>
      match assoc c (a_pending s) with
      | Some r =>
          let (st', p) := serve (a_state s) r in
          Some {| a_state := st'; a_pending := remove_assoc c (a_pending s); a_replied := a_replied s ++ [(c, p)];
                  a_served := a_served s ++ [(c, r, p)]; a_time := t; a_log := a_log s;
                  a_calltime := a_calltime s; a_servetime := (c, t) :: remove_assoc c (a_servetime s) |}
      | None => None
      end
  | AReturn c =>
      match assoc c (a_replied s), assoc c (a_calltime s), assoc c (a_servetime s) with
      | Some _, Some tc, Some ts =>
          Some {| a_state := a_state s; a_pending := a_pending s; a_replied := remove_assoc c (a_replied s);
                  a_served := a_served s; a_time := t; a_log := a_log s ++ [(c, tc, ts, t)];
                  a_calltime := a_calltime s; a_servetime := a_servetime s |}
      | _, _, _ => None
      end
  end.

Fixpoint arun (s : ast) (l : list aact) : option ast :=
  match l with
  | [] => Some s
  | a :: l' => match astep s a with Some s' => arun s' l' | None => None end
  end.

(* sequential execution of a list of requests *)
Fixpoint seq_run (s : cstate) (rs : list req) : cstate * list resp :=
  match rs with
  | [] => (s, [])
  | r :: rs' => let (s1, p) := serve s r in
                let (s2, ps) := seq_run s1 rs' in (s2, p :: ps)
  end.

(* the oracle evaluated on implementation observations: a read that was
   called when the writer had completed state number lo and returned when the
   writer had started state number hi observed one of the states lo..hi *)
Fixpoint ids_eqb (a b : list N) : bool :=
  match a, b with
  | [], [] => true
  | x :: a', y :: b' => N.eqb x y && ids_eqb a' b'
  | _, _ => false
  end.

Definition lin_ok (states : list (list N)) (lo hi : nat) (observed : list N) : bool :=
  existsb (fun i => match nth_error states i with
                    | Some st => ids_eqb st observed
                    | None => false
                    end) (seq lo (S hi - lo)).
