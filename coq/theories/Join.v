(* Join.v — model of the generated joins (join/generated_*.go) and of
   join.IngressPods: a for-filter clone of the destination whose filter is
   recomputed from the source controller's cache by a monitor on the source:
     dst := dstController.CloneForFilter()
     update := func(_) { dst.Refilter(filterFn(srcController.Cache().List()...)) }
     monitor on src with OnInitialize/OnCreate/OnUpdate/OnDelete = update
   Definitions only. *)
From KC Require Export Base Filter Cache FilterSub.

(* one monitor callback: the clone receives Refilter(filterFn(source content)) *)
Definition join_update (ffn : list obj -> Filter.filter) (s : fsub) (src dst_list : list obj) : fsub * list event :=
  fs_step s (FRefilter (ffn src) dst_list).

(* what a join holds once source and destination are quiet *)
Definition join_view (ffn : list obj -> Filter.filter) (src dst : list obj) : list obj :=
  List.filter (accept (ffn src)) dst.

(* ingress -> services -> pods *)
Definition double_join_view (ings svcs pods : list obj) : list obj :=
  join_view service_pods_filter (join_view ingress_services_filter ings svcs) pods.
