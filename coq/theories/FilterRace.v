(* FilterRace.v — C06, the racing case: a filtered subscription lists its
   parent's cache at a moment when the parent is AHEAD of the events the child
   has consumed (the parent updates its cache before it publishes), under a
   filter that may just have changed; afterwards the child still consumes the
   now stale events.  Once those have drained, the child's cache is again its
   filter applied to the parent's cache.

   Everything is per key (update_refines_spec / sync_refines_spec reduce the
   cache operations to their per-key semantics update_spec / sync_spec).  The
   parent's history on the key is a list of events, each a well-formed delta of
   the parent's own cache (C02), with versions that strictly increase along the
   history (what an API server's resourceVersion does).  *)
From KC Require Import Base Cache CacheSpec CacheProps FilterSub FilterSubProps.

Definition pstate := option entry.

(* the parent's cache on this key after an event *)
Definition papply (p : pstate) (ev : event) : pstate :=
  match ev_ty ev with
  | Delete => None
  | _ => create_entry (ev_obj ev)
  end.

(* the entry with the newest version seen so far on this key *)
Definition top_after (top : pstate) (ev : event) : pstate :=
  match ev_ty ev with
  | Delete => top
  | _ => create_entry (ev_obj ev)
  end.

(* c is not newer than the newest entry seen, and equal to it if as new *)
Definition below (c : entry) (top : pstate) : Prop :=
  match top with
  | None => False
  | Some t => (e_ver c < e_ver t)%Z \/ c = t
  end.

Definition tle (a b : pstate) : Prop :=
  match a with
  | None => True
  | Some x => below x b
  end.

(* one parent event is a well-formed delta at parent state p (C02), and the
   entry it carries is newer than everything seen on the key so far, or is the
   newest entry itself again (a parent that is itself a filtered clone
   re-creates the very same object when it is refiltered out and back in) *)
Definition ev_ok (top p : pstate) (ev : event) : Prop :=
  match ev_ty ev with
  | Delete => p <> None /\ create_entry (ev_obj ev) <> None
  | Create => p = None /\ exists e, create_entry (ev_obj ev) = Some e /\ tle top (Some e)
  | Update => p <> None /\ exists e, create_entry (ev_obj ev) = Some e /\ tle top (Some e)
  end.

Fixpoint hist_ok (top p : pstate) (evs : list event) : Prop :=
  match evs with
  | [] => True
  | ev :: r => ev_ok top p ev /\ hist_ok (top_after top ev) (papply p ev) r
  end.

Definition pfold (p : pstate) (evs : list event) : pstate := fold_left papply evs p.
Definition tfold (t : pstate) (evs : list event) : pstate := fold_left top_after evs t.

(* what a listing of the parent's cache says about this key *)
Definition plisting (p : pstate) : list entry := match p with Some e => [e] | None => [] end.

(* the child's replay of stale events *)
Definition creplay (F : obj -> bool) (cur : pstate) (evs : list event) : pstate :=
  fold_left (update_spec F) evs cur.

(* ------------------------------------------------------------------ *)
(* the child                                                            *)

Record rst := {
  r_cur : pstate;              (* the child's cache on this key *)
  r_F : obj -> bool;           (* its current filter *)
  r_ready : bool;
  r_pend : list event;         (* parent events the child has not consumed yet but its last listing already reflected *)
  r_fut : list event;          (* parent events after that listing *)
  r_P : pstate;                (* the parent's cache at the last listing (or at the last consumed event, whichever is later) *)
  r_top : pstate
}.

Inductive rop :=
| REvent                                   (* the child consumes the next parent event *)
| RSyncOp (F' : obj -> bool) (d : nat).    (* the child lists the parent (d events further on) under filter F' and syncs *)

Definition rstep (s : rst) (o : rop) : option rst :=
  match o with
  | REvent =>
      match r_pend s with
      | ev :: r =>
          Some {| r_cur := if r_ready s then update_spec (r_F s) (r_cur s) ev else r_cur s;
                  r_F := r_F s; r_ready := r_ready s; r_pend := r; r_fut := r_fut s; r_P := r_P s; r_top := r_top s |}
      | [] =>
          match r_fut s with
          | ev :: f =>
              Some {| r_cur := if r_ready s then update_spec (r_F s) (r_cur s) ev else r_cur s;
                      r_F := r_F s; r_ready := r_ready s; r_pend := []; r_fut := f;
                      r_P := papply (r_P s) ev; r_top := top_after (r_top s) ev |}
          | [] => None
          end
      end
  | RSyncOp F' d =>
      let moved := firstn d (r_fut s) in
      let P' := pfold (r_P s) moved in
      Some {| r_cur := sync_spec F' (r_cur s) (plisting P'); r_F := F'; r_ready := true;
              r_pend := r_pend s ++ moved; r_fut := skipn d (r_fut s); r_P := P'; r_top := tfold (r_top s) moved |}
  end.

Fixpoint rrun (s : rst) (l : list rop) : option rst :=
  match l with
  | [] => Some s
  | o :: l' => match rstep s o with Some s' => rrun s' l' | None => None end
  end.

Definition rinit (F : obj -> bool) (p0 : pstate) (hist : list event) : rst :=
  {| r_cur := None; r_F := F; r_ready := false; r_pend := []; r_fut := hist; r_P := p0; r_top := p0 |}.
