(* WatchConverges.v — C04, second sentence, at the level of the models: a
   cache that equals the accepted view of the server at the version of a list,
   and then applies the server's later log entries IN ORDER through the watch,
   equals the accepted view of the server at the end — no relist needed.
   Composed with Watcher.watch_quiescent_complete (at quiescence, with nothing
   lost, exactly those entries have been applied, in order). *)
From KC Require Import Base Cache CacheSpec CacheProps Controller ControllerProps Watcher WatcherProps.

Lemma server_at_app k a : forall b acc, server_at k (a ++ b) acc = server_at k b (server_at k a acc).
Proof.
  induction a as [|ev a IH]; intros b acc; simpl; [reflexivity|].
  destruct (key_eqb (key_of (ev_obj ev)) k); apply IH.
Qed.

Lemma log_ok_from_app v0 a : forall b, log_ok_from v0 (a ++ b) ->
  log_ok_from v0 a /\ forall x y, In x a -> In y b -> (ev_ver x < ev_ver y)%Z.
Proof.
  revert v0. induction a as [|ev a IH]; intros v0 b H; simpl in *.
  - split; [exact I | intros x y []].
  - destruct H as [Hwf [Hlt Hrest]]. destruct (IH _ _ Hrest) as [Ha Hxy]. split; [repeat split; assumption|].
    intros x y [<-|Hx] Hy.
    + apply (log_ok_from_gt _ _ Hrest). apply in_or_app. right. exact Hy.
    + apply Hxy; assumption.
Qed.

(* the entry the accepted view holds on a key was carried by an entry of the log *)
Lemma accepted_view_from_log F l k c : log_ok l -> accepted_view F l k = Some c ->
  exists ev, In ev l /\ e_ver c = ev_ver ev.
Proof.
  unfold accepted_view, server_obj. intros Hok H.
  destruct (server_at k l None) as [o|] eqn:Hs; [|discriminate].
  destruct (F o); [|discriminate].
  destruct (server_at_spec k l 0%Z None o Hok Hs) as [[Habs _]|[ev0 [Hin [_ [Hobj _]]]]]; [discriminate|].
  exists ev0. split; [exact Hin|]. rewrite (create_entry_ver _ _ H). unfold ev_ver. rewrite Hobj. reflexivity.
Qed.

(* one more log entry, applied by doUpdate *)
Lemma apply_next_entry F l ev c :
  log_ok (l ++ [ev]) -> wf_cache c ->
  (forall k, clookup k c = accepted_view F l k) ->
  forall k, clookup k (fst (do_update F c ev)) = accepted_view F (l ++ [ev]) k.
Proof.
  intros Hok Hwf Hc k. rewrite update_refines_spec.
  unfold accepted_view, server_obj. rewrite server_at_app. simpl.
  destruct (log_ok_from_app _ _ _ Hok) as [Hokl Hlt].
  assert (Hwfev : atoi (o_rv (ev_obj ev)) <> None).
  { eapply log_ok_from_wf; [exact Hok|]. apply in_or_app. right. left. reflexivity. }
  destruct (key_eqb (key_of (ev_obj ev)) k) eqn:Hk.
  - unfold update_spec, create_entry. destruct (atoi (o_rv (ev_obj ev))) as [v|] eqn:Ha; [|contradiction].
    set (e := {| e_ver := v; e_obj := ev_obj ev |}).
    assert (Hnewer : forall c0, clookup k c = Some c0 -> (e_ver c0 < v)%Z).
    { intros c0 Hl. rewrite Hc in Hl. destruct (accepted_view_from_log F l k c0 Hokl Hl) as [ev' [Hin Hv]].
      rewrite Hv. specialize (Hlt ev' ev Hin (or_introl eq_refl)). unfold ev_ver in Hlt at 2. rewrite Ha in Hlt. exact Hlt. }
    destruct (ev_ty ev); cbn match;
      try (destruct (clookup k c) as [c0|] eqn:Hl;
           [specialize (Hnewer c0 eq_refl); apply Z.ltb_lt in Hnewer; cbn [e_ver e]; unfold e at 1; cbn [e_ver]; rewrite Hnewer|];
           destruct (F (ev_obj ev)); unfold create_entry; rewrite ?Ha; reflexivity).
    reflexivity.
  - rewrite Hc. reflexivity.
Qed.

Lemma wf_fold_update F l : forall c, wf_cache c -> wf_cache (fold_left (fun c ev => fst (do_update F c ev)) l c).
Proof. induction l as [|ev l IH]; intros c H; simpl; [exact H | apply IH, wf_do_update, H]. Qed.

(* C04: the watch alone keeps the cache equal to the server *)
Theorem watch_in_order_converges F l2 : forall l1 c,
  log_ok (l1 ++ l2) -> wf_cache c ->
  (forall k, clookup k c = accepted_view F l1 k) ->
  forall k, clookup k (fold_left (fun c ev => fst (do_update F c ev)) l2 c) = accepted_view F (l1 ++ l2) k.
Proof.
  induction l2 as [|ev l2 IH]; intros l1 c Hok Hwf Hc k; simpl.
  - rewrite app_nil_r. apply Hc.
  - replace (l1 ++ ev :: l2) with ((l1 ++ [ev]) ++ l2) in * by (rewrite <- app_assoc; reflexivity).
    apply IH; [exact Hok | apply wf_do_update, Hwf|].
    apply apply_next_entry; [|exact Hwf | exact Hc].
    unfold log_ok in *. destruct (log_ok_from_app _ _ _ Hok) as [H _]. exact H.
Qed.

Lemma fold_left_map {A B C} (f : A -> B -> A) (g : C -> B) l : forall a,
  fold_left f (map g l) a = fold_left (fun a x => f a (g x)) l a.
Proof. induction l as [|x l IH]; intros a; simpl; [reflexivity | apply IH]. Qed.

(* ... composed with the watch pipeline: at quiescence with nothing lost since
   the last list, the controller's cache is the server's accepted view — within
   the reconnect delay, not the refresh period *)
Theorem watch_quiescent_is_server_state F l1 l2 c0 cap acts s (entry : nat -> event) :
  log_ok (l1 ++ l2) -> wf_cache c0 ->
  (forall k, clookup k c0 = accepted_view F l1 k) ->
  wrun (winit cap) acts = Some s -> wquiescent s = true -> w_lost s = 0 ->
  map entry (wseq (w_base s) (w_n s - w_base s)) = l2 ->
  forall k, clookup k (cache_after F c0 entry (w_applied s)) = accepted_view F (l1 ++ l2) k.
Proof.
  intros Hok Hwf Hc Hr Hq Hl Hmap k.
  rewrite (watch_quiescent_complete cap acts s Hr Hq Hl).
  unfold cache_after. rewrite <- (fold_left_map (fun c ev => fst (do_update F c ev)) entry).
  rewrite Hmap. apply watch_in_order_converges; assumption.
Qed.
