(* Lts.v — labelled transition systems with a finite action alphabet:
   runs, reachability, and the closed-set argument: a concrete list of
   states that contains the initial state and is closed under every action
   contains every reachable state, so a boolean predicate swept over it holds
   after every action sequence of any length. *)
From Coq Require Import List Bool.
Import ListNotations.

Section LTS.
  Variables St Act : Type.
  Variable step : St -> Act -> option St.
  Variable acts : list Act.
  Variable st_eqb : St -> St -> bool.
  Hypothesis st_eqb_eq : forall a b, st_eqb a b = true -> a = b.
  Hypothesis acts_complete : forall a, In a acts.

  (* the state after a list of actions, None if some action is not enabled *)
  Fixpoint run (s : St) (l : list Act) : option St :=
    match l with
    | [] => Some s
    | a :: l' => match step s a with
                 | Some s' => run s' l'
                 | None => None
                 end
    end.

  Definition reachable (init s : St) : Prop := exists l, run init l = Some s.

  Definition mem (s : St) (R : list St) : bool := existsb (st_eqb s) R.

  Lemma mem_In s R : mem s R = true -> In s R.
  Proof.
    unfold mem. rewrite existsb_exists. intros [x [Hx He]].
    apply st_eqb_eq in He. subst. exact Hx.
  Qed.

  Definition closed (R : list St) : bool :=
    forallb (fun s => forallb (fun a => match step s a with
                                        | None => true
                                        | Some s' => mem s' R
                                        end) acts) R.

  Lemma closed_step R s a s' :
    closed R = true -> In s R -> step s a = Some s' -> In s' R.
  Proof.
    unfold closed. rewrite forallb_forall. intros Hc Hs Hstep.
    specialize (Hc s Hs). rewrite forallb_forall in Hc.
    specialize (Hc a (acts_complete a)). rewrite Hstep in Hc. apply mem_In, Hc.
  Qed.

  Lemma closed_run R : closed R = true ->
    forall l s s', In s R -> run s l = Some s' -> In s' R.
  Proof.
    intros Hc. induction l as [|a l IH]; intros s s' Hs Hr; simpl in Hr.
    - injection Hr as <-. exact Hs.
    - destruct (step s a) as [s1|] eqn:Hst; [|discriminate].
      eapply IH; [|exact Hr]. eapply closed_step; eassumption.
  Qed.

  Theorem closed_contains_reachable init R :
    mem init R = true -> closed R = true -> forall s, reachable init s -> In s R.
  Proof.
    intros Hi Hc s [l Hl]. eapply closed_run; [exact Hc | apply mem_In, Hi | exact Hl].
  Qed.

  (* a boolean predicate that holds on all of R holds on every reachable state *)
  Theorem sweep init R (P : St -> bool) :
    mem init R = true -> closed R = true -> forallb P R = true ->
    forall s, reachable init s -> P s = true.
  Proof.
    intros Hi Hc HP s Hr. rewrite forallb_forall in HP.
    apply HP. eapply closed_contains_reachable; eassumption.
  Qed.

  Lemma reachable_step init s a s' : reachable init s -> step s a = Some s' -> reachable init s'.
  Proof.
    intros [l Hl] Hst. exists (l ++ [a]).
    revert init Hl. induction l as [|b l IH]; intros init Hl; simpl in *.
    - injection Hl as ->. rewrite Hst. reflexivity.
    - destruct (step init b); [apply IH, Hl | discriminate].
  Qed.

  Lemma run_app s l1 l2 :
    run s (l1 ++ l2) = match run s l1 with Some s' => run s' l2 | None => None end.
  Proof.
    revert s. induction l1 as [|a l1 IH]; intros s; simpl; [reflexivity|].
    destruct (step s a); [apply IH | reflexivity].
  Qed.

  (* breadth-first exploration with fuel, used to *compute* the closed set;
     its result is then checked by [closed], so it is not trusted *)
  Fixpoint explore (fuel : nat) (frontier seen : list St) : list St :=
    match fuel with
    | O => seen
    | S fuel' =>
        match frontier with
        | [] => seen
        | s :: rest =>
            let succs := flat_map (fun a => match step s a with Some s' => [s'] | None => [] end) acts in
            let fresh := fold_left (fun acc s' => if mem s' (seen ++ acc) then acc else acc ++ [s']) succs [] in
            explore fuel' (rest ++ fresh) (seen ++ fresh)
        end
    end.

  (* EF: a state satisfying P can be reached within [fuel] steps *)
  Fixpoint can_reach (fuel : nat) (P : St -> bool) (s : St) : bool :=
    P s ||
    match fuel with
    | O => false
    | S fuel' => existsb (fun a => match step s a with
                                   | Some s' => can_reach fuel' P s'
                                   | None => false
                                   end) acts
    end.

  Lemma can_reach_sound fuel P : forall s, can_reach fuel P s = true ->
    exists l s', run s l = Some s' /\ P s' = true.
  Proof.
    induction fuel as [|fuel IH]; intros s H; simpl in H.
    - rewrite orb_false_r in H. exists [], s. split; [reflexivity | exact H].
    - apply orb_true_iff in H. destruct H as [H|H].
      + exists [], s. split; [reflexivity | exact H].
      + apply existsb_exists in H. destruct H as [a [_ Ha]].
        destruct (step s a) as [s1|] eqn:Hst; [|discriminate].
        destruct (IH s1 Ha) as [l [s' [Hl Hp]]].
        exists (a :: l), s'. simpl. rewrite Hst. split; assumption.
  Qed.
  (* EF by backward iteration over a finite set of states: no path explosion *)
  Fixpoint ef_iter (n : nat) (P : St -> bool) (R : list St) : list St :=
    match n with
    | O => filter P R
    | S n' =>
        let S' := ef_iter n' P R in
        filter (fun s => mem s S' ||
                         existsb (fun a => match step s a with
                                           | Some s' => mem s' S'
                                           | None => false
                                           end) acts) R
    end.

  Lemma ef_iter_sound n P R : forall s, In s (ef_iter n P R) ->
    exists l s', Forall (fun a => In a acts) l /\ run s l = Some s' /\ P s' = true.
  Proof.
    induction n as [|n IH]; intros s H; simpl in H; apply filter_In in H; destruct H as [_ H].
    - exists [], s. repeat split; [constructor | exact H].
    - apply orb_true_iff in H. destruct H as [H|H].
      + apply IH, mem_In, H.
      + apply existsb_exists in H. destruct H as [a [Hin Ha]].
        destruct (step s a) as [s1|] eqn:Hst; [|discriminate].
        destruct (IH s1 (mem_In _ _ Ha)) as [l [s' [Hall [Hl Hp]]]].
        exists (a :: l), s'. repeat split; [constructor; assumption | simpl; rewrite Hst; exact Hl | exact Hp].
  Qed.
End LTS.
