(* FilterProps.v — lemmas about Filter.v (C17, C18, C19). *)
From KC Require Import Base Filter.
From Coq Require Import Permutation Sorting.Sorted.

(* ------------------------------------------------------------------ *)
(* Induction principle for the nested inductive [filter].              *)

Section FilterInd.
  Variable P : filter -> Prop.
  Hypothesis HNull : P FNull.
  Hypothesis HAll : P FAll.
  Hypothesis HNot : forall c, P c -> P (FNot c).
  Hypothesis HAnd : forall cs, Forall P cs -> P (FAnd cs).
  Hypothesis HOr : forall cs, Forall P cs -> P (FOr cs).
  Hypothesis HNS : forall a b, P (FNSName a b).
  Hypothesis HSel : forall s, P (FSel s).
  Hypothesis HFn : forall p, P (FFn p).
  Hypothesis HNode : forall l, P (FNode l).
  Hypothesis HInv : forall a b c, P (FInvolved a b c).
  Hypothesis HSvc : forall t, P (FSvcFor t).

  Fixpoint filter_ind' (f : filter) : P f :=
    match f with
    | FNull => HNull
    | FAll => HAll
    | FNot c => HNot c (filter_ind' c)
    | FAnd cs => HAnd cs ((fix go (l : list filter) : Forall P l :=
                             match l with
                             | [] => Forall_nil P
                             | c :: l' => Forall_cons c (filter_ind' c) (go l')
                             end) cs)
    | FOr cs => HOr cs ((fix go (l : list filter) : Forall P l :=
                           match l with
                           | [] => Forall_nil P
                           | c :: l' => Forall_cons c (filter_ind' c) (go l')
                           end) cs)
    | FNSName a b => HNS a b
    | FSel s => HSel s
    | FFn p => HFn p
    | FNode l => HNode l
    | FInvolved a b c => HInv a b c
    | FSvcFor t => HSvc t
    end.
End FilterInd.

(* ------------------------------------------------------------------ *)
(* Basic equalities                                                    *)

Lemma key_eqb_eq a b : key_eqb a b = true <-> a = b.
Proof.
  destruct a as [a1 a2], b as [b1 b2]; unfold key_eqb; simpl.
  rewrite andb_true_iff, !N.eqb_eq. split; [intros [-> ->]; reflexivity | intros [= -> ->]; auto].
Qed.

Lemma key_eqb_refl a : key_eqb a a = true.
Proof. apply key_eqb_eq; reflexivity. Qed.

Lemma names_eqb_eq a b : names_eqb a b = true <-> a = b.
Proof.
  revert b; induction a as [|x a IH]; destruct b as [|y b]; simpl; try (split; [discriminate|discriminate]); [tauto|].
  rewrite andb_true_iff, N.eqb_eq, IH. split; [intros [-> ->]; reflexivity | intros [= -> ->]; auto].
Qed.

Lemma keys_eqb_eq a b : keys_eqb a b = true <-> a = b.
Proof.
  revert b; induction a as [|x a IH]; destruct b as [|y b]; simpl; try (split; [discriminate|discriminate]); [tauto|].
  rewrite andb_true_iff, key_eqb_eq, IH. split; [intros [-> ->]; reflexivity | intros [= -> ->]; auto].
Qed.

Lemma rop_eqb_eq a b : rop_eqb a b = true <-> a = b.
Proof. destruct a, b; simpl; split; congruence. Qed.

Lemma req_eqb_eq a b : req_eqb a b = true <-> a = b.
Proof.
  destruct a as [k1 o1 v1], b as [k2 o2 v2]; unfold req_eqb; simpl.
  rewrite !andb_true_iff, N.eqb_eq, rop_eqb_eq, names_eqb_eq.
  split; [intros [[-> ->] ->]; reflexivity | intros [= -> -> ->]; auto].
Qed.

Lemma reqs_eqb_eq a b : reqs_eqb a b = true <-> a = b.
Proof.
  revert b; induction a as [|x a IH]; destruct b as [|y b]; simpl; try (split; [discriminate|discriminate]); [tauto|].
  rewrite andb_true_iff, req_eqb_eq, IH. split; [intros [-> ->]; reflexivity | intros [= -> ->]; auto].
Qed.

Lemma selector_eqb_eq a b : selector_eqb a b = true <-> a = b.
Proof.
  destruct a, b; simpl; try (split; congruence).
  rewrite reqs_eqb_eq. split; congruence.
Qed.

Lemma mem_key_In x l : mem_key x l = true <-> In x l.
Proof.
  unfold mem_key. rewrite existsb_exists. split.
  - intros [y [Hy He]]. apply key_eqb_eq in He. subst; assumption.
  - intros H. exists x. split; [assumption | apply key_eqb_refl].
Qed.

Lemma mem_name_In x l : mem_name x l = true <-> In x l.
Proof.
  unfold mem_name. rewrite existsb_exists. split.
  - intros [y [Hy He]]. apply N.eqb_eq in He. subst; assumption.
  - intros H. exists x. split; [assumption | apply N.eqb_refl].
Qed.

Lemma bool_ext (a b : bool) : (a = true <-> b = true) -> a = b.
Proof. destruct a, b; intuition congruence. Qed.

Lemma keyset_eqb_mem a b x : keyset_eqb a b = true -> mem_key x a = mem_key x b.
Proof.
  unfold keyset_eqb. rewrite andb_true_iff, !forallb_forall. intros [H1 H2].
  apply bool_ext. rewrite !mem_key_In. split; intros H.
  - apply mem_key_In, H1, H.
  - apply mem_key_In, H2, H.
Qed.

Lemma nameset_eqb_mem a b x : nameset_eqb a b = true -> mem_name x a = mem_name x b.
Proof.
  unfold nameset_eqb. rewrite andb_true_iff, !forallb_forall. intros [H1 H2].
  apply bool_ext. rewrite !mem_name_In. split; intros H.
  - apply mem_name_In, H1, H.
  - apply mem_name_In, H2, H.
Qed.

(* ------------------------------------------------------------------ *)
(* Go maps: distinct keys                                              *)

Definition map_ok (m : lmap) : Prop := NoDup (keys m).

Lemma lookup_In k v m : lookup k m = Some v -> In (k, v) m.
Proof.
  induction m as [|[k' v'] m IH]; simpl; [discriminate|].
  destruct (N.eqb_spec k k') as [->|Hne].
  - intros [= ->]. left; reflexivity.
  - intros H. right. apply IH, H.
Qed.

Lemma In_lookup k v m : map_ok m -> In (k, v) m -> lookup k m = Some v.
Proof.
  unfold map_ok, keys. induction m as [|[k' v'] m IH]; simpl; [tauto|].
  intros Hnd [Heq|Hin].
  - injection Heq as -> ->. rewrite N.eqb_refl. reflexivity.
  - inversion Hnd as [|? ? Hnotin Hnd']; subst.
    destruct (N.eqb_spec k k') as [->|Hne].
    + exfalso. apply Hnotin. apply (in_map fst) in Hin. exact Hin.
    + apply IH; assumption.
Qed.

Lemma map_ok_NoDup m : map_ok m -> NoDup m.
Proof.
  unfold map_ok, keys. induction m as [|[k v] m IH]; simpl; intros H; [constructor|].
  inversion H as [|? ? Hnotin Hnd]; subst. constructor.
  - intros Hin. apply Hnotin. apply (in_map fst) in Hin. exact Hin.
  - apply IH, Hnd.
Qed.

(* labels.Equals decides equality of Go maps: the two maps have the same
   lookups *)
Lemma labels_equals_lookup a b :
  map_ok a -> map_ok b -> labels_equals a b = true ->
  forall k, lookup k a = lookup k b.
Proof.
  intros Ha Hb. unfold labels_equals. rewrite andb_true_iff, Nat.eqb_eq, forallb_forall.
  intros [Hlen Hsub].
  assert (Hincl : incl a b).
  { intros [k v] Hin. specialize (Hsub _ Hin). simpl in Hsub.
    destruct (lookup k b) as [v'|] eqn:Hl; [|discriminate].
    apply N.eqb_eq in Hsub. subst. apply lookup_In, Hl. }
  assert (Hincl' : incl b a).
  { apply NoDup_length_incl; [apply map_ok_NoDup, Ha | lia | exact Hincl]. }
  intros k.
  destruct (lookup k a) as [v|] eqn:Hla.
  - symmetry. apply In_lookup; [exact Hb|]. apply Hincl, lookup_In, Hla.
  - destruct (lookup k b) as [v|] eqn:Hlb; [|reflexivity].
    apply lookup_In, Hincl' in Hlb. apply In_lookup in Hlb; [|exact Ha]. congruence.
Qed.

(* ------------------------------------------------------------------ *)
(* Well-formed filter terms: every Go map inside has distinct keys.    *)

Fixpoint wf_filter (f : filter) : Prop :=
  match f with
  | FNot c => wf_filter c
  | FAnd cs => (fix all (l : list filter) : Prop :=
                  match l with [] => True | c :: l' => wf_filter c /\ all l' end) cs
  | FOr cs => (fix all (l : list filter) : Prop :=
                 match l with [] => True | c :: l' => wf_filter c /\ all l' end) cs
  | FSvcFor t => map_ok t
  | _ => True
  end.

Lemma wf_and_Forall cs : wf_filter (FAnd cs) <-> Forall wf_filter cs.
Proof.
  induction cs as [|c cs IH]; simpl; split; intros H; auto.
  - destruct H as [H1 H2]. constructor; [exact H1 | apply IH, H2].
  - inversion H; subst. split; [assumption | apply IH; assumption].
Qed.

Lemma wf_or_Forall cs : wf_filter (FOr cs) <-> Forall wf_filter cs.
Proof.
  induction cs as [|c cs IH]; simpl; split; intros H; auto.
  - destruct H as [H1 H2]. constructor; [exact H1 | apply IH, H2].
  - inversion H; subst. split; [assumption | apply IH; assumption].
Qed.

(* ------------------------------------------------------------------ *)
(* C17: soundness of Equals                                            *)

Definition feq_list :=
  fix go (cs ds : list filter) : bool :=
    match cs, ds with
    | [], [] => true
    | c :: cs', d :: ds' => comparable c && comparable d && feq c d && go cs' ds'
    | _, _ => false
    end.

Lemma feq_and cs ds : feq (FAnd cs) (FAnd ds) = feq_list cs ds.
Proof. reflexivity. Qed.
Lemma feq_or cs ds : feq (FOr cs) (FOr ds) = feq_list cs ds.
Proof. reflexivity. Qed.

Definition sound_at (f : filter) : Prop :=
  forall g, wf_filter f -> wf_filter g -> feq f g = true -> forall o, accept f o = accept g o.

Lemma feq_list_sound cs : Forall sound_at cs ->
  forall ds, Forall wf_filter cs -> Forall wf_filter ds -> feq_list cs ds = true ->
  forall o, map (fun c => accept c o) cs = map (fun c => accept c o) ds.
Proof.
  induction 1 as [|c cs Hc Hcs IH]; intros ds Hwc Hwd Heq o; destruct ds as [|d ds]; simpl in Heq; try discriminate.
  - reflexivity.
  - rewrite !andb_true_iff in Heq. destruct Heq as [[[_ _] Hcd] Hrest].
    inversion Hwc; subst. inversion Hwd; subst.
    simpl. f_equal.
    + apply Hc; assumption.
    + apply IH; assumption.
Qed.

Lemma forallb_map {A} (p : A -> bool) l : forallb p l = forallb (fun b => b) (map p l).
Proof. induction l; simpl; congruence. Qed.
Lemma existsb_map {A} (p : A -> bool) l : existsb p l = existsb (fun b => b) (map p l).
Proof. induction l; simpl; congruence. Qed.

Lemma forallb_ext' {A} (p q : A -> bool) l : (forall x, p x = q x) -> forallb p l = forallb q l.
Proof. intros H. induction l; simpl; congruence. Qed.

Lemma svcfor_accept_ext a b o :
  (forall k, lookup k a = lookup k b) -> length a = length b ->
  svcfor_accept a o = svcfor_accept b o.
Proof.
  intros Hl Hlen. unfold svcfor_accept.
  destruct (o_spec o); try reflexivity.
  destruct (N.eqb (o_kind o) KService); [|reflexivity].
  rewrite Hlen.
  destruct (Nat.eqb (length sel) 0 || Nat.eqb (length b) 0)%bool; [reflexivity|].
  apply forallb_ext'. intros [k v]. simpl. rewrite Hl. reflexivity.
Qed.

Lemma feq_sound_at : forall f, sound_at f.
Proof.
  induction f using filter_ind'; intros g Hwf Hwg Heq o; destruct g; simpl in Heq; try discriminate.
  - reflexivity.
  - reflexivity.
  - simpl. f_equal. apply IHf; assumption.
  - change (feq_list cs cs0 = true) in Heq.
    simpl. rewrite (forallb_map (fun c => accept c o) cs), (forallb_map (fun c => accept c o) cs0).
    f_equal. apply feq_list_sound; try assumption; [apply wf_and_Forall, Hwf | apply wf_and_Forall, Hwg].
  - change (feq_list cs cs0 = true) in Heq.
    simpl. rewrite (existsb_map (fun c => accept c o) cs), (existsb_map (fun c => accept c o) cs0).
    f_equal. apply feq_list_sound; try assumption; [apply wf_or_Forall, Hwf | apply wf_or_Forall, Hwg].
  - rewrite andb_true_iff in Heq. destruct Heq as [Hk Hp]. apply keys_eqb_eq in Hp. subst.
    simpl. rewrite (keyset_eqb_mem _ _ _ Hk). reflexivity.
  - apply selector_eqb_eq in Heq. subst. reflexivity.
  - simpl. destruct (o_spec o); try reflexivity. rewrite (nameset_eqb_mem _ _ _ Heq). reflexivity.
  - rewrite !andb_true_iff, !N.eqb_eq in Heq. destruct Heq as [[-> ->] ->]. reflexivity.
  - simpl. simpl in Hwf, Hwg. apply svcfor_accept_ext.
    + apply labels_equals_lookup; assumption.
    + unfold labels_equals in Heq. rewrite andb_true_iff, Nat.eqb_eq in Heq. tauto.
Qed.

Theorem feq_sound f g :
  wf_filter f -> wf_filter g -> feq f g = true -> forall o, accept f o = accept g o.
Proof. intros; apply feq_sound_at; assumption. Qed.

(* FiltersEqual, nil filters included: nil is equal only to nil *)
Theorem filters_equal_sound f g :
  wf_filter f -> wf_filter g -> filters_equal (Some f) (Some g) = true ->
  forall o, accept f o = accept g o.
Proof.
  unfold filters_equal. intros Hf Hg H o. rewrite andb_true_iff in H.
  apply feq_sound; tauto.
Qed.

Theorem filters_equal_nil f : filters_equal None (Some f) = false /\ filters_equal (Some f) None = false.
Proof. split; reflexivity. Qed.

(* FN is never reported equal to anything *)
Theorem fn_never_equal p g : feq (FFn p) g = false /\ feq g (FFn p) = false.
Proof. split; [reflexivity | destruct g; reflexivity]. Qed.

(* ------------------------------------------------------------------ *)
(* C17: comparable filters built twice from the same arguments are equal *)

Fixpoint deep_comparable (f : filter) : Prop :=
  match f with
  | FFn _ => False
  | FNot c => deep_comparable c
  | FAnd cs => (fix all (l : list filter) : Prop :=
                  match l with [] => True | c :: l' => deep_comparable c /\ all l' end) cs
  | FOr cs => (fix all (l : list filter) : Prop :=
                 match l with [] => True | c :: l' => deep_comparable c /\ all l' end) cs
  | _ => True
  end.

Lemma deep_comparable_comparable f : deep_comparable f -> comparable f = true.
Proof. destruct f; simpl; auto; tauto. Qed.

Lemma names_eqb_refl a : names_eqb a a = true.
Proof. apply names_eqb_eq; reflexivity. Qed.
Lemma keys_eqb_refl a : keys_eqb a a = true.
Proof. apply keys_eqb_eq; reflexivity. Qed.
Lemma selector_eqb_refl a : selector_eqb a a = true.
Proof. apply selector_eqb_eq; reflexivity. Qed.

Lemma keyset_eqb_refl a : keyset_eqb a a = true.
Proof.
  unfold keyset_eqb. assert (H : forallb (fun x => mem_key x a) a = true).
  { apply forallb_forall. intros x Hx. apply mem_key_In, Hx. }
  rewrite H. reflexivity.
Qed.
Lemma nameset_eqb_refl a : nameset_eqb a a = true.
Proof.
  unfold nameset_eqb. assert (H : forallb (fun x => mem_name x a) a = true).
  { apply forallb_forall. intros x Hx. apply mem_name_In, Hx. }
  rewrite H. reflexivity.
Qed.

Lemma labels_equals_refl a : map_ok a -> labels_equals a a = true.
Proof.
  intros Ha. unfold labels_equals. rewrite Nat.eqb_refl. simpl.
  apply forallb_forall. intros [k v] Hin. simpl.
  rewrite (In_lookup k v a Ha Hin). apply N.eqb_refl.
Qed.

Lemma feq_list_refl cs :
  Forall (fun c => deep_comparable c -> wf_filter c -> feq c c = true) cs ->
  Forall deep_comparable cs -> Forall wf_filter cs -> feq_list cs cs = true.
Proof.
  induction 1 as [|c cs Hc Hcs IH]; intros Hd Hw; simpl; [reflexivity|].
  inversion Hd; subst. inversion Hw; subst.
  rewrite (deep_comparable_comparable c) by assumption. simpl.
  rewrite Hc by assumption. simpl. apply IH; assumption.
Qed.

Lemma dc_and_Forall cs : deep_comparable (FAnd cs) <-> Forall deep_comparable cs.
Proof.
  induction cs as [|c cs IH]; simpl; split; intros H; auto.
  - destruct H as [H1 H2]. constructor; [exact H1 | apply IH, H2].
  - inversion H; subst. split; [assumption | apply IH; assumption].
Qed.
Lemma dc_or_Forall cs : deep_comparable (FOr cs) <-> Forall deep_comparable cs.
Proof.
  induction cs as [|c cs IH]; simpl; split; intros H; auto.
  - destruct H as [H1 H2]. constructor; [exact H1 | apply IH, H2].
  - inversion H; subst. split; [assumption | apply IH; assumption].
Qed.

Theorem feq_refl_comparable f : deep_comparable f -> wf_filter f -> feq f f = true.
Proof.
  induction f using filter_ind'; intros Hd Hw; simpl; auto.
  - change (feq_list cs cs = true).
    apply feq_list_refl; [assumption | apply dc_and_Forall, Hd | apply wf_and_Forall, Hw].
  - change (feq_list cs cs = true).
    apply feq_list_refl; [assumption | apply dc_or_Forall, Hd | apply wf_or_Forall, Hw].
  - rewrite keyset_eqb_refl, keys_eqb_refl. reflexivity.
  - apply selector_eqb_refl.
  - apply nameset_eqb_refl.
  - rewrite !N.eqb_refl. reflexivity.
  - apply labels_equals_refl, Hw.
Qed.

(* ------------------------------------------------------------------ *)
(* C17: workload filters do not depend on the order of their sources    *)

Definition key_lt (a b : key) : Prop := key_ltb a b = true.

Lemma key_ltb_irrefl a : key_ltb a a = false.
Proof. unfold key_ltb. rewrite N.eqb_refl. apply N.ltb_irrefl. Qed.

Lemma key_ltb_trans a b c : key_ltb a b = true -> key_ltb b c = true -> key_ltb a c = true.
Proof.
  unfold key_ltb. destruct a as [a1 a2], b as [b1 b2], c as [c1 c2]; simpl.
  destruct (N.eqb_spec a1 b1), (N.eqb_spec b1 c1), (N.eqb_spec a1 c1); rewrite ?N.ltb_lt; try lia.
Qed.

Lemma key_ltb_total a b : key_ltb a b = false -> key_ltb b a = false -> a = b.
Proof.
  unfold key_ltb. destruct a as [a1 a2], b as [b1 b2]; simpl.
  destruct (N.eqb_spec a1 b1), (N.eqb_spec b1 a1); rewrite ?N.ltb_ge; try lia; intros; f_equal; lia.
Qed.

Definition obj_lt (a b : obj) : Prop := key_lt (key_of a) (key_of b).

Lemma insert_obj_perm o l : Permutation (o :: l) (insert_obj o l).
Proof.
  induction l as [|x l IH]; simpl; [reflexivity|].
  destruct (key_ltb (key_of o) (key_of x)); [reflexivity|].
  rewrite perm_swap. constructor. exact IH.
Qed.

Lemma sort_objs_perm l : Permutation l (sort_objs l).
Proof.
  induction l as [|x l IH]; simpl; [reflexivity|].
  rewrite <- insert_obj_perm. constructor. exact IH.
Qed.

(* sources have pairwise distinct namespace/name *)
Definition distinct_keys (l : list obj) : Prop := NoDup (map key_of l).

Lemma insert_obj_sorted o l :
  StronglySorted obj_lt l -> ~ In (key_of o) (map key_of l) ->
  StronglySorted obj_lt (insert_obj o l).
Proof.
  induction 1 as [|x l Hs IH Hx]; intros Hnin; simpl.
  - constructor; constructor.
  - destruct (key_ltb (key_of o) (key_of x)) eqn:Hlt.
    + constructor; [constructor; assumption|].
      constructor; [exact Hlt|].
      rewrite Forall_forall in *. intros y Hy. unfold obj_lt, key_lt.
      eapply key_ltb_trans; [exact Hlt | apply Hx, Hy].
    + simpl in Hnin.
      assert (Hxo : key_ltb (key_of x) (key_of o) = true).
      { destruct (key_ltb (key_of x) (key_of o)) eqn:Hgt; [reflexivity|].
        exfalso. apply Hnin. left. symmetry. apply key_ltb_total; assumption. }
      constructor.
      * apply IH. intros Hin. apply Hnin. right. exact Hin.
      * rewrite Forall_forall in *. intros y Hy.
        apply (Permutation_in _ (Permutation_sym (insert_obj_perm o l))) in Hy.
        destruct Hy as [<-|Hy]; [exact Hxo | apply Hx, Hy].
Qed.

Lemma sort_objs_sorted l : distinct_keys l -> StronglySorted obj_lt (sort_objs l).
Proof.
  unfold distinct_keys. induction l as [|x l IH]; simpl; intros Hnd; [constructor|].
  inversion Hnd as [|? ? Hnin Hnd']; subst.
  apply insert_obj_sorted; [apply IH, Hnd'|].
  intros Hin. apply Hnin.
  apply (Permutation_in _ (Permutation_map key_of (Permutation_sym (sort_objs_perm l)))). exact Hin.
Qed.

Lemma sorted_perm_eq l1 : forall l2,
  StronglySorted obj_lt l1 -> StronglySorted obj_lt l2 -> Permutation l1 l2 -> l1 = l2.
Proof.
  induction l1 as [|x l1 IH]; intros l2 H1 H2 Hp.
  - apply Permutation_nil in Hp. subst; reflexivity.
  - destruct l2 as [|y l2]; [apply Permutation_sym, Permutation_nil in Hp; discriminate|].
    inversion H1 as [|? ? Hs1 Hx]; subst. inversion H2 as [|? ? Hs2 Hy]; subst.
    assert (Hxy : x = y).
    { assert (Hin1 : In x (y :: l2)) by (apply (Permutation_in _ Hp); left; reflexivity).
      assert (Hin2 : In y (x :: l1)) by (apply (Permutation_in _ (Permutation_sym Hp)); left; reflexivity).
      destruct Hin1 as [->|Hin1]; [reflexivity|].
      destruct Hin2 as [->|Hin2]; [reflexivity|].
      rewrite Forall_forall in Hx, Hy.
      specialize (Hx _ Hin2). specialize (Hy _ Hin1).
      unfold obj_lt, key_lt in *.
      pose proof (key_ltb_trans _ _ _ Hx Hy) as Hc. rewrite key_ltb_irrefl in Hc. discriminate. }
    subst. f_equal. apply IH; try assumption.
    eapply Permutation_cons_inv; exact Hp.
Qed.

Theorem sort_objs_order_independent l1 l2 :
  distinct_keys l1 -> Permutation l1 l2 -> sort_objs l1 = sort_objs l2.
Proof.
  intros Hd Hp. apply sorted_perm_eq.
  - apply sort_objs_sorted, Hd.
  - apply sort_objs_sorted. unfold distinct_keys in *.
    eapply Permutation_NoDup; [apply Permutation_map, Hp | exact Hd].
  - rewrite <- (sort_objs_perm l1), <- (sort_objs_perm l2). exact Hp.
Qed.

(* every term the workload constructors build is comparable and wf *)
Lemma mk_nsname_dc ids : deep_comparable (mk_nsname ids) /\ wf_filter (mk_nsname ids).
Proof. split; exact I. Qed.
Lemma mk_labels_dc m : deep_comparable (mk_labels m) /\ wf_filter (mk_labels m).
Proof. split; exact I. Qed.
Lemma mk_label_selector_dc m : deep_comparable (mk_label_selector m) /\ wf_filter (mk_label_selector m).
Proof. split; exact I. Qed.

Lemma service_pods_filter_dc l :
  deep_comparable (service_pods_filter l) /\ wf_filter (service_pods_filter l).
Proof.
  unfold service_pods_filter. generalize (sort_objs l) as s. intros s.
  split; [apply dc_or_Forall | apply wf_or_Forall]; apply Forall_forall; intros f Hf;
    apply in_flat_map in Hf; destruct Hf as [x [_ Hf]];
    destruct (o_spec x); try destruct Hf;
    destruct (Nat.ltb 0 (length sel)); try destruct Hf; try (destruct H); subst; simpl; tauto.
Qed.

Lemma rc_pods_filter_dc l : deep_comparable (rc_pods_filter l) /\ wf_filter (rc_pods_filter l).
Proof.
  unfold rc_pods_filter. generalize (sort_objs l) as s. intros s.
  split; [apply dc_or_Forall | apply wf_or_Forall]; apply Forall_forall; intros f Hf;
    apply in_map_iff in Hf; destruct Hf as [x [<- _]]; destruct (o_spec x); exact I.
Qed.

Lemma workload_pods_filter_dc l :
  deep_comparable (workload_pods_filter l) /\ wf_filter (workload_pods_filter l).
Proof.
  unfold workload_pods_filter. generalize (sort_objs l) as s. intros s.
  split; [apply dc_or_Forall | apply wf_or_Forall]; apply Forall_forall; intros f Hf;
    apply in_map_iff in Hf; destruct Hf as [x [<- _]]; destruct (o_spec x) as [| | | |[?|] ?| |]; simpl; tauto.
Qed.

Theorem service_pods_filter_order_independent l1 l2 :
  distinct_keys l1 -> Permutation l1 l2 ->
  feq (service_pods_filter l1) (service_pods_filter l2) = true.
Proof.
  intros Hd Hp. unfold service_pods_filter at 2. rewrite <- (sort_objs_order_independent l1 l2 Hd Hp).
  apply feq_refl_comparable; apply (service_pods_filter_dc l1).
Qed.

Theorem rc_pods_filter_order_independent l1 l2 :
  distinct_keys l1 -> Permutation l1 l2 ->
  feq (rc_pods_filter l1) (rc_pods_filter l2) = true.
Proof.
  intros Hd Hp. unfold rc_pods_filter at 2. rewrite <- (sort_objs_order_independent l1 l2 Hd Hp).
  apply feq_refl_comparable; apply (rc_pods_filter_dc l1).
Qed.

Theorem workload_pods_filter_order_independent l1 l2 :
  distinct_keys l1 -> Permutation l1 l2 ->
  feq (workload_pods_filter l1) (workload_pods_filter l2) = true.
Proof.
  intros Hd Hp. unfold workload_pods_filter at 2. rewrite <- (sort_objs_order_independent l1 l2 Hd Hp).
  apply feq_refl_comparable; apply (workload_pods_filter_dc l1).
Qed.
