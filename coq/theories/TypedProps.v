(* TypedProps.v — theorems about Typed.v (C20). *)
From KC Require Import Base Typed.

(* the typed view is the untyped one restricted to the type, in order *)
Theorem typed_list_is_restriction k l :
  typed_list k l = filter (fun o => N.eqb (o_kind o) k) l.
Proof.
  induction l as [|o l IH]; simpl; [reflexivity|].
  unfold adapt. destruct (N.eqb (o_kind o) k); simpl; rewrite <- IH; reflexivity.
Qed.

Theorem typed_list_all_of_type k l : Forall (fun o => o_kind o = k) (typed_list k l).
Proof.
  rewrite typed_list_is_restriction. apply Forall_forall. intros o H.
  apply filter_In in H. destruct H as [_ H]. apply N.eqb_eq, H.
Qed.

Theorem typed_list_keeps_own_type k l : Forall (fun o => o_kind o = k) l -> typed_list k l = l.
Proof.
  induction 1 as [|o l Ho Hl IH]; simpl; [reflexivity|].
  unfold adapt. rewrite Ho, N.eqb_refl. simpl. rewrite IH. reflexivity.
Qed.

Theorem typed_events_is_restriction k evs :
  map ev_obj (typed_events k evs) = filter (fun o => N.eqb (o_kind o) k) (map ev_obj evs) /\
  map ev_ty (typed_events k evs) = map ev_ty (filter (fun ev => N.eqb (o_kind (ev_obj ev)) k) evs).
Proof.
  induction evs as [|ev evs [IH1 IH2]]; simpl; [split; reflexivity|].
  unfold adapt. destruct (N.eqb (o_kind (ev_obj ev)) k); simpl; rewrite ?IH1, ?IH2; split; reflexivity.
Qed.

Theorem typed_events_keeps_own_type k evs :
  Forall (fun ev => o_kind (ev_obj ev) = k) evs -> typed_events k evs = evs.
Proof.
  induction 1 as [|ev evs Ho Hl IH]; simpl; [reflexivity|].
  unfold adapt. rewrite Ho, N.eqb_refl. simpl. rewrite IH. destruct ev; reflexivity.
Qed.

(* objects of another type are skipped, never handed on: no callback, list
   entry or event carries an object of another type (hence none is nil) *)
Theorem typed_callback_skips_foreign k ty o : o_kind o <> k -> typed_callback k (TEvent ty o) = [].
Proof. intros H. simpl. unfold adapt. destruct (N.eqb_spec (o_kind o) k); [contradiction | reflexivity]. Qed.

Theorem typed_get_spec k r :
  typed_get k r = match r with
                  | None => TAbsent
                  | Some o => if N.eqb (o_kind o) k then TFound o else TInvalid
                  end.
Proof. destruct r as [o|]; simpl; [|reflexivity]. unfold adapt. destruct (N.eqb (o_kind o) k); reflexivity. Qed.

(* instantiation changes nothing but the placeholder *)
(* a typed filtered node (CloneWithFilter, SubscribeWithFilter, ...) is the
   typed wrapper of the untyped filtered node: restricting to the type and
   filtering commute, so "typed filtered cache = the filter applied to the typed
   parent cache" *)
Lemma typed_list_cons k o l :
  typed_list k (o :: l) = (if N.eqb (o_kind o) k then [o] else []) ++ typed_list k l.
Proof. unfold typed_list, adapt. simpl. destruct (N.eqb (o_kind o) k); reflexivity. Qed.

Theorem typed_list_filter_commute k (f : obj -> bool) l :
  typed_list k (filter f l) = filter f (typed_list k l).
Proof.
  induction l as [|o l IH]; [reflexivity|].
  rewrite typed_list_cons. simpl filter at 1.
  destruct (f o) eqn:Hf.
  - rewrite typed_list_cons, IH. destruct (N.eqb (o_kind o) k); simpl; rewrite ?Hf; reflexivity.
  - rewrite IH. destruct (N.eqb (o_kind o) k); simpl; rewrite ?Hf; reflexivity.
Qed.

Theorem typed_list_app k a b : typed_list k (a ++ b) = typed_list k a ++ typed_list k b.
Proof. unfold typed_list. apply flat_map_app. Qed.

Theorem typed_events_app k a b : typed_events k (a ++ b) = typed_events k a ++ typed_events k b.
Proof. unfold typed_events. apply flat_map_app. Qed.

(* unitary handlers *)
Theorem unitary_init_iff k objs :
  unitary_callback k (TInit objs) <> [] <-> exists o, typed_list k objs = [o].
Proof.
  simpl. destruct (typed_list k objs) as [|o [|o' r]]; split; intro H.
  - exfalso; apply H; reflexivity.
  - destruct H as [o H]; discriminate.
  - exists o; reflexivity.
  - discriminate.
  - exfalso; apply H; reflexivity.
  - destruct H as [x H]; discriminate.
Qed.

Theorem unitary_init_is_the_object k objs o :
  typed_list k objs = [o] -> unitary_callback k (TInit objs) = [TInit [o]] /\ o_kind o = k.
Proof.
  intro H. simpl. rewrite H. split; [reflexivity|].
  pose proof (typed_list_all_of_type k objs) as Hall. rewrite H in Hall. inversion Hall; assumption.
Qed.

Theorem unitary_events_are_typed_events k ty o :
  unitary_callback k (TEvent ty o) = typed_callback k (TEvent ty o).
Proof. reflexivity. Qed.

(* apart from the initial callback a unitary handler sees exactly what a typed
   handler sees, in the same order *)
Definition is_init (c : tcb) : bool := match c with TInit _ => true | _ => false end.
Theorem unitary_log_events k l :
  filter (fun c => negb (is_init c)) (unitary_log k l) = filter (fun c => negb (is_init c)) (typed_log k l).
Proof.
  induction l as [|c l IH]; [reflexivity|].
  unfold unitary_log, typed_log in *. simpl. rewrite !filter_app, IH. f_equal.
  destruct c as [objs|ty o]; [|reflexivity]. simpl.
  destruct (typed_list k objs) as [|x [|y r]]; reflexivity.
Qed.

Theorem instantiate_preserves_skeleton ph ty template :
  ~ In ph template -> instantiate ph ty template = template.
Proof.
  induction template as [|t l IH]; simpl; intros H; [reflexivity|].
  destruct (N.eqb_spec t ph) as [->|Hne]; [exfalso; apply H; left; reflexivity|].
  simpl. f_equal. apply IH. intros Hin. apply H. right. exact Hin.
Qed.

Theorem instantiate_app ph ty a b : instantiate ph ty (a ++ b) = instantiate ph ty a ++ instantiate ph ty b.
Proof. unfold instantiate. apply flat_map_app. Qed.

Lemma toks_eqb_eq a b : toks_eqb a b = true -> a = b.
Proof.
  revert b. induction a as [|x a IH]; destruct b as [|y b]; simpl; try discriminate; [reflexivity|].
  rewrite andb_true_iff, N.eqb_eq. intros [-> H]. f_equal. apply IH, H.
Qed.
