(* TypedProps.v — theorems about Typed.v (C20). *)
From KC Require Import Base Typed.

(* the typed view is the untyped one restricted to the type, in order *)
Theorem typed_list_is_restriction k l :
  typed_list k l = filter (fun o => N.eqb (o_kind o) k) l.
Proof.
  induction l as [|o l IH]; simpl; [reflexivity|].
  unfold adapt. destruct (N.eqb (o_kind o) k); simpl; rewrite <- IH; reflexivity.
Qed.

Theorem typed_list_all_of_type k l : Forall (fun o => o_kind o = k) (typed_list k l).
Proof.
  rewrite typed_list_is_restriction. apply Forall_forall. intros o H.
  apply filter_In in H. destruct H as [_ H]. apply N.eqb_eq, H.
Qed.

Theorem typed_list_keeps_own_type k l : Forall (fun o => o_kind o = k) l -> typed_list k l = l.
Proof.
  induction 1 as [|o l Ho Hl IH]; simpl; [reflexivity|].
  unfold adapt. rewrite Ho, N.eqb_refl. simpl. rewrite IH. reflexivity.
Qed.

Theorem typed_events_is_restriction k evs :
  map ev_obj (typed_events k evs) = filter (fun o => N.eqb (o_kind o) k) (map ev_obj evs) /\
  map ev_ty (typed_events k evs) = map ev_ty (filter (fun ev => N.eqb (o_kind (ev_obj ev)) k) evs).
Proof.
  induction evs as [|ev evs [IH1 IH2]]; simpl; [split; reflexivity|].
  unfold adapt. destruct (N.eqb (o_kind (ev_obj ev)) k); simpl; rewrite ?IH1, ?IH2; split; reflexivity.
Qed.

Theorem typed_events_keeps_own_type k evs :
  Forall (fun ev => o_kind (ev_obj ev) = k) evs -> typed_events k evs = evs.
Proof.
  induction 1 as [|ev evs Ho Hl IH]; simpl; [reflexivity|].
  unfold adapt. rewrite Ho, N.eqb_refl. simpl. rewrite IH. destruct ev; reflexivity.
Qed.

(* objects of another type are skipped, never handed on: no callback, list
   entry or event carries an object of another type (hence none is nil) *)
Theorem typed_callback_skips_foreign k ty o : o_kind o <> k -> typed_callback k (TEvent ty o) = [].
Proof. intros H. simpl. unfold adapt. destruct (N.eqb_spec (o_kind o) k); [contradiction | reflexivity]. Qed.

Theorem typed_get_spec k r :
  typed_get k r = match r with
                  | None => TAbsent
                  | Some o => if N.eqb (o_kind o) k then TFound o else TInvalid
                  end.
Proof. destruct r as [o|]; simpl; [|reflexivity]. unfold adapt. destruct (N.eqb (o_kind o) k); reflexivity. Qed.

(* instantiation changes nothing but the placeholder *)
Theorem instantiate_preserves_skeleton ph ty template :
  ~ In ph template -> instantiate ph ty template = template.
Proof.
  induction template as [|t l IH]; simpl; intros H; [reflexivity|].
  destruct (N.eqb_spec t ph) as [->|Hne]; [exfalso; apply H; left; reflexivity|].
  simpl. f_equal. apply IH. intros Hin. apply H. right. exact Hin.
Qed.

Theorem instantiate_app ph ty a b : instantiate ph ty (a ++ b) = instantiate ph ty a ++ instantiate ph ty b.
Proof. unfold instantiate. apply flat_map_app. Qed.

Lemma toks_eqb_eq a b : toks_eqb a b = true -> a = b.
Proof.
  revert b. induction a as [|x a IH]; destruct b as [|y b]; simpl; try discriminate; [reflexivity|].
  rewrite andb_true_iff, N.eqb_eq. intros [-> H]. f_equal. apply IH, H.
Qed.
