(* ControllerProps.v — theorems about Controller.v (C03, C08, C14). *)
From KC Require Import Base Cache CacheSpec CacheProps Controller.

(* ------------------------------------------------------------------ *)
(* C14: list failures are fail-stop and reported; watch failures are never
   fatal; a deliberate close reports no failure                          *)

Theorem list_failure_stops_with_cause s r c :
  k_stopped s = None -> classify_list r = Fail c ->
  k_stopped (fst (kstep s (IList r))) = Some c /\
  k_ready (fst (kstep s (IList r))) = k_ready s /\
  snd (kstep s (IList r)) = [].
Proof. intros Hs Hc. unfold kstep. rewrite Hs, Hc. simpl. auto. Qed.

Theorem every_bad_list_is_a_failure r :
  (forall v items, r <> LROk v items) -> exists c, classify_list r = Fail c /\ c <> CNone.
Proof.
  intros H. destruct r; simpl; try (eexists; split; [reflexivity | discriminate]).
  exfalso. eapply H. reflexivity.
Qed.

Lemma stopped_absorbing s is c : k_stopped s = Some c -> krun s is = s.
Proof.
  revert s. induction is as [|i is IH]; intros s H; [reflexivity|].
  unfold krun in *. simpl. unfold kstep at 2. rewrite H. simpl. apply IH, H.
Qed.

Theorem stop_is_final s is c : k_stopped s = Some c -> k_stopped (krun s is) = Some c /\ k_cache (krun s is) = k_cache s.
Proof. intros H. rewrite (stopped_absorbing s is c H). auto. Qed.

Lemma krun_app s a b : krun s (a ++ b) = krun (krun s a) b.
Proof. unfold krun. apply fold_left_app. Qed.

Definition not_list (i : cinput) : Prop := match i with IList _ => False | _ => True end.

Lemma no_list_not_ready is : forall s, Forall not_list is -> k_ready s = false -> k_ready (krun s is) = false.
Proof.
  induction is as [|i is IH]; intros s Hall Hr; [exact Hr|].
  inversion Hall as [|? ? Hi Hall']; subst. unfold krun. simpl. apply IH; [exact Hall'|].
  unfold kstep. destruct (k_stopped s); [exact Hr|].
  destruct i; simpl in *; try contradiction; try exact Hr.
  destruct (k_watch_from s); [|exact Hr]. destruct (do_update _ _ _). exact Hr.
Qed.

(* a failed first list never makes the controller ready, whatever follows *)
Theorem failed_first_list_never_ready F pre r c post :
  Forall not_list pre -> classify_list r = Fail c ->
  k_ready (krun (kinit F) (pre ++ IList r :: post)) = false.
Proof.
  intros Hpre Hc. rewrite krun_app.
  assert (Hr : k_ready (krun (kinit F) pre) = false) by (apply no_list_not_ready; [exact Hpre | reflexivity]).
  set (s := krun (kinit F) pre) in *.
  change (IList r :: post) with ([IList r] ++ post). rewrite krun_app.
  destruct (k_stopped s) as [c0|] eqn:Hst.
  - rewrite (stopped_absorbing s [IList r] c0 Hst). rewrite (stopped_absorbing s post c0 Hst). exact Hr.
  - destruct (list_failure_stops_with_cause s r c Hst Hc) as [H1 [H2 _]].
    unfold krun at 2. simpl fold_left.
    rewrite (stopped_absorbing _ post c H1). rewrite H2. exact Hr.
Qed.

Theorem watch_failures_never_fatal s :
  kstep s IWatchFault = (s, []) /\
  forall ev, k_stopped (fst (kstep s (IWatch ev))) = k_stopped s.
Proof.
  split.
  - unfold kstep. destruct (k_stopped s); reflexivity.
  - intros ev. unfold kstep. destruct (k_stopped s) eqn:Hs; [exact Hs|].
    destruct (k_watch_from s); [|exact Hs]. destruct (do_update _ _ _). reflexivity.
Qed.

Definition benign (i : cinput) : Prop :=
  match i with
  | IList (LROk _ _) | IWatch _ | IWatchFault => True
  | _ => False
  end.

Lemma benign_keeps_running is : forall s, Forall benign is -> k_stopped s = None -> k_stopped (krun s is) = None.
Proof.
  induction is as [|i is IH]; intros s Hall Hs; [exact Hs|].
  inversion Hall as [|? ? Hi Hall']; subst. unfold krun. simpl. apply IH; [exact Hall'|].
  unfold kstep. rewrite Hs. destruct i as [r| | | |]; simpl in Hi; try contradiction.
  - destruct r; try contradiction. simpl. destruct (do_sync _ _ _). reflexivity.
  - destruct (k_watch_from s); [|exact Hs]. destruct (do_update _ _ _). reflexivity.
  - exact Hs.
Qed.

(* good lists, watch events and watch faults never stop the controller; a
   run whose only trigger is Close ends with no error *)
Theorem deliberate_close_reports_nil F pre post :
  Forall benign pre -> k_stopped (krun (kinit F) (pre ++ IClose :: post)) = Some CNone.
Proof.
  intros Hpre. rewrite krun_app.
  assert (Hs : k_stopped (krun (kinit F) pre) = None) by (apply benign_keeps_running; [exact Hpre | reflexivity]).
  set (s := krun (kinit F) pre) in *.
  change (IClose :: post) with ([IClose] ++ post). rewrite krun_app.
  assert (H1 : k_stopped (krun s [IClose]) = Some CNone).
  { unfold krun. simpl. unfold kstep. rewrite Hs. reflexivity. }
  rewrite (stopped_absorbing _ post CNone H1). exact H1.
Qed.

(* ------------------------------------------------------------------ *)
(* C08 (controller part): Ready means synced, nothing observable before *)

Lemma ready_synced_step s i : (k_ready s = true -> k_synced s = true) ->
  k_ready (fst (kstep s i)) = true -> k_synced (fst (kstep s i)) = true.
Proof.
  intros H. unfold kstep. destruct (k_stopped s); [exact H|].
  destruct i as [r|ev| | |]; simpl; try exact H.
  - destruct (classify_list r); simpl; [exact H|]. destruct (do_sync _ _ _). reflexivity.
  - destruct (k_watch_from s); [|exact H]. destruct (do_update _ _ _). exact H.
Qed.

Theorem ready_implies_synced F is :
  k_ready (krun (kinit F) is) = true -> k_synced (krun (kinit F) is) = true.
Proof.
  assert (H : forall s, (k_ready s = true -> k_synced s = true) ->
              k_ready (krun s is) = true -> k_synced (krun s is) = true).
  { induction is as [|i is IH]; intros s Hs; [exact Hs|].
    unfold krun. simpl. apply IH. apply ready_synced_step, Hs. }
  apply H. discriminate.
Qed.

(* synced means: the cache is exactly the result of applying a complete list *)
Theorem ready_step_applies_whole_list s v items :
  k_stopped s = None ->
  k_cache (fst (kstep s (IList (LROk v items)))) = fst (do_sync (k_filter s) (k_cache s) items) /\
  k_ready (fst (kstep s (IList (LROk v items)))) = true /\
  k_watch_from (fst (kstep s (IList (LROk v items)))) = Some v.
Proof. intros Hs. unfold kstep. rewrite Hs. simpl. destruct (do_sync _ _ _). auto. Qed.

Theorem no_event_before_ready s i :
  k_ready s = false -> k_watch_from s = None -> snd (kstep s i) = [].
Proof.
  intros Hr Hw. unfold kstep. destruct (k_stopped s); [reflexivity|].
  destruct i as [r|ev| | |]; simpl; try reflexivity.
  - destruct (classify_list r); simpl; [reflexivity|]. destruct (do_sync _ _ _). rewrite Hr. reflexivity.
  - rewrite Hw. reflexivity.
Qed.

Lemma not_ready_no_watch_from is : forall s,
  (k_ready s = false -> k_watch_from s = None) ->
  k_ready (krun s is) = false -> k_watch_from (krun s is) = None.
Proof.
  induction is as [|i is IH]; intros s Hs; [exact Hs|].
  unfold krun. simpl. apply IH.
  unfold kstep. destruct (k_stopped s); [exact Hs|].
  destruct i as [r|ev| | |]; simpl; try exact Hs.
  - destruct (classify_list r); simpl; [exact Hs|]. destruct (do_sync _ _ _). simpl. discriminate.
  - destruct (k_watch_from s) eqn:Hw; [|simpl; rewrite Hw; exact Hs]. destruct (do_update _ _ _). simpl.
    intros Hr. specialize (Hs Hr). discriminate.
Qed.

Theorem nothing_published_before_ready F is i :
  k_ready (krun (kinit F) is) = false -> snd (kstep (krun (kinit F) is) i) = [].
Proof.
  intros Hr. apply no_event_before_ready; [exact Hr|].
  apply not_ready_no_watch_from; [reflexivity | exact Hr].
Qed.

(* ------------------------------------------------------------------ *)
(* C03: convergence at every relist                                     *)

(* what a converged cache holds at key k *)
Definition accepted_view (F : obj -> bool) (l : slog) (k : key) : option entry :=
  match server_obj l k with
  | Some o => if F o then create_entry o else None
  | None => None
  end.

(* everything cached came from a non-delete entry of the server's log *)
Definition from_log (l : slog) (c : cache) : Prop :=
  forall k cu, clookup k c = Some cu ->
    exists ev, In ev l /\ ev_ty ev <> Delete /\ ev_obj ev = e_obj cu.

Lemma log_ok_from_gt v0 l : log_ok_from v0 l -> forall ev, In ev l -> (v0 < ev_ver ev)%Z.
Proof.
  revert v0. induction l as [|e l IH]; intros v0 H ev Hin; [destruct Hin|].
  simpl in H. destruct H as [_ [Hlt Hrest]]. destruct Hin as [<-|Hin]; [exact Hlt|].
  specialize (IH _ Hrest ev Hin). lia.
Qed.

Lemma log_ok_from_weaken v0 v1 l : (v1 <= v0)%Z -> log_ok_from v0 l -> log_ok_from v1 l.
Proof. destruct l as [|e l]; simpl; [auto|]. intros Hle [H1 [H2 H3]]. repeat split; auto. lia. Qed.

Lemma log_ok_from_wf v0 l : log_ok_from v0 l -> forall ev, In ev l -> atoi (o_rv (ev_obj ev)) <> None.
Proof.
  revert v0. induction l as [|e l IH]; intros v0 H ev Hin; [destruct Hin|].
  simpl in H. destruct H as [Hwf [_ Hrest]]. destruct Hin as [<-|Hin]; [exact Hwf | eapply IH; eassumption].
Qed.

(* the server's object for a key is carried by an entry that every other
   entry for the key precedes, hence has a smaller version than *)
Lemma server_at_spec k : forall l v0 acc o,
  log_ok_from v0 l -> server_at k l acc = Some o ->
  (acc = Some o /\ forall ev, In ev l -> key_of (ev_obj ev) <> k) \/
  (exists ev0, In ev0 l /\ ev_ty ev0 <> Delete /\ ev_obj ev0 = o /\ key_of o = k /\
               forall ev, In ev l -> key_of (ev_obj ev) = k -> ev = ev0 \/ (ev_ver ev < ev_ver ev0)%Z).
Proof.
  induction l as [|e l IH]; intros v0 acc o Hok Hs; simpl in Hs.
  - left. split; [exact Hs | intros ev []].
  - simpl in Hok. destruct Hok as [Hwf [Hlt Hrest]].
    destruct (keqb_spec (key_of (ev_obj e)) k) as [Hk|Hk].
    + destruct (IH _ _ _ Hrest Hs) as [[Hacc Hnone]|[ev0 [Hin [Hty [Hobj [Hko Hall]]]]]].
      * (* e itself is the carrier *)
        right. destruct (ev_ty e) eqn:Hte; try discriminate; injection Hacc as <-;
          (exists e; repeat split; [left; reflexivity | rewrite Hte; discriminate | exact Hk |
            intros ev [<-|Hin] Hkev; [left; reflexivity | exfalso; apply (Hnone ev Hin Hkev)]]).
      * right. exists ev0. repeat split; auto; [right; exact Hin|].
        intros ev [<-|Hin'] Hkev; [|apply Hall; assumption].
        right. apply (log_ok_from_gt _ _ Hrest ev0 Hin).
    + destruct (IH _ _ _ Hrest Hs) as [[Hacc Hnone]|[ev0 [Hin [Hty [Hobj [Hko Hall]]]]]].
      * left. split; [exact Hacc|]. intros ev [<-|Hin']; [exact Hk | apply Hnone, Hin'].
      * right. exists ev0. repeat split; auto; [right; exact Hin|].
        intros ev [<-|Hin'] Hkev; [contradiction | apply Hall; assumption].
Qed.

Lemma server_at_none k : forall l acc,
  server_at k l acc = None -> acc = None \/ exists ev, In ev l /\ key_of (ev_obj ev) = k.
Proof.
  induction l as [|e l IH]; intros acc Hs; simpl in Hs; [left; exact Hs|].
  destruct (keqb_spec (key_of (ev_obj e)) k) as [Hk|Hk].
  - right. exists e. split; [left; reflexivity | exact Hk].
  - destruct (IH _ Hs) as [H|[ev [Hin Hkev]]]; [left; exact H | right; exists ev; split; [right; exact Hin | exact Hkev]].
Qed.

Lemma create_entry_ver o e : create_entry o = Some e -> e_ver e = match atoi (o_rv o) with Some v => v | None => 0%Z end.
Proof. unfold create_entry. destruct (atoi (o_rv o)); [intros [= <-]; reflexivity | discriminate]. Qed.

(* C03: a list that is a snapshot of the server, applied to ANY cache whose
   content came from the server's log (through any watch behaviour), leaves
   exactly the server's accepted objects *)
Theorem relist_converges F l c listed :
  log_ok l -> wf_cache c -> from_log l c -> is_list_of l listed ->
  forall k, clookup k (fst (do_sync F c listed)) = accepted_view F l k.
Proof.
  intros Hok Hwf Hfl Hlist k. rewrite sync_refines_spec. unfold accepted_view.
  specialize (Hlist k). unfold server_obj in *.
  destruct (server_at k l None) as [o|] eqn:Hso.
  - (* present on the server *)
    destruct (server_at_spec k l 0%Z None o Hok Hso) as [[Habs _]|[ev0 [Hin0 [Hty0 [Hobj0 [Hko Hall]]]]]]; [discriminate|].
    assert (Hwf0 : atoi (o_rv o) <> None) by (rewrite <- Hobj0; eapply log_ok_from_wf; eassumption).
    unfold create_entry in Hlist |- *. destruct (atoi (o_rv o)) as [vo|] eqn:Hvo; [|contradiction].
    rewrite Hlist. set (e := {| e_ver := vo; e_obj := o |}).
    unfold sync_spec. simpl max_ver.
    destruct (clookup k c) as [cu|] eqn:Hcu.
    + destruct (Hfl k cu Hcu) as [ev [Hin [Hty Hobj]]].
      pose proof (wf_lookup_ok k cu c Hwf Hcu) as [Hkcu Hcecu]. simpl in Hkcu, Hcecu.
      assert (Hkev : key_of (ev_obj ev) = k) by (rewrite Hobj; exact Hkcu).
      assert (Hvcu : e_ver cu = ev_ver ev).
      { rewrite (create_entry_ver _ _ Hcecu). unfold ev_ver. rewrite Hobj. reflexivity. }
      assert (Hv0 : ev_ver ev0 = vo) by (unfold ev_ver; rewrite Hobj0, Hvo; reflexivity).
      destruct (Hall ev Hin Hkev) as [->|Hlt].
      * (* the cached entry is the listed one *)
        assert (Hsame : cu = e).
        { rewrite Hobj0 in Hobj. unfold create_entry in Hcecu. rewrite <- Hobj, Hvo in Hcecu. injection Hcecu as <-. reflexivity. }
        subst cu. simpl. rewrite Z.leb_refl. destruct (F o); reflexivity.
      * simpl. destruct (Z.leb_spec vo (e_ver cu)); [lia|].
        unfold newest_accepted. simpl. rewrite Z.eqb_refl. simpl. destruct (F o); reflexivity.
    + unfold newest_accepted. simpl. rewrite Z.eqb_refl. simpl. destruct (F o); reflexivity.
  - rewrite Hlist. reflexivity.
Qed.

(* the hypothesis from_log is an invariant of the controller under every
   watch behaviour that only delivers entries of the log *)
Lemma from_log_update F l c ev :
  from_log l c -> In ev l -> from_log l (fst (do_update F c ev)).
Proof.
  intros Hfl Hin k cu Hl. rewrite update_refines_spec in Hl.
  destruct (key_eqb (key_of (ev_obj ev)) k); [|apply (Hfl k cu Hl)].
  unfold update_spec in Hl. destruct (create_entry (ev_obj ev)) as [e|] eqn:Hce; [|apply (Hfl k cu Hl)].
  pose proof (create_entry_obj _ _ Hce) as Hobj.
  destruct (ev_ty ev) eqn:Hty; try discriminate;
    (destruct (clookup k c) as [c0|] eqn:Hc0;
     [destruct (Z.ltb (e_ver c0) (e_ver e));
      [destruct (F (ev_obj ev)); [injection Hl as <-; exists ev; rewrite Hty, Hobj; repeat split; [assumption | discriminate] | discriminate]
      | injection Hl as <-; apply (Hfl k c0 Hc0)]
     | destruct (F (ev_obj ev)); [injection Hl as <-; exists ev; rewrite Hty, Hobj; repeat split; [assumption | discriminate] | discriminate]]).
Qed.

Lemma in_entries_for k listed e : In e (entries_for k listed) -> In (e_obj e) listed.
Proof.
  unfold entries_for. intros H. apply in_flat_map in H. destruct H as [o [Hin He]].
  destruct (key_eqb (key_of o) k); [|destruct He].
  destruct (create_entry o) as [e'|] eqn:Hce; [|destruct He]. destruct He as [<-|[]].
  rewrite (create_entry_obj _ _ Hce). exact Hin.
Qed.

Lemma from_log_sync F l c listed :
  from_log l c ->
  (forall o, In o listed -> exists ev, In ev l /\ ev_ty ev <> Delete /\ ev_obj ev = o) ->
  from_log l (fst (do_sync F c listed)).
Proof.
  intros Hfl Hlist k cu Hl. rewrite sync_refines_spec in Hl. unfold sync_spec in Hl.
  destruct (max_ver (entries_for k listed)) as [vmax|]; [|discriminate].
  assert (Hna : newest_accepted F vmax (entries_for k listed) = Some cu ->
                exists ev, In ev l /\ ev_ty ev <> Delete /\ ev_obj ev = e_obj cu).
  { intros H. apply newest_accepted_some in H. destruct H as [Hin _]. apply Hlist, in_entries_for with (k := k), Hin. }
  destruct (clookup k c) as [c0|] eqn:Hc0.
  - destruct (Z.leb vmax (e_ver c0)).
    + destruct (F (e_obj c0)); [injection Hl as <-; apply (Hfl k c0 Hc0) | discriminate].
    + apply Hna, Hl.
  - apply Hna, Hl.
Qed.

Theorem from_log_invariant l is : forall s,
  Forall (watch_from_log l) is -> from_log l (k_cache s) -> from_log l (k_cache (krun s is)).
Proof.
  induction is as [|i is IH]; intros s Hall Hs; [exact Hs|].
  inversion Hall as [|? ? Hi Hall']; subst. unfold krun. simpl. apply IH; [exact Hall'|].
  unfold kstep. destruct (k_stopped s); [exact Hs|].
  destruct i as [r|ev| | |]; simpl; try exact Hs.
  - destruct r; simpl; try exact Hs.
    pose proof (from_log_sync (k_filter s) l (k_cache s) items Hs Hi) as H.
    destruct (do_sync _ _ _). exact H.
  - destruct (k_watch_from s); [|exact Hs].
    pose proof (from_log_update (k_filter s) l (k_cache s) ev Hs Hi) as H.
    destruct (do_update _ _ _). exact H.
Qed.

Lemma wf_krun is : forall s, wf_cache (k_cache s) -> wf_cache (k_cache (krun s is)).
Proof.
  induction is as [|i is IH]; intros s Hs; [exact Hs|].
  unfold krun. simpl. apply IH.
  unfold kstep. destruct (k_stopped s); [exact Hs|].
  destruct i as [r|ev| | |]; simpl; try exact Hs.
  - destruct (classify_list r); simpl; [exact Hs|].
    pose proof (wf_do_sync (k_filter s) (k_cache s) items Hs) as H. destruct (do_sync _ _ _). exact H.
  - destruct (k_watch_from s); [|exact Hs].
    pose proof (wf_do_update (k_filter s) (k_cache s) ev Hs) as H. destruct (do_update _ _ _). exact H.
Qed.

Lemma filter_krun is : forall s, k_filter (krun s is) = k_filter s.
Proof.
  induction is as [|i is IH]; intros s; [reflexivity|].
  unfold krun. simpl. etransitivity; [apply IH|].
  unfold kstep. destruct (k_stopped s); [reflexivity|].
  destruct i as [r|ev| | |]; simpl; try reflexivity.
  - destruct (classify_list r); simpl; [reflexivity|]. destruct (do_sync _ _ _). reflexivity.
  - destruct (k_watch_from s); [|reflexivity]. destruct (do_update _ _ _). reflexivity.
Qed.

(* C03: whatever happened before — any server history l, any controller
   filter, any watch behaviour that delivers (in any order, with any losses,
   duplicates and replays) only entries of l, any earlier lists — the next
   list that is a snapshot of the server leaves the cache equal to the
   server's accepted objects, even if the watch never delivered anything *)
Theorem quiescent_server_one_relist F l is v listed :
  log_ok l -> Forall (watch_from_log l) is -> is_list_of l listed ->
  k_stopped (krun (kinit F) is) = None ->
  forall k, clookup k (k_cache (fst (kstep (krun (kinit F) is) (IList (LROk v listed))))) = accepted_view F l k.
Proof.
  intros Hok Hall Hlist Hrun k.
  set (s := krun (kinit F) is) in *.
  destruct (ready_step_applies_whole_list s v listed Hrun) as [Hc _]. rewrite Hc.
  assert (HF : k_filter s = F) by (unfold s; rewrite filter_krun; reflexivity). rewrite HF.
  apply relist_converges; try assumption.
  - unfold s. apply wf_krun. apply wf_nil.
  - unfold s. apply from_log_invariant; [exact Hall|]. intros k0 cu H. discriminate.
Qed.

(* each completed list never regresses an object to an older version, and the
   events handed to subscribers account for the difference (C02 lifted) *)
Theorem relist_never_regresses s v items k c0 c1 :
  k_stopped s = None ->
  clookup k (k_cache s) = Some c0 ->
  clookup k (k_cache (fst (kstep s (IList (LROk v items))))) = Some c1 ->
  c1 = c0 \/ (e_ver c0 < e_ver c1)%Z.
Proof.
  intros Hs H0 H1. destruct (ready_step_applies_whole_list s v items Hs) as [Hc _]. rewrite Hc in H1.
  pose proof (no_version_regress {| c_filter := k_filter s; c_items := k_cache s |} (OSync items) k c0 c1) as H.
  simpl in H. destruct (do_sync (k_filter s) (k_cache s) items) as [c' evs] eqn:Hd. simpl in *. apply H; assumption.
Qed.

Theorem relist_events_account s v items :
  k_stopped s = None -> k_ready s = true -> wf_cache (k_cache s) ->
  replay (k_cache s) (snd (kstep s (IList (LROk v items)))) = Some (k_cache (fst (kstep s (IList (LROk v items))))).
Proof.
  intros Hs Hr Hwf. unfold kstep. rewrite Hs. simpl.
  pose proof (sync_events_replay (k_filter s) (k_cache s) items Hwf) as H.
  destruct (do_sync _ _ _) as [c' evs]. simpl in *. rewrite Hr. exact H.
Qed.

Theorem watch_restarts_at_list_version s v items :
  k_stopped s = None -> k_watch_from (fst (kstep s (IList (LROk v items)))) = Some v.
Proof. intros Hs. apply (ready_step_applies_whole_list s v items Hs). Qed.
