(* CacheEvents.v — the events of one doSync, key by key: for every key at most
   one event, and exactly the one that explains what happened to that key
   (C02 minimality per key; C07 "exactly one Delete / Create, nothing for
   objects that remain"). *)
From KC Require Import Base Cache CacheSpec CacheProps.

Definition on_key (k : key) (ev : event) : bool := key_eqb (key_of (ev_obj ev)) k.
Definition kevs (k : key) (evs : list event) : list event := List.filter (on_key k) evs.

Lemma kevs_app k a b : kevs k (a ++ b) = kevs k a ++ kevs k b.
Proof. unfold kevs. apply filter_app. Qed.

(* the event a per-key step emits *)
Definition kstep_ev (F : obj -> bool) (nv : option Z) (s : kst) (e : entry) : list event :=
  if superseded nv e then [] else
  match fst s with
  | None => if F (e_obj e) then [mk_event Create (e_obj e)] else []
  | Some c => if F (e_obj e) && Z.ltb (e_ver c) (e_ver e) then [mk_event Update (e_obj e)] else []
  end.

Fixpoint kfold_ev (F : obj -> bool) (nv : option Z) (s : kst) (es : list entry) : list event :=
  match es with
  | [] => []
  | e :: es' => kstep_ev F nv s e ++ kfold_ev F nv (kstep F nv s e) es'
  end.

Lemma step_events_other F L st o k :
  key_of o <> k -> kevs k (s_events (sync_step F L st o)) = kevs k (s_events st).
Proof.
  intros Hne. unfold sync_step. destruct (create_entry o) as [e|]; [|reflexivity].
  destruct (match newest_ver (key_of o) L with Some v => Z.ltb (e_ver e) v | None => false end); [reflexivity|].
  assert (Hk : on_key k (mk_event Create o) = false /\ on_key k (mk_event Update o) = false).
  { unfold on_key; simpl. split; apply keqb_neq; exact Hne. }
  destruct Hk as [Hc Hu].
  destruct (clookup (key_of o) (s_items st)) as [c|].
  - destruct (F o && Z.ltb (e_ver c) (e_ver e)).
    + cbn [s_events]. rewrite kevs_app. unfold kevs at 2. simpl. rewrite Hu. apply app_nil_r.
    + destruct (Z.leb (e_ver e) (e_ver c)); [|reflexivity]. destruct (F (e_obj c)); reflexivity.
  - destruct (F o); [|reflexivity].
    cbn [s_events]. rewrite kevs_app. unfold kevs at 2. simpl. rewrite Hc. apply app_nil_r.
Qed.

Lemma step_events_same F L st o e :
  create_entry o = Some e ->
  kevs (key_of o) (s_events (sync_step F L st o)) =
  kevs (key_of o) (s_events st) ++ kstep_ev F (newest_ver (key_of o) L) (proj (key_of o) st) e.
Proof.
  intros Hce. pose proof (create_entry_obj _ _ Hce) as Hobj.
  unfold sync_step, kstep_ev, superseded. rewrite Hce.
  destruct (match newest_ver (key_of o) L with Some v => Z.ltb (e_ver e) v | None => false end);
    [rewrite app_nil_r; reflexivity|].
  unfold proj. simpl fst. rewrite Hobj.
  assert (Hk : forall t, on_key (key_of o) (mk_event t o) = true) by (intros t; unfold on_key; simpl; apply keqb_refl).
  destruct (clookup (key_of o) (s_items st)) as [c|].
  - destruct (F o && Z.ltb (e_ver c) (e_ver e)).
    + cbn [s_events]. rewrite kevs_app. unfold kevs at 2. simpl. rewrite Hk. reflexivity.
    + rewrite app_nil_r. destruct (Z.leb (e_ver e) (e_ver c)); [|reflexivity]. destruct (F (e_obj c)); reflexivity.
  - destruct (F o); [|rewrite app_nil_r; reflexivity].
    cbn [s_events]. rewrite kevs_app. unfold kevs at 2. simpl. rewrite Hk. reflexivity.
Qed.

Lemma fold_events F L k l : forall st,
  kevs k (s_events (fold_left (sync_step F L) l st)) =
  kevs k (s_events st) ++ kfold_ev F (newest_ver k L) (proj k st) (entries_for k l).
Proof.
  induction l as [|o l IH]; intros st; [simpl; rewrite app_nil_r; reflexivity|].
  simpl fold_left. rewrite IH. unfold entries_for. simpl flat_map. fold (entries_for k l).
  destruct (keqb_spec (key_of o) k) as [<-|Hne].
  - destruct (create_entry o) as [e|] eqn:Hce.
    + simpl. rewrite (step_events_same F L st o e Hce), (proj_step_same F L st o e Hce), <- app_assoc. reflexivity.
    + simpl. unfold sync_step. rewrite Hce. reflexivity.
  - simpl. rewrite step_events_other by exact Hne. rewrite proj_step_other by exact Hne. reflexivity.
Qed.

(* the cached entry is at least as new as anything listed: no event *)
Lemma kfold_ev_caseA F vmax c es : forall inset,
  (vmax <= e_ver c)%Z -> Forall (fun e => (e_ver e <= vmax)%Z) es ->
  kfold_ev F (Some vmax) (Some c, inset) es = [].
Proof.
  induction es as [|e es IH]; intros inset Hle Hall; [reflexivity|].
  inversion Hall as [|? ? He Hes]; subst. simpl.
  assert (Hst : kstep_ev F (Some vmax) (Some c, inset) e = []).
  { unfold kstep_ev, superseded. simpl. destruct (Z.ltb (e_ver e) vmax); [reflexivity|].
    destruct (Z.ltb_spec (e_ver c) (e_ver e)); [lia|]. rewrite andb_false_r. reflexivity. }
  rewrite Hst. simpl.
  assert (Hk : exists b, kstep F (Some vmax) (Some c, inset) e = (Some c, b)).
  { unfold kstep, superseded. simpl. destruct (Z.ltb (e_ver e) vmax); [eexists; reflexivity|].
    destruct (Z.ltb_spec (e_ver c) (e_ver e)); [lia|]. rewrite andb_false_r.
    destruct (Z.leb (e_ver e) (e_ver c)); [|eexists; reflexivity].
    destruct (F (e_obj c)); eexists; reflexivity. }
  destruct Hk as [b ->]. apply IH; assumption.
Qed.

(* otherwise: exactly one event, for the first accepted entry at the newest
   version — a Create if nothing was cached, an Update if something older was *)
Lemma kfold_ev_caseB F vmax es : forall cur inset,
  (match cur with Some c => (e_ver c < vmax)%Z | None => True end) ->
  Forall (fun e => (e_ver e <= vmax)%Z) es ->
  kfold_ev F (Some vmax) (cur, inset) es =
  match newest_accepted F vmax es with
  | Some e => [mk_event (match cur with None => Create | Some _ => Update end) (e_obj e)]
  | None => []
  end.
Proof.
  induction es as [|e es IH]; intros cur inset Hcur Hall; [reflexivity|].
  inversion Hall as [|? ? He Hes]; subst. simpl kfold_ev.
  unfold newest_accepted. simpl find. fold (newest_accepted F vmax es).
  unfold kstep_ev, kstep, superseded. simpl fst.
  destruct (Z.ltb_spec (e_ver e) vmax) as [Hlt|Hge].
  - destruct (Z.eqb_spec (e_ver e) vmax); [lia|]. simpl. apply IH; assumption.
  - assert (Heq : e_ver e = vmax) by lia.
    destruct (Z.eqb_spec (e_ver e) vmax); [|contradiction]. simpl.
    destruct cur as [c|].
    + destruct (Z.ltb_spec (e_ver c) (e_ver e)); [|lia].
      destruct (F (e_obj e)) eqn:HF; simpl.
      * rewrite kfold_ev_caseA by (try lia; assumption). reflexivity.
      * destruct (Z.leb_spec (e_ver e) (e_ver c)); [lia|]. apply IH; assumption.
    + destruct (F (e_obj e)) eqn:HF; simpl.
      * rewrite kfold_ev_caseA by (try lia; assumption). reflexivity.
      * apply IH; assumption.
Qed.

(* the prune pass, key by key *)
Lemma prune_events_key k set items :
  wf_cache items ->
  kevs k (snd (prune set items)) =
  if mem_keyb k set then []
  else match clookup k items with
       | Some e => [mk_event Delete (e_obj e)]
       | None => []
       end.
Proof.
  induction items as [|[k' e'] items IH]; simpl; intros Hwf.
  - destruct (mem_keyb k set); reflexivity.
  - destruct Hwf as [Hnd Hall]. inversion Hnd as [|? ? Hnotin Hnd']; subst. inversion Hall as [|? ? Hx Hall']; subst.
    specialize (IH (conj Hnd' Hall')). destruct Hx as [Hk' _]. simpl in Hk'.
    destruct (prune set items) as [r evs]. simpl in *.
    destruct (keqb_spec k k') as [->|Hne].
    + assert (Hn : clookup k' items = None) by (apply clookup_None_notin; exact Hnotin).
      rewrite Hn in IH.
      destruct (mem_keyb k' set) eqn:Hm; simpl.
      * exact IH.
      * unfold on_key. simpl. rewrite Hk', keqb_refl. rewrite IH. reflexivity.
    + destruct (mem_keyb k' set) eqn:Hm'; simpl; [exact IH|].
      unfold on_key. simpl. rewrite Hk'.
      destruct (keqb_spec k' k); [congruence|]. exact IH.
Qed.

(* C02 / C07: the events of one doSync on a key are exactly the one event
   that explains what happened to that key — none if its entry stays *)
Theorem sync_events_per_key F c l k :
  wf_cache c ->
  kevs k (snd (do_sync F c l)) =
  match clookup k c, clookup k (fst (do_sync F c l)) with
  | None, None => []
  | None, Some e => [mk_event Create (e_obj e)]
  | Some c0, None => [mk_event Delete (e_obj c0)]
  | Some c0, Some e => if Z.ltb (e_ver c0) (e_ver e) then [mk_event Update (e_obj e)] else []
  end.
Proof.
  intros Hwf. rewrite sync_refines_spec. unfold do_sync.
  set (st0 := {| s_items := c; s_set := []; s_events := [] |}).
  set (st := fold_left (sync_step F l) l st0).
  assert (Hst : wf_cache (s_items st)) by (apply wf_sync_fold; exact Hwf).
  pose proof (prune_events_key k (s_set st) (s_items st) Hst) as Hpr.
  destruct (prune (s_set st) (s_items st)) as [r dels] eqn:Hp. simpl snd in *.
  rewrite kevs_app, Hpr.
  pose proof (fold_events F l k l st0) as Hev. fold st in Hev. simpl in Hev.
  pose proof (proj_fold F l k l st0) as Hproj. fold st in Hproj. unfold proj in Hproj. simpl in Hproj.
  change (mem_keyb k []) with false in Hproj.
  rewrite newest_ver_max in Hev, Hproj. rewrite Hev. clear Hev Hpr.
  unfold proj. simpl. change (mem_keyb k []) with false.
  unfold sync_spec.
  destruct (max_ver (entries_for k l)) as [vmax|] eqn:Hmax.
  - pose proof (max_ver_bound _ _ Hmax) as Hb.
    destruct (clookup k c) as [c0|] eqn:Hc0.
    + destruct (Z.leb_spec vmax (e_ver c0)) as [Hle|Hgt].
      * rewrite kfold_ev_caseA by assumption.
        rewrite fold_caseA in Hproj by assumption.
        rewrite (max_ver_attained _ _ Hmax), andb_true_r in Hproj. simpl in Hproj.
        injection Hproj as Hi Hs. rewrite Hi, Hs.
        destruct (F (e_obj c0)); simpl; [rewrite Z.ltb_irrefl; reflexivity | reflexivity].
      * rewrite kfold_ev_caseB by assumption.
        rewrite fold_caseB in Hproj by assumption.
        destruct (newest_accepted F vmax (entries_for k l)) as [e|] eqn:Hna; injection Hproj as Hi Hs; rewrite Hi, Hs; simpl.
        -- apply newest_accepted_some in Hna. destruct Hna as [_ [Hv _]].
           destruct (Z.ltb_spec (e_ver c0) (e_ver e)); [reflexivity | lia].
        -- reflexivity.
    + rewrite kfold_ev_caseB by (try exact I; assumption).
      rewrite fold_caseB in Hproj by (try exact I; assumption).
      destruct (newest_accepted F vmax (entries_for k l)) as [e|] eqn:Hna; injection Hproj as Hi Hs; rewrite Hi, Hs; reflexivity.
  - apply max_ver_none in Hmax. rewrite Hmax in *. simpl in *.
    injection Hproj as Hi Hs. rewrite Hi, Hs. simpl.
    destruct (clookup k c); reflexivity.
Qed.

(* hence: at most one event per key in one doSync *)
Corollary sync_at_most_one_event_per_key F c l k :
  wf_cache c -> length (kevs k (snd (do_sync F c l))) <= 1.
Proof.
  intros Hwf. rewrite sync_events_per_key by exact Hwf.
  destruct (clookup k c) as [c0|], (clookup k (fst (do_sync F c l))) as [e|]; simpl; try lia.
  destruct (Z.ltb (e_ver c0) (e_ver e)); simpl; lia.
Qed.
