(* Base.v — vocabulary shared by every model of boz/kcache.
   Definitions only (no proofs): the model must still extract and run when a
   proof elsewhere breaks. *)
From Coq Require Export List NArith ZArith Bool Lia.
Export ListNotations.

(* An interned string.  0 is the empty string "".  The correspondence harness
   interns the strings of a run so that the order on N is Go's string order. *)
Definition name := N.

(* A Go map[string]string as an association list.  Go maps have distinct
   keys; the harness emits maps sorted by key (canonical form). *)
Definition lmap := list (name * name).

Fixpoint lookup (k : name) (m : lmap) : option name :=
  match m with
  | [] => None
  | (k', v) :: m' => if N.eqb k k' then Some v else lookup k m'
  end.

Definition keys (m : lmap) : list name := map fst m.

(* metav1.LabelSelector *)
Inductive lsel_op := LIn | LNotIn | LExists | LDoesNotExist.
Record lsel_expr := { le_key : name; le_op : lsel_op; le_vals : list name }.
Record lsel := { ls_labels : lmap; ls_exprs : list lsel_expr }.

(* What the typed filters read of an object beyond its metadata. *)
Inductive spec :=
| SNone
| SPod (node : name)
| SService (sel : lmap)
| SRC (sel : lmap) (tmpl : lmap)
| SWorkload (sel : option lsel) (tmpl : lmap)
| SEvent (ikind ins inm : name)
| SIngress (backend : name) (paths : list name).

(* Go dynamic type of an object (the typed packages type-assert on it). *)
Definition kind := N.
Definition KPod : kind := 0%N.
Definition KService : kind := 1%N.
Definition KRC : kind := 2%N.
Definition KRS : kind := 3%N.
Definition KDeployment : kind := 4%N.
Definition KDaemonSet : kind := 5%N.
Definition KStatefulSet : kind := 6%N.
Definition KJob : kind := 7%N.
Definition KEvent : kind := 8%N.
Definition KIngress : kind := 9%N.
Definition KNode : kind := 10%N.
Definition KSecret : kind := 11%N.

(* o_id is a ghost identity used only to compare model and implementation
   outputs; no model function inspects it.  o_rv is the resourceVersion
   string as a list of bytes. *)
Record obj := {
  o_id : N;
  o_kind : kind;
  o_ns : name;
  o_nm : name;
  o_rv : list N;
  o_labels : lmap;
  o_spec : spec
}.

Definition key := (name * name)%type.
Definition key_of (o : obj) : key := (o_ns o, o_nm o).
Definition key_eqb (a b : key) : bool := N.eqb (fst a) (fst b) && N.eqb (snd a) (snd b).

(* ------------------------------------------------------------------ *)
(* strconv.Atoi on the bytes of a resource version: optional sign, at
   least one decimal digit, nothing else, value within int64 (int on the
   64-bit platforms the library is built for). *)

Definition is_digit (b : N) : bool := (N.leb 48%N b && N.leb b 57%N)%bool.

Fixpoint digits_val (acc : Z) (l : list N) : option Z :=
  match l with
  | [] => Some acc
  | b :: l' => if is_digit b
               then digits_val (acc * 10 + Z.of_N (b - 48%N)) l'
               else None
  end.

Definition int64_max : Z := 9223372036854775807.
Definition int64_min : Z := -9223372036854775808.

Definition atoi (s : list N) : option Z :=
  let body (neg : bool) (l : list N) :=
    match l with
    | [] => None
    | _ => match digits_val 0 l with
           | None => None
           | Some v => let v' := if neg then (- v)%Z else v in
                       if (Z.leb int64_min v' && Z.leb v' int64_max)%bool
                       then Some v' else None
           end
    end in
  match s with
  | [] => None
  | 43%N :: l => body false l          (* '+' *)
  | 45%N :: l => body true l           (* '-' *)
  | _ => body false s
  end.

(* A Go panic made explicit. *)
Inductive outcome (A : Type) := Ok (a : A) | Panic.
Arguments Ok {A} a.
Arguments Panic {A}.

Inductive etype := Create | Update | Delete.
Record event := { ev_ty : etype; ev_obj : obj }.

Definition etype_eqb (a b : etype) : bool :=
  match a, b with
  | Create, Create | Update, Update | Delete, Delete => true
  | _, _ => false
  end.
