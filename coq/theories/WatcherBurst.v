(* WatcherBurst.v — closed form of the deterministic overflow history
   (Watcher.busy_burst_outcome): with the controller busy, the watcher's output
   channel keeps the first cap entries that arrive and loses the rest. *)
From KC Require Import Base Cache Watcher WatcherProps.

Definition burst_state (cap j : nat) : wst :=
  {| w_n := S j; w_conn := true; w_has := true; w_pos := S j; w_sbuf := [];
     w_obuf := wseq 1 (Nat.min j cap); w_applied := [1]; w_cur := S j; w_base := 0;
     w_cap := cap; w_lost := j - cap |}.

Lemma wrun_lenient_app s l1 l2 : wrun_lenient s (l1 ++ l2) = wrun_lenient (wrun_lenient s l1) l2.
Proof.
  revert s. induction l1 as [|a l1 IH]; intros s; simpl; [reflexivity|].
  destruct (wstep s a); apply IH.
Qed.

Lemma burst_prefix cap : 1 <= cap ->
  wrun_lenient (winit cap) [WEmit; WDeliver; WTake; WApply] = burst_state cap 0.
Proof.
  intros Hc. destruct cap as [|c]; [lia|]. reflexivity.
Qed.

Lemma burst_iter cap j : 1 <= cap ->
  wrun_lenient (burst_state cap j) [WEmit; WDeliver; WTake] = burst_state cap (S j).
Proof.
  intros Hc. unfold burst_state.
  cbn [wrun_lenient wstep w_n w_conn w_has w_pos w_sbuf w_obuf w_applied w_cur w_base w_cap w_lost andb].
  assert (H1 : Nat.ltb (S j) (S (S j)) = true) by (apply Nat.ltb_lt; lia). rewrite H1.
  assert (H2 : Nat.ltb (@length nat []) cap = true) by (apply Nat.ltb_lt; simpl; lia). rewrite H2.
  cbn [wrun_lenient wstep w_n w_conn w_has w_pos w_sbuf w_obuf w_applied w_cur w_base w_cap w_lost app].
  rewrite wseq_length.
  destruct (Nat.ltb_spec (Nat.min j cap) cap) as [Hlt|Hge].
  - assert (Hj : j < cap) by lia.
    cbn [wrun_lenient]. f_equal.
    + rewrite Nat.min_l by lia. rewrite (Nat.min_l (S j) cap) by lia.
      rewrite <- wseq_snoc. reflexivity.
    + lia.
  - assert (Hj : cap <= j) by lia.
    cbn [wrun_lenient]. f_equal.
    + rewrite Nat.min_r by lia. rewrite (Nat.min_r (S j) cap) by lia. reflexivity.
    + lia.
Qed.

Lemma burst_iters cap k : 1 <= cap -> forall j,
  wrun_lenient (burst_state cap j) (wrepeat k [WEmit; WDeliver; WTake]) = burst_state cap (k + j).
Proof.
  intros Hc. induction k as [|k IH]; intros j; [reflexivity|].
  cbn [wrepeat]. rewrite wrun_lenient_app, burst_iter by exact Hc. rewrite IH. f_equal. lia.
Qed.

(* draining: m applies move up to m buffered entries, in order, to applied *)
Lemma drain_all : forall m s, length (w_obuf s) <= m ->
  w_applied (wrun_lenient s (wrepeat m [WApply])) = w_applied s ++ w_obuf s /\
  w_obuf (wrun_lenient s (wrepeat m [WApply])) = [] /\
  w_lost (wrun_lenient s (wrepeat m [WApply])) = w_lost s.
Proof.
  induction m as [|m IH]; intros s Hl.
  - destruct (w_obuf s) eqn:Ho; [|simpl in Hl; lia]. simpl. rewrite Ho, app_nil_r. repeat split; assumption.
  - cbn [wrepeat app wrun_lenient].
    destruct (w_obuf s) as [|i rest] eqn:Ho.
    + assert (Hs : wstep s WApply = None) by (simpl; rewrite Ho; reflexivity). rewrite Hs.
      specialize (IH s). rewrite Ho in IH. apply IH. simpl. lia.
    + assert (Hs : wstep s WApply =
                   Some {| w_n := w_n s; w_conn := w_conn s; w_has := w_has s; w_pos := w_pos s;
                           w_sbuf := w_sbuf s; w_obuf := rest; w_applied := w_applied s ++ [i]; w_cur := w_cur s;
                           w_base := w_base s; w_cap := w_cap s; w_lost := w_lost s |})
        by (simpl; rewrite Ho; reflexivity).
      rewrite Hs. simpl in Hl.
      match goal with |- context [wrun_lenient ?st _] => specialize (IH st) end.
      cbn [w_obuf w_applied w_lost] in IH. destruct IH as [A [B C]]; [lia|].
      repeat split; [|exact B|exact C]. rewrite A, <- app_assoc. reflexivity.
Qed.

(* C04: with the controller busy, exactly the first cap entries that arrive
   after the one it holds survive; the other k - cap are lost *)
Theorem busy_burst_closed_form : forall cap k, 1 <= cap ->
  busy_burst_outcome cap k = (wseq 0 (1 + Nat.min k cap), k - cap).
Proof.
  intros cap k Hc. unfold busy_burst_outcome, busy_burst.
  rewrite wrun_lenient_app, burst_prefix by exact Hc.
  rewrite wrun_lenient_app, burst_iters by exact Hc. rewrite Nat.add_0_r.
  pose proof (drain_all cap (burst_state cap k)) as H.
  destruct H as [A [_ C]].
  - unfold burst_state; cbn [w_obuf]. rewrite wseq_length. lia.
  - rewrite A, C. unfold burst_state; cbn [w_applied w_obuf w_lost]. reflexivity.
Qed.
