(* JoinProps.v — theorems about Join.v (C09), composing C06, C08, C17, C19. *)
From KC Require Import Base Filter FilterProps FilterSem Cache CacheSpec CacheProps FilterSub FilterSubProps Join.

(* after the callback that follows the last source change, the join's cache
   is its selection filter applied to the destination's cache *)
Theorem join_update_in_step ffn s src dst :
  fs_inv s -> fs_pwait s = false ->
  wf_cache dst -> wf_filter (fs_filter s) -> wf_filter (ffn src) ->
  (fs_ready s = true -> in_step (accept (fs_filter s)) dst (fs_cache s)) ->
  let s' := fst (join_update ffn s src (do_list dst)) in
  fs_ready s' = true /\ in_step (accept (ffn src)) dst (fs_cache s').
Proof.
  intros [Hcf [Hnr [Hr [Him [Hdf Hwf]]]]] Hpw Hwd Hwf1 Hwf2 Hstep. unfold join_update.
  destruct s as [df pw pe rd fl cfl ca cl]. simpl in *. subst cfl pw.
  destruct (comparable fl && feq fl (ffn src)) eqn:Heq; simpl.
  - (* the filter did not change *)
    assert (Hext : forall o, accept fl o = accept (ffn src) o).
    { apply andb_true_iff in Heq. destruct Heq as [_ Heq]. apply feq_sound; assumption. }
    destruct rd; simpl.
    + split; [reflexivity|]. intros k. rewrite (Hstep eq_refl k). unfold fview.
      destruct (clookup k dst) as [e|]; [rewrite Hext|]; reflexivity.
    + (* ready without a sync: only while the filter is still All() *)
      split; [reflexivity|]. destruct (Hnr eq_refl) as [-> _].
      destruct (Him eq_refl eq_refl) as [-> ->]. rewrite (Hdf eq_refl eq_refl eq_refl) in Hext.
      intros k. simpl. unfold fview. destruct (clookup k dst) as [e|]; [|reflexivity].
      rewrite <- Hext. reflexivity.
  - (* a new filter: sync from the destination's current content *)
    assert (Hold : forall k cu e, clookup k ca = Some cu -> clookup k dst = Some e -> (e_ver cu < e_ver e)%Z \/ cu = e).
    { intros k cu e Hc Hd. destruct rd.
      - right. specialize (Hstep eq_refl k). rewrite Hc, Hd in Hstep. unfold fview in Hstep.
        destruct (accept fl (e_obj e)); congruence.
      - destruct (Hnr eq_refl) as [-> _]. discriminate. }
    pose proof (sync_establishes_in_step (accept (ffn src)) dst ca Hwd Hold) as Hs.
    destruct (do_sync (accept (ffn src)) ca (do_list dst)) as [c' evs] eqn:Hd. simpl in Hs.
    destruct rd; simpl; split; auto.
Qed.

(* with C19's specifications: the join holds exactly the destination objects
   owned by some current source object *)
Theorem service_pods_join_exact srcs dst cache :
  Forall (fun w => is_service w /\ o_ns w <> 0%N) srcs ->
  in_step (accept (service_pods_filter srcs)) dst cache ->
  forall k, clookup k cache =
            match clookup k dst with
            | Some e => if accept (service_pods_filter srcs) (e_obj e) then Some e else None
            | None => None
            end /\
            (forall e, clookup k cache = Some e -> exists w, In w srcs /\ owns w (e_obj e)).
Proof.
  intros Hs Hin k. split; [apply Hin|].
  intros e He. rewrite (Hin k) in He. unfold fview in He.
  destruct (clookup k dst) as [e0|]; [|discriminate].
  destruct (accept (service_pods_filter srcs) (e_obj e0)) eqn:Ha; [|discriminate].
  injection He as <-. apply service_pods_filter_spec; assumption.
Qed.

Theorem workload_pods_join_exact srcs dst cache :
  Forall (fun w => is_workload w /\ o_ns w <> 0%N) srcs ->
  in_step (accept (workload_pods_filter srcs)) dst cache ->
  forall k e, clookup k cache = Some e <->
              (clookup k dst = Some e /\ exists w, In w srcs /\ owns w (e_obj e)).
Proof.
  intros Hs Hin k e. rewrite (Hin k). unfold fview. split.
  - destruct (clookup k dst) as [e0|]; [|discriminate].
    destruct (accept (workload_pods_filter srcs) (e_obj e0)) eqn:Ha; [|discriminate].
    intros [= <-]. split; [reflexivity | apply workload_pods_filter_spec; assumption].
  - intros [Hd Hw]. rewrite Hd. apply (workload_pods_filter_spec srcs (e_obj e) Hs) in Hw. rewrite Hw. reflexivity.
Qed.

(* the join becomes ready only after the destination is ready and a filter
   has been supplied, i.e. after the source monitor's first callback *)
Theorem join_ready_after_both is :
  fs_ready (fst (fs_run fs_init_deferred is)) = true ->
  existsb is_pr is = true /\ existsb is_rf is = true.
Proof. exact (deferred_ready_needs_parent_and_filter is). Qed.

(* the double join is the composition of the two selections *)
Theorem double_join_exact ings svcs pods p :
  In p (double_join_view ings svcs pods) <->
  In p pods /\ accept (service_pods_filter (List.filter (accept (ingress_services_filter ings)) svcs)) p = true.
Proof. unfold double_join_view, join_view. rewrite filter_In. reflexivity. Qed.

(* its events are a well-formed delta of its cache (C02 on the clone's cache) *)
Theorem join_events_wellformed F c l :
  wf_cache c -> replay c (snd (do_sync F c l)) = Some (fst (do_sync F c l)).
Proof. exact (sync_events_replay F c l). Qed.
