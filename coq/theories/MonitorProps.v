(* MonitorProps.v — theorems about Monitor.v (C16). *)
From KC Require Import Base Monitor.

(* the events the running loop receives before it stops *)
Fixpoint received (p : mphase) (is : list minput) : list (etype * N) :=
  match is with
  | [] => []
  | i :: is' => match p, i with
                | MRunning, MEvent ty id => (ty, id) :: received (fst (mstep p i)) is'
                | _, _ => received (fst (mstep p i)) is'
                end
  end.

Lemma stopped_silent is : mrun MStopped is = [].
Proof. induction is as [|i is IH]; simpl; [reflexivity|]. destruct i; exact IH. Qed.

Lemma received_stopped is : received MStopped is = [].
Proof. induction is as [|i is IH]; simpl; [reflexivity|]. destruct i; exact IH. Qed.

Lemma running_log is :
  mrun MRunning is = map (fun e => CbEvent (fst e) (snd e)) (received MRunning is).
Proof.
  induction is as [|i is IH]; simpl; [reflexivity|].
  destruct i; simpl; try exact IH.
  - rewrite stopped_silent, received_stopped. reflexivity.
  - f_equal. exact IH.
  - rewrite stopped_silent, received_stopped. reflexivity.
Qed.

(* C16: the callback log of every run is empty, or OnInitialize with the
   content read at readiness followed by exactly one callback per event
   received, in order, matching type and object *)
Theorem monitor_log_shape is :
  mrun MWaitReady is = [] \/
  exists content pre post,
    is = pre ++ MReady content :: post /\
    Forall (fun i => i <> MDone /\ forall c, i <> MReady c) pre /\
    mrun MWaitReady is = CbInit content :: map (fun e => CbEvent (fst e) (snd e)) (received MRunning post).
Proof.
  induction is as [|i is IH]; simpl; [left; reflexivity|].
  destruct i; simpl.
  - right. exists content, [], is. repeat split; [constructor|]. rewrite running_log. reflexivity.
  - left. apply stopped_silent.
  - left. apply stopped_silent.
  - destruct IH as [H|[content [pre [post [Heq [Hpre Hlog]]]]]]; [left; exact H|].
    right. exists content, (MEvent ty id :: pre), post. subst is. repeat split; [|exact Hlog].
    constructor; [split; [discriminate | intros c; discriminate] | exact Hpre].
  - destruct IH as [H|[content [pre [post [Heq [Hpre Hlog]]]]]]; [left; exact H|].
    right. exists content, (MClosed :: pre), post. subst is. repeat split; [|exact Hlog].
    constructor; [split; [discriminate | intros c; discriminate] | exact Hpre].
Qed.

(* OnInitialize at most once, and first *)
Theorem init_once_first is : forall c rest, mrun MWaitReady is = c :: rest ->
  is_init c = true /\ existsb is_init rest = false.
Proof.
  intros c rest H. destruct (monitor_log_shape is) as [H0|[content [pre [post [_ [_ Hlog]]]]]].
  - rewrite H0 in H. discriminate.
  - rewrite Hlog in H. injection H as <- <-. split; [reflexivity|].
    clear Hlog. induction (received MRunning post) as [|e l IH]; simpl; [reflexivity | exact IH].
Qed.

(* no callback after Done: whatever follows MDone produces nothing *)
Lemma mrun_app p a b : mrun p (a ++ b) = mrun p a ++ mrun (fold_left (fun p i => fst (mstep p i)) a p) b.
Proof.
  revert p. induction a as [|i a IH]; intros p; simpl; [reflexivity|].
  destruct (mstep p i) as [p' out] eqn:Hs. simpl. rewrite IH, app_assoc. reflexivity.
Qed.

Theorem no_callback_after_done p pre post :
  mrun p (pre ++ MDone :: post) = mrun p pre.
Proof.
  rewrite mrun_app. simpl.
  set (q := fold_left (fun p i => fst (mstep p i)) pre p).
  destruct q; simpl; rewrite stopped_silent; rewrite ?app_nil_r; reflexivity.
Qed.

(* if the publisher shuts down before becoming ready no callback runs at all *)
Theorem never_ready_no_callbacks pre post :
  Forall (fun i => forall c, i <> MReady c) pre -> mrun MWaitReady (pre ++ MDone :: post) = [].
Proof.
  intros H. rewrite no_callback_after_done.
  induction pre as [|i pre IH]; simpl; [reflexivity|].
  inversion H as [|? ? Hi Hrest]; subst.
  destruct i; simpl.
  - exfalso. eapply Hi. reflexivity.
  - apply stopped_silent.
  - apply stopped_silent.
  - apply IH, Hrest.
  - apply IH, Hrest.
Qed.

(* the checker accepts the log of every run of the model *)
Lemma is_prefix_refl l : is_prefix l l = true \/ existsb is_init l = true.
Proof.
  induction l as [|c l IH]; simpl; [left; reflexivity|].
  destruct c; simpl; [right; reflexivity|].
  destruct IH as [IH|IH]; [left | right; exact IH].
  destruct ty; simpl; rewrite N.eqb_refl; exact IH.
Qed.

Fixpoint after_ready (l : list minput) : list minput :=
  match l with
  | [] => []
  | MReady _ :: post => post
  | MReadyFail :: _ => []
  | MDone :: _ => []
  | _ :: l' => after_ready l'
  end.

(* the events the monitor's loop received *)
Definition received_by_monitor (is : list minput) : list (etype * N) := received MRunning (after_ready is).

Theorem model_logs_ok is :
  monitor_log_ok (received_by_monitor is) (mrun MWaitReady is) false = true.
Proof.
  unfold received_by_monitor.
  induction is as [|i is IH]; simpl; [reflexivity|].
  destruct i; simpl; try exact IH.
  - rewrite running_log.
    assert (Hni : existsb is_init (map (fun e : etype * N => CbEvent (fst e) (snd e)) (received MRunning is)) = false).
    { induction (received MRunning is); simpl; auto. }
    rewrite Hni. simpl.
    destruct (is_prefix_refl (map (fun e : etype * N => CbEvent (fst e) (snd e)) (received MRunning is))) as [H|H];
      [rewrite H; reflexivity | rewrite Hni in H; discriminate].
  - rewrite stopped_silent. reflexivity.
  - rewrite stopped_silent. reflexivity.
Qed.

(* a failed listing at readiness (the cache has stopped): no callback at all,
   whatever else arrives *)
Theorem failed_listing_no_callbacks pre post :
  Forall (fun i => forall c, i <> MReady c) pre -> mrun MWaitReady (pre ++ MReadyFail :: post) = [].
Proof.
  intros H. induction pre as [|i pre IH]; simpl.
  - apply stopped_silent.
  - inversion H as [|? ? Hi Hrest]; subst. destruct i; simpl.
    + exfalso. eapply Hi. reflexivity.
    + apply stopped_silent.
    + apply stopped_silent.
    + apply IH, Hrest.
    + apply IH, Hrest.
Qed.

(* handlers with any subset of the callbacks: what the user's functions see is
   the full callback log restricted to the callbacks that exist — OnInitialize
   (if present) still first and once, the others in event order *)
Theorem masked_log_is_restriction m is :
  mrun_masked m is = List.filter (has_cb m) (mrun MWaitReady is).
Proof. reflexivity. Qed.

Theorem masked_init_first m is c rest : mrun_masked m is = c :: rest ->
  existsb is_init rest = false.
Proof.
  unfold mrun_masked. intros H.
  destruct (mrun MWaitReady is) as [|c0 l] eqn:Hl; [discriminate|].
  destruct (init_once_first is c0 l Hl) as [Hc0 Hrest].
  assert (Hf : forall l', existsb is_init l' = false -> existsb is_init (List.filter (has_cb m) l') = false).
  { induction l' as [|x l' IHl]; simpl; [reflexivity|]. intros Hx. apply orb_false_iff in Hx. destruct Hx as [Hx1 Hx2].
    destruct (has_cb m x); simpl; [rewrite Hx1; simpl|]; apply IHl, Hx2. }
  simpl in H. destruct (has_cb m c0).
  - injection H as <- <-. apply Hf, Hrest.
  - specialize (Hf l Hrest). rewrite H in Hf. simpl in Hf. apply orb_false_iff in Hf. tauto.
Qed.
