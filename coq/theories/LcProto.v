(* LcProto.v — the go-lifecycle protocol around one component's run loop:
   Shutdown() callers, the WatchContext and WatchChannel helper goroutines
   and the run loop's own decision to stop all compete for the single
   rendezvous on stopch; ShutdownInitiated closes stoppingch (a second call
   would panic: close of closed channel), ShutdownCompleted closes stoppedch.
   Finite control: checked by the closed-set technique of Lts.v. *)
From KC Require Import Lts.
From Coq Require Import List Bool Arith Lia.
Import ListNotations.

Inductive rq := QIdle | QWaiting | QWaitDone | QGone.      (* a requester *)
Inductive lp := PLoop | PDraining | PExited.                (* the run loop *)

Record pst := {
  p_loop : lp;
  p_initiated : nat;         (* calls of ShutdownInitiated: 2 = panic *)
  p_stopped : bool;          (* stoppedch closed *)
  p_caller : rq;             (* a Shutdown() caller (blocks until done) *)
  p_ctx : rq;                (* go lc.WatchContext(ctx) *)
  p_chan : rq                (* go lc.WatchChannel(parent.ShuttingDown()) *)
}.

Inductive pact :=
| TCaller | TCtx | TChan          (* the trigger happens: Close() called / ctx cancelled / parent stopping *)
| SCaller | SCtx | SChan          (* the run loop receives that requester's value from ShutdownRequest() *)
| UCaller | UCtx | UChan          (* the requester sees stoppingch closed instead *)
| Internal                        (* the run loop stops by itself (input closed, fatal error) *)
| Complete                        (* deferred ShutdownCompleted *)
| DCaller.                        (* the Shutdown() caller sees stoppedch closed *)

Definition pacts : list pact :=
  [TCaller; TCtx; TChan; SCaller; SCtx; SChan; UCaller; UCtx; UChan; Internal; Complete; DCaller].

Definition pinit : pst :=
  {| p_loop := PLoop; p_initiated := 0; p_stopped := false; p_caller := QIdle; p_ctx := QIdle; p_chan := QIdle |}.

Definition rq_eqb (a b : rq) : bool :=
  match a, b with QIdle, QIdle | QWaiting, QWaiting | QWaitDone, QWaitDone | QGone, QGone => true | _, _ => false end.
Definition lp_eqb (a b : lp) : bool :=
  match a, b with PLoop, PLoop | PDraining, PDraining | PExited, PExited => true | _, _ => false end.
Definition pst_eqb (a b : pst) : bool :=
  lp_eqb (p_loop a) (p_loop b) && Nat.eqb (p_initiated a) (p_initiated b) && Bool.eqb (p_stopped a) (p_stopped b) &&
  rq_eqb (p_caller a) (p_caller b) && rq_eqb (p_ctx a) (p_ctx b) && rq_eqb (p_chan a) (p_chan b).

Definition stopping (s : pst) : bool := negb (Nat.eqb (p_initiated s) 0).

Definition initiate (s : pst) (caller ctx chn : rq) : pst :=
  {| p_loop := PDraining; p_initiated := S (p_initiated s); p_stopped := p_stopped s;
     p_caller := caller; p_ctx := ctx; p_chan := chn |}.

Definition pstep (s : pst) (a : pact) : option pst :=
  match a with
  | TCaller => match p_caller s with
               | QIdle => Some {| p_loop := p_loop s; p_initiated := p_initiated s; p_stopped := p_stopped s;
                                  p_caller := if p_stopped s then QGone else QWaiting; p_ctx := p_ctx s; p_chan := p_chan s |}
               | _ => None end
  | TCtx => match p_ctx s with
            | QIdle => Some {| p_loop := p_loop s; p_initiated := p_initiated s; p_stopped := p_stopped s;
                               p_caller := p_caller s; p_ctx := QWaiting; p_chan := p_chan s |}
            | _ => None end
  | TChan => match p_chan s with
             | QIdle => Some {| p_loop := p_loop s; p_initiated := p_initiated s; p_stopped := p_stopped s;
                                p_caller := p_caller s; p_ctx := p_ctx s; p_chan := QWaiting |}
             | _ => None end
  (* the run loop's select receives from stopch only while it is in its loop *)
  | SCaller => match p_loop s, p_caller s with
               | PLoop, QWaiting => Some (initiate s QWaitDone (p_ctx s) (p_chan s))
               | _, _ => None end
  | SCtx => match p_loop s, p_ctx s with
            | PLoop, QWaiting => Some (initiate s (p_caller s) QGone (p_chan s))
            | _, _ => None end
  | SChan => match p_loop s, p_chan s with
             | PLoop, QWaiting => Some (initiate s (p_caller s) (p_ctx s) QGone)
             | _, _ => None end
  (* case <-l.stoppingch *)
  | UCaller => match p_caller s with
               | QWaiting => if stopping s then Some {| p_loop := p_loop s; p_initiated := p_initiated s; p_stopped := p_stopped s;
                                                        p_caller := QWaitDone; p_ctx := p_ctx s; p_chan := p_chan s |} else None
               | _ => None end
  | UCtx => match p_ctx s with
            | QWaiting | QIdle => if stopping s then Some {| p_loop := p_loop s; p_initiated := p_initiated s; p_stopped := p_stopped s;
                                                     p_caller := p_caller s; p_ctx := QGone; p_chan := p_chan s |} else None
            | _ => None end
  | UChan => match p_chan s with
             | QWaiting | QIdle => if stopping s then Some {| p_loop := p_loop s; p_initiated := p_initiated s; p_stopped := p_stopped s;
                                                      p_caller := p_caller s; p_ctx := p_ctx s; p_chan := QGone |} else None
             | _ => None end
  | Internal => match p_loop s with
                | PLoop => Some (initiate s (p_caller s) (p_ctx s) (p_chan s))
                | _ => None end
  | Complete => match p_loop s with
                | PDraining => Some {| p_loop := PExited; p_initiated := p_initiated s; p_stopped := true;
                                       p_caller := p_caller s; p_ctx := p_ctx s; p_chan := p_chan s |}
                | _ => None end
  | DCaller => match p_caller s with
               | QWaitDone => if p_stopped s then Some {| p_loop := p_loop s; p_initiated := p_initiated s; p_stopped := true;
                                                          p_caller := QGone; p_ctx := p_ctx s; p_chan := p_chan s |} else None
               | _ => None end
  end.

Lemma rq_eqb_eq a b : rq_eqb a b = true -> a = b.
Proof. destruct a, b; simpl; congruence. Qed.
Lemma lp_eqb_eq a b : lp_eqb a b = true -> a = b.
Proof. destruct a, b; simpl; congruence. Qed.
Lemma pst_eqb_eq a b : pst_eqb a b = true -> a = b.
Proof.
  destruct a, b. unfold pst_eqb. simpl. rewrite !andb_true_iff.
  intros [[[[[H1 H2] H3] H4] H5] H6].
  apply lp_eqb_eq in H1. apply Nat.eqb_eq in H2. apply Bool.eqb_prop in H3.
  apply rq_eqb_eq in H4, H5, H6. subst. reflexivity.
Qed.
Lemma pacts_complete a : In a pacts.
Proof. destruct a; simpl; tauto. Qed.

Definition PR : list pst := Eval vm_compute in explore pst pact pstep pacts pst_eqb 2000 [pinit] [pinit].
Lemma PR_init : mem pst pst_eqb pinit PR = true. Proof. vm_compute. reflexivity. Qed.
Lemma PR_closed : closed pst pact pstep pacts pst_eqb PR = true. Proof. vm_compute. reflexivity. Qed.

Definition preach (s : pst) : Prop := reachable pst pact pstep pinit s.

Lemma preach_sweep (P : pst -> bool) : forallb P PR = true -> forall s, preach s -> P s = true.
Proof.
  intros HP s Hs.
  exact (sweep pst pact pstep pacts pst_eqb pst_eqb_eq pacts_complete pinit PR P PR_init PR_closed HP s Hs).
Qed.

(* C12: ShutdownInitiated is called at most once on every schedule of
   triggers, helper goroutines and run-loop steps: no "close of closed
   channel" panic *)
Theorem no_double_shutdown : forall s, preach s -> p_initiated s <= 1.
Proof.
  intros s Hs.
  assert (H : Nat.leb (p_initiated s) 1 = true)
    by (apply (preach_sweep (fun s => Nat.leb (p_initiated s) 1)); [vm_compute; reflexivity | exact Hs]).
  apply Nat.leb_le, H.
Qed.

(* C12: once the component is stopping, a state where the run loop has
   exited, Done is closed and every helper goroutine and blocked caller is
   gone can be reached using only their own steps (nothing waits for a
   trigger that never comes) *)
Definition all_gone (s : pst) : bool :=
  lp_eqb (p_loop s) PExited && p_stopped s &&
  (rq_eqb (p_caller s) QGone || rq_eqb (p_caller s) QIdle) && rq_eqb (p_ctx s) QGone && rq_eqb (p_chan s) QGone.

Definition wind_down : list pact := [UCaller; UCtx; UChan; Complete; DCaller].

Definition EF_gone : list pst := Eval vm_compute in ef_iter pst pact pstep wind_down pst_eqb 12 all_gone PR.

Theorem no_goroutine_left : forall s, preach s -> stopping s = true ->
  exists l s', Forall (fun a => In a wind_down) l /\ run pst pact pstep s l = Some s' /\ all_gone s' = true.
Proof.
  intros s Hs Hst.
  assert (H : (negb (stopping s) || mem pst pst_eqb s EF_gone) = true)
    by (apply (preach_sweep (fun s => negb (stopping s) || mem pst pst_eqb s EF_gone)); [vm_compute; reflexivity | exact Hs]).
  apply orb_true_iff in H. destruct H as [H|H]; [rewrite Hst in H; discriminate|].
  apply (mem_In pst pst_eqb pst_eqb_eq) in H.
  assert (HE : EF_gone = ef_iter pst pact pstep wind_down pst_eqb 12 all_gone PR) by (vm_compute; reflexivity).
  rewrite HE in H. clear HE.
  exact (ef_iter_sound pst pact pstep wind_down pst_eqb pst_eqb_eq 12 all_gone PR s H).
Qed.

(* a Shutdown() / Close() issued after the component is done returns at once *)
Theorem close_after_done_returns : forall s, preach s -> p_stopped s = true -> p_caller s = QIdle ->
  exists s', pstep s TCaller = Some s' /\ p_caller s' = QGone.
Proof.
  intros s _ Hst Hc. simpl. rewrite Hc, Hst. eexists. split; reflexivity.
Qed.
