(* PubLtsProps.v — the goroutine-level protocol of PubLts.v implements the
   atomic fan-out of Pipeline.v (C05, C10, C11). *)
From KC Require Import Pipeline PipelineProps PubLts.

Section Props.
  Variable E : Type.
  Notation csub := (csub E).
  Notation cpub := (cpub E).

  Definition olist (o : option E) : list E := match o with Some e => [e] | None => [] end.

  Definition held (c : csub) : list E := c_passed c ++ c_queue c ++ olist (c_hand c).

  Lemma subseq_trans (a b c : list E) : subseq a b -> subseq b c -> subseq a c.
  Proof.
    intros H1 H2. revert a H1. induction H2 as [l|x l1 l2 H IH|x l1 l2 H IH]; intros a H1.
    - inversion H1; subst. constructor.
    - inversion H1; subst.
      + constructor.
      + constructor. apply IH. assumption.
      + apply sub_skip. apply IH. assumption.
    - apply sub_skip. apply IH. assumption.
  Qed.

  (* the invariant of one subscription against the events the publisher has
     picked up as far as this subscription is concerned *)
  Definition SubInv (seen : list E) (c : csub) : Prop :=
    length (c_queue c) <= c_cap c /\
    c_from c <= length seen /\
    subseq (held c) (c_sent c) /\
    (c_drops c = 0 -> held c = c_sent c) /\
    subseq (c_sent c) (skipn (c_from c) seen) /\
    (c_failed c = 0 -> c_listed c = true -> c_sent c = skipn (c_from c) seen).

  Lemma SubInv_place seen c : SubInv seen c -> SubInv seen (place c).
  Proof.
    intros H. unfold place.
    destruct (c_hand c) as [e|] eqn:Hh; [|exact H].
    destruct H as [H1 [H2 [H3 [H4 [H5 H6]]]]].
    unfold held in *. rewrite Hh in *. simpl in *.
    destruct (Nat.ltb_spec (length (c_queue c)) (c_cap c)) as [Hlt|Hge]; unfold SubInv, held; simpl.
    - repeat split; try assumption.
      + rewrite app_length. simpl. lia.
      + rewrite app_nil_r. exact H3.
      + intros Hd. rewrite app_nil_r. apply H4, Hd.
    - repeat split; try assumption.
      + rewrite app_nil_r.
        assert (Hs : subseq (c_passed c ++ c_queue c) (c_passed c ++ c_queue c ++ [e])).
        { rewrite app_assoc. generalize (c_passed c ++ c_queue c). intros l. induction l; simpl; constructor; assumption. }
        eapply subseq_trans; eassumption.
      + intros Hd. discriminate.
  Qed.

  Lemma SubInv_pop seen c : SubInv seen c -> SubInv seen (cpop c).
  Proof.
    intros H. unfold cpop.
    destruct (c_queue c) as [|e q] eqn:Hq; [exact H|].
    destruct H as [H1 [H2 [H3 [H4 [H5 H6]]]]].
    unfold SubInv, held in *; rewrite Hq in *; simpl in *. repeat split; try assumption.
    - lia.
    - rewrite <- app_assoc. exact H3.
    - intros Hd. rewrite <- app_assoc. apply H4, Hd.
  Qed.

  Lemma SubInv_phase seen ph c : SubInv seen c -> SubInv seen (set_phase ph c).
  Proof. intros H. exact H. Qed.

  Lemma SubInv_unlist seen c : SubInv seen c -> SubInv seen (unlist c).
  Proof.
    intros [H1 [H2 [H3 [H4 [H5 H6]]]]]. unfold SubInv, held, unlist in *; simpl. repeat split; try assumption.
    intros _ Hl. discriminate.
  Qed.

  Lemma SubInv_send prev e c : SubInv prev c -> c_hand c = None ->
    SubInv (prev ++ [e]) (set_hand (Some e) (c_sent c ++ [e]) c).
  Proof.
    intros [H1 [H2 [H3 [H4 [H5 H6]]]]] Hh. unfold SubInv, held, set_hand in *; rewrite Hh in *; simpl in *.
    rewrite app_nil_r in *. repeat split.
    - exact H1.
    - rewrite app_length. simpl. lia.
    - rewrite app_assoc. apply subseq_snoc. exact H3.
    - intros Hd. rewrite app_assoc. f_equal. apply H4, Hd.
    - rewrite skipn_snoc by exact H2. apply subseq_snoc, H5.
    - intros Hf Hl. rewrite skipn_snoc by exact H2. f_equal. apply H6; assumption.
  Qed.

  Lemma SubInv_fail prev e c : SubInv prev c -> SubInv (prev ++ [e]) (set_failed c).
  Proof.
    intros [H1 [H2 [H3 [H4 [H5 H6]]]]]. unfold SubInv, held, set_failed in *; simpl in *. repeat split; try assumption.
    - rewrite app_length. simpl. lia.
    - rewrite skipn_snoc by exact H2. apply subseq_app_r, H5.
    - intros Hf. discriminate.
  Qed.

  Lemma SubInv_grow_unlisted seen e c : SubInv seen c -> c_listed c = false -> SubInv (seen ++ [e]) c.
  Proof.
    intros [H1 [H2 [H3 [H4 [H5 H6]]]]] Hl. unfold SubInv in *. repeat split; try assumption.
    - rewrite app_length. simpl. lia.
    - rewrite skipn_snoc by exact H2. apply subseq_app_r, H5.
    - intros _ Hl'. congruence.
  Qed.

  (* ---------------------------------------------------------------- *)
  (* list plumbing                                                     *)

  Lemma nth_error_upd_same i f : forall (l : list csub) c, nth_error l i = Some c -> nth_error (upd i f l) i = Some (f c).
  Proof. induction i as [|i IH]; intros [|x l] c H; simpl in *; try discriminate; [injection H as ->; reflexivity | apply IH, H]. Qed.

  Lemma nth_error_upd_other i j f : i <> j -> forall (l : list csub), nth_error (upd i f l) j = nth_error l j.
  Proof.
    revert j. induction i as [|i IH]; intros j Hne [|x l]; simpl; try reflexivity.
    - destruct j; [congruence | reflexivity].
    - destruct j; [reflexivity | simpl; apply IH; congruence].
  Qed.

  Lemma existsb_eqb_In i l : existsb (Nat.eqb i) l = true <-> In i l.
  Proof.
    rewrite existsb_exists. split.
    - intros [x [Hin Heq]]. apply Nat.eqb_eq in Heq. subst. exact Hin.
    - intros H. exists i. split; [exact H | apply Nat.eqb_refl].
  Qed.

  Lemma remove1_In i j l : NoDup l -> (In j (remove1 i l) <-> j <> i /\ In j l).
  Proof.
    induction l as [|x l IH]; intros Hnd; simpl; [tauto|].
    inversion Hnd as [|? ? Hx Hnd']; subst.
    destruct (Nat.eqb_spec i x) as [->|Hne].
    - split.
      + intros Hj. split; [intros ->; contradiction | right; exact Hj].
      + intros [Hne [Heq | Hin]]; [congruence | exact Hin].
    - simpl. rewrite (IH Hnd'). split.
      + intros [<- | [H1 H2]]; [split; [congruence | left; reflexivity] | split; [exact H1 | right; exact H2]].
      + intros [H1 [<- | H2]]; [left; reflexivity | right; split; assumption].
  Qed.

  Lemma remove1_NoDup i l : NoDup l -> NoDup (remove1 i l).
  Proof.
    induction l as [|x l IH]; intros Hnd; simpl; [constructor|].
    inversion Hnd as [|? ? Hx Hnd']; subst.
    destruct (Nat.eqb i x); [exact Hnd'|]. constructor; [|apply IH, Hnd'].
    intros Hin. apply remove1_In in Hin; [|exact Hnd']. tauto.
  Qed.

  Lemma listed_from_In : forall (l : list csub) k i,
    In i (listed_from k l) <-> exists c, k <= i /\ nth_error l (i - k) = Some c /\ c_listed c = true.
  Proof.
    induction l as [|x l IH]; intros k i; simpl.
    - split; [contradiction | intros [c [_ [H _]]]; destruct (i - k); discriminate].
    - destruct (c_listed x) eqn:Hx; simpl; rewrite IH; split.
      + intros [<- | [c [Hk [Hn Hl]]]].
        * exists x. rewrite Nat.sub_diag. repeat split; auto.
        * exists c. split; [lia|]. replace (i - k) with (S (i - S k)) by lia. simpl. split; assumption.
      + intros [c [Hk [Hn Hl]]]. destruct (Nat.eq_dec k i) as [->|Hne]; [left; reflexivity|right].
        exists c. split; [lia|]. replace (i - k) with (S (i - S k)) in Hn by lia. simpl in Hn. split; assumption.
      + intros [c [Hk [Hn Hl]]]. exists c. split; [lia|]. replace (i - k) with (S (i - S k)) by lia. simpl. split; assumption.
      + intros [c [Hk [Hn Hl]]]. destruct (Nat.eq_dec k i) as [->|Hne].
        * rewrite Nat.sub_diag in Hn. simpl in Hn. injection Hn as <-. congruence.
        * exists c. split; [lia|]. replace (i - k) with (S (i - S k)) in Hn by lia. simpl in Hn. split; assumption.
  Qed.

  Lemma listed_from_NoDup : forall (l : list csub) k, NoDup (listed_from k l).
  Proof.
    induction l as [|x l IH]; intros k; simpl; [constructor|].
    destruct (c_listed x); [|apply IH]. constructor; [|apply IH].
    intros Hin. apply listed_from_In in Hin. destruct Hin as [c [Hk _]]. lia.
  Qed.

  (* ---------------------------------------------------------------- *)
  (* the global invariant                                              *)

  (* the events the publisher has picked up, as far as subscription i is
     concerned: the one being distributed counts once it was sent to i *)
  Definition seen_for (p : cpub) (i : nat) : list E :=
    match k_cur p with
    | Some (_, rem) => if existsb (Nat.eqb i) rem then removelast (k_seen p) else k_seen p
    | None => k_seen p
    end.

  Definition CurOK (p : cpub) : Prop :=
    match k_cur p with
    | Some (e, rem) =>
        (exists prev, k_seen p = prev ++ [e]) /\ NoDup rem /\
        (forall i, In i rem -> exists c, nth_error (k_subs p) i = Some c /\ c_listed c = true)
    | None => True
    end.

  Definition Inv (p : cpub) : Prop :=
    CurOK p /\ forall i c, nth_error (k_subs p) i = Some c -> SubInv (seen_for p i) c.

  Lemma Inv_init : Inv cinit.
  Proof. split; [exact I|]. intros i c H. destruct i; discriminate. Qed.

  Ltac inv_sub H i c := let Hs := fresh "Hs" in pose proof (H i c) as Hs.

  Lemma Inv_step p a p' : Inv p -> cstep p a = Some p' -> Inv p'.
  Proof.
    intros [HC HS] Hst. destruct p as [pin seen cur subs pcl dwn pall]. unfold CurOK, seen_for in *; simpl in *.
    destruct a as [e| |i|i| |i|i|i|i|i|cap| |]; simpl in Hst.
    - (* CParent *)
      destruct pcl; [discriminate|]. injection Hst as <-. split; [exact HC | exact HS].
    - (* CPick *)
      destruct cur as [[e0 rem0]|]; [discriminate|]. destruct pin as [|e r]; [discriminate|].
      destruct dwn; [discriminate|]. injection Hst as <-.
      unfold Inv, CurOK, seen_for; simpl. split.
      + split; [eexists; reflexivity|]. split; [apply listed_from_NoDup|].
        intros i Hi. apply listed_from_In in Hi. destruct Hi as [c [_ [Hn Hl]]]. rewrite Nat.sub_0_r in Hn. eauto.
      + intros i c Hn. specialize (HS i c Hn).
        destruct (existsb (Nat.eqb i) (listed_from 0 subs)) eqn:Hex.
        * rewrite removelast_last. exact HS.
        * apply SubInv_grow_unlisted; [exact HS|].
          destruct (c_listed c) eqn:Hl; [|reflexivity]. exfalso.
          assert (Hin : In i (listed_from 0 subs)) by (apply listed_from_In; exists c; rewrite Nat.sub_0_r; repeat split; [lia|assumption..]).
          apply existsb_eqb_In in Hin. congruence.
    - (* CSend *)
      destruct cur as [[e rem]|]; [|discriminate]. destruct (nth_error subs i) as [c|] eqn:Hi; [|discriminate].
      destruct (existsb (Nat.eqb i) rem) eqn:Hex; [|discriminate].
      destruct HC as [[prev Hprev] [Hnd Hrem]].
      assert (Hgo : c_hand c = None /\ Some p' = Some (mk {| k_in := pin; k_seen := seen; k_cur := Some (e, rem); k_subs := subs; k_pclosed := pcl; k_down := dwn; k_all := pall |}
                      (Some (e, remove1 i rem)) (upd i (set_hand (Some e) (c_sent c ++ [e])) subs))).
      { destruct (c_phase c); destruct (c_hand c); try discriminate; split; congruence. }
      destruct Hgo as [Hh Hp]. injection Hp as ->. clear Hst.
      unfold Inv, CurOK, seen_for, mk; simpl. split.
      + split; [eexists; exact Hprev|]. split; [apply remove1_NoDup, Hnd|].
        intros j Hj. apply remove1_In in Hj; [|exact Hnd]. destruct Hj as [Hne Hj].
        rewrite nth_error_upd_other by congruence. apply Hrem, Hj.
      + intros j cj Hn. destruct (Nat.eq_dec i j) as [<-|Hne].
        * rewrite (nth_error_upd_same i _ subs c Hi) in Hn. injection Hn as <-.
          assert (Hno : existsb (Nat.eqb i) (remove1 i rem) = false).
          { destruct (existsb (Nat.eqb i) (remove1 i rem)) eqn:Hx; [|reflexivity].
            apply existsb_eqb_In, remove1_In in Hx; [|exact Hnd]. tauto. }
          rewrite Hno. specialize (HS i c Hi). rewrite Hex in HS. subst seen. rewrite removelast_last in HS.
          apply SubInv_send; assumption.
        * rewrite nth_error_upd_other in Hn by exact Hne. specialize (HS j cj Hn).
          assert (Hsame : existsb (Nat.eqb j) (remove1 i rem) = existsb (Nat.eqb j) rem).
          { destruct (existsb (Nat.eqb j) rem) eqn:Hx.
            - apply existsb_eqb_In. apply remove1_In; [exact Hnd|]. split; [congruence | apply existsb_eqb_In, Hx].
            - destruct (existsb (Nat.eqb j) (remove1 i rem)) eqn:Hy; [|reflexivity].
              apply existsb_eqb_In, remove1_In in Hy; [|exact Hnd]. destruct Hy as [_ Hy]. apply existsb_eqb_In in Hy. congruence. }
          rewrite Hsame. exact HS.
    - (* CSendFail *)
      destruct cur as [[e rem]|]; [|discriminate]. destruct (nth_error subs i) as [c|] eqn:Hi; [|discriminate].
      destruct (existsb (Nat.eqb i) rem) eqn:Hex; [|discriminate].
      destruct HC as [[prev Hprev] [Hnd Hrem]].
      assert (Hp : Some p' = Some (mk {| k_in := pin; k_seen := seen; k_cur := Some (e, rem); k_subs := subs; k_pclosed := pcl; k_down := dwn; k_all := pall |}
                      (Some (e, remove1 i rem)) (upd i set_failed subs))).
      { destruct (c_phase c); try discriminate; congruence. }
      injection Hp as ->. clear Hst.
      unfold Inv, CurOK, seen_for, mk; simpl. split.
      + split; [eexists; exact Hprev|]. split; [apply remove1_NoDup, Hnd|].
        intros j Hj. apply remove1_In in Hj; [|exact Hnd]. destruct Hj as [Hne Hj].
        rewrite nth_error_upd_other by congruence. apply Hrem, Hj.
      + intros j cj Hn. destruct (Nat.eq_dec i j) as [<-|Hne].
        * rewrite (nth_error_upd_same i _ subs c Hi) in Hn. injection Hn as <-.
          assert (Hno : existsb (Nat.eqb i) (remove1 i rem) = false).
          { destruct (existsb (Nat.eqb i) (remove1 i rem)) eqn:Hx; [|reflexivity].
            apply existsb_eqb_In, remove1_In in Hx; [|exact Hnd]. tauto. }
          rewrite Hno. specialize (HS i c Hi). rewrite Hex in HS. subst seen. rewrite removelast_last in HS.
          apply SubInv_fail; assumption.
        * rewrite nth_error_upd_other in Hn by exact Hne. specialize (HS j cj Hn).
          assert (Hsame : existsb (Nat.eqb j) (remove1 i rem) = existsb (Nat.eqb j) rem).
          { destruct (existsb (Nat.eqb j) rem) eqn:Hx.
            - apply existsb_eqb_In. apply remove1_In; [exact Hnd|]. split; [congruence | apply existsb_eqb_In, Hx].
            - destruct (existsb (Nat.eqb j) (remove1 i rem)) eqn:Hy; [|reflexivity].
              apply existsb_eqb_In, remove1_In in Hy; [|exact Hnd]. destruct Hy as [_ Hy]. apply existsb_eqb_In in Hy. congruence. }
          rewrite Hsame. exact HS.
    - (* CDone *)
      destruct cur as [[e [|x rem]]|]; try discriminate. injection Hst as <-.
      unfold Inv, CurOK, seen_for, mk; simpl. split; [exact I|].
      intros j cj Hn. specialize (HS j cj Hn). simpl in HS. exact HS.
    - (* CPlace *)
      destruct (nth_error subs i) as [c|] eqn:Hi; [|discriminate]. destruct (c_hand c) as [eh|] eqn:Hh; [|discriminate]. injection Hst as <-.
      unfold Inv, CurOK, seen_for, mk; simpl. split.
      + destruct cur as [[e0 rem]|]; [|exact I]. destruct HC as [Hp [Hnd Hrem]]. split; [exact Hp|]. split; [exact Hnd|].
        intros j Hj. destruct (Nat.eq_dec i j) as [<-|Hne].
        * rewrite (nth_error_upd_same i _ subs c Hi). destruct (Hrem i Hj) as [c' [Hc' Hl]]. rewrite Hi in Hc'. injection Hc' as <-.
          eexists. split; [reflexivity|]. unfold place. rewrite Hh. destruct (Nat.ltb _ _); exact Hl.
        * rewrite nth_error_upd_other by exact Hne. apply Hrem, Hj.
      + intros j cj Hn. destruct (Nat.eq_dec i j) as [<-|Hne].
        * rewrite (nth_error_upd_same i _ subs c Hi) in Hn. injection Hn as <-. apply SubInv_place, HS, Hi.
        * rewrite nth_error_upd_other in Hn by exact Hne. apply HS, Hn.
    - (* CPop *)
      destruct (nth_error subs i) as [c|] eqn:Hi; [|discriminate]. destruct (c_queue c) as [|eq qq] eqn:Hq; [discriminate|]. injection Hst as <-.
      unfold Inv, CurOK, seen_for, mk; simpl. split.
      + destruct cur as [[e0 rem]|]; [|exact I]. destruct HC as [Hp [Hnd Hrem]]. split; [exact Hp|]. split; [exact Hnd|].
        intros j Hj. destruct (Nat.eq_dec i j) as [<-|Hne].
        * rewrite (nth_error_upd_same i _ subs c Hi). destruct (Hrem i Hj) as [c' [Hc' Hl]]. rewrite Hi in Hc'. injection Hc' as <-.
          eexists. split; [reflexivity|]. unfold cpop. rewrite Hq. exact Hl.
        * rewrite nth_error_upd_other by exact Hne. apply Hrem, Hj.
      + intros j cj Hn. destruct (Nat.eq_dec i j) as [<-|Hne].
        * rewrite (nth_error_upd_same i _ subs c Hi) in Hn. injection Hn as <-. apply SubInv_pop, HS, Hi.
        * rewrite nth_error_upd_other in Hn by exact Hne. apply HS, Hn.
    - (* CClose *)
      destruct (nth_error subs i) as [c|] eqn:Hi; [|discriminate]. destruct (c_phase c) eqn:Hph; try discriminate. injection Hst as <-.
      unfold Inv, CurOK, seen_for, mk; simpl. split.
      + destruct cur as [[e0 rem]|]; [|exact I]. destruct HC as [Hp [Hnd Hrem]]. split; [exact Hp|]. split; [exact Hnd|].
        intros j Hj. destruct (Nat.eq_dec i j) as [<-|Hne].
        * rewrite (nth_error_upd_same i _ subs c Hi). destruct (Hrem i Hj) as [c' [Hc' Hl]]. rewrite Hi in Hc'. injection Hc' as <-.
          eexists. split; [reflexivity | exact Hl].
        * rewrite nth_error_upd_other by exact Hne. apply Hrem, Hj.
      + intros j cj Hn. destruct (Nat.eq_dec i j) as [<-|Hne].
        * rewrite (nth_error_upd_same i _ subs c Hi) in Hn. injection Hn as <-. apply SubInv_phase, HS, Hi.
        * rewrite nth_error_upd_other in Hn by exact Hne. apply HS, Hn.
    - (* CExit *)
      destruct (nth_error subs i) as [c|] eqn:Hi; [|discriminate].
      assert (Hp : Some p' = Some (mk {| k_in := pin; k_seen := seen; k_cur := cur; k_subs := subs; k_pclosed := pcl; k_down := dwn; k_all := pall |} cur (upd i (set_phase (Closed)) subs))).
      { destruct (c_phase c); destruct (c_hand c); try discriminate; congruence. }
      injection Hp as ->. clear Hst.
      unfold Inv, CurOK, seen_for, mk; simpl. split.
      + destruct cur as [[e0 rem]|]; [|exact I]. destruct HC as [Hp [Hnd Hrem]]. split; [exact Hp|]. split; [exact Hnd|].
        intros j Hj. destruct (Nat.eq_dec i j) as [<-|Hne].
        * rewrite (nth_error_upd_same i _ subs c Hi). destruct (Hrem i Hj) as [c' [Hc' Hl]]. rewrite Hi in Hc'. injection Hc' as <-.
          eexists. split; [reflexivity | exact Hl].
        * rewrite nth_error_upd_other by exact Hne. apply Hrem, Hj.
      + intros j cj Hn. destruct (Nat.eq_dec i j) as [<-|Hne].
        * rewrite (nth_error_upd_same i _ subs c Hi) in Hn. injection Hn as <-. apply SubInv_phase, HS, Hi.
        * rewrite nth_error_upd_other in Hn by exact Hne. apply HS, Hn.
    - (* CUnsub *)
      destruct cur as [[e0 rem]|]; [discriminate|]. destruct (nth_error subs i) as [c|] eqn:Hi; [|discriminate].
      destruct (c_phase c); try discriminate. destruct (c_listed c); [|discriminate]. injection Hst as <-.
      unfold Inv, CurOK, seen_for, mk; simpl. split; [exact I|].
      intros j cj Hn. destruct (Nat.eq_dec i j) as [<-|Hne].
      * rewrite (nth_error_upd_same i _ subs c Hi) in Hn. injection Hn as <-. apply SubInv_unlist. eapply HS. exact Hi.
      * rewrite nth_error_upd_other in Hn by exact Hne. eapply HS. exact Hn.
    - (* CSubscribe *)
      destruct cur as [[e0 rem]|]; [discriminate|]. destruct dwn; [discriminate|]. injection Hst as <-.
      unfold Inv, CurOK, seen_for, mk; simpl. split; [exact I|].
      intros j cj Hn. destruct (Nat.lt_ge_cases j (length subs)) as [Hlt|Hge].
      + rewrite nth_error_app1 in Hn by exact Hlt. eapply HS. exact Hn.
      + rewrite nth_error_app2 in Hn by exact Hge. destruct (j - length subs) as [|k]; [|destruct k; discriminate].
        simpl in Hn. injection Hn as <-. unfold SubInv, held; simpl. rewrite skipn_all. repeat split; try lia; try constructor.
    - (* CParentClose *)
      destruct pcl; [discriminate|]. injection Hst as <-. split; [exact HC | exact HS].
    - (* CPubDown *)
      destruct cur as [[e0 rem]|]; [discriminate|]. destruct pin; [|discriminate].
      destruct (pcl && negb dwn); [|discriminate]. injection Hst as <-.
      unfold Inv, CurOK, seen_for; simpl. split; [exact I|].
      intros j cj Hn. rewrite nth_error_map in Hn. destruct (nth_error subs j) as [c|] eqn:Hj; [|discriminate].
      simpl in Hn. injection Hn as <-. specialize (HS j c Hj). unfold ask_down. destruct (c_phase c); exact HS.
  Qed.

  Theorem Inv_reachable : forall l p, crun cinit l = Some p -> Inv p.
  Proof.
    intros l. assert (H : forall p0, Inv p0 -> forall p, crun p0 l = Some p -> Inv p).
    { induction l as [|a l IH]; intros p0 H0 p Hr; simpl in Hr.
      - injection Hr as <-. exact H0.
      - destruct (cstep p0 a) as [p1|] eqn:Hs; [|discriminate]. eapply IH; [|exact Hr]. eapply Inv_step; eassumption. }
    apply H, Inv_init.
  Qed.

  (* ---------------------------------------------------------------- *)
  (* what the protocol guarantees (C05, C10, C11)                       *)

  (* whatever was dropped or failed: what a consumer received, what its
     buffer holds and what its subscription has in hand form an in-order
     subsequence of the events published since it subscribed *)
  Theorem lts_receives_subsequence : forall l p i c, crun cinit l = Some p ->
    nth_error (k_subs p) i = Some c ->
    subseq (held c) (skipn (c_from c) (seen_for p i)).
  Proof.
    intros l p i c Hr Hn. destruct (Inv_reachable l p Hr) as [_ HS].
    destruct (HS i c Hn) as [_ [_ [H3 [_ [H5 _]]]]]. eapply subseq_trans; eassumption.
  Qed.

  (* C05: a subscription that is in the publisher's table, never found its
     buffer full and never had a send fail holds EXACTLY the events published
     since it subscribed, in order: the handoff protocol neither loses,
     duplicates nor reorders, whatever the order in which the publisher visits
     its table, whatever the other subscriptions and their consumers do *)
  Theorem lts_subscriber_sees_exact_suffix : forall l p i c, crun cinit l = Some p ->
    nth_error (k_subs p) i = Some c ->
    c_drops c = 0 -> c_failed c = 0 -> c_listed c = true ->
    held c = skipn (c_from c) (seen_for p i).
  Proof.
    intros l p i c Hr Hn Hd Hf Hl. destruct (Inv_reachable l p Hr) as [_ HS].
    destruct (HS i c Hn) as [_ [_ [_ [H4 [_ H6]]]]]. rewrite (H4 Hd). apply H6; assumption.
  Qed.

  (* between events (nothing being distributed, nothing in hand) this is the
     statement of Pipeline.subscriber_sees_exact_suffix *)
  Corollary lts_quiescent_exact : forall l p i c, crun cinit l = Some p ->
    nth_error (k_subs p) i = Some c -> k_cur p = None -> c_hand c = None ->
    c_drops c = 0 -> c_failed c = 0 -> c_listed c = true ->
    c_passed c ++ c_queue c = @expected_suffix E (c_from c) (k_seen p).
  Proof.
    intros l p i c Hr Hn Hc Hh Hd Hf Hl.
    pose proof (lts_subscriber_sees_exact_suffix l p i c Hr Hn Hd Hf Hl) as H.
    unfold held, seen_for in H. rewrite Hc, Hh in H. simpl in H. rewrite app_nil_r in H. exact H.
  Qed.

  (* a send fails only at a subscription that was closed *)
  Theorem send_fails_only_when_closing : forall (p : cpub) i p', cstep p (CSendFail i) = Some p' ->
    exists c, nth_error (k_subs p) i = Some c /\ c_phase c <> Open.
  Proof.
    intros p i p' H. simpl in H. destruct (k_cur p) as [[e rem]|]; [|discriminate].
    destruct (nth_error (k_subs p) i) as [c|]; [|discriminate]. exists c. split; [reflexivity|].
    destruct (existsb (Nat.eqb i) rem); [|discriminate]. destruct (c_phase c); [discriminate| |]; discriminate.
  Qed.

  (* C10 / C11: every step that concerns subscription i — a send, a failed
     send, placing, a consumer's receive, Close, the exit of its goroutine, its
     removal from the table — leaves every other subscription untouched *)
  Definition concerns (a : cact E) : option nat :=
    match a with
    | CSend i | CSendFail i | CPlace i | CPop i | CClose i | CExit i | CUnsub i => Some i
    | _ => None
    end.

  Theorem step_is_local : forall (p : cpub) a p' i j, cstep p a = Some p' -> concerns a = Some i -> i <> j ->
    nth_error (k_subs p') j = nth_error (k_subs p) j.
  Proof.
    intros p a p' i j Hs Hc Hne. destruct a; simpl in Hc; try discriminate; injection Hc as ->; simpl in Hs.
    - destruct (k_cur p) as [[e rem]|]; [|discriminate]. destruct (nth_error (k_subs p) i) as [c|]; [|discriminate].
      destruct (existsb (Nat.eqb i) rem); [|discriminate].
      destruct (c_phase c); destruct (c_hand c); try discriminate; injection Hs as <-; simpl; apply nth_error_upd_other; exact Hne.
    - destruct (k_cur p) as [[e rem]|]; [|discriminate]. destruct (nth_error (k_subs p) i) as [c|]; [|discriminate].
      destruct (existsb (Nat.eqb i) rem); [|discriminate].
      destruct (c_phase c); try discriminate; injection Hs as <-; simpl; apply nth_error_upd_other; exact Hne.
    - destruct (nth_error (k_subs p) i) as [c|]; [|discriminate]. destruct (c_hand c); [|discriminate].
      injection Hs as <-; simpl; apply nth_error_upd_other; exact Hne.
    - destruct (nth_error (k_subs p) i) as [c|]; [|discriminate]. destruct (c_queue c); [discriminate|].
      injection Hs as <-; simpl; apply nth_error_upd_other; exact Hne.
    - destruct (nth_error (k_subs p) i) as [c|]; [|discriminate]. destruct (c_phase c); try discriminate.
      injection Hs as <-; simpl; apply nth_error_upd_other; exact Hne.
    - destruct (nth_error (k_subs p) i) as [c|]; [|discriminate].
      destruct (c_phase c); destruct (c_hand c); try discriminate; injection Hs as <-; simpl; apply nth_error_upd_other; exact Hne.
    - destruct (k_cur p); [discriminate|]. destruct (nth_error (k_subs p) i) as [c|]; [|discriminate].
      destruct (c_phase c); try discriminate. destruct (c_listed c); [|discriminate].
      injection Hs as <-; simpl; apply nth_error_upd_other; exact Hne.
  Qed.

  (* C10: the publisher never waits for a consumer.  From every reachable
     state in which an event is being distributed, steps of the publisher and
     of the subscriptions' own goroutines alone — no consumer receives
     anything, nobody closes anything — complete the distribution. *)
  Definition library_step (a : cact E) : Prop :=
    match a with CSend _ | CSendFail _ | CPlace _ | CDone => True | _ => False end.

  Lemma crun_app (p : cpub) l1 l2 : crun p (l1 ++ l2) = match crun p l1 with Some p1 => crun p1 l2 | None => None end.
  Proof. revert p. induction l1 as [|a l1 IH]; intros p; simpl; [reflexivity|]. destruct (cstep p a); [apply IH | reflexivity]. Qed.

  Lemma distribution_completes : forall rem p e, Inv p -> k_cur p = Some (e, rem) ->
    exists l p', Forall library_step l /\ crun p l = Some p' /\ k_cur p' = None.
  Proof.
    induction rem as [|i r IH]; intros p e HI Hc.
    - exists [CDone]. eexists. split; [repeat constructor|]. cbn [crun cstep]. rewrite Hc. split; reflexivity.
    - destruct HI as [HC HS]. pose proof HC as HC'. unfold CurOK in HC'. rewrite Hc in HC'. destruct HC' as [_ [Hnd Hrem]].
      destruct (Hrem i (or_introl eq_refl)) as [c [Hi Hl]].
      (* first let the subscription place what it has in hand *)
      assert (Hplace : exists l1 p1, Forall library_step l1 /\ crun p l1 = Some p1 /\ Inv p1 /\ k_cur p1 = Some (e, i :: r) /\
                        exists c1, nth_error (k_subs p1) i = Some c1 /\ c_hand c1 = None /\ c_phase c1 = c_phase c).
      { destruct (c_hand c) as [eh|] eqn:Hh.
        - assert (Hs : cstep p (CPlace i) = Some (mk p (k_cur p) (upd i place (k_subs p)))) by (simpl; rewrite Hi, Hh; reflexivity).
          exists [CPlace i]. eexists. split; [repeat constructor|]. cbn [crun]. rewrite Hs. split; [reflexivity|].
          split; [eapply Inv_step; [split; eassumption | exact Hs]|]. split; [exact Hc|].
          exists (place c). split; [apply nth_error_upd_same, Hi|]. unfold place. rewrite Hh.
          destruct (Nat.ltb _ _); split; reflexivity.
        - exists [], p. split; [constructor|]. split; [reflexivity|]. split; [split; assumption|]. split; [exact Hc|].
          exists c. repeat split; assumption. }
      destruct Hplace as [l1 [p1 [Hl1 [Hr1 [HI1 [Hc1 [c1 [Hi1 [Hh1 Hp1]]]]]]]]].
      (* then the send succeeds, or fails because the subscription is closing *)
      assert (Hex : existsb (Nat.eqb i) (i :: r) = true) by (simpl; rewrite Nat.eqb_refl; reflexivity).
      assert (Hrm : remove1 i (i :: r) = r) by (simpl; rewrite Nat.eqb_refl; reflexivity).
      assert (Hsend : exists a p2, library_step a /\ cstep p1 a = Some p2 /\ k_cur p2 = Some (e, r)).
      { destruct (c_phase c1) eqn:Hph.
        - exists (CSend i). eexists. split; [exact I|]. simpl. rewrite Hc1, Hi1, Hex, Hph, Hh1, Hrm. split; reflexivity.
        - exists (CSend i). eexists. split; [exact I|]. simpl. rewrite Hc1, Hi1, Hex, Hph, Hh1, Hrm. split; reflexivity.
        - exists (CSendFail i). eexists. split; [exact I|]. simpl. rewrite Hc1, Hi1, Hex, Hph, Hrm. split; reflexivity. }
      destruct Hsend as [a [p2 [Ha [Hs2 Hc2]]]].
      assert (HI2 : Inv p2) by (eapply Inv_step; eassumption).
      destruct (IH p2 e HI2 Hc2) as [l3 [p3 [Hl3 [Hr3 Hc3]]]].
      exists (l1 ++ a :: l3), p3. split; [apply Forall_app; split; [exact Hl1 | constructor; assumption]|].
      rewrite crun_app, Hr1. cbn [crun]. rewrite Hs2. split; assumption.
  Qed.

  Theorem publisher_never_waits_for_consumers : forall l p e rem, crun cinit l = Some p ->
    k_cur p = Some (e, rem) ->
    exists l' p', Forall library_step l' /\ crun p l' = Some p' /\ k_cur p' = None.
  Proof.
    intros l p e rem Hr Hc. eapply distribution_completes; [eapply Inv_reachable; exact Hr | exact Hc].
  Qed.

  (* ---------------------------------------------------------------- *)
  (* shutdown (C11): the publisher drains its parent before it stops     *)

  Definition AllInv (p : cpub) : Prop :=
    k_seen p ++ k_in p = k_all p /\
    (k_down p = true -> k_pclosed p = true /\ k_in p = [] /\ k_cur p = None).

  Lemma AllInv_step (p : cpub) a p' : AllInv p -> cstep p a = Some p' -> AllInv p'.
  Proof.
    intros [H1 H2] Hs. destruct p as [pin seen cur subs pcl dwn pall]. unfold AllInv in *; simpl in *.
    destruct a as [e| |i|i| |i|i|i|i|i|cap| |]; simpl in Hs.
    - destruct pcl; [discriminate|]. injection Hs as <-. simpl. split.
      + rewrite app_assoc, H1. reflexivity.
      + intros Hd. destruct (H2 Hd) as [Hp _]. discriminate.
    - destruct cur as [[e0 r0]|]; [discriminate|]. destruct pin as [|e r]; [discriminate|].
      destruct dwn; [discriminate|]. injection Hs as <-. simpl. split; [rewrite <- app_assoc; exact H1 | discriminate].
    - destruct cur as [[e rem]|]; [|discriminate]. destruct (nth_error subs i) as [c|]; [|discriminate].
      destruct (existsb (Nat.eqb i) rem); [|discriminate].
      destruct (c_phase c); destruct (c_hand c); try discriminate; injection Hs as <-; simpl; (split; [exact H1|]);
        intros Hd; destruct (H2 Hd) as [_ [_ Hc]]; discriminate.
    - destruct cur as [[e rem]|]; [|discriminate]. destruct (nth_error subs i) as [c|]; [|discriminate].
      destruct (existsb (Nat.eqb i) rem); [|discriminate].
      destruct (c_phase c); try discriminate; injection Hs as <-; simpl; (split; [exact H1|]);
        intros Hd; destruct (H2 Hd) as [_ [_ Hc]]; discriminate.
    - destruct cur as [[e [|x r]]|]; try discriminate. injection Hs as <-. simpl. split; [exact H1|].
      intros Hd. destruct (H2 Hd) as [_ [_ Hc]]. discriminate.
    - destruct (nth_error subs i) as [c|]; [|discriminate]. destruct (c_hand c); [|discriminate]. injection Hs as <-. simpl. split; assumption.
    - destruct (nth_error subs i) as [c|]; [|discriminate]. destruct (c_queue c); [discriminate|]. injection Hs as <-. simpl. split; assumption.
    - destruct (nth_error subs i) as [c|]; [|discriminate]. destruct (c_phase c); try discriminate. injection Hs as <-. simpl. split; assumption.
    - destruct (nth_error subs i) as [c|]; [|discriminate].
      destruct (c_phase c); destruct (c_hand c); try discriminate; injection Hs as <-; simpl; split; assumption.
    - destruct cur; [discriminate|]. destruct (nth_error subs i) as [c|]; [|discriminate].
      destruct (c_phase c); try discriminate. destruct (c_listed c); [|discriminate]. injection Hs as <-. simpl. split; [exact H1|].
      intros Hd. destruct (H2 Hd) as [Hp [Hi _]]. repeat split; assumption.
    - destruct cur; [discriminate|]. destruct dwn; [discriminate|]. injection Hs as <-. simpl. split; [exact H1 | discriminate].
    - destruct pcl; [discriminate|]. injection Hs as <-. simpl. split; [exact H1|].
      intros Hd. destruct (H2 Hd) as [Hp _]. discriminate.
    - destruct cur; [discriminate|]. destruct pin; [|discriminate]. destruct pcl; simpl in Hs; [|discriminate].
      destruct dwn; simpl in Hs; [discriminate|]. injection Hs as <-. simpl. split; [exact H1 | intros _; repeat split].
  Qed.

  Theorem AllInv_reachable : forall l (p : cpub), crun cinit l = Some p -> AllInv p.
  Proof.
    intros l. assert (H : forall p0, AllInv p0 -> forall p, crun p0 l = Some p -> AllInv p).
    { induction l as [|a l IH]; intros p0 H0 p Hr; simpl in Hr.
      - injection Hr as <-. exact H0.
      - destruct (cstep p0 a) as [p1|] eqn:Hs; [|discriminate]. eapply IH; [|exact Hr]. eapply AllInv_step; eassumption. }
    apply H. split; [reflexivity | discriminate].
  Qed.

  (* C11: when the publisher stops, everything its parent ever published has
     been picked up and distributed — nothing that was buffered in the parent's
     channel at the moment it closed is lost *)
  Theorem publisher_drains_before_shutdown : forall l (p : cpub), crun cinit l = Some p ->
    k_down p = true -> k_seen p = k_all p /\ k_in p = [] /\ k_cur p = None.
  Proof.
    intros l p Hr Hd. destruct (AllInv_reachable l p Hr) as [H1 H2]. destruct (H2 Hd) as [_ [Hi Hc]].
    rewrite Hi, app_nil_r in H1. auto.
  Qed.

  (* hence a subscription that was in the table, never overflowed and never
     had a send fail holds everything the parent published since it subscribed,
     up to the very last event before the shutdown *)
  Theorem subscriber_holds_everything_at_shutdown : forall l (p : cpub) i c, crun cinit l = Some p ->
    k_down p = true -> nth_error (k_subs p) i = Some c ->
    c_drops c = 0 -> c_failed c = 0 -> c_listed c = true ->
    held c = skipn (c_from c) (k_all p).
  Proof.
    intros l p i c Hr Hd Hn H0 Hf Hl.
    destruct (publisher_drains_before_shutdown l p Hr Hd) as [Hs [_ Hc]].
    rewrite (lts_subscriber_sees_exact_suffix l p i c Hr Hn H0 Hf Hl). unfold seen_for. rewrite Hc, Hs. reflexivity.
  Qed.

  (* "its Events() channel is closed after any buffered events": the exit of a
     subscription's goroutine (which closes outch) leaves what is buffered in
     place, and a consumer can still receive it *)
  Theorem exit_keeps_buffer : forall (p : cpub) i p' c, cstep p (CExit i) = Some p' ->
    nth_error (k_subs p) i = Some c ->
    exists c', nth_error (k_subs p') i = Some c' /\ c_queue c' = c_queue c /\ c_passed c' = c_passed c /\ c_phase c' = Closed.
  Proof.
    intros p i p' c Hs Hn. simpl in Hs. rewrite Hn in Hs.
    destruct (c_phase c); destruct (c_hand c); try discriminate; injection Hs as <-; simpl.
    exists (set_phase Closed c). split; [apply nth_error_upd_same, Hn | repeat split].
  Qed.

  Theorem closed_channel_still_yields : forall (p : cpub) i c e q,
    nth_error (k_subs p) i = Some c -> c_queue c = e :: q ->
    exists p', cstep p (CPop i) = Some p'.
  Proof. intros p i c e q Hn Hq. simpl. rewrite Hn, Hq. eexists. reflexivity. Qed.
End Props.

(* non-vacuity: two subscriptions, the first never reads and overflows (cap 1),
   the second is closed between two events; map order second-then-first *)
Example lts_history :
  exists p, crun cinit [CSubscribe 1; CSubscribe 1; CParent 7; CParent 8; CPick; CSend 1; CSend 0; CDone; CPlace 0; CPlace 1;
                        CPop 1; CClose 1; CPick; CSendFail 1; CSend 0; CDone; CPlace 0; CExit 1; CUnsub 1] = Some p /\
            map (fun c => (c_passed c, c_queue c, c_drops c, c_failed c)) (k_subs p) = [([], [7], 1, 0); ([7], [], 0, 1)].
Proof. eexists. split; [vm_compute; reflexivity | vm_compute; reflexivity]. Qed.

(* non-vacuity of the shutdown theorems: two events are still buffered in the
   parent's channel when it closes; the publisher distributes both before it
   stops, the subscription's goroutine exits, and the consumer still receives
   both from the closed channel *)
Example lts_shutdown_history :
  exists p, crun cinit [CSubscribe 4; CParent 7; CParent 8; CParentClose; CPick; CSend 0; CDone; CPlace 0;
                        CPick; CSend 0; CDone; CPlace 0; CPubDown; CExit 0; CPop 0; CPop 0] = Some p /\
            k_down p = true /\ k_seen p = [7; 8] /\
            map (fun c => (c_passed c, c_queue c, c_phase c)) (k_subs p) = [([7; 8], [], Closed)].
Proof. eexists. split; [vm_compute; reflexivity | vm_compute; repeat split; reflexivity]. Qed.
