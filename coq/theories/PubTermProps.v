(* PubTermProps.v — the publisher / subscription / reaper lifetime protocol of
   PubTerm.v is clean (C12): when the publisher is done, every goroutine it
   started has returned; no reaper is ever left blocked on the unsubscribe
   channel; and from every reachable state the library's own steps (no user of
   any subscription has to do anything) take the publisher to done once its
   parent stops.  And the variant that deletes a table entry when a send fails
   leaves a reaper blocked for ever. *)
From KC Require Import PubTerm.

Definition treach (p : tpub) : Prop := exists l, trun false tinit l = Some p.

Lemma trun_app pr p l1 l2 : trun pr p (l1 ++ l2) = match trun pr p l1 with Some p' => trun pr p' l2 | None => None end.
Proof. revert p; induction l1 as [|a l1 IH]; intro p; simpl; [reflexivity|]. destruct (tstep pr p a); [apply IH|reflexivity]. Qed.

Lemma trun_cons pr p a l p' : tstep pr p a = Some p' -> trun pr p (a :: l) = trun pr p' l.
Proof. intro H. simpl. rewrite H. reflexivity. Qed.

Lemma treach_step p a p' : treach p -> tstep false p a = Some p' -> treach p'.
Proof. intros [l Hl] Hs. exists (l ++ [a]). rewrite trun_app, Hl. simpl. rewrite Hs. reflexivity. Qed.

Lemma treach_run p l p' : treach p -> trun false p l = Some p' -> treach p'.
Proof.
  revert p; induction l as [|a l IH]; intros p Hp Hr; simpl in Hr.
  - inversion Hr; subst; exact Hp.
  - destruct (tstep false p a) as [q|] eqn:Hq; [|discriminate]. eapply IH; [eapply treach_step; eauto|exact Hr].
Qed.

(* ---- the invariant ---- *)
Definition inv_sub (c : tsub) : Prop :=
  (t_listed c = false <-> t_reaper c = RExit) /\ (t_reaper c <> RWait -> t_phase c = SClosed).

Definition tinv (p : tpub) : Prop :=
  Forall inv_sub (t_subs p) /\
  (receiving (t_mode p) = false -> Forall (fun c => t_listed c = false) (t_subs p)) /\
  (is_main (t_mode p) = false -> t_pclosed p = true).

Lemma Forall_tupd (P : tsub -> Prop) i f l :
  Forall P l -> (forall c, nth_error l i = Some c -> P c -> P (f c)) -> Forall P (tupd i f l).
Proof.
  revert i; induction l as [|c l IH]; intros i HF Hf; simpl; [destruct i; constructor|].
  inversion HF as [|? ? Hc Hl]; subst. destruct i as [|i]; simpl.
  - constructor; [apply Hf; [reflexivity|exact Hc]|exact Hl].
  - constructor; [exact Hc|]. apply IH; [exact Hl|]. intros c' Hn. apply Hf. exact Hn.
Qed.

Lemma nth_error_Forall (P : tsub -> Prop) l i c : Forall P l -> nth_error l i = Some c -> P c.
Proof. intros HF Hn. rewrite Forall_forall in HF. apply HF. eapply nth_error_In; eauto. Qed.

Ltac upd_case HS HL :=
  apply Forall_tupd; [first [exact HS | apply HL; assumption]|];
  let c' := fresh "c'" in let Hn := fresh "Hn" in let Hc := fresh "Hc" in
  intros c' Hn Hc.

Lemma tinv_step p a p' : tinv p -> tstep false p a = Some p' -> tinv p'.
Proof.
  intros (HS & HL & HC) Hs.
  destruct a as [|i|i|i|i|i|i|i|i| | | | |]; simpl in Hs.
  - (* TSubscribe *)
    destruct (is_main (t_mode p)) eqn:Hm; [|discriminate]. inversion Hs; subst; clear Hs.
    unfold tinv; simpl. split; [|split].
    + apply Forall_app; split; [exact HS|]. constructor; [|constructor]. split; simpl; [split; discriminate|].
      intro H; exfalso; apply H; reflexivity.
    + destruct (t_mode p); simpl in *; discriminate.
    + intro H; rewrite Hm in H; discriminate.
  - (* TClose *)
    destruct (nth_error (t_subs p) i) as [c|] eqn:Hn; [|discriminate].
    destruct (t_phase c) eqn:Hp; try discriminate. inversion Hs; subst; clear Hs.
    assert (Hic := nth_error_Forall _ _ _ _ HS Hn).
    unfold tinv; simpl. split; [|split; [|first [exact HC | intros _; apply HC; reflexivity]]].
    + apply Forall_tupd; [exact HS|]. intros c' Hn' Hc'. rewrite Hn in Hn'. inversion Hn'; subst c'.
      destruct Hc' as [H1 H2]. split; simpl; [exact H1|]. intro Hr. apply H2 in Hr. congruence.
    + intro Hr. apply Forall_tupd; [apply HL; exact Hr|]. intros c' _ Hc'. exact Hc'.
  - (* TSubExit *)
    destruct (nth_error (t_subs p) i) as [c|] eqn:Hn; [|discriminate].
    destruct (t_phase c) eqn:Hp; try discriminate. inversion Hs; subst; clear Hs.
    unfold tinv; simpl. split; [|split; [|first [exact HC | intros _; apply HC; reflexivity]]].
    + apply Forall_tupd; [exact HS|]. intros c' _ [H1 H2]. split; simpl; [exact H1|reflexivity].
    + intro Hr. apply Forall_tupd; [apply HL; exact Hr|]. intros c' _ Hc'. exact Hc'.
  - (* TStopSee *)
    destruct (nth_error (t_subs p) i) as [c|] eqn:Hn; [|discriminate].
    destruct (t_phase c) eqn:Hp; try discriminate.
    destruct (is_main (t_mode p)) eqn:Hm; [discriminate|]. inversion Hs; subst; clear Hs.
    unfold tinv; simpl. split; [|split; [|first [exact HC | intros _; apply HC; reflexivity]]].
    + apply Forall_tupd; [exact HS|]. intros c' Hn' Hc'. rewrite Hn in Hn'. inversion Hn'; subst c'.
      destruct Hc' as [H1 H2]. split; simpl; [exact H1|]. intro Hr. apply H2 in Hr. congruence.
    + intro Hr. apply Forall_tupd; [apply HL; exact Hr|]. intros c' _ Hc'. exact Hc'.
  - (* TReapKill *)
    destruct (nth_error (t_subs p) i) as [c|] eqn:Hn; [|discriminate].
    destruct (t_reaper c) eqn:Hrp; try discriminate.
    destruct (t_phase c) eqn:Hp; try discriminate.
    destruct (is_main (t_mode p)) eqn:Hm; [discriminate|]. inversion Hs; subst; clear Hs.
    unfold tinv; simpl. split; [|split; [|first [exact HC | intros _; apply HC; reflexivity]]].
    + apply Forall_tupd; [exact HS|]. intros c' Hn' Hc'. rewrite Hn in Hn'. inversion Hn'; subst c'.
      destruct Hc' as [H1 H2]. split; simpl; [exact H1|]. intro Hr. congruence.
    + intro Hr. apply Forall_tupd; [apply HL; exact Hr|]. intros c' _ Hc'. exact Hc'.
  - (* TReapSee *)
    destruct (nth_error (t_subs p) i) as [c|] eqn:Hn; [|discriminate].
    destruct (t_reaper c) eqn:Hrp; try discriminate.
    destruct (t_phase c) eqn:Hp; try discriminate. inversion Hs; subst; clear Hs.
    assert (Hic := nth_error_Forall _ _ _ _ HS Hn).
    unfold tinv; simpl. split; [|split; [|first [exact HC | intros _; apply HC; reflexivity]]].
    + apply Forall_tupd; [exact HS|]. intros c' Hn' Hc'. rewrite Hn in Hn'. inversion Hn'; subst c'.
      destruct Hc' as [[H1 H1'] H2]. split; simpl.
      * split; [intro Hl; apply H1 in Hl; congruence|discriminate].
      * intros _. exact Hp.
    + intro Hr. apply Forall_tupd; [apply HL; exact Hr|]. intros c' _ Hc'. exact Hc'.
  - (* TUnsub *)
    destruct (nth_error (t_subs p) i) as [c|] eqn:Hn; [|discriminate].
    destruct (t_reaper c) eqn:Hrp; try discriminate.
    destruct (receiving (t_mode p)) eqn:Hrc; [|discriminate]. inversion Hs; subst; clear Hs.
    unfold tinv; simpl. split; [|split; [|first [exact HC | intros _; apply HC; reflexivity]]].
    + apply Forall_tupd; [exact HS|]. intros c' Hn' Hc'. rewrite Hn in Hn'. inversion Hn'; subst c'.
      destruct Hc' as [H1 H2]. split; simpl; [split; reflexivity|]. intros _. apply H2. congruence.
    + intro Hr. congruence.
  - (* TSendOk *)
    destruct (nth_error (t_subs p) i) as [c|] eqn:Hn; [|discriminate].
    destruct (is_main (t_mode p) && t_listed c); [|discriminate].
    destruct (t_phase c); inversion Hs; subst; repeat split; assumption.
  - (* TSendFail *)
    destruct (nth_error (t_subs p) i) as [c|] eqn:Hn; [|discriminate].
    destruct (is_main (t_mode p) && t_listed c); [|discriminate].
    destruct (t_phase c); inversion Hs; subst; repeat split; assumption.
  - (* TParentClose *)
    destruct (t_pclosed p); [discriminate|]. inversion Hs; subst. unfold tinv; simpl. repeat split; auto.
  - (* TParentDone *)
    destruct (t_pclosed p && negb (t_pdone p)); [|discriminate]. inversion Hs; subst. unfold tinv; simpl. repeat split; auto.
  - (* TPubDown *)
    destruct (is_main (t_mode p) && t_pclosed p) eqn:Hm; [|discriminate]. inversion Hs; subst.
    apply andb_prop in Hm. destruct Hm as [_ Hm]. unfold tinv; simpl. split; [exact HS|]. split; [discriminate|intros _; exact Hm].
  - (* TDrainExit *)
    destruct (t_mode p) eqn:Hm; try discriminate.
    destruct (existsb t_listed (t_subs p)) eqn:He; [discriminate|]. inversion Hs; subst.
    unfold tinv; simpl. split; [exact HS|]. split.
    + intros _. rewrite Forall_forall. intros c Hin.
      destruct (t_listed c) eqn:Hl; [|reflexivity].
      assert (existsb t_listed (t_subs p) = true) by (apply existsb_exists; exists c; split; assumption). congruence.
    + intros _. apply HC. reflexivity.
  - (* TPubDone *)
    destruct (t_mode p) eqn:Hm; try discriminate.
    destruct (t_pdone p); [|discriminate]. inversion Hs; subst.
    unfold tinv; simpl. split; [exact HS|]. split.
    + intros _. apply HL. reflexivity.
    + intros _. apply HC. reflexivity.
Qed.

Lemma tinv_init : tinv tinit.
Proof. unfold tinv; simpl. split; [constructor|]. split; [discriminate|discriminate]. Qed.

Lemma tinv_reach p : treach p -> tinv p.
Proof.
  intros [l Hl]. revert Hl. generalize tinv_init. generalize tinit.
  induction l as [|a l IH]; intros q Hq Hr; simpl in Hr.
  - inversion Hr; subst; exact Hq.
  - destruct (tstep false q a) as [q'|] eqn:Hs; [|discriminate]. eapply IH; [eapply tinv_step; eauto|exact Hr].
Qed.

(* ---- safety ---- *)

(* once the publisher has left its drain loop (and a fortiori once it is
   done), every subscription's goroutine and every reaper has returned *)
Theorem done_means_all_finished p :
  treach p -> receiving (t_mode p) = false -> all_finished p = true.
Proof.
  intros Hr Hm. destruct (tinv_reach p Hr) as (HS & HL & _).
  specialize (HL Hm). unfold all_finished. apply forallb_forall. intros c Hin.
  rewrite Forall_forall in HS, HL. destruct (HS c Hin) as [[H1 _] H2]. specialize (HL c Hin).
  unfold sub_finished. rewrite (H2 ltac:(rewrite (H1 HL); discriminate)), (H1 HL), HL. reflexivity.
Qed.

(* in particular every subscription ever handed out — including one obtained
   by a Subscribe that raced with the shutdown — is itself shut down *)
Theorem racing_subscribe_is_shut_down p i c :
  treach p -> receiving (t_mode p) = false -> nth_error (t_subs p) i = Some c -> t_phase c = SClosed.
Proof.
  intros Hr Hm Hn. pose proof (done_means_all_finished p Hr Hm) as Hf.
  unfold all_finished in Hf. rewrite forallb_forall in Hf.
  specialize (Hf c (nth_error_In _ _ Hn)). unfold sub_finished in Hf.
  destruct (t_phase c); [discriminate|discriminate|reflexivity].
Qed.

(* no reaper is ever blocked on the unsubscribe channel with nobody left to
   receive from it *)
Theorem no_stuck_reaper p : treach p -> ~ stuck_reaper p.
Proof.
  intros Hr (c & Hin & Hh & Hm). destruct (tinv_reach p Hr) as (HS & HL & _).
  specialize (HL Hm). rewrite Forall_forall in HS, HL. destruct (HS c Hin) as [[H1 _] _].
  rewrite (H1 (HL c Hin)) in Hh. discriminate.
Qed.

(* ---- progress: the library finishes on its own ---- *)
Definition rank (c : tsub) : nat :=
  match t_reaper c with
  | RExit => 0
  | RHand => 1
  | RWait => match t_phase c with SClosed => 2 | SClosing => 3 | SOpen => 4 end
  end.

Fixpoint total (l : list tsub) : nat := match l with [] => 0 | c :: r => rank c + total r end.

Lemma total_pos l : 0 < total l -> exists i c, nth_error l i = Some c /\ 0 < rank c.
Proof.
  induction l as [|c l IH]; simpl; intro H; [lia|].
  destruct (Nat.eq_dec (rank c) 0) as [Hz|Hz].
  - destruct IH as (i & c' & Hn & Hp); [lia|]. exists (S i), c'. split; assumption.
  - exists 0, c. split; [reflexivity|lia].
Qed.

Lemma total_tupd l i c f : nth_error l i = Some c -> total (tupd i f l) + rank c = total l + rank (f c).
Proof.
  revert i; induction l as [|d l IH]; intros i Hn; [destruct i; discriminate|].
  destruct i as [|i]; simpl in *.
  - inversion Hn; subst. lia.
  - specialize (IH i Hn). lia.
Qed.

Lemma total_zero_unlisted p : tinv p -> total (t_subs p) = 0 -> existsb t_listed (t_subs p) = false.
Proof.
  intros (HS & _ & _) Hz. destruct (existsb t_listed (t_subs p)) eqn:He; [|reflexivity].
  apply existsb_exists in He. destruct He as (c & Hin & Hl).
  rewrite Forall_forall in HS. destruct (HS c Hin) as [[_ H1] _].
  assert (rank c = 0).
  { clear -Hin Hz. induction (t_subs p) as [|d l IH]; [destruct Hin|]. simpl in Hz. destruct Hin as [->|Hin]; [lia|apply IH; [lia|exact Hin]]. }
  unfold rank in H. destruct (t_reaper c) eqn:Hr; [destruct (t_phase c); discriminate|discriminate|].
  rewrite (H1 eq_refl) in Hl. discriminate.
Qed.

(* in the drain loop every unfinished subscription has an enabled library step
   that brings it closer to the hand-over *)
Lemma drain_step p : tinv p -> t_mode p = MDrain -> 0 < total (t_subs p) ->
  exists a p', library_act a = true /\ tstep false p a = Some p' /\ t_mode p' = MDrain /\
               t_pclosed p' = t_pclosed p /\ t_pdone p' = t_pdone p /\ total (t_subs p') < total (t_subs p).
Proof.
  intros (HS & _ & _) Hm Hpos. destruct (total_pos _ Hpos) as (i & c & Hn & Hr).
  assert (Hic := nth_error_Forall _ _ _ _ HS Hn). destruct Hic as [_ H2].
  unfold rank in Hr.
  destruct (t_reaper c) eqn:Hrp.
  - destruct (t_phase c) eqn:Hp.
    + exists (TStopSee i). eexists. simpl. rewrite Hn, Hp, Hm. simpl. repeat split; try reflexivity; try exact Hm.
      pose proof (total_tupd (t_subs p) i c (sp SClosing) Hn) as Ht. unfold rank in Ht at 1 2. simpl in Ht.
      rewrite Hrp, Hp in Ht. simpl. lia.
    + exists (TSubExit i). eexists. simpl. rewrite Hn, Hp. repeat split; try reflexivity; try exact Hm.
      pose proof (total_tupd (t_subs p) i c (sp SClosed) Hn) as Ht. unfold rank in Ht at 1 2. simpl in Ht.
      rewrite Hrp, Hp in Ht. simpl. lia.
    + exists (TReapSee i). eexists. simpl. rewrite Hn, Hrp, Hp. repeat split; try reflexivity; try exact Hm.
      pose proof (total_tupd (t_subs p) i c (rp RHand) Hn) as Ht. unfold rank in Ht at 1 2. simpl in Ht.
      rewrite Hrp, Hp in Ht. simpl. lia.
  - exists (TUnsub i). eexists. simpl. rewrite Hn, Hrp, Hm. simpl. repeat split; try reflexivity; try exact Hm.
    pose proof (total_tupd (t_subs p) i c (fun c => unl (rp RExit c)) Hn) as Ht. unfold rank in Ht at 1 2. simpl in Ht.
    rewrite Hrp in Ht. simpl. lia.
  - lia.
Qed.

Lemma drain_completes n : forall p, treach p -> t_mode p = MDrain -> total (t_subs p) <= n ->
  exists l p', Forall (fun a => library_act a = true) l /\ trun false p l = Some p' /\ t_mode p' = MDrain /\
               t_pclosed p' = t_pclosed p /\ t_pdone p' = t_pdone p /\ total (t_subs p') = 0.
Proof.
  induction n as [|n IH]; intros p Hr Hm Hn.
  - exists [], p. repeat split; try reflexivity; [constructor|exact Hm|lia].
  - destruct (Nat.eq_dec (total (t_subs p)) 0) as [Hz|Hz].
    + exists [], p. repeat split; try reflexivity; [constructor|exact Hm|exact Hz].
    + destruct (drain_step p (tinv_reach p Hr) Hm ltac:(lia)) as (a & q & Ha & Hs & Hmq & Hc & Hd & Hlt).
      destruct (IH q (treach_step _ _ _ Hr Hs) Hmq ltac:(lia)) as (l & q' & Hl & Hrun & Hm' & Hc' & Hd' & Hz').
      exists (a :: l), q'. repeat split; [constructor; assumption|simpl; rewrite Hs; exact Hrun|exact Hm'|congruence|congruence|exact Hz'].
Qed.

Lemma from_drain p : treach p -> t_mode p = MDrain ->
  exists l p', Forall (fun a => library_act a = true) l /\ trun false p l = Some p' /\ t_mode p' = MDone.
Proof.
  intros Hr Hm.
  destruct (drain_completes _ p Hr Hm (le_n _)) as (l & q & Hl & Hrun & Hmq & Hc & Hd & Hz).
  assert (Hrq := treach_run _ _ _ Hr Hrun). assert (Hiq := tinv_reach q Hrq).
  assert (He := total_zero_unlisted q Hiq Hz).
  assert (Hcl : t_pclosed q = true) by (destruct Hiq as (_ & _ & HC); apply HC; rewrite Hmq; reflexivity).
  destruct (t_pdone q) eqn:Hpd.
  - exists (l ++ [TDrainExit; TPubDone]). eexists. split; [apply Forall_app; split; [exact Hl|repeat constructor]|].
    rewrite trun_app, Hrun. simpl. rewrite Hmq, He. simpl. rewrite Hpd. split; reflexivity.
  - exists (l ++ [TDrainExit; TParentDone; TPubDone]). eexists. split; [apply Forall_app; split; [exact Hl|repeat constructor]|].
    rewrite trun_app, Hrun. simpl. rewrite Hmq, He. simpl. rewrite Hcl, Hpd. simpl. split; reflexivity.
Qed.

(* from EVERY reachable state: once the parent stops, the steps of the
   library's own goroutines (no subscriber has to read, close or do anything)
   bring the publisher to done — with nothing left behind, by the theorems above *)
Theorem shutdown_completes_without_users p : treach p ->
  exists l p', Forall (fun a => library_act a = true) l /\ trun false p l = Some p' /\ t_mode p' = MDone /\
               all_finished p' = true /\ ~ stuck_reaper p'.
Proof.
  intro Hr.
  assert (core : exists l p', Forall (fun a => library_act a = true) l /\ trun false p l = Some p' /\ t_mode p' = MDone).
  { destruct (t_mode p) eqn:Hm.
    - (* main loop *)
      destruct (t_pclosed p) eqn:Hc.
      + assert (Hs : tstep false p TPubDown = Some (with_mode p MDrain)) by (simpl; rewrite Hm, Hc; reflexivity).
        destruct (from_drain _ (treach_step _ _ _ Hr Hs) eq_refl) as (l & q & Hl & Hrun & Hq).
        exists (TPubDown :: l), q. split; [constructor; [reflexivity|exact Hl]|]. split; [rewrite (trun_cons _ _ _ _ _ Hs); exact Hrun|exact Hq].
      + assert (Hs1 : tstep false p TParentClose = Some {| t_mode := t_mode p; t_subs := t_subs p; t_pclosed := true; t_pdone := t_pdone p |})
          by (simpl; rewrite Hc; reflexivity).
        set (p1 := {| t_mode := t_mode p; t_subs := t_subs p; t_pclosed := true; t_pdone := t_pdone p |}) in *.
        assert (Hs2 : tstep false p1 TPubDown = Some (with_mode p1 MDrain)) by (simpl; rewrite Hm; reflexivity).
        assert (Hr2 := treach_step _ _ _ (treach_step _ _ _ Hr Hs1) Hs2).
        destruct (from_drain _ Hr2 eq_refl) as (l & q & Hl & Hrun & Hq).
        exists (TParentClose :: TPubDown :: l), q. split; [repeat constructor; exact Hl|].
        split; [rewrite (trun_cons _ _ _ _ _ Hs1), (trun_cons _ _ _ _ _ Hs2); exact Hrun|exact Hq].
    - apply from_drain; assumption.
    - (* waiting for the parent *)
      assert (Hcl : t_pclosed p = true) by (destruct (tinv_reach p Hr) as (_ & _ & HC); apply HC; rewrite Hm; reflexivity).
      destruct (t_pdone p) eqn:Hpd.
      + exists [TPubDone]. eexists. split; [repeat constructor|]. simpl. rewrite Hm, Hpd. split; reflexivity.
      + exists [TParentDone; TPubDone]. eexists. split; [repeat constructor|]. simpl. rewrite Hcl, Hpd, Hm. simpl. split; reflexivity.
    - exists [], p. split; [constructor|]. split; [reflexivity|exact Hm]. }
  destruct core as (l & q & Hl & Hrun & Hq).
  assert (Hrq := treach_run _ _ _ Hr Hrun).
  exists l, q. repeat split; try assumption.
  - apply done_means_all_finished; [exact Hrq|rewrite Hq; reflexivity].
  - apply no_stuck_reaper; exact Hrq.
Qed.

(* ---- the tempting clean-up is wrong ---- *)

(* "a failed send means the subscription is gone: delete it from the table".
   Two subscriptions; the first is closed and an event is published before its
   reaper gets to run; the source stops; the drain loop waits for one hand-over
   only; the publisher is done; the first reaper then blocks for ever. *)
Definition prune_trace : list tact :=
  [TSubscribe; TSubscribe; TClose 0; TSubExit 0; TSendFail 0; TSendOk 1;
   TParentClose; TPubDown; TStopSee 1; TSubExit 1; TReapSee 1; TUnsub 1; TDrainExit;
   TParentDone; TPubDone; TReapSee 0].

Theorem prune_on_failed_send_refuted :
  exists p, trun true tinit prune_trace = Some p /\ t_mode p = MDone /\ stuck_reaper p /\ all_finished p = false.
Proof.
  eexists. split; [vm_compute; reflexivity|]. split; [reflexivity|]. split; [|reflexivity].
  eexists. split; [left; reflexivity|]. split; reflexivity.
Qed.

(* the same trace is not even executable in the protocol as it stands: the
   drain loop cannot exit while the first entry is in the table *)
Example prune_trace_blocked_in_real_protocol : trun false tinit prune_trace = None.
Proof. vm_compute. reflexivity. Qed.

(* non-vacuity: a reachable state with work left in every role *)
Example treach_nontrivial :
  treach {| t_mode := MDrain;
            t_subs := [{| t_phase := SClosed; t_reaper := RHand; t_listed := true |};
                       {| t_phase := SOpen; t_reaper := RWait; t_listed := true |}];
            t_pclosed := true; t_pdone := false |}.
Proof. exists [TSubscribe; TSubscribe; TClose 0; TSubExit 0; TReapSee 0; TParentClose; TPubDown]. vm_compute. reflexivity. Qed.

(* ---- the user's view (what the harness compares with the implementation) ---- *)
Definition internal_act (a : tact) : bool :=
  match a with
  | TStopSee _ | TSubExit _ | TReapKill _ | TReapSee _ | TUnsub _ | TPubDown | TDrainExit | TPubDone => true
  | _ => false
  end.

Definition mrank (m : pmode) : nat := match m with MMain => 3 | MDrain => 2 | MWaitParent => 1 | MDone => 0 end.
Definition measure (p : tpub) : nat := total (t_subs p) + mrank (t_mode p).

Lemma total_bound l : total l <= 4 * length l.
Proof. induction l as [|c l IH]; simpl; [lia|]. assert (rank c <= 4) by (unfold rank; destruct (t_reaper c), (t_phase c); lia). lia. Qed.

Lemma measure_fuel p : measure p <= fuel_for p.
Proof. unfold measure, fuel_for. pose proof (total_bound (t_subs p)). destruct (t_mode p); simpl; lia. Qed.

Lemma internal_decreases p a q : tinv p -> internal_act a = true -> tstep false p a = Some q -> measure q < measure p.
Proof.
  intros (HS & _ & _) Ha Hs. unfold measure.
  destruct a as [|i|i|i|i|i|i|i|i| | | | |]; try discriminate; simpl in Hs.
  - (* TSubExit *)
    destruct (nth_error (t_subs p) i) as [c|] eqn:Hn; [|discriminate].
    destruct (t_phase c) eqn:Hp; try discriminate. inversion Hs; subst; clear Hs. simpl.
    destruct (nth_error_Forall _ _ _ _ HS Hn) as [_ H2].
    pose proof (total_tupd (t_subs p) i c (sp SClosed) Hn) as Ht. unfold rank in Ht at 1 2. simpl in Ht. rewrite Hp in Ht.
    destruct (t_reaper c) eqn:Hr; [lia| |]; (rewrite H2 in Hp; [discriminate|congruence]).
  - (* TStopSee *)
    destruct (nth_error (t_subs p) i) as [c|] eqn:Hn; [|discriminate].
    destruct (t_phase c) eqn:Hp; try discriminate.
    destruct (is_main (t_mode p)); [discriminate|]. inversion Hs; subst; clear Hs. simpl.
    destruct (nth_error_Forall _ _ _ _ HS Hn) as [_ H2].
    pose proof (total_tupd (t_subs p) i c (sp SClosing) Hn) as Ht. unfold rank in Ht at 1 2. simpl in Ht. rewrite Hp in Ht.
    destruct (t_reaper c) eqn:Hr; [lia| |]; (rewrite H2 in Hp; [discriminate|congruence]).
  - (* TReapKill *)
    destruct (nth_error (t_subs p) i) as [c|] eqn:Hn; [|discriminate].
    destruct (t_reaper c) eqn:Hr; try discriminate.
    destruct (t_phase c) eqn:Hp; try discriminate.
    destruct (is_main (t_mode p)); [discriminate|]. inversion Hs; subst; clear Hs. simpl.
    pose proof (total_tupd (t_subs p) i c (sp SClosing) Hn) as Ht. unfold rank in Ht at 1 2. simpl in Ht. rewrite Hr, Hp in Ht. lia.
  - (* TReapSee *)
    destruct (nth_error (t_subs p) i) as [c|] eqn:Hn; [|discriminate].
    destruct (t_reaper c) eqn:Hr; try discriminate.
    destruct (t_phase c) eqn:Hp; try discriminate. inversion Hs; subst; clear Hs. simpl.
    pose proof (total_tupd (t_subs p) i c (rp RHand) Hn) as Ht. unfold rank in Ht at 1 2. simpl in Ht. rewrite Hr, Hp in Ht. lia.
  - (* TUnsub *)
    destruct (nth_error (t_subs p) i) as [c|] eqn:Hn; [|discriminate].
    destruct (t_reaper c) eqn:Hr; try discriminate.
    destruct (receiving (t_mode p)); [|discriminate]. inversion Hs; subst; clear Hs. simpl.
    pose proof (total_tupd (t_subs p) i c (fun c => unl (rp RExit c)) Hn) as Ht. unfold rank in Ht at 1 2. simpl in Ht. rewrite Hr in Ht. lia.
  - (* TPubDown *)
    destruct (t_mode p) eqn:Hm; simpl in Hs; try discriminate.
    destruct (t_pclosed p); [|discriminate]. inversion Hs; subst. simpl. lia.
  - (* TDrainExit *)
    destruct (t_mode p) eqn:Hm; try discriminate.
    destruct (existsb t_listed (t_subs p)); [discriminate|]. inversion Hs; subst. simpl. lia.
  - (* TPubDone *)
    destruct (t_mode p) eqn:Hm; try discriminate.
    destruct (t_pdone p); [|discriminate]. inversion Hs; subst. simpl. lia.
Qed.

Lemma first_step_some p l q : first_step p l = Some q -> exists a, In a l /\ tstep false p a = Some q.
Proof.
  induction l as [|a l IH]; simpl; [discriminate|].
  destruct (tstep false p a) as [q'|] eqn:Hs; intro H.
  - inversion H; subst. exists a. split; [left; reflexivity|exact Hs].
  - destruct (IH H) as (b & Hb & Hq). exists b. split; [right; exact Hb|exact Hq].
Qed.

Lemma first_step_none p l : first_step p l = None -> forall a, In a l -> tstep false p a = None.
Proof.
  induction l as [|a l IH]; simpl; intros H b Hb; [destruct Hb|].
  destruct (tstep false p a) eqn:Hs; [discriminate|]. destruct Hb as [<-|Hb]; [exact Hs|apply IH; assumption].
Qed.

Lemma candidates_internal p a : In a (lib_candidates p) -> internal_act a = true.
Proof.
  unfold lib_candidates. rewrite in_app_iff, in_flat_map. intros [(i & _ & Hi)|Hi].
  - simpl in Hi. repeat (destruct Hi as [<-|Hi]; [reflexivity|]). destruct Hi.
  - simpl in Hi. repeat (destruct Hi as [<-|Hi]; [reflexivity|]). destruct Hi.
Qed.

Lemma internal_covered p a : internal_act a = true -> In a (lib_candidates p) \/ tstep false p a = None.
Proof.
  intro Ha. unfold lib_candidates.
  assert (Hsub : forall i, (i < length (t_subs p) -> In i (seq 0 (length (t_subs p)))) /\
                           (~ i < length (t_subs p) -> nth_error (t_subs p) i = None)).
  { intro i. split; [intro; apply in_seq; lia|intro; apply nth_error_None; lia]. }
  destruct a as [|i|i|i|i|i|i|i|i| | | | |]; try discriminate;
    try (destruct (lt_dec i (length (t_subs p))) as [Hlt|Hge];
         [left; apply in_or_app; left; apply in_flat_map; exists i; split; [apply Hsub; exact Hlt|simpl; tauto]
         |right; simpl; rewrite (proj2 (Hsub i) Hge); reflexivity]);
    left; apply in_or_app; right; simpl; tauto.
Qed.

Lemma settle_reach fuel : forall p, treach p -> treach (settle fuel p).
Proof.
  induction fuel as [|f IH]; intros p Hr; simpl; [exact Hr|].
  destruct (first_step p (lib_candidates p)) as [q|] eqn:Hf; [|exact Hr].
  destruct (first_step_some _ _ _ Hf) as (a & _ & Hs). apply IH. eapply treach_step; eauto.
Qed.

(* after settling, no goroutine of the library has a step left: what the
   harness observes after synctest.Wait is this state *)
Theorem settle_quiescent fuel : forall p, treach p -> measure p <= fuel ->
  forall a, internal_act a = true -> tstep false (settle fuel p) a = None.
Proof.
  induction fuel as [|f IH]; intros p Hr Hm a Ha; simpl.
  - destruct (tstep false p a) as [q|] eqn:Hs; [|reflexivity].
    pose proof (internal_decreases p a q (tinv_reach p Hr) Ha Hs). lia.
  - destruct (first_step p (lib_candidates p)) as [q|] eqn:Hf.
    + destruct (first_step_some _ _ _ Hf) as (b & Hb & Hs).
      pose proof (internal_decreases p b q (tinv_reach p Hr) (candidates_internal p b Hb) Hs).
      apply IH; [eapply treach_step; eauto|lia|exact Ha].
    + destruct (internal_covered p a Ha) as [Hin|Hn]; [|exact Hn]. eapply first_step_none; eauto.
Qed.

Lemma ustep_reach p o : treach p -> treach (fst (ustep p o)).
Proof.
  intro Hr. destruct o as [|i| |]; unfold ustep.
  - destruct (tstep false p TSubscribe) as [q|] eqn:Hs; simpl; [eapply treach_step; eauto|exact Hr].
  - destruct (tstep false p (TClose i)) as [q|] eqn:Hs; simpl; [eapply treach_step; eauto|exact Hr].
  - exact Hr.
  - assert (Hq : treach (match tstep false p TParentClose with Some q => q | None => p end)).
    { destruct (tstep false p TParentClose) as [q|] eqn:Hs; [eapply treach_step; eauto|exact Hr]. }
    destruct (tstep false _ TParentDone) as [r|] eqn:Hs2; [eapply treach_step; eauto|exact Hq].
Qed.

Definition unext (p : tpub) (o : uop) : tpub := let q := fst (ustep p o) in settle (fuel_for q) q.

Lemma urun_unfold p o r : urun p (o :: r) = uview (unext p o) (snd (ustep p o)) :: urun (unext p o) r.
Proof. unfold unext. simpl urun. destruct (ustep p o) as [q ok]. reflexivity. Qed.

(* every state the correspondence looks at is a reachable, quiescent state of
   the protocol: the theorems above speak about exactly what is compared *)
Theorem unext_reachable_quiescent p o : treach p ->
  treach (unext p o) /\ forall a, internal_act a = true -> tstep false (unext p o) a = None.
Proof.
  intro Hr. unfold unext. pose proof (ustep_reach p o Hr) as Hq. split.
  - apply settle_reach. exact Hq.
  - apply settle_quiescent; [exact Hq|apply measure_fuel].
Qed.

Lemma internal_keeps_parent p a q : internal_act a = true -> tstep false p a = Some q ->
  t_pclosed q = t_pclosed p /\ t_pdone q = t_pdone p.
Proof.
  intros Ha Hs.
  destruct a as [|i|i|i|i|i|i|i|i| | | | |]; try discriminate; simpl in Hs;
    repeat match type of Hs with
           | match ?x with _ => _ end = Some _ => destruct x eqn:?; try discriminate
           | (if ?x then _ else _) = Some _ => destruct x eqn:?; try discriminate
           end; inversion Hs; subst; simpl; split; first [reflexivity | congruence].
Qed.

Lemma settle_keeps_parent fuel : forall p, t_pclosed (settle fuel p) = t_pclosed p /\ t_pdone (settle fuel p) = t_pdone p.
Proof.
  induction fuel as [|f IH]; intro p; simpl; [split; reflexivity|].
  destruct (first_step p (lib_candidates p)) as [q|] eqn:Hf; [|split; reflexivity].
  destruct (first_step_some _ _ _ Hf) as (a & Ha & Hs).
  destruct (internal_keeps_parent p a q (candidates_internal p a Ha) Hs) as [H1 H2].
  destruct (IH q) as [H3 H4]. split; congruence.
Qed.

(* a quiescent state whose parent has stopped is clean: the publisher is done
   and nothing it started owns a goroutine any more *)
Theorem quiescent_stopped_is_clean q : treach q ->
  (forall a, internal_act a = true -> tstep false q a = None) ->
  t_pclosed q = true -> t_pdone q = true ->
  pub_done q = true /\ all_finished q = true.
Proof.
  intros Hq Hquiet Hc Hd.
  assert (Hm : t_mode q = MDone).
  { destruct (t_mode q) eqn:Hm; [| | |reflexivity]; exfalso.
    - specialize (Hquiet TPubDown eq_refl). simpl in Hquiet. rewrite Hm, Hc in Hquiet. discriminate.
    - destruct (Nat.eq_dec (total (t_subs q)) 0) as [Hz|Hz].
      + pose proof (total_zero_unlisted q (tinv_reach q Hq) Hz) as He.
        specialize (Hquiet TDrainExit eq_refl). simpl in Hquiet. rewrite Hm, He in Hquiet. discriminate.
      + destruct (drain_step q (tinv_reach q Hq) Hm ltac:(lia)) as (a & q' & Ha & Hs & _).
        assert (Hi : internal_act a = true).
        { destruct a; try discriminate; try reflexivity; simpl in Hs; rewrite Hc in Hs; [discriminate|].
          rewrite Hd in Hs. discriminate. }
        rewrite (Hquiet a Hi) in Hs. discriminate.
    - specialize (Hquiet TPubDone eq_refl). simpl in Hquiet. rewrite Hm, Hd in Hquiet. discriminate. }
  split; [unfold pub_done; rewrite Hm; reflexivity|].
  apply done_means_all_finished; [exact Hq|rewrite Hm; reflexivity].
Qed.

(* in particular: whatever the users of the subscriptions did or did not do
   before, after Stop and settling the model reports publisher done and zero
   live subscriptions — the line the harness compares the goroutine inventory
   of the implementation with *)
Theorem stop_leaves_nothing p : treach p ->
  let q := unext p UStop in pub_done q = true /\ all_finished q = true /\ length (filter sub_live (t_subs q)) = 0.
Proof.
  intros Hr q. destruct (unext_reachable_quiescent p UStop Hr) as [Hq Hquiet]. fold q in Hq, Hquiet.
  assert (Hpar : t_pclosed q = true /\ t_pdone q = true).
  { unfold q, unext. destruct (settle_keeps_parent (fuel_for (fst (ustep p UStop))) (fst (ustep p UStop))) as [H1 H2].
    rewrite H1, H2. simpl.
    destruct (t_pclosed p) eqn:Hc; simpl.
    - rewrite Hc. destruct (t_pdone p) eqn:Hd; simpl; [rewrite Hc, Hd; split; reflexivity|split; reflexivity].
    - destruct (t_pdone p) eqn:Hd; simpl; split; reflexivity. }
  destruct Hpar as [Hc Hd].
  destruct (quiescent_stopped_is_clean q Hq Hquiet Hc Hd) as [H1 H2].
  split; [exact H1|]. split; [exact H2|].
  unfold all_finished in H2. rewrite forallb_forall in H2.
  induction (t_subs q) as [|c l IH]; [reflexivity|]. simpl.
  unfold sub_live at 1. rewrite (H2 c (or_introl eq_refl)). simpl. apply IH. intros x Hx. apply H2. right. exact Hx.
Qed.
