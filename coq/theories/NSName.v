(* NSName.v — nsname/nsname.go: the textual form "namespace/name".
   Strings are lists of byte values; 47 is '/'.  [ns_split] is strings.Split(id,
   "/"), [ns_parse] is nsname.Parse (None = ErrInvalidID), [ns_string] is
   NSName.String.  Parse and String are inverse exactly on names without '/':
   what Kubernetes names are, and what the NSName filter's entries are built
   from. *)
From Coq Require Import List NArith Bool Lia.
Import ListNotations.

Definition str := list N.
Definition slash : N := 47.

Fixpoint ns_split (s : str) : list str :=
  match s with
  | [] => [[]]
  | c :: r =>
      if N.eqb c slash then [] :: ns_split r
      else match ns_split r with
           | h :: t => (c :: h) :: t
           | [] => [[c]]
           end
  end.

Definition ns_parse (s : str) : option (str * str) :=
  match ns_split s with
  | [a; b] => Some (a, b)
  | _ => None
  end.

Definition ns_string (n : str * str) : str := fst n ++ slash :: snd n.

Definition no_slash (s : str) : Prop := ~ In slash s.
Definition slashes (s : str) : nat := length (filter (fun c => N.eqb c slash) s).
Local Arguments N.eqb : simpl never.

Lemma split_nonempty s : ns_split s <> [].
Proof. destruct s as [|c r]; simpl; [discriminate|]. destruct (N.eqb c slash); [discriminate|]. destruct (ns_split r); discriminate. Qed.

(* strings.Split returns one more piece than there are separators *)
Lemma split_length s : length (ns_split s) = S (slashes s).
Proof.
  unfold slashes. induction s as [|c r IH]; simpl; [reflexivity|].
  destruct (N.eqb c slash); simpl; [rewrite IH; reflexivity|].
  destruct (ns_split r) eqn:Hs; [exfalso; exact (split_nonempty r Hs)|]. simpl in *. exact IH.
Qed.

Lemma split_no_slash s : no_slash s -> ns_split s = [s].
Proof.
  unfold no_slash. induction s as [|c r IH]; simpl; intros Hn; [reflexivity|].
  destruct (N.eqb c slash) eqn:Hc; [apply N.eqb_eq in Hc; exfalso; apply Hn; left; exact Hc|].
  rewrite IH by (intro H; apply Hn; right; exact H). reflexivity.
Qed.

Lemma split_app a b : no_slash a -> ns_split (a ++ slash :: b) = a :: ns_split b.
Proof.
  unfold no_slash. induction a as [|c r IH]; simpl; intros Hn; [reflexivity|].
  destruct (N.eqb c slash) eqn:Hc; [apply N.eqb_eq in Hc; exfalso; apply Hn; left; exact Hc|].
  rewrite IH by (intro H; apply Hn; right; exact H). reflexivity.
Qed.

(* the pieces never contain the separator, and joining them gives the string back *)
Lemma split_pieces s : Forall no_slash (ns_split s).
Proof.
  induction s as [|c r IH]; simpl; [constructor; [intros []|constructor]|].
  destruct (N.eqb c slash) eqn:Hc; [constructor; [intros []|exact IH]|].
  destruct (ns_split r) as [|h t]; [constructor; [|constructor]|].
  - intros [H|[]]. apply N.eqb_neq in Hc. congruence.
  - inversion IH as [|? ? Hh Ht]; subst. constructor; [|exact Ht].
    intros [H|H]; [apply N.eqb_neq in Hc; congruence|exact (Hh H)].
Qed.

Lemma split_one u : forall v, ns_split u = [v] -> u = v.
Proof.
  induction u as [|x u IHu]; simpl; intros v; [intros Hv; injection Hv as Hv; exact Hv|].
  destruct (N.eqb x slash); [intros Hv; injection Hv as _ Hv; exfalso; exact (split_nonempty u Hv)|].
  destruct (ns_split u) as [|h t] eqn:Hu; [exfalso; exact (split_nonempty u Hu)|].
  intros Hv. injection Hv as Hv Ht. subst t v. f_equal. apply IHu. reflexivity.
Qed.

Lemma split_two s : forall a b, ns_split s = [a; b] -> s = a ++ slash :: b.
Proof.
  induction s as [|c r IH]; simpl; intros a b; [discriminate|].
  destruct (N.eqb c slash) eqn:Hc.
  - intros Hs. apply N.eqb_eq in Hc. subst c. injection Hs as Ha Hb. subst a. simpl. f_equal.
    apply split_one. exact Hb.
  - destruct (ns_split r) as [|h t] eqn:Hr; [discriminate|].
    intros Hs. injection Hs as Ha Ht. subst a t. simpl. f_equal. apply IH. reflexivity.
Qed.

(* Parse(String(n)) = n on names without '/' *)
Theorem parse_to_string a b : no_slash a -> no_slash b -> ns_parse (ns_string (a, b)) = Some (a, b).
Proof.
  intros Ha Hb. unfold ns_parse, ns_string. simpl. rewrite split_app by exact Ha.
  rewrite split_no_slash by exact Hb. reflexivity.
Qed.

(* whatever Parse accepts is the String of what it returns, and both halves are free of '/' *)
Theorem parse_sound s a b : ns_parse s = Some (a, b) -> ns_string (a, b) = s /\ no_slash a /\ no_slash b.
Proof.
  unfold ns_parse. intros Hp.
  destruct (ns_split s) as [|x [|y [|z t]]] eqn:Hs; try discriminate.
  injection Hp as Hx Hy. subst x y.
  split; [symmetry; apply split_two; exact Hs|].
  pose proof (split_pieces s) as Hf. rewrite Hs in Hf.
  inversion Hf as [|? ? Hfa Hf']; subst. inversion Hf' as [|? ? Hfb _]; subst. split; assumption.
Qed.

(* Parse accepts exactly the strings with one '/' *)
Theorem parse_accepts_iff s : (exists n, ns_parse s = Some n) <-> slashes s = 1.
Proof.
  unfold ns_parse. pose proof (split_length s) as Hl.
  destruct (ns_split s) as [|x [|y [|z t]]]; cbn [length] in Hl.
  - discriminate.
  - split; [intros [n Hn]; discriminate|intros H; lia].
  - split; [intros _; lia|intros _; eexists; reflexivity].
  - split; [intros [n Hn]; discriminate|intros H; lia].
Qed.

(* a name with '/' in it does not survive the round trip: Parse is not given a chance to return it *)
Corollary to_string_not_injective_with_slash a b :
  ~ (no_slash a /\ no_slash b) -> ns_parse (ns_string (a, b)) <> Some (a, b).
Proof.
  intros Hn Hp. apply parse_sound in Hp. destruct Hp as (_ & Ha & Hb). apply Hn. split; assumption.
Qed.

(* hence the printed form identifies a name: String is injective on names
   without '/' ... *)
Corollary ns_string_injective a b a' b' :
  no_slash a -> no_slash b -> no_slash a' -> no_slash b' ->
  ns_string (a, b) = ns_string (a', b') -> (a, b) = (a', b').
Proof.
  intros Ha Hb Ha' Hb' He.
  assert (Hp : ns_parse (ns_string (a, b)) = ns_parse (ns_string (a', b'))) by (rewrite He; reflexivity).
  rewrite (parse_to_string a b Ha Hb), (parse_to_string a' b' Ha' Hb') in Hp. congruence.
Qed.

(* ... whereas the two halves written one after the other, without the
   separator, do not: a key built as Namespace + Name confuses different
   objects ("zu"+"zzw" and "zuz"+"zw" in the harness) *)
Example concatenation_is_not_injective :
  exists a b a' b' : str, no_slash a /\ no_slash b /\ no_slash a' /\ no_slash b' /\
    (a, b) <> (a', b') /\ a ++ b = a' ++ b'.
Proof.
  exists [122; 117]%N, [122; 122; 119]%N, [122; 117; 122]%N, [122; 119]%N.
  assert (Hn : forall l : str, forallb (fun c => negb (N.eqb c slash)) l = true -> no_slash l).
  { unfold no_slash. intros l Hl Hin. rewrite forallb_forall in Hl. specialize (Hl _ Hin).
    rewrite N.eqb_refl in Hl. discriminate Hl. }
  repeat split; try (apply Hn; reflexivity).
  intros H. discriminate H.
Qed.

Example parse_examples :
  ns_parse [97; 47; 98]%N = Some ([97], [98])%N /\ ns_parse [47]%N = Some ([], []) /\
  ns_parse [97]%N = None /\ ns_parse [97; 47; 47]%N = None /\ ns_parse [] = None.
Proof. repeat split; reflexivity. Qed.
