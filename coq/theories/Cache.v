(* Cache.v — model of cache.go: doSync, doUpdate, doRefilter, doList, get.
   Definitions only.  The cache is the Go map `items` as an association list
   (order = insertion order; Go's iteration order is unspecified, so every
   statement goes through [clookup] or is modulo permutation). *)
From KC Require Export Base.

Record entry := { e_ver : Z; e_obj : obj }.
Definition cache := list (key * entry).

Fixpoint clookup (k : key) (c : cache) : option entry :=
  match c with
  | [] => None
  | (k', e) :: c' => if key_eqb k k' then Some e else clookup k c'
  end.

Fixpoint cremove (k : key) (c : cache) : cache :=
  match c with
  | [] => []
  | (k', e) :: c' => if key_eqb k k' then cremove k c' else (k', e) :: cremove k c'
  end.

(* c.items[k] = e *)
Fixpoint cset (k : key) (e : entry) (c : cache) : cache :=
  match c with
  | [] => [(k, e)]
  | (k', e') :: c' => if key_eqb k k' then (k, e) :: c' else (k', e') :: cset k e c'
  end.

(* createEntry: strconv.Atoi on the resource version *)
Definition create_entry (o : obj) : option entry :=
  match atoi (o_rv o) with
  | Some v => Some {| e_ver := v; e_obj := o |}
  | None => None
  end.

Definition mk_event (t : etype) (o : obj) : event := {| ev_ty := t; ev_obj := o |}.

Definition mem_keyb (k : key) (l : list key) : bool := existsb (key_eqb k) l.

(* ------------------------------------------------------------------ *)
(* doSync                                                              *)

(* first pass: the newest well-formed version a list names for a key *)
Fixpoint newest_ver (k : key) (l : list obj) : option Z :=
  match l with
  | [] => None
  | o :: l' =>
      let r := newest_ver k l' in
      if key_eqb (key_of o) k then
        match create_entry o with
        | None => r
        | Some e => match r with
                    | None => Some (e_ver e)
                    | Some v => Some (Z.max v (e_ver e))
                    end
        end
      else r
  end.

Record sstate := { s_items : cache; s_set : list key; s_events : list event }.

(* The Go code reads `current, found := c.items[key]`: when the key is not
   cached `current` is the zero entry, whose object is nil.  Calling
   Accept(nil) panics for filters that dereference the object, so the site
   `c.filter.Accept(current.object)` is modelled with an explicit outcome. *)
Definition accept_current (F : obj -> bool) (cur : option entry) : outcome bool :=
  match cur with
  | Some c => Ok (F (e_obj c))
  | None => Panic                      (* Accept(nil) *)
  end.

Definition cur_ver (cur : option entry) : Z :=
  match cur with Some c => e_ver c | None => 0%Z end.
Definition found (cur : option entry) : bool :=
  match cur with Some _ => true | None => false end.

(* one iteration of the main loop, with the panic site explicit *)
Definition sync_step_raw (F : obj -> bool) (l : list obj) (st : sstate) (o : obj) : outcome sstate :=
  let k := key_of o in
  match create_entry o with
  | None => Ok st                                          (* createEntry error: skip *)
  | Some e =>
      let superseded := match newest_ver k l with
                        | Some v => Z.ltb (e_ver e) v
                        | None => false
                        end in
      if superseded then Ok st else
      let cur := clookup k (s_items st) in
      let acc := F o in
      if acc && negb (found cur) then
        Ok {| s_items := cset k e (s_items st); s_set := k :: s_set st;
              s_events := s_events st ++ [mk_event Create o] |}
      else if acc && Z.ltb (cur_ver cur) (e_ver e) then
        Ok {| s_items := cset k e (s_items st); s_set := k :: s_set st;
              s_events := s_events st ++ [mk_event Update o] |}
      else if found cur && Z.leb (e_ver e) (cur_ver cur) then
        match accept_current F cur with
        | Panic => Panic
        | Ok true => Ok {| s_items := s_items st; s_set := k :: s_set st; s_events := s_events st |}
        | Ok false => Ok st
        end
      else Ok st
  end.

Fixpoint sync_loop_raw (F : obj -> bool) (l : list obj) (st : sstate) (rest : list obj) : outcome sstate :=
  match rest with
  | [] => Ok st
  | o :: rest' => match sync_step_raw F l st o with
                  | Panic => Panic
                  | Ok st' => sync_loop_raw F l st' rest'
                  end
  end.

(* final loop: delete what is not in the working set *)
Fixpoint prune (set : list key) (items : cache) : cache * list event :=
  match items with
  | [] => ([], [])
  | (k, e) :: items' =>
      let (r, evs) := prune set items' in
      if mem_keyb k set then ((k, e) :: r, evs)
      else (r, mk_event Delete (e_obj e) :: evs)
  end.

Definition do_sync_raw (F : obj -> bool) (c : cache) (l : list obj) : outcome (cache * list event) :=
  match sync_loop_raw F l {| s_items := c; s_set := []; s_events := [] |} l with
  | Panic => Panic
  | Ok st => let (r, dels) := prune (s_set st) (s_items st) in
             Ok (r, s_events st ++ dels)
  end.

(* The same loop without the outcome plumbing: what do_sync_raw computes
   (CacheProps.do_sync_raw_ok proves do_sync_raw = Ok (do_sync ...)). *)
Definition sync_step (F : obj -> bool) (l : list obj) (st : sstate) (o : obj) : sstate :=
  let k := key_of o in
  match create_entry o with
  | None => st
  | Some e =>
      let superseded := match newest_ver k l with
                        | Some v => Z.ltb (e_ver e) v
                        | None => false
                        end in
      if superseded then st else
      match clookup k (s_items st) with
      | None =>
          if F o then {| s_items := cset k e (s_items st); s_set := k :: s_set st;
                         s_events := s_events st ++ [mk_event Create o] |}
          else st
      | Some c =>
          if F o && Z.ltb (e_ver c) (e_ver e) then
            {| s_items := cset k e (s_items st); s_set := k :: s_set st;
               s_events := s_events st ++ [mk_event Update o] |}
          else if Z.leb (e_ver e) (e_ver c) then
            if F (e_obj c) then {| s_items := s_items st; s_set := k :: s_set st; s_events := s_events st |}
            else st
          else st
      end
  end.

Definition do_sync (F : obj -> bool) (c : cache) (l : list obj) : cache * list event :=
  let st := fold_left (sync_step F l) l {| s_items := c; s_set := []; s_events := [] |} in
  let (r, dels) := prune (s_set st) (s_items st) in
  (r, s_events st ++ dels).

(* doRefilter: c.filter = filter; return c.doSync(list) *)
Definition do_refilter (F' : obj -> bool) (c : cache) (l : list obj) : cache * list event :=
  do_sync F' c l.

(* ------------------------------------------------------------------ *)
(* doUpdate                                                            *)

Definition do_update (F : obj -> bool) (c : cache) (ev : event) : cache * list event :=
  let o := ev_obj ev in
  match atoi (o_rv o) with
  | None => (c, [])
  | Some v =>
      let k := key_of o in
      let e := {| e_ver := v; e_obj := o |} in
      match ev_ty ev with
      | Delete =>
          match clookup k c with
          | Some _ => (cremove k c, [ev])
          | None => (c, [])
          end
      | _ =>
          match clookup k c with
          | None => if F o then (cset k e c, [mk_event Create o]) else (c, [])
          | Some cu =>
              if Z.ltb (e_ver cu) v then
                if F o then (cset k e c, [mk_event Update o])
                else (cremove k c, [mk_event Delete o])
              else (c, [])
          end
      end
  end.

(* doList / get *)
Definition do_list (c : cache) : list obj := map (fun ke => e_obj (snd ke)) c.
Definition do_get (c : cache) (k : key) : option obj :=
  match clookup k c with Some e => Some (e_obj e) | None => None end.

(* ------------------------------------------------------------------ *)
(* Operations and histories                                            *)

Inductive op :=
| OSync (l : list obj)
| OUpdate (ev : event)
| ORefilter (F' : obj -> bool) (l : list obj).

Record cstate := { c_filter : obj -> bool; c_items : cache }.

Definition do_op (s : cstate) (o : op) : cstate * list event :=
  match o with
  | OSync l => let (c, evs) := do_sync (c_filter s) (c_items s) l in
               ({| c_filter := c_filter s; c_items := c |}, evs)
  | OUpdate ev => let (c, evs) := do_update (c_filter s) (c_items s) ev in
                  ({| c_filter := c_filter s; c_items := c |}, evs)
  | ORefilter F' l => let (c, evs) := do_refilter F' (c_items s) l in
                      ({| c_filter := F'; c_items := c |}, evs)
  end.

Definition run_ops (s : cstate) (ops : list op) : cstate :=
  fold_left (fun s o => fst (do_op s o)) ops s.

Definition init_state (F : obj -> bool) : cstate := {| c_filter := F; c_items := [] |}.

(* ------------------------------------------------------------------ *)
(* Event replay (C02)                                                  *)

Definition apply_event (c : cache) (ev : event) : option cache :=
  let o := ev_obj ev in
  let k := key_of o in
  match ev_ty ev with
  | Create =>
      match clookup k c, create_entry o with
      | None, Some e => Some (cset k e c)
      | _, _ => None
      end
  | Update =>
      match clookup k c, create_entry o with
      | Some cu, Some e => if Z.ltb (e_ver cu) (e_ver e) then Some (cset k e c) else None
      | _, _ => None
      end
  | Delete =>
      match clookup k c with
      | Some _ => Some (cremove k c)
      | None => None
      end
  end.

Fixpoint replay (c : cache) (evs : list event) : option cache :=
  match evs with
  | [] => Some c
  | ev :: evs' => match apply_event c ev with
                  | Some c' => replay c' evs'
                  | None => None
                  end
  end.
