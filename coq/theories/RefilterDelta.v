(* RefilterDelta.v — C07's statement, key by key: on a node whose cache is the
   f1-view of its parent's content, Refilter(f2) delivers exactly one Delete
   for each cached object f2 rejects, exactly one Create for each parent
   object newly accepted, and no event for objects that remain. *)
From KC Require Import Base Filter Cache CacheSpec CacheProps CacheEvents FilterSub FilterSubProps.

Lemma view_lookup_single f plist k e :
  entries_for k plist = [e] ->
  clookup k (view f plist) = if accept f (e_obj e) then Some e else None.
Proof.
  intros He. unfold view. rewrite sync_refines_spec, He. simpl clookup.
  unfold sync_spec, newest_accepted. simpl. rewrite Z.eqb_refl. simpl.
  destruct (accept f (e_obj e)); reflexivity.
Qed.

Lemma view_lookup_none f plist k : entries_for k plist = [] -> clookup k (view f plist) = None.
Proof. intros He. unfold view. rewrite sync_refines_spec, He. reflexivity. Qed.

Theorem refilter_delta_per_key f1 f2 plist k :
  distinct_listing plist ->
  kevs k (snd (do_sync (accept f2) (view f1 plist) plist)) =
  match entries_for k plist with
  | [e] => match accept f1 (e_obj e), accept f2 (e_obj e) with
           | true, false => [mk_event Delete (e_obj e)]      (* cached, now rejected *)
           | false, true => [mk_event Create (e_obj e)]      (* newly accepted *)
           | _, _ => []                                      (* remains, or stays out *)
           end
  | _ => []
  end.
Proof.
  intros Hd.
  assert (Hwf : wf_cache (view f1 plist)) by (unfold view; apply wf_do_sync, wf_nil).
  rewrite sync_events_per_key by exact Hwf.
  rewrite (refilter_exact f1 f2 plist Hd k).
  specialize (Hd k).
  destruct (entries_for k plist) as [|e [|e' es]] eqn:He; simpl in Hd; [| |lia].
  - rewrite !(view_lookup_none _ _ _ He). reflexivity.
  - rewrite !(view_lookup_single _ _ _ _ He).
    destruct (accept f1 (e_obj e)), (accept f2 (e_obj e)); simpl; try reflexivity.
    rewrite Z.ltb_irrefl. reflexivity.
Qed.
