(* Lifecycle.v — model of how shutdown travels through a tree of components
   (controller, publishers, subscriptions, filtered subscriptions, clones,
   monitors), as wired by builder.go, publisher.createSubscription,
   newFilterSubscription, newFilterPublisher, NewMonitor and the join
   goroutines:

     * every component has a go-lifecycle: Running -> Stopping
       (ShutdownInitiated) -> Done (ShutdownCompleted);
     * a component is stopped by its own Close (which reaches the
       subscription that feeds it) or because the component above it is
       stopping (WatchChannel(parent.ShuttingDown()), or its input Events()
       channel is closed);
     * it completes only after everything it waits for has completed: the
       components below it that it drains (publisher.run drains its
       subscriptions; controller.run waits for cache, watcher, lister).

   Nodes are numbered so that a parent has a smaller number than its children
   (creation order).  Definitions only. *)
From Coq Require Export List Arith Bool Lia.
Export ListNotations.

Inductive lstate := LRun | LStopping | LDoneS.

Definition lstate_eqb (a b : lstate) : bool :=
  match a, b with LRun, LRun | LStopping, LStopping | LDoneS, LDoneS => true | _, _ => false end.

(* parents: parent of node i (None for the root); states: one per node *)
Record ltree := { parents : list (option nat); states : list lstate }.

Definition parent_of (t : ltree) (i : nat) : option nat := nth i (parents t) None.
Definition state_of (t : ltree) (i : nat) : lstate := nth i (states t) LDoneS.
Definition nnodes (t : ltree) : nat := length (states t).

Fixpoint set_nth (i : nat) (x : lstate) (l : list lstate) : list lstate :=
  match l, i with
  | [], _ => []
  | _ :: l', O => x :: l'
  | y :: l', S i' => y :: set_nth i' x l'
  end.

Definition set_state (t : ltree) (i : nat) (x : lstate) : ltree :=
  {| parents := parents t; states := set_nth i x (states t) |}.

Definition children_done (t : ltree) (i : nat) : bool :=
  forallb (fun j => match parent_of t j with
                    | Some p => if Nat.eqb p i then lstate_eqb (state_of t j) LDoneS else true
                    | None => true
                    end) (seq 0 (nnodes t)).

Inductive lact :=
| LClose (i : nat)        (* Close() of node i / context cancel / fatal list error at the root *)
| LPropagate (i : nat)    (* node i notices that the node above it is stopping *)
| LFinish (i : nat).      (* node i has waited for everything below it: ShutdownCompleted *)

Definition lstep (t : ltree) (a : lact) : option ltree :=
  match a with
  | LClose i =>
      if Nat.ltb i (nnodes t) then
        match state_of t i with
        | LRun => Some (set_state t i LStopping)
        | _ => Some t                       (* Close on a stopping/stopped node is a no-op *)
        end
      else None
  | LPropagate i =>
      if Nat.ltb i (nnodes t) then
        match state_of t i, parent_of t i with
        | LRun, Some p =>
            match state_of t p with
            | LRun => None
            | _ => Some (set_state t i LStopping)
            end
        | _, _ => None
        end
      else None
  | LFinish i =>
      if Nat.ltb i (nnodes t) then
        match state_of t i with
        | LStopping => if children_done t i then Some (set_state t i LDoneS) else None
        | _ => None
        end
      else None
  end.

Fixpoint lrun (t : ltree) (l : list lact) : option ltree :=
  match l with
  | [] => Some t
  | a :: l' => match lstep t a with Some t' => lrun t' l' | None => None end
  end.

(* parents precede children *)
Definition well_formed (t : ltree) : Prop :=
  length (parents t) = length (states t) /\
  forall i p, parent_of t i = Some p -> p < i.

Definition all_running (t : ltree) : Prop := forall i, i < nnodes t -> state_of t i = LRun.

(* i is in the subtree of r *)
Fixpoint in_subtree (fuel : nat) (t : ltree) (r i : nat) : bool :=
  Nat.eqb i r ||
  match fuel with
  | O => false
  | S f => match parent_of t i with
           | Some p => in_subtree f t r p
           | None => false
           end
  end.

(* nothing internal is enabled *)
Definition lquiescent (t : ltree) : bool :=
  forallb (fun i => match lstep t (LPropagate i), lstep t (LFinish i) with
                    | None, None => true
                    | _, _ => false
                    end) (seq 0 (nnodes t)).

(* remaining work: 2 per running node, 1 per stopping node *)
Definition lmeasure (t : ltree) : nat :=
  fold_right (fun s acc => match s with LRun => 2 | LStopping => 1 | LDoneS => 0 end + acc) 0 (states t).

(* run internal actions to quiescence (used by the correspondence runner) *)
Fixpoint settle_tree (fuel : nat) (t : ltree) : ltree :=
  match fuel with
  | O => t
  | S f =>
      let try := fix try (is : list nat) : option ltree :=
        match is with
        | [] => None
        | i :: is' => match lstep t (LPropagate i) with
                      | Some t' => Some t'
                      | None => match lstep t (LFinish i) with
                                | Some t' => Some t'
                                | None => try is'
                                end
                      end
        end in
      match try (seq 0 (nnodes t)) with
      | Some t' => settle_tree f t'
      | None => t
      end
  end.

(* which nodes are done after closing node v in a tree of running nodes *)
Definition done_after_close (ps : list (option nat)) (v : nat) : list bool :=
  let t0 := {| parents := ps; states := map (fun _ => LRun) ps |} in
  match lstep t0 (LClose v) with
  | Some t1 => map (fun s => lstate_eqb s LDoneS) (states (settle_tree (3 * length ps) t1))
  | None => map (fun _ => false) ps
  end.
