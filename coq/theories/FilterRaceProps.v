(* FilterRaceProps.v — convergence of a filtered subscription in the racing
   case (C06). *)
From KC Require Import Base Cache CacheSpec CacheProps FilterSub FilterSubProps FilterRace.

(* ------------------------------------------------------------------ *)
(* the parent's history                                                 *)

Lemma below_trans_tle c a b : below c a -> tle a b -> below c b.
Proof.
  unfold below, tle. destruct a as [x|]; [|tauto]. intros H Hab.
  destruct b as [y|]; simpl in *; [|exact Hab].
  destruct H as [H| ->]; destruct Hab as [H2| ->]; auto. left. lia.
Qed.

Lemma tle_refl a : tle a a.
Proof. destruct a; simpl; auto. Qed.

Lemma tle_trans a b c : tle a b -> tle b c -> tle a c.
Proof.
  unfold tle. destruct a as [x|]; [|tauto]. intros H1 H2. eapply below_trans_tle; eassumption.
Qed.

Lemma tle_step top p ev : ev_ok top p ev -> tle top (top_after top ev).
Proof.
  unfold ev_ok, top_after. destruct (ev_ty ev).
  - intros [_ [e [-> Hv]]]. exact Hv.
  - intros [_ [e [-> Hv]]]. exact Hv.
  - intros _. apply tle_refl.
Qed.

Lemma hist_tle evs : forall top p, hist_ok top p evs -> tle top (tfold top evs).
Proof.
  induction evs as [|ev r IH]; intros top p H; simpl; [apply tle_refl|].
  destruct H as [Hev Hr]. eapply tle_trans; [eapply tle_step; exact Hev | eapply IH; exact Hr].
Qed.

(* the entry of a Create/Update event is below the newest entry at the end of
   the history it belongs to *)
Lemma entry_below_final ev r top p e :
  hist_ok top p (ev :: r) -> ev_ty ev <> Delete -> create_entry (ev_obj ev) = Some e ->
  below e (tfold top (ev :: r)).
Proof.
  intros [Hev Hr] Hty Hce. simpl.
  assert (Ht : top_after top ev = Some e).
  { unfold top_after. destruct (ev_ty ev); try exact Hce. contradiction. }
  pose proof (hist_tle r _ _ Hr) as H. rewrite Ht in *. simpl in H. exact H.
Qed.

Lemma hist_app a : forall top p b,
  hist_ok top p (a ++ b) <-> hist_ok top p a /\ hist_ok (tfold top a) (pfold p a) b.
Proof.
  induction a as [|ev a IH]; intros top p b; simpl; [tauto|].
  rewrite IH. tauto.
Qed.

Lemma pfold_app p a b : pfold p (a ++ b) = pfold (pfold p a) b.
Proof. unfold pfold. apply fold_left_app. Qed.
Lemma tfold_app t a b : tfold t (a ++ b) = tfold (tfold t a) b.
Proof. unfold tfold. apply fold_left_app. Qed.

(* if the parent holds an entry, it is the newest one seen *)
Definition ptop (p top : pstate) : Prop := forall e, p = Some e -> top = Some e.

Lemma ptop_step top p ev : ptop p top -> ev_ok top p ev -> ptop (papply p ev) (top_after top ev).
Proof.
  unfold ptop, papply, top_after, ev_ok. intros Hp Hev e.
  destruct (ev_ty ev); try discriminate; intros H; exact H.
Qed.

Lemma ptop_fold evs : forall top p, ptop p top -> hist_ok top p evs -> ptop (pfold p evs) (tfold top evs).
Proof.
  induction evs as [|ev r IH]; intros top p Hp H; simpl; [exact Hp|].
  destruct H as [Hev Hr]. apply IH; [apply ptop_step; assumption | exact Hr].
Qed.

(* ------------------------------------------------------------------ *)
(* replaying stale events                                               *)

(* an admissible child value: absent, or an accepted entry not newer than the
   newest entry seen *)
Definition adm (F : obj -> bool) (X : pstate) (top : pstate) : Prop :=
  match X with
  | None => True
  | Some c => F (e_obj c) = true /\ below c top
  end.

Lemma update_spec_cases F X ev :
  create_entry (ev_obj ev) <> None ->
  match ev_ty ev with
  | Delete => update_spec F X ev = None
  | _ => exists e, create_entry (ev_obj ev) = Some e /\
                   update_spec F X ev =
                   match X with
                   | None => if F (e_obj e) then Some e else None
                   | Some c => if Z.ltb (e_ver c) (e_ver e)
                               then (if F (e_obj e) then Some e else None)
                               else Some c
                   end
  end.
Proof.
  intros Hwf. unfold update_spec. destruct (create_entry (ev_obj ev)) as [e|] eqn:Hce; [|contradiction].
  pose proof (create_entry_obj _ _ Hce) as Hobj.
  destruct (ev_ty ev); try reflexivity; exists e; (split; [reflexivity|]); rewrite <- Hobj; reflexivity.
Qed.

Lemma ev_ok_wf top p ev : ev_ok top p ev -> create_entry (ev_obj ev) <> None.
Proof.
  unfold ev_ok. destruct (ev_ty ev).
  - intros [_ [e [-> _]]]. discriminate.
  - intros [_ [e [-> _]]]. discriminate.
  - tauto.
Qed.

(* replaying a non-empty well-formed stretch of history from ANY admissible
   value ends at the filter applied to the parent's final state *)
Lemma replay_stale F evs : forall top p X,
  evs <> [] -> hist_ok top p evs -> adm F X (tfold top evs) ->
  creplay F X evs = fview F (pfold p evs) /\ adm F (creplay F X evs) (tfold top evs).
Proof.
  induction evs as [|ev r IH]; intros top p X Hne Hh Ha; [contradiction|].
  pose proof Hh as [Hev Hr].
  pose proof (ev_ok_wf _ _ _ Hev) as Hwf.
  pose proof (update_spec_cases F X ev Hwf) as Hu.
  (* the value after this event is admissible w.r.t. the final top *)
  assert (Ha1 : adm F (update_spec F X ev) (tfold top (ev :: r))).
  { destruct (ev_ty ev) eqn:Hty.
    - destruct Hu as [e [Hce ->]].
      assert (Hb : below e (tfold top (ev :: r))) by (eapply entry_below_final; try eassumption; rewrite Hty; discriminate).
      destruct X as [c|].
      + destruct (Z.ltb (e_ver c) (e_ver e)); [|exact Ha].
        destruct (F (e_obj e)) eqn:HF; simpl; auto.
      + destruct (F (e_obj e)) eqn:HF; simpl; auto.
    - destruct Hu as [e [Hce ->]].
      assert (Hb : below e (tfold top (ev :: r))) by (eapply entry_below_final; try eassumption; rewrite Hty; discriminate).
      destruct X as [c|].
      + destruct (Z.ltb (e_ver c) (e_ver e)); [|exact Ha].
        destruct (F (e_obj e)) eqn:HF; simpl; auto.
      + destruct (F (e_obj e)) eqn:HF; simpl; auto.
    - rewrite Hu. exact I. }
  destruct r as [|ev2 r2].
  - (* the last stale event decides *)
    simpl. split; [|exact Ha1]. simpl in Ha.
    unfold papply, ev_ok in *. destruct (ev_ty ev) eqn:Hty.
    + destruct Hu as [e [Hce ->]]. rewrite Hce. simpl.
      unfold top_after in Ha. rewrite Hty, Hce in Ha.
      destruct X as [c|]; [|reflexivity].
      destruct Ha as [HF Hb]. simpl in Hb.
      destruct (Z.ltb_spec (e_ver c) (e_ver e)); [reflexivity|].
      destruct Hb as [Hb| ->]; [lia|]. rewrite HF. reflexivity.
    + destruct Hu as [e [Hce ->]]. rewrite Hce. simpl.
      unfold top_after in Ha. rewrite Hty, Hce in Ha.
      destruct X as [c|]; [|reflexivity].
      destruct Ha as [HF Hb]. simpl in Hb.
      destruct (Z.ltb_spec (e_ver c) (e_ver e)); [reflexivity|].
      destruct Hb as [Hb| ->]; [lia|]. rewrite HF. reflexivity.
    + rewrite Hu. reflexivity.
  - change (creplay F X (ev :: ev2 :: r2)) with (creplay F (update_spec F X ev) (ev2 :: r2)).
    change (pfold p (ev :: ev2 :: r2)) with (pfold (papply p ev) (ev2 :: r2)).
    change (tfold top (ev :: ev2 :: r2)) with (tfold (top_after top ev) (ev2 :: r2)) in *.
    apply IH; [discriminate | exact Hr | exact Ha1].
Qed.

(* ------------------------------------------------------------------ *)
(* the invariant                                                        *)

Record rinv (s : rst) : Prop := {
  i_ptop : ptop (r_P s) (r_top s);
  i_fut : hist_ok (r_top s) (r_P s) (r_fut s);
  i_pend : exists pj tj, ptop pj tj /\ hist_ok tj pj (r_pend s) /\
                         pfold pj (r_pend s) = r_P s /\ tfold tj (r_pend s) = r_top s;
  i_adm : adm (r_F s) (r_cur s) (r_top s);
  i_main : r_ready s = true -> creplay (r_F s) (r_cur s) (r_pend s) = fview (r_F s) (r_P s);
  i_notready : r_ready s = false -> r_cur s = None
}.

Lemma rinv_init F p0 hist : hist_ok p0 p0 hist -> rinv (rinit F p0 hist).
Proof.
  intros H. constructor; simpl; try discriminate; auto.
  - intros e He. exact He.
  - exists p0, p0. repeat split; auto. intros e He. exact He.
Qed.

(* sync_spec on the parent's listing of one key *)
Lemma sync_spec_listing F X P top :
  ptop P top -> adm F X top ->
  (X = fview F P \/ (exists e, P = Some e) \/ P = None) ->
  True.
Proof. trivial. Qed.

Lemma sync_listing_result F' X P top :
  ptop P top -> (forall c, X = Some c -> below c top) ->
  sync_spec F' X (plisting P) = fview F' P.
Proof.
  intros Hp Hb. unfold sync_spec, plisting, fview.
  destruct P as [e|]; simpl; [|reflexivity].
  pose proof (Hp e eq_refl) as Ht.
  unfold newest_accepted; simpl. rewrite Z.eqb_refl. simpl.
  destruct X as [c|]; [|reflexivity].
  specialize (Hb c eq_refl). rewrite Ht in Hb. simpl in Hb.
  destruct (Z.leb_spec (e_ver e) (e_ver c)) as [Hle|Hgt]; [|reflexivity].
  destruct Hb as [Hb| ->]; [lia|]. reflexivity.
Qed.

Lemma adm_fview F P top : ptop P top -> adm F (fview F P) top.
Proof.
  intros Hp. unfold fview. destruct P as [e|]; [|exact I].
  destruct (F (e_obj e)) eqn:HF; [|exact I]. simpl. split; [exact HF|].
  rewrite (Hp e eq_refl). simpl. right. reflexivity.
Qed.

Lemma adm_mono F X a b : adm F X a -> tle a b -> adm F X b.
Proof.
  unfold adm. destruct X as [c|]; [|tauto]. intros [HF Hb] Hab. split; [exact HF|].
  eapply below_trans_tle; eassumption.
Qed.

Lemma rinv_step s o s' : rinv s -> rstep s o = Some s' -> rinv s'.
Proof.
  intros [Hptop Hfut [pj [tj [Hpj [Hhp [Hpf Htf]]]]] Hadm Hmain Hnr] Hs.
  destruct s as [cur F rd pend fut P top]. simpl in *.
  destruct o as [|F' d]; simpl in Hs.
  - (* the child consumes an event *)
    destruct pend as [|ev r].
    + destruct fut as [|ev f]; [discriminate|]. injection Hs as <-.
      destruct Hfut as [Hev Hf].
      simpl in Hpf, Htf. subst pj tj.
      pose proof (tle_step _ _ _ Hev) as Htle.
      constructor; simpl.
      * apply ptop_step; assumption.
      * exact Hf.
      * exists (papply P ev), (top_after top ev). repeat split; auto. apply ptop_step; assumption.
      * destruct rd.
        -- (* in step before, in step after *)
           specialize (Hmain eq_refl). simpl in Hmain. subst cur.
           assert (Hone : hist_ok top P [ev]) by (simpl; auto).
           destruct (replay_stale F [ev] top P (fview F P) ltac:(discriminate) Hone) as [_ Ha].
           { eapply adm_mono; [apply adm_fview; exact Hptop|]. simpl. exact Htle. }
           exact Ha.
        -- rewrite (Hnr eq_refl). exact I.
      * intros Hr. subst rd. simpl. specialize (Hmain eq_refl). simpl in Hmain. subst cur.
        assert (Hone : hist_ok top P [ev]) by (simpl; auto).
        destruct (replay_stale F [ev] top P (fview F P) ltac:(discriminate) Hone) as [He _].
        { eapply adm_mono; [apply adm_fview; exact Hptop|]. simpl. exact Htle. }
        exact He.
      * intros Hr. subst rd. apply Hnr. reflexivity.
    + injection Hs as <-. destruct Hhp as [Hev Hr].
      constructor; simpl; auto.
      * exists (papply pj ev), (top_after tj ev). repeat split; auto. apply ptop_step; assumption.
      * destruct rd; [|exact Hadm].
        (* an entry added from a stale event is below the newest entry *)
        pose proof (ev_ok_wf _ _ _ Hev) as Hwf.
        pose proof (update_spec_cases F cur ev Hwf) as Hu.
        destruct (ev_ty ev) eqn:Hty.
        -- destruct Hu as [e [Hce ->]].
           assert (Hb : below e top).
           { rewrite <- Htf. eapply entry_below_final; [split; eassumption | rewrite Hty; discriminate | exact Hce]. }
           destruct cur as [c|].
           ++ destruct (Z.ltb (e_ver c) (e_ver e)); [|exact Hadm]. destruct (F (e_obj e)) eqn:HF; simpl; auto.
           ++ destruct (F (e_obj e)) eqn:HF; simpl; auto.
        -- destruct Hu as [e [Hce ->]].
           assert (Hb : below e top).
           { rewrite <- Htf. eapply entry_below_final; [split; eassumption | rewrite Hty; discriminate | exact Hce]. }
           destruct cur as [c|].
           ++ destruct (Z.ltb (e_ver c) (e_ver e)); [|exact Hadm]. destruct (F (e_obj e)) eqn:HF; simpl; auto.
           ++ destruct (F (e_obj e)) eqn:HF; simpl; auto.
        -- rewrite Hu. exact I.
      * intros Hrd. subst rd. apply Hmain. reflexivity.
      * intros Hrd. subst rd. apply Hnr. reflexivity.
  - (* the child lists the parent and syncs under a (new) filter *)
    injection Hs as <-.
    set (moved := firstn d fut) in *.
    assert (Hsplit : fut = moved ++ skipn d fut) by (symmetry; apply firstn_skipn).
    rewrite Hsplit in Hfut. apply hist_app in Hfut. destruct Hfut as [Hmv Hrest].
    pose proof (hist_tle moved _ _ Hmv) as Htle.
    assert (Hptop' : ptop (pfold P moved) (tfold top moved)) by (apply ptop_fold; assumption).
    assert (Hpend' : hist_ok tj pj (pend ++ moved)).
    { apply hist_app. split; [exact Hhp|]. rewrite Hpf, Htf. exact Hmv. }
    assert (Hcur' : sync_spec F' cur (plisting (pfold P moved)) = fview F' (pfold P moved)).
    { apply (sync_listing_result F' cur _ (tfold top moved) Hptop').
      intros c Hc. subst cur. destruct Hadm as [_ Hb]. eapply below_trans_tle; eassumption. }
    constructor; simpl.
    + exact Hptop'.
    + exact Hrest.
    + exists pj, tj. repeat split; auto.
      * rewrite pfold_app, Hpf. reflexivity.
      * rewrite tfold_app, Htf. reflexivity.
    + rewrite Hcur'. apply adm_fview. exact Hptop'.
    + intros _. rewrite Hcur'.
      assert (Hcase : pend ++ moved = [] \/ pend ++ moved <> [])
        by (destruct (pend ++ moved); [left; reflexivity | right; discriminate]).
      destruct Hcase as [He|Hne].
      * (* nothing stale: the child is in step at once *)
        rewrite He. reflexivity.
      * destruct (replay_stale F' (pend ++ moved) tj pj (fview F' (pfold P moved)) Hne Hpend') as [He _].
        { rewrite tfold_app, Htf. apply adm_fview. exact Hptop'. }
        rewrite He, pfold_app, Hpf. reflexivity.
    + discriminate.
Qed.

Theorem rinv_reachable F p0 hist l s :
  hist_ok p0 p0 hist -> rrun (rinit F p0 hist) l = Some s -> rinv s.
Proof.
  intros Hh.
  assert (H : forall s0, rinv s0 -> rrun s0 l = Some s -> rinv s).
  { induction l as [|o l IH]; intros s0 Hi Hr; simpl in Hr.
    - injection Hr as <-. exact Hi.
    - destruct (rstep s0 o) as [s1|] eqn:Hs; [|discriminate]. eapply IH; [|exact Hr]. eapply rinv_step; eassumption. }
  apply H, rinv_init, Hh.
Qed.

(* C06: for every interleaving of parent events, listings of the parent that
   are ahead of the child (by any number of events) and filter changes, once
   the child is ready and the stale events have drained, its cache is the most
   recently set filter applied to the parent's cache; when the whole history
   has been consumed, to the parent's final cache *)
Theorem fsub_converges F p0 hist l s :
  hist_ok p0 p0 hist -> rrun (rinit F p0 hist) l = Some s ->
  r_ready s = true -> r_pend s = [] ->
  r_cur s = fview (r_F s) (r_P s).
Proof.
  intros Hh Hr Hrd Hp. destruct (rinv_reachable F p0 hist l s Hh Hr) as [_ _ _ _ Hmain _].
  specialize (Hmain Hrd). rewrite Hp in Hmain. exact Hmain.
Qed.

(* r_P tracks the parent: with nothing pending and nothing in the future it is
   the parent's final state *)
Lemma rstep_history s o s' : rstep s o = Some s' ->
  forall p, pfold p (r_pend s ++ r_fut s) = pfold p (r_pend s ++ r_fut s) -> True.
Proof. trivial. Qed.

Definition consumed_all (s : rst) : Prop := r_pend s = [] /\ r_fut s = [].

Lemma parent_final_step s o s' pj :
  rstep s o = Some s' ->
  pfold pj (r_pend s) = r_P s ->
  exists pj', pfold pj' (r_pend s') = r_P s' /\ pfold (r_P s') (r_fut s') = pfold (r_P s) (r_fut s).
Proof.
  intros Hs Hp. destruct s as [cur F rd pend fut P top]. simpl in *.
  destruct o as [|F' d]; simpl in Hs.
  - destruct pend as [|ev r].
    + destruct fut as [|ev f]; [discriminate|]. injection Hs as <-. simpl.
      exists (papply P ev). split; reflexivity.
    + injection Hs as <-. simpl. exists (papply pj ev). split; [exact Hp | reflexivity].
  - injection Hs as <-. simpl. exists pj. split.
    + rewrite pfold_app, Hp. reflexivity.
    + rewrite <- pfold_app, firstn_skipn. reflexivity.
Qed.

Theorem fsub_converges_to_final F p0 hist l s :
  hist_ok p0 p0 hist -> rrun (rinit F p0 hist) l = Some s ->
  r_ready s = true -> consumed_all s ->
  r_cur s = fview (r_F s) (pfold p0 hist).
Proof.
  intros Hh Hr Hrd [Hp Hf].
  rewrite (fsub_converges F p0 hist l s Hh Hr Hrd Hp). f_equal.
  assert (H : forall s0 pj, pfold pj (r_pend s0) = r_P s0 -> rrun s0 l = Some s ->
              pfold (r_P s) (r_fut s) = pfold (r_P s0) (r_fut s0)).
  { clear. induction l as [|o l IH]; intros s0 pj Hpj Hr; simpl in Hr.
    - injection Hr as <-. reflexivity.
    - destruct (rstep s0 o) as [s1|] eqn:Hs; [|discriminate].
      destruct (parent_final_step s0 o s1 pj Hs Hpj) as [pj' [Hpj' Heq]].
      rewrite (IH s1 pj' Hpj' Hr). exact Heq. }
  specialize (H (rinit F p0 hist) p0 eq_refl Hr). simpl in H. rewrite Hf in H. simpl in H. exact H.
Qed.

(* non-vacuity: the child lists the parent when it is two events ahead (the
   object has been deleted and re-created meanwhile), under a new filter, and
   then replays the stale events, deletes included *)
Definition o1 (id : N) (rv : list N) (lbl : lmap) : obj :=
  {| o_id := id; o_kind := KPod; o_ns := 1%N; o_nm := 1%N; o_rv := rv; o_labels := lbl; o_spec := SPod 0%N |}.
Example race_example :
  let hist := [mk_event Create (o1 1 [49%N] [(1%N, 1%N)]);     (* a@1 labelled *)
               mk_event Delete (o1 2 [50%N] [(1%N, 1%N)]);     (* deleted @2 *)
               mk_event Create (o1 3 [51%N] [])] in            (* a@3 unlabelled *)
  hist_ok None None hist /\
  exists s, rrun (rinit (fun _ => true) None hist)
                 [RSyncOp (fun _ => true) 1; RSyncOp (fun o => match o_labels o with [] => true | _ => false end) 2;
                  REvent; REvent; REvent] = Some s /\
            r_ready s = true /\ consumed_all s /\
            option_map (fun e => o_id (e_obj e)) (r_cur s) = Some 3%N.
Proof.
  simpl. split.
  - repeat split; try discriminate; try (eexists; split; [reflexivity | simpl; auto; try (left; vm_compute; reflexivity)]).
  - eexists. split; [vm_compute; reflexivity|]. vm_compute. repeat split; reflexivity.
Qed.

(* ------------------------------------------------------------------ *)
(* the per-key semantics above IS what the cache operations do on each key *)

Lemma entries_for_do_list parent k :
  wf_cache parent -> entries_for k (do_list parent) = plisting (clookup k parent).
Proof.
  intros [Hnd Hall]. unfold do_list.
  induction parent as [|[k' e'] parent IH]; simpl; [reflexivity|].
  inversion Hnd as [|? ? Hnotin Hnd']; subst. inversion Hall as [|? ? Hok Hall']; subst.
  destruct Hok as [Hk Hce]. simpl in Hk, Hce.
  unfold entries_for. simpl flat_map. fold (entries_for k (map (fun ke => e_obj (snd ke)) parent)).
  rewrite Hk, Hce. rewrite (keqb_sym k k').
  destruct (keqb_spec k' k) as [->|Hne].
  - simpl. rewrite (IH Hnd' Hall').
    assert (Hn : clookup k parent = None) by (apply clookup_None_notin; exact Hnotin). rewrite Hn. reflexivity.
  - simpl. apply IH; assumption.
Qed.

Theorem child_sync_per_key F' child parent k :
  wf_cache parent ->
  clookup k (fst (do_sync F' child (do_list parent))) =
  sync_spec F' (clookup k child) (plisting (clookup k parent)).
Proof. intros Hwf. rewrite sync_refines_spec, entries_for_do_list by exact Hwf. reflexivity. Qed.

Theorem child_update_per_key F child ev k :
  clookup k (fst (do_update F child ev)) =
  if key_eqb (key_of (ev_obj ev)) k then update_spec F (clookup k child) ev else clookup k child.
Proof. apply update_refines_spec. Qed.

(* and the parent's own cache moves as papply says on the event's key *)
Theorem parent_apply_per_key parent ev parent' :
  apply_event parent ev = Some parent' ->
  clookup (key_of (ev_obj ev)) parent' = papply (clookup (key_of (ev_obj ev)) parent) ev.
Proof.
  intros H. rewrite (apply_event_lookup _ _ _ _ H), keqb_refl. unfold papply.
  destruct (ev_ty ev); reflexivity.
Qed.
