(* Pipeline.v — model of publisher.go / subscription.go: a publisher fans
   every event out to its subscriptions; a subscription is a bounded FIFO
   (EventBufsiz) with non-blocking enqueue-or-drop-newest; a clone is a
   publisher fed by what it reads from its own subscription.  A subscription
   that was closed stays in the publisher's table until its unsubscribe is
   handled: sending to it fails (the error is ignored) and the fan-out goes
   on to the others; what it had buffered can still be received.
   Definitions only. *)
From Coq Require Export List Arith Bool Lia.
Export ListNotations.

Section Pipeline.
  Variable E : Type.

  Record sub := {
    s_from : nat;           (* events the publisher had published when this subscription was created *)
    s_cap : nat;            (* EventBufsiz *)
    s_queue : list E;       (* outch *)
    s_passed : list E;      (* what the consumer has received *)
    s_drops : nat;          (* events dropped because outch was full *)
    s_closed : option nat   (* Some k: closed when the publisher had published k events *)
  }.

  (* subscription.run: case evt := <-s.inch: select { case s.outch <- evt: default: } *)
  Definition push (e : E) (s : sub) : sub :=
    match s_closed s with
    | Some _ => s   (* sub.send returns ErrNotRunning; distributeEvent ignores it *)
    | None =>
      if Nat.ltb (length (s_queue s)) (s_cap s)
      then {| s_from := s_from s; s_cap := s_cap s; s_queue := s_queue s ++ [e]; s_passed := s_passed s; s_drops := s_drops s; s_closed := None |}
      else {| s_from := s_from s; s_cap := s_cap s; s_queue := s_queue s; s_passed := s_passed s; s_drops := S (s_drops s); s_closed := None |}
    end.

  (* the consumer receives from Events() *)
  Definition pop (s : sub) : option (E * sub) :=
    match s_queue s with
    | [] => None
    | e :: q => Some (e, {| s_from := s_from s; s_cap := s_cap s; s_queue := q; s_passed := s_passed s ++ [e]; s_drops := s_drops s; s_closed := s_closed s |})
    end.

  Record pub := { p_seen : list E; p_subs : list sub }.

  Definition pub_init : pub := {| p_seen := []; p_subs := [] |}.

  (* publisher.distributeEvent: send to every subscription; never blocks *)
  Definition publish (e : E) (p : pub) : pub :=
    {| p_seen := p_seen p ++ [e]; p_subs := map (push e) (p_subs p) |}.

  (* publisher.createSubscription *)
  Definition subscribe (cap : nat) (p : pub) : pub :=
    {| p_seen := p_seen p;
       p_subs := p_subs p ++ [{| s_from := length (p_seen p); s_cap := cap; s_queue := []; s_passed := []; s_drops := 0; s_closed := None |}] |}.

  Fixpoint read_nth (i : nat) (l : list sub) : list sub :=
    match l, i with
    | [], _ => []
    | s :: l', O => match pop s with Some (_, s') => s' :: l' | None => s :: l' end
    | s :: l', S i' => s :: read_nth i' l'
    end.

  Definition read (i : nat) (p : pub) : pub := {| p_seen := p_seen p; p_subs := read_nth i (p_subs p) |}.

  (* Subscription.Close(): lifecycle shutdown; run() returns and closes outch,
     whose buffered events remain receivable *)
  Definition close_sub (k : nat) (s : sub) : sub :=
    match s_closed s with
    | Some _ => s
    | None => {| s_from := s_from s; s_cap := s_cap s; s_queue := s_queue s; s_passed := s_passed s; s_drops := s_drops s; s_closed := Some k |}
    end.

  Fixpoint close_nth (k i : nat) (l : list sub) : list sub :=
    match l, i with
    | [], _ => []
    | s :: l', O => close_sub k s :: l'
    | s :: l', S i' => s :: close_nth k i' l'
    end.

  Definition pclose (i : nat) (p : pub) : pub :=
    {| p_seen := p_seen p; p_subs := close_nth (length (p_seen p)) i (p_subs p) |}.

  Inductive pact := PPublish (e : E) | PSubscribe (cap : nat) | PRead (i : nat) | PClose (i : nat).

  Definition pstep (p : pub) (a : pact) : pub :=
    match a with
    | PPublish e => publish e p
    | PSubscribe cap => subscribe cap p
    | PRead i => read i p
    | PClose i => pclose i p
    end.

  Definition prun (l : list pact) : pub := fold_left pstep l pub_init.

  (* in-order subsequence *)
  Inductive subseq : list E -> list E -> Prop :=
  | sub_nil : forall l, subseq [] l
  | sub_take : forall x l1 l2, subseq l1 l2 -> subseq (x :: l1) (x :: l2)
  | sub_skip : forall x l1 l2, subseq l1 l2 -> subseq l1 (x :: l2).

  (* what a consumer created when k events had been published must see *)
  Definition expected_suffix (k : nat) (published : list E) : list E := skipn k published.

  (* a path of clones: level i = (events published at creation, received, queued) *)
  Definition level := (nat * list E * list E)%type.

  Fixpoint chain_ok (seen : list E) (levels : list level) : Prop :=
    match levels with
    | [] => True
    | (k, passed, q) :: rest => passed ++ q = skipn k seen /\ k <= length seen /\ chain_ok passed rest
    end.

  Fixpoint inflight (levels : list level) : list E :=
    match levels with
    | [] => []
    | (_, _, q) :: rest => inflight rest ++ q
    end.

  Fixpoint leaf_passed (seen : list E) (levels : list level) : list E :=
    match levels with
    | [] => seen
    | (_, passed, _) :: rest => leaf_passed passed rest
    end.

  Fixpoint total_skip (levels : list level) : nat :=
    match levels with
    | [] => 0
    | (k, _, _) :: rest => k + total_skip rest
    end.
End Pipeline.

Arguments push {E}. Arguments pop {E}. Arguments publish {E}. Arguments subscribe {E}.
Arguments read {E}. Arguments pstep {E}. Arguments prun {E}. Arguments pub_init {E}.
Arguments subseq {E}. Arguments expected_suffix {E}. Arguments chain_ok {E}. Arguments inflight {E}.
Arguments leaf_passed {E}. Arguments total_skip {E}.
Arguments s_from {E}. Arguments s_cap {E}. Arguments s_queue {E}. Arguments s_passed {E}. Arguments s_drops {E}.
Arguments p_seen {E}. Arguments p_subs {E}.
Arguments PPublish {E}. Arguments PSubscribe {E}. Arguments PRead {E}. Arguments PClose {E}.
Arguments s_closed {E}. Arguments close_sub {E}. Arguments pclose {E}.

(* what the correspondence compares after an operation sequence: per
   subscription, what its consumer has received, what is still queued and how
   many events were dropped *)
Definition prun_view (l : list (pact nat)) : list (list nat * list nat * nat) :=
  map (fun s => (s_passed s, s_queue s, s_drops s)) (p_subs (prun l)).
