(* CacheActorProps.v — linearizability of the cache actor (C15). *)
From KC Require Import Base Cache CacheActor.

(* (b) the replies are those of the sequential specification run in service
   order: every List/Get returns the complete content at its service point,
   never a half-applied relist or refilter *)
Definition served_reqs (s : ast) : list req := map (fun x => snd (fst x)) (a_served s).
Definition served_resps (s : ast) : list resp := map snd (a_served s).

Definition ainv (s0 : cstate) (s : ast) : Prop :=
  seq_run s0 (served_reqs s) = (a_state s, served_resps s).

Lemma seq_run_app s rs r :
  seq_run s (rs ++ [r]) =
  let (s1, ps) := seq_run s rs in let (s2, p) := serve s1 r in (s2, ps ++ [p]).
Proof.
  revert s. induction rs as [|x rs IH]; intros s; simpl.
  - destruct (serve s r). reflexivity.
  - destruct (serve s x) as [s1 p1]. rewrite IH. destruct (seq_run s1 rs) as [s2 ps].
    destruct (serve s2 r). reflexivity.
Qed.

Lemma ainv_step s0 s a s' : ainv s0 s -> astep s a = Some s' -> ainv s0 s'.
Proof.
  unfold ainv. intros H Hs. destruct a as [c r|c|c]; simpl in Hs.
  - destruct (assoc c (a_pending s)); [discriminate|]. destruct (assoc c (a_replied s)); [discriminate|].
    injection Hs as <-. exact H.
  - destruct (assoc c (a_pending s)) as [r|]; [|discriminate].
    destruct (serve (a_state s) r) as [st' p] eqn:Hsv. injection Hs as <-.
    unfold served_reqs, served_resps in *. simpl. rewrite !map_app. simpl.
    rewrite seq_run_app, H, Hsv. reflexivity.
  - destruct (assoc c (a_replied s)); [|discriminate]. destruct (assoc c (a_calltime s)); [|discriminate].
    destruct (assoc c (a_servetime s)); [|discriminate]. injection Hs as <-. exact H.
Qed.

Theorem actor_sequential_in_service_order s0 l s :
  arun (ainit s0) l = Some s -> seq_run s0 (served_reqs s) = (a_state s, served_resps s).
Proof.
  assert (H : forall st, ainv s0 st -> arun st l = Some s -> ainv s0 s).
  { induction l as [|a l IH]; intros st Hi Hr; simpl in Hr.
    - injection Hr as <-. exact Hi.
    - destruct (astep st a) as [st'|] eqn:Hs; [|discriminate]. eapply IH; [|exact Hr]. eapply ainv_step; eassumption. }
  apply H. unfold ainv. reflexivity.
Qed.

(* (a) real-time order: every completed operation was served between its call
   and its return *)
Definition times_ok (s : ast) : Prop :=
  (forall c tc, assoc c (a_calltime s) = Some tc -> tc <= a_time s) /\
  (forall c ts, assoc c (a_servetime s) = Some ts -> ts <= a_time s) /\
  (forall c r, assoc c (a_pending s) = Some r -> exists tc, assoc c (a_calltime s) = Some tc) /\
  (forall c p, assoc c (a_replied s) = Some p ->
     exists tc ts, assoc c (a_calltime s) = Some tc /\ assoc c (a_servetime s) = Some ts /\ tc < ts) /\
  Forall (fun x => match x with (_, tc, ts, tr) => tc < ts /\ ts < tr end) (a_log s).

Lemma assoc_remove_other {A} c c' (l : list (client * A)) : c <> c' -> assoc c (remove_assoc c' l) = assoc c l.
Proof.
  intros Hne. induction l as [|[c2 a] l IH]; simpl; [reflexivity|].
  destruct (Nat.eqb_spec c' c2) as [->|H2]; simpl.
  - destruct (Nat.eqb_spec c c2); [contradiction | reflexivity].
  - destruct (Nat.eqb_spec c c2); [reflexivity | exact IH].
Qed.

Lemma assoc_app {A} c (l1 l2 : list (client * A)) :
  assoc c (l1 ++ l2) = match assoc c l1 with Some a => Some a | None => assoc c l2 end.
Proof. induction l1 as [|[c' a] l1 IH]; simpl; [reflexivity|]. destruct (Nat.eqb c c'); [reflexivity | exact IH]. Qed.

Lemma times_ok_step s a s' : times_ok s -> astep s a = Some s' -> times_ok s'.
Proof.
  intros [H1 [H2 [H3 [H4 H5]]]] Hs. destruct a as [c r|c|c]; simpl in Hs.
  - destruct (assoc c (a_pending s)) eqn:Hp; [discriminate|]. destruct (assoc c (a_replied s)) eqn:Hr; [discriminate|].
    injection Hs as <-. unfold times_ok; simpl. repeat split.
    + intros c0 tc. destruct (Nat.eqb_spec c0 c) as [->|Hne]; [intros [= <-]; lia|].
      rewrite assoc_remove_other by exact Hne. intros H. specialize (H1 _ _ H). lia.
    + intros c0 ts H. specialize (H2 _ _ H). lia.
    + intros c0 r0. rewrite assoc_app. destruct (Nat.eqb_spec c0 c) as [->|Hne].
      * intros _. exists (S (a_time s)). reflexivity.
      * destruct (assoc c0 (a_pending s)) eqn:Hp0.
        -- intros _. rewrite assoc_remove_other by exact Hne. eapply H3, Hp0.
        -- simpl. destruct (Nat.eqb_spec c0 c); [contradiction | discriminate].
    + intros c0 p H. destruct (Nat.eqb_spec c0 c) as [->|Hne]; [rewrite Hr in H; discriminate|].
      rewrite assoc_remove_other by exact Hne. eapply H4, H.
    + exact H5.
  - destruct (assoc c (a_pending s)) as [r|] eqn:Hp; [|discriminate].
    destruct (serve (a_state s) r) as [st' p]. injection Hs as <-. unfold times_ok; simpl. repeat split.
    + intros c0 tc H. specialize (H1 _ _ H). lia.
    + intros c0 ts. destruct (Nat.eqb_spec c0 c) as [->|Hne]; [intros [= <-]; lia|].
      rewrite assoc_remove_other by exact Hne. intros H. specialize (H2 _ _ H). lia.
    + intros c0 r0. destruct (Nat.eqb_spec c0 c) as [->|Hne].
      * intros _. eapply H3, Hp.
      * rewrite assoc_remove_other by exact Hne. apply H3.
    + intros c0 p0. rewrite assoc_app. destruct (Nat.eqb_spec c0 c) as [->|Hne].
      * intros _. destruct (H3 _ _ Hp) as [tc Htc]. exists tc, (S (a_time s)).
        repeat split; [exact Htc|]. specialize (H1 _ _ Htc). lia.
      * destruct (assoc c0 (a_replied s)) eqn:Hr0.
        -- intros _. destruct (H4 _ _ Hr0) as [tc [ts [Ha [Hb Hc]]]]. exists tc, ts.
           rewrite assoc_remove_other by exact Hne. auto.
        -- simpl. destruct (Nat.eqb_spec c0 c); [contradiction | discriminate].
    + exact H5.
  - destruct (assoc c (a_replied s)) as [p|] eqn:Hr; [|discriminate].
    destruct (assoc c (a_calltime s)) as [tc|] eqn:Hc; [|discriminate].
    destruct (assoc c (a_servetime s)) as [ts|] eqn:Hsv; [|discriminate].
    injection Hs as <-. unfold times_ok; simpl. repeat split.
    + intros c0 t0 H. specialize (H1 _ _ H). lia.
    + intros c0 t0 H. specialize (H2 _ _ H). lia.
    + exact H3.
    + intros c0 p0. destruct (Nat.eqb_spec c0 c) as [->|Hne].
      * intros H. (* c's reply was just taken; a second one would need a new call *)
        destruct (H4 _ _ Hr) as [tc' [ts' [Ha [Hb Hcc]]]]. exists tc', ts'. auto.
      * rewrite assoc_remove_other by exact Hne. apply H4.
    + apply Forall_app. split; [exact H5|]. constructor; [|constructor].
      destruct (H4 _ _ Hr) as [tc' [ts' [Ha [Hb Hcc]]]].
      rewrite Hc in Ha. rewrite Hsv in Hb. injection Ha as <-. injection Hb as <-.
      specialize (H2 _ _ Hsv). split; lia.
Qed.

Theorem served_between_call_and_return s0 l s :
  arun (ainit s0) l = Some s ->
  Forall (fun x => match x with (_, tc, ts, tr) => tc < ts /\ ts < tr end) (a_log s).
Proof.
  assert (H : forall st, times_ok st -> arun st l = Some s -> times_ok s).
  { induction l as [|a l IH]; intros st Hi Hr; simpl in Hr.
    - injection Hr as <-. exact Hi.
    - destruct (astep st a) as [st'|] eqn:Hs; [|discriminate]. eapply IH; [|exact Hr]. eapply times_ok_step; eassumption. }
  intros Hr. assert (Hi : times_ok (ainit s0)).
  { unfold times_ok, ainit; simpl. repeat split; intros; try discriminate. constructor. }
  destruct (H _ Hi Hr) as [_ [_ [_ [_ H5]]]]. exact H5.
Qed.

(* reads change nothing: a List or Get leaves the content as it is, and the
   returned list is a value of its own *)
Theorem reads_do_not_modify s : fst (serve s RList) = s /\ forall k, fst (serve s (RGet k)) = s.
Proof. split; reflexivity. Qed.

Theorem list_returns_whole_content s : snd (serve s RList) = PList (do_list (c_items s)).
Proof. reflexivity. Qed.
