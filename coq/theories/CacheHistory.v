(* CacheHistory.v — the events a cache emits, key by key, are a well-formed
   history in the sense of FilterRaceGen.hist_wf: whatever sequence of syncs,
   watch updates and refilters it performs, the events on one key fold from the
   key's entry before to the key's entry after.  This is the per-key form of C02
   that the racing theorems of C06 consume; with FilterChain it gives: under
   ANY cache history of the root and ANY interleavings below it, a chain of
   filtered nodes converges to the conjunction of its filters applied to the
   root cache. *)
From KC Require Import Base Cache CacheSpec CacheProps CacheEvents FilterSub FilterSubProps FilterRace FilterRaceProps FilterRaceGen FilterChain.

Lemma lookup_entry_wf k c e : wf_cache c -> clookup k c = Some e -> entry_wf (Some e).
Proof. intros Hwf Hl. destruct (wf_lookup_ok k e c Hwf Hl) as [_ H]. exact H. Qed.

Lemma lookup_wf k c : wf_cache c -> entry_wf (clookup k c).
Proof. intros Hwf. destruct (clookup k c) as [e|] eqn:Hl; [eapply lookup_entry_wf; eassumption | exact I]. Qed.

(* sync_spec only ever replaces an entry by a strictly newer one *)
Lemma newest_accepted_ver F vmax es e : newest_accepted F vmax es = Some e -> e_ver e = vmax.
Proof.
  unfold newest_accepted. intros H. apply find_some in H. destruct H as [_ H].
  apply andb_true_iff in H. destruct H as [H _]. apply Z.eqb_eq in H. exact H.
Qed.

Lemma sync_spec_trans F cur es : trans_ok cur (sync_spec F cur es).
Proof.
  unfold sync_spec, trans_ok. destruct (max_ver es) as [vmax|]; [|destruct cur; exact I].
  destruct cur as [c|]; [|destruct (newest_accepted F vmax es); exact I].
  destruct (Z.leb_spec vmax (e_ver c)).
  - destruct (F (e_obj c)); [left; reflexivity | exact I].
  - destruct (newest_accepted F vmax es) as [e|] eqn:Hn; [|exact I]. right.
    rewrite (newest_accepted_ver _ _ _ _ Hn). lia.
Qed.

(* one doSync, on one key *)
Lemma sync_key_history F c l k : wf_cache c ->
  hist_wf (clookup k c) (kevs k (snd (do_sync F c l))) /\
  pfold (clookup k c) (kevs k (snd (do_sync F c l))) = clookup k (fst (do_sync F c l)).
Proof.
  intros Hwf. rewrite sync_events_per_key by exact Hwf.
  pose proof (wf_do_sync F c l Hwf) as Hwf'.
  pose proof (sync_spec_trans F (clookup k c) (entries_for k l)) as Ht. rewrite <- sync_refines_spec in Ht.
  pose proof (cev_wf _ _ Ht (lookup_wf k c Hwf) (lookup_wf k _ Hwf')) as H. unfold cev in H.
  destruct (clookup k c) as [c0|], (clookup k (fst (do_sync F c l))) as [e|]; exact H.
Qed.

(* one doUpdate, on one key *)
Lemma update_key_history F c ev k : wf_cache c ->
  hist_wf (clookup k c) (kevs k (snd (do_update F c ev))) /\
  pfold (clookup k c) (kevs k (snd (do_update F c ev))) = clookup k (fst (do_update F c ev)).
Proof.
  intros Hwf. rewrite update_refines_spec.
  unfold do_update, update_spec, create_entry, kevs.
  destruct (atoi (o_rv (ev_obj ev))) as [v|] eqn:Ha.
  2:{ simpl. destruct (key_eqb _ _); split; try exact I; reflexivity. }
  set (e := {| e_ver := v; e_obj := ev_obj ev |}).
  assert (Hce : create_entry (ev_obj ev) = Some e) by (unfold create_entry; rewrite Ha; reflexivity).
  destruct (keqb_spec (key_of (ev_obj ev)) k) as [Hk|Hne].
  - (* the event is on this key *)
    subst k. pose proof (lookup_wf (key_of (ev_obj ev)) c Hwf) as Hlw.
    assert (Hown : forall t, on_key (key_of (ev_obj ev)) (mk_event t (ev_obj ev)) = true)
      by (intros t; unfold on_key; simpl; apply keqb_refl).
    assert (Hown' : on_key (key_of (ev_obj ev)) ev = true) by (unfold on_key; apply keqb_refl).
    assert (Hcu : forall t, create_entry (ev_obj (mk_event t (ev_obj ev))) = Some e) by (intros t; exact Hce).
    change (e_ver e) with v.
    destruct (clookup (key_of (ev_obj ev)) c) as [cu|] eqn:Hl.
    + (* cached *)
      destruct (ev_ty ev) eqn:Hty.
      * destruct (Z.ltb_spec (e_ver cu) v) as [Hlt|Hge]; [|simpl; split; [exact I | reflexivity]].
        destruct (F (ev_obj ev)); cbn [snd List.filter]; rewrite Hown; cbn [hist_wf pfold fold_left];
          unfold papply, ev_wf; cbn [ev_ty mk_event]; rewrite Hcu.
        -- split; [|reflexivity]. split; [|exact I]. exists cu, e. repeat split. exact Hlt.
        -- split; [|reflexivity]. split; [|exact I]. split; discriminate.
      * destruct (Z.ltb_spec (e_ver cu) v) as [Hlt|Hge]; [|simpl; split; [exact I | reflexivity]].
        destruct (F (ev_obj ev)); cbn [snd List.filter]; rewrite Hown; cbn [hist_wf pfold fold_left];
          unfold papply, ev_wf; cbn [ev_ty mk_event]; rewrite Hcu.
        -- split; [|reflexivity]. split; [|exact I]. exists cu, e. repeat split. exact Hlt.
        -- split; [|reflexivity]. split; [|exact I]. split; discriminate.
      * cbn [snd List.filter]. rewrite Hown'. cbn [hist_wf pfold fold_left]. unfold papply, ev_wf. rewrite Hty, Hce.
        split; [|reflexivity]. split; [|exact I]. split; discriminate.
    + (* not cached *)
      destruct (ev_ty ev) eqn:Hty.
      * destruct (F (ev_obj ev)); cbn [snd List.filter]; [|split; [exact I | reflexivity]].
        rewrite Hown. cbn [hist_wf pfold fold_left]. unfold papply, ev_wf. cbn [ev_ty mk_event]. rewrite Hcu.
        split; [|reflexivity]. split; [|exact I]. split; [reflexivity|]. exists e. reflexivity.
      * destruct (F (ev_obj ev)); cbn [snd List.filter]; [|split; [exact I | reflexivity]].
        rewrite Hown. cbn [hist_wf pfold fold_left]. unfold papply, ev_wf. cbn [ev_ty mk_event]. rewrite Hcu.
        split; [|reflexivity]. split; [|exact I]. split; [reflexivity|]. exists e. reflexivity.
      * simpl. split; [exact I | reflexivity].
  - (* another key: nothing on k *)
    assert (Hnone : forall evs, (forall x, In x evs -> key_of (ev_obj x) = key_of (ev_obj ev)) -> List.filter (on_key k) evs = []).
    { induction evs as [|x evs IH]; intros H; simpl; [reflexivity|].
      unfold on_key at 1. rewrite (H x (or_introl eq_refl)).
      destruct (keqb_spec (key_of (ev_obj ev)) k); [contradiction|]. apply IH. intros y Hy. apply H. right. exact Hy. }
    assert (Hev : List.filter (on_key k) (snd
              (match ev_ty ev with
               | Delete => match clookup (key_of (ev_obj ev)) c with Some _ => (cremove (key_of (ev_obj ev)) c, [ev]) | None => (c, []) end
               | _ => match clookup (key_of (ev_obj ev)) c with
                      | None => if F (ev_obj ev) then (cset (key_of (ev_obj ev)) e c, [mk_event Create (ev_obj ev)]) else (c, [])
                      | Some cu => if Z.ltb (e_ver cu) v
                                   then (if F (ev_obj ev) then (cset (key_of (ev_obj ev)) e c, [mk_event Update (ev_obj ev)])
                                         else (cremove (key_of (ev_obj ev)) c, [mk_event Delete (ev_obj ev)]))
                                   else (c, [])
                      end
               end)) = []).
    { apply Hnone. intros x Hx.
      destruct (ev_ty ev); destruct (clookup (key_of (ev_obj ev)) c) as [cu|];
        try destruct (Z.ltb (e_ver cu) v); try destruct (F (ev_obj ev)); simpl in Hx;
        try contradiction; destruct Hx as [<-|[]]; reflexivity. }
    fold e. rewrite Hev. simpl. split; [exact I | reflexivity].
Qed.

(* ------------------------------------------------------------------ *)
(* histories of operations                                              *)

Fixpoint ops_events (s : cstate) (ops : list op) : list event :=
  match ops with
  | [] => []
  | o :: ops' => snd (do_op s o) ++ ops_events (fst (do_op s o)) ops'
  end.

Lemma op_key_history s o k : wf_state s ->
  hist_wf (clookup k (c_items s)) (kevs k (snd (do_op s o))) /\
  pfold (clookup k (c_items s)) (kevs k (snd (do_op s o))) = clookup k (c_items (fst (do_op s o))).
Proof.
  intros Hwf. destruct o as [l|ev|F' l]; simpl.
  - pose proof (sync_key_history (c_filter s) (c_items s) l k Hwf) as H. destruct (do_sync _ _ _). exact H.
  - pose proof (update_key_history (c_filter s) (c_items s) ev k Hwf) as H. destruct (do_update _ _ _). exact H.
  - unfold do_refilter. pose proof (sync_key_history F' (c_items s) l k Hwf) as H. destruct (do_sync _ _ _). exact H.
Qed.

(* C02, per key, over whole histories: every sequence of syncs, watch updates
   and refilters emits, on each key, a well-formed history that folds from the
   key's entry before to its entry after *)
Theorem cache_emits_wf_history : forall ops s k, wf_state s ->
  hist_wf (clookup k (c_items s)) (kevs k (ops_events s ops)) /\
  pfold (clookup k (c_items s)) (kevs k (ops_events s ops)) = clookup k (c_items (run_ops s ops)).
Proof.
  induction ops as [|o ops IH]; intros s k Hwf; simpl.
  - split; [exact I | reflexivity].
  - rewrite kevs_app. destruct (op_key_history s o k Hwf) as [H1 H2].
    destruct (IH (fst (do_op s o)) k (wf_do_op s o Hwf)) as [H3 H4].
    split.
    + apply hist_wf_app'; [exact H1 | rewrite H2; exact H3].
    + rewrite pfold_app, H2. exact H4.
Qed.

(* C06 end to end, per key: the root cache performs ANY sequence of syncs,
   watch updates and refilters; below it hangs a chain of filtered nodes of ANY
   depth, each with ANY interleaving of consuming its parent's events, listing
   its parent ahead of them and Refilters.  When every node is ready and has
   consumed everything, the entry at the bottom is the conjunction of the
   filters most recently set along the chain applied to the root cache's entry *)
Theorem tree_converges_to_root_cache : forall F0 ops k levels fs bottom,
  chain None (kevs k (ops_events (init_state F0) ops)) levels = Some (fs, bottom) ->
  bottom = fview (fun o => forallb (fun F => F o) fs) (clookup k (c_items (run_ops (init_state F0) ops))).
Proof.
  intros F0 ops k levels fs bottom H.
  assert (Hwf : wf_state (init_state F0)) by (unfold wf_state, init_state; simpl; apply wf_nil).
  destruct (cache_emits_wf_history ops (init_state F0) k Hwf) as [H1 H2]. simpl in H1, H2.
  rewrite <- H2. eapply chain_is_conjunction; [exact I | exact H1 | exact H].
Qed.
