(* WaitTail.v — the tail of controller.run (and of lister.run, publisher.run,
   filterSubscription.run): after ShutdownInitiated the component waits for
   each of the parts it started before it calls ShutdownCompleted:

       <-c.cache.Done(); <-c.watcher.Done(); <-c.lister.Done()

   A part is stopped through the parent's ShuttingDown() (its stop channel /
   context); a part that is inside a client call (List, Watch) at that moment
   finishes only when the call has returned — which it does once its context
   is cancelled (the proviso of C12), after some time of its own.

   Definitions and theorems (small enough for one file): when the parent's
   Done() closes every part is done and no client call made by a part is still
   out; and from every reachable state the parts' and the parent's own steps
   reach that state once the shutdown is requested. *)
From Coq Require Import List Arith Bool Lia.
Import ListNotations.

Inductive part := PRun | PInCall | PCancelled | PDone.
(* PRun: in its loop; PInCall: inside client.List / client.Watch;
   PCancelled: the call's context is cancelled, the call has not returned yet *)

Inductive par := QMain | QTail (k : nat) | QDone.
(* QTail k: ShutdownInitiated done (ShuttingDown closed), waiting for part k *)

Record wt := { w_parent : par; w_parts : list part }.

Inductive wact :=
| WCall (i : nat)       (* part i enters a client call *)
| WReturn (i : nat)     (* the call returns on its own *)
| WShutdown             (* the parent: ShutdownInitiated *)
| WSeeStop (i : nat)    (* part i, in its loop, sees the stop signal: ShutdownInitiated ... Done *)
| WCancel (i : nat)     (* part i's call context is cancelled by the shutdown *)
| WCallBack (i : nat)   (* the cancelled call returns; the part finishes *)
| WWait                 (* the parent receives from the Done() of the part it waits for *)
| WComplete.            (* the parent: ShutdownCompleted *)

Fixpoint setp (i : nat) (x : part) (l : list part) : list part :=
  match l, i with
  | [], _ => []
  | _ :: r, O => x :: r
  | p :: r, S i' => p :: setp i' x r
  end.

Definition stopping (q : par) : bool := match q with QMain => false | _ => true end.

Definition wstep (s : wt) (a : wact) : option wt :=
  let upd i x := Some {| w_parent := w_parent s; w_parts := setp i x (w_parts s) |} in
  match a with
  | WCall i => match nth_error (w_parts s) i with
               | Some PRun => if stopping (w_parent s) then None else upd i PInCall
               | _ => None
               end
  | WReturn i => match nth_error (w_parts s) i with Some PInCall => upd i PRun | _ => None end
  | WShutdown => match w_parent s with
                 | QMain => Some {| w_parent := QTail 0; w_parts := w_parts s |}
                 | _ => None
                 end
  | WSeeStop i => match nth_error (w_parts s) i with
                  | Some PRun => if stopping (w_parent s) then upd i PDone else None
                  | _ => None
                  end
  | WCancel i => match nth_error (w_parts s) i with
                 | Some PInCall => if stopping (w_parent s) then upd i PCancelled else None
                 | _ => None
                 end
  | WCallBack i => match nth_error (w_parts s) i with Some PCancelled => upd i PDone | _ => None end
  | WWait => match w_parent s with
             | QTail k => match nth_error (w_parts s) k with
                          | Some PDone => Some {| w_parent := QTail (S k); w_parts := w_parts s |}
                          | _ => None
                          end
             | _ => None
             end
  | WComplete => match w_parent s with
                 | QTail k => if Nat.eqb k (length (w_parts s)) then Some {| w_parent := QDone; w_parts := w_parts s |} else None
                 | _ => None
                 end
  end.

Fixpoint wrun (s : wt) (l : list wact) : option wt :=
  match l with
  | [] => Some s
  | a :: r => match wstep s a with Some s' => wrun s' r | None => None end
  end.

Definition winit0 (n : nat) : wt := {| w_parent := QMain; w_parts := repeat PRun n |}.
Definition wreach (n : nat) (s : wt) : Prop := exists l, wrun (winit0 n) l = Some s.

(* ---- invariant ---- *)
Definition waited (q : par) (n : nat) : nat := match q with QMain => 0 | QTail k => k | QDone => n end.

Definition winv (s : wt) : Prop :=
  (forall i, i < waited (w_parent s) (length (w_parts s)) -> nth_error (w_parts s) i = Some PDone) /\
  (match w_parent s with QTail k => k <= length (w_parts s) | _ => True end) /\
  (forall i, nth_error (w_parts s) i = Some PCancelled \/ nth_error (w_parts s) i = Some PDone -> stopping (w_parent s) = true).

Lemma setp_length i x l : length (setp i x l) = length l.
Proof. revert i; induction l as [|p l IH]; intro i; simpl; [destruct i; reflexivity|]. destruct i; simpl; [reflexivity|f_equal; apply IH]. Qed.

Lemma setp_same i x l : i < length l -> nth_error (setp i x l) i = Some x.
Proof. revert i; induction l as [|p l IH]; intros i H; simpl in *; [lia|]. destruct i; simpl; [reflexivity|apply IH; lia]. Qed.

Lemma setp_other i j x l : i <> j -> nth_error (setp i x l) j = nth_error l j.
Proof.
  revert i j; induction l as [|p l IH]; intros i j H; simpl; [destruct i; reflexivity|].
  destruct i, j; simpl; try reflexivity; [congruence|apply IH; congruence].
Qed.

Lemma nth_lt (l : list part) i p : nth_error l i = Some p -> i < length l.
Proof. intro H. apply nth_error_Some. congruence. Qed.

(* a part that is done stays done: no action changes a PDone entry *)
Lemma winv_step s a s' : winv s -> wstep s a = Some s' -> winv s'.
Proof.
  intros (H1 & H2 & H3) Hs.
  assert (Hupd : forall i x p, nth_error (w_parts s) i = Some p -> p <> PDone ->
            (x = PCancelled \/ x = PDone -> stopping (w_parent s) = true) ->
            winv {| w_parent := w_parent s; w_parts := setp i x (w_parts s) |}).
  { intros i x p Hn Hp Hx. pose proof (nth_lt _ _ _ Hn) as Hlt. unfold winv; simpl. rewrite setp_length. repeat split.
    - intros j Hj. destruct (Nat.eq_dec i j) as [->|Hne].
      + specialize (H1 j Hj). congruence.
      + rewrite setp_other by exact Hne. apply H1; exact Hj.
    - exact H2.
    - intros j Hj. destruct (Nat.eq_dec i j) as [->|Hne].
      + rewrite setp_same in Hj by exact Hlt. apply Hx. destruct Hj as [Hj|Hj]; inversion Hj; auto.
      + rewrite setp_other in Hj by exact Hne. apply H3 with j; exact Hj. }
  destruct a as [i|i| |i|i|i| |]; simpl in Hs.
  - destruct (nth_error (w_parts s) i) as [[]|] eqn:Hn; try discriminate.
    destruct (stopping (w_parent s)) eqn:Hst; [discriminate|]. inversion Hs; subst.
    eapply Hupd; [exact Hn|discriminate|intros [H|H]; discriminate].
  - destruct (nth_error (w_parts s) i) as [[]|] eqn:Hn; try discriminate. inversion Hs; subst.
    eapply Hupd; [exact Hn|discriminate|intros [H|H]; discriminate].
  - destruct (w_parent s) eqn:Hq; try discriminate. inversion Hs; subst. unfold winv; simpl. repeat split.
    + intros i Hi; lia.
    + lia.
  - destruct (nth_error (w_parts s) i) as [[]|] eqn:Hn; try discriminate.
    destruct (stopping (w_parent s)) eqn:Hst; [|discriminate]. inversion Hs; subst.
    eapply Hupd; [exact Hn|discriminate|intros _; first [exact Hst | reflexivity]].
  - destruct (nth_error (w_parts s) i) as [[]|] eqn:Hn; try discriminate.
    destruct (stopping (w_parent s)) eqn:Hst; [|discriminate]. inversion Hs; subst.
    eapply Hupd; [exact Hn|discriminate|intros _; first [exact Hst | reflexivity]].
  - destruct (nth_error (w_parts s) i) as [[]|] eqn:Hn; try discriminate. inversion Hs; subst.
    eapply Hupd; [exact Hn|discriminate|]. intros _. apply H3 with i. left; exact Hn.
  - destruct (w_parent s) as [|k|] eqn:Hq; try discriminate.
    destruct (nth_error (w_parts s) k) as [[]|] eqn:Hn; try discriminate. inversion Hs; subst.
    unfold winv; simpl. repeat split.
    + intros i Hi. destruct (Nat.eq_dec i k) as [->|Hne]; [exact Hn|]. apply H1. simpl. lia.
    + pose proof (nth_lt _ _ _ Hn). lia.
  - destruct (w_parent s) as [|k|] eqn:Hq; try discriminate.
    destruct (Nat.eqb k (length (w_parts s))) eqn:Hk; [|discriminate]. inversion Hs; subst.
    apply Nat.eqb_eq in Hk. unfold winv; simpl. repeat split.
    intros i Hi. apply H1. simpl. lia.
Qed.

Lemma winv_init n : winv (winit0 n).
Proof.
  unfold winv; simpl. repeat split.
  - intros i Hi; lia.
  - intros i [H|H]; apply nth_error_In in H; apply repeat_spec in H; discriminate.
Qed.

Lemma winv_reach n s : wreach n s -> winv s.
Proof.
  intros [l Hl]. revert Hl. generalize (winv_init n). generalize (winit0 n).
  induction l as [|a l IH]; intros q Hq Hr; simpl in Hr.
  - inversion Hr; subst; exact Hq.
  - destruct (wstep q a) as [q'|] eqn:Hs; [|discriminate]. eapply IH; [eapply winv_step; eauto|exact Hr].
Qed.

(* when the parent's Done() closes, every part is done: in particular no
   client call made by a part is still out *)
Theorem parent_done_means_parts_done n s :
  wreach n s -> w_parent s = QDone -> forall i p, nth_error (w_parts s) i = Some p -> p = PDone.
Proof.
  intros Hr Hq i p Hn. destruct (winv_reach n s Hr) as (H1 & _ & _).
  rewrite Hq in H1. simpl in H1. specialize (H1 i (nth_lt _ _ _ Hn)). congruence.
Qed.

Corollary no_client_call_out_at_done n s :
  wreach n s -> w_parent s = QDone -> ~ In PInCall (w_parts s) /\ ~ In PCancelled (w_parts s).
Proof.
  intros Hr Hq. split; intro Hin; apply In_nth_error in Hin; destruct Hin as [i Hi];
    pose proof (parent_done_means_parts_done n s Hr Hq i _ Hi); discriminate.
Qed.

(* the variant that does not wait (the tail deleted) is wrong: the parent is
   done while a part's call is still out *)
Definition wstep_nowait (s : wt) (a : wact) : option wt :=
  match a, w_parent s with
  | WComplete, QTail _ => Some {| w_parent := QDone; w_parts := w_parts s |}
  | _, _ => wstep s a
  end.

Example nowait_refuted :
  exists s, (fix run s l := match l with [] => Some s | a :: r => match wstep_nowait s a with Some s' => run s' r | None => None end end)
              (winit0 1) [WCall 0; WShutdown; WCancel 0; WComplete] = Some s
            /\ w_parent s = QDone /\ In PCancelled (w_parts s).
Proof. eexists. split; [reflexivity|]. split; [reflexivity|left; reflexivity]. Qed.

(* ---- progress: once the shutdown is requested, parts and parent finish by
   their own steps (calls return once cancelled) ---- *)
Definition prank (p : part) : nat := match p with PInCall => 2 | PRun | PCancelled => 1 | PDone => 0 end.
Fixpoint ptotal (l : list part) : nat := match l with [] => 0 | p :: r => prank p + ptotal r end.

Lemma ptotal_setp l i p x : nth_error l i = Some p -> ptotal (setp i x l) + prank p = ptotal l + prank x.
Proof.
  revert i; induction l as [|q l IH]; intros i Hn; [destruct i; discriminate|].
  destruct i; simpl in *; [inversion Hn; subst; lia|specialize (IH i Hn); lia].
Qed.

Lemma ptotal_pos l : 0 < ptotal l -> exists i p, nth_error l i = Some p /\ p <> PDone.
Proof.
  induction l as [|q l IH]; simpl; intro H; [lia|].
  destruct q; try (exists 0; eexists; split; [reflexivity|discriminate]).
  destruct IH as (i & p & Hn & Hp); [simpl in H; lia|]. exists (S i), p. split; assumption.
Qed.

Lemma ptotal_zero l : ptotal l = 0 -> forall i p, nth_error l i = Some p -> p = PDone.
Proof.
  induction l as [|q l IH]; intros H i p Hn; [destruct i; discriminate|].
  simpl in H. destruct i; simpl in Hn.
  - inversion Hn; subst. destruct p; simpl in H; try lia. reflexivity.
  - apply IH with i; [lia|exact Hn].
Qed.

Definition own (a : wact) : bool :=
  match a with WSeeStop _ | WCancel _ | WCallBack _ | WWait | WComplete => true | _ => false end.

Lemma wrun_app s l1 l2 : wrun s (l1 ++ l2) = match wrun s l1 with Some s' => wrun s' l2 | None => None end.
Proof. revert s; induction l1 as [|a l1 IH]; intro s; simpl; [reflexivity|]. destruct (wstep s a); [apply IH|reflexivity]. Qed.

(* phase 1: every part finishes *)
Lemma parts_finish m : forall s k, w_parent s = QTail k -> ptotal (w_parts s) <= m ->
  exists l s', Forall (fun a => own a = true) l /\ wrun s l = Some s' /\ w_parent s' = QTail k /\
               length (w_parts s') = length (w_parts s) /\ ptotal (w_parts s') = 0.
Proof.
  induction m as [|m IH]; intros s k Hq Hm.
  - exists [], s. repeat split; try reflexivity; [constructor|exact Hq|lia].
  - destruct (Nat.eq_dec (ptotal (w_parts s)) 0) as [Hz|Hz].
    + exists [], s. repeat split; try reflexivity; [constructor|exact Hq|exact Hz].
    + destruct (ptotal_pos (w_parts s) ltac:(lia)) as (i & p & Hn & Hp).
      assert (Hstep : exists a x, own a = true /\ prank x < prank p /\
                 wstep s a = Some {| w_parent := w_parent s; w_parts := setp i x (w_parts s) |}).
      { destruct p; try congruence.
        - exists (WSeeStop i), PDone. simpl. rewrite Hn, Hq. simpl. repeat split; lia.
        - exists (WCancel i), PCancelled. simpl. rewrite Hn, Hq. simpl. repeat split; lia.
        - exists (WCallBack i), PDone. simpl. rewrite Hn. repeat split; lia. }
      destruct Hstep as (a & x & Ha & Hlt & Hs).
      pose proof (ptotal_setp (w_parts s) i p x Hn) as Ht.
      destruct (IH {| w_parent := w_parent s; w_parts := setp i x (w_parts s) |} k Hq ltac:(simpl; lia))
        as (l & s' & Hl & Hr & Hq' & Hlen & Hz').
      exists (a :: l), s'. repeat split; [constructor; assumption|simpl; rewrite Hs; exact Hr|exact Hq'| |exact Hz'].
      rewrite Hlen. simpl. apply setp_length.
Qed.

(* phase 2: the parent walks through its waits *)
Lemma parent_walks d : forall s k, w_parent s = QTail k -> k + d = length (w_parts s) -> ptotal (w_parts s) = 0 ->
  exists s', wrun s (repeat WWait d ++ [WComplete]) = Some s' /\ w_parent s' = QDone.
Proof.
  induction d as [|d IH]; intros s k Hq Hk Hz.
  - simpl. rewrite Hq. replace (Nat.eqb k (length (w_parts s))) with true by (symmetry; apply Nat.eqb_eq; lia).
    eexists; split; reflexivity.
  - assert (Hn : exists p, nth_error (w_parts s) k = Some p).
    { destruct (nth_error (w_parts s) k) eqn:E; [eexists; reflexivity|]. apply nth_error_None in E. lia. }
    destruct Hn as [p Hn]. pose proof (ptotal_zero _ Hz k p Hn) as ->.
    simpl repeat. simpl app. simpl wrun. rewrite Hq, Hn.
    apply (IH {| w_parent := QTail (S k); w_parts := w_parts s |} (S k)); simpl; [reflexivity|lia|exact Hz].
Qed.

Theorem shutdown_completes n s : wreach n s -> stopping (w_parent s) = true ->
  exists l s', Forall (fun a => own a = true) l /\ wrun s l = Some s' /\ w_parent s' = QDone.
Proof.
  intros Hr Hst. destruct (w_parent s) as [|k|] eqn:Hq; [discriminate| |].
  - destruct (winv_reach n s Hr) as (_ & H2 & _). rewrite Hq in H2.
    destruct (parts_finish _ s k Hq (le_n _)) as (l1 & s1 & Hl1 & Hr1 & Hq1 & Hlen & Hz).
    destruct (parent_walks (length (w_parts s1) - k) s1 k Hq1 ltac:(lia) Hz) as (s2 & Hr2 & Hq2).
    exists (l1 ++ repeat WWait (length (w_parts s1) - k) ++ [WComplete]), s2.
    split; [|split; [rewrite wrun_app, Hr1; exact Hr2|exact Hq2]].
    apply Forall_app; split; [exact Hl1|]. apply Forall_app; split; [|repeat constructor].
    apply Forall_forall. intros a Ha. apply repeat_spec in Ha. subst. reflexivity.
  - exists [], s. split; [constructor|]. split; [reflexivity|exact Hq].
Qed.

(* non-vacuity *)
Example wreach_nontrivial :
  wreach 3 {| w_parent := QTail 1; w_parts := [PDone; PCancelled; PInCall] |}.
Proof. exists [WCall 1; WCall 2; WShutdown; WSeeStop 0; WWait; WCancel 1]. reflexivity. Qed.
