(* Controller.v — model of controller.go:run (list-result and watch-event
   cases), lister.go:executeList, util.go (listResourceVersion, extractList)
   and of the API server the controller is fed from.  Definitions only. *)
From KC Require Export Base Cache CacheSpec.

(* ------------------------------------------------------------------ *)
(* The API server: a log of changes with a strictly increasing version   *)

Definition slog := list event.          (* oldest first; ev_obj carries the version *)

Definition ev_ver (ev : event) : Z :=
  match atoi (o_rv (ev_obj ev)) with Some v => v | None => 0%Z end.

(* versions are well-formed and strictly increase along the log *)
Fixpoint log_ok_from (lastv : Z) (l : slog) : Prop :=
  match l with
  | [] => True
  | ev :: l' => atoi (o_rv (ev_obj ev)) <> None /\ (lastv < ev_ver ev)%Z /\ log_ok_from (ev_ver ev) l'
  end.
Definition log_ok (l : slog) : Prop := log_ok_from 0 l.

(* the server's current object for a key: the last log entry for it, unless
   that is a delete *)
Fixpoint server_at (k : key) (l : slog) (acc : option obj) : option obj :=
  match l with
  | [] => acc
  | ev :: l' =>
      if key_eqb (key_of (ev_obj ev)) k
      then server_at k l' (match ev_ty ev with Delete => None | _ => Some (ev_obj ev) end)
      else server_at k l' acc
  end.
Definition server_obj (l : slog) (k : key) : option obj := server_at k l None.

(* a list result is a correct snapshot of the server: one object per present
   key, none for absent keys *)
Definition is_list_of (l : slog) (listed : list obj) : Prop :=
  forall k, match server_obj l k with
            | Some o => entries_for k listed = match create_entry o with Some e => [e] | None => [] end
            | None => entries_for k listed = []
            end.

(* ------------------------------------------------------------------ *)
(* What a List call can return, and what the controller decides          *)

Inductive list_result :=
| LRErr                        (* client.List returned an error *)
| LRNotList                    (* an object that is not a meta.List *)
| LRNoItems                    (* a list type from which items cannot be extracted *)
| LRNonObjects                 (* a list whose items are not API objects *)
| LROk (version : list N) (items : list obj).

Inductive cause := CListerResult | CExtractList | CContext | CNone.

Inductive decision := Fail (c : cause) | Apply (version : list N) (items : list obj).

(* executeList (error, or not a meta.List -> listResult.err),
   then controller.run: result.err / listResourceVersion / extractList *)
Definition classify_list (r : list_result) : decision :=
  match r with
  | LRErr => Fail CListerResult
  | LRNotList => Fail CListerResult
  | LRNoItems => Fail CExtractList
  | LRNonObjects => Fail CExtractList
  | LROk v items => Apply v items
  end.

(* ------------------------------------------------------------------ *)
(* controller.run as a step function over its inputs                     *)

Inductive cinput :=
| IList (r : list_result)          (* case result := <-c.lister.Result() *)
| IWatch (ev : event)              (* case evt := <-c.watcher.events() *)
| IWatchFault                      (* connect error, stream closed, non-object frame: handled inside the watcher *)
| IClose                           (* Close() *)
| ICancel.                         (* context cancelled *)

Record kst := {
  k_filter : obj -> bool;
  k_cache : cache;
  k_ready : bool;                  (* readych closed *)
  k_synced : bool;                 (* ghost: a list has been fully applied *)
  k_stopped : option cause;        (* lifecycle stopping, with the recorded cause (CNone = nil error) *)
  k_watch_from : option (list N)   (* version the watcher was last reset to *)
}.

Definition kinit (F : obj -> bool) : kst :=
  {| k_filter := F; k_cache := []; k_ready := false; k_synced := false; k_stopped := None; k_watch_from := None |}.

(* one input: the new state and the events handed to the subscription *)
Definition kstep (s : kst) (i : cinput) : kst * list event :=
  match k_stopped s with
  | Some _ => (s, [])                               (* after shutdown nothing is processed *)
  | None =>
      match i with
      | IList r =>
          match classify_list r with
          | Fail c =>
              ({| k_filter := k_filter s; k_cache := k_cache s; k_ready := k_ready s; k_synced := k_synced s;
                  k_stopped := Some c; k_watch_from := k_watch_from s |}, [])
          | Apply v items =>
              let (c', evs) := do_sync (k_filter s) (k_cache s) items in
              (* the first list closes readych and its events are not
                 distributed; later lists distribute theirs *)
              ({| k_filter := k_filter s; k_cache := c'; k_ready := true; k_synced := true;
                  k_stopped := None; k_watch_from := Some v |},
               if k_ready s then evs else [])
          end
      | IWatch ev =>
          (* before the first reset the watcher's channel is nil: nothing arrives *)
          match k_watch_from s with None => (s, []) | Some _ =>
          let (c', evs) := do_update (k_filter s) (k_cache s) ev in
          ({| k_filter := k_filter s; k_cache := c'; k_ready := k_ready s; k_synced := k_synced s;
              k_stopped := None; k_watch_from := k_watch_from s |}, evs)
          end
      | IWatchFault => (s, [])
      | IClose =>
          ({| k_filter := k_filter s; k_cache := k_cache s; k_ready := k_ready s; k_synced := k_synced s;
              k_stopped := Some CNone; k_watch_from := k_watch_from s |}, [])
      | ICancel =>
          ({| k_filter := k_filter s; k_cache := k_cache s; k_ready := k_ready s; k_synced := k_synced s;
              k_stopped := Some CContext; k_watch_from := k_watch_from s |}, [])
      end
  end.

Definition krun (s : kst) (is : list cinput) : kst := fold_left (fun s i => fst (kstep s i)) is s.

(* the adversarial watch path of C03: whatever reaches the controller through
   the watch is an entry of the server's log, in any order, with any
   omissions, duplicates and replays *)
Definition watch_from_log (l : slog) (i : cinput) : Prop :=
  match i with
  | IWatch ev => In ev l
  | IList (LROk _ items) => forall o, In o items -> exists ev, In ev l /\ ev_ty ev <> Delete /\ ev_obj ev = o
  | _ => True
  end.

(* the deterministic outcome used by the correspondence: a list applied to an
   empty or converged cache *)
Definition relist_outcome (F : obj -> bool) (items : list obj) : outcome cache :=
  match do_sync_raw F [] items with
  | Panic => Panic
  | Ok (c, _) => Ok c
  end.
