(* Lister.v — model of lister.go x ticker.go x time.Timer x the list worker
   and the consumer of results.  Definitions only.

   lister.run phases (which channels its select listens on):
     LListing    runch      : a list call is in flight or its result sits in runch
     LHasResult  resultch   : offering the result to the consumer
     LResetting             : inside ticker.Reset() (rendezvous with ticker.run)
     LWaitTick   tickch     : waiting for the ticker
     LStopping              : left the loop, calling ticker.Stop()
     LWaitWorker            : ticker done, waiting for the list worker (<-donech)
     LDone
   ticker.run: timer state, whether it currently offers on nextch, running/done.
   The select cases of both goroutines are the actions. *)
From Coq Require Export List Bool ZArith Lia.
Export ListNotations.

Inductive lphase := LListing | LHasResult | LResetting | LWaitTick | LStopping | LWaitWorker | LDone.
Inductive timer := TArmed | TFired | TIdle.       (* TFired: fired, value not yet received *)
Inductive worker := WRun | WFin | WNone.          (* WFin: result in runch, donech closed *)

Record st := {
  lp : lphase;
  wk : worker;
  tm : timer;
  nextch : bool;      (* ticker.run's local nextch is non-nil *)
  trun : bool;        (* ticker.run has not returned *)
  stopreq : bool      (* a shutdown request is pending for lister.run *)
}.

Inductive act :=
| AWorkerFin      (* the list call returns (environment; on shutdown because its context is cancelled) *)
| ATakeResult     (* lister: case result = <-runch *)
| AConsume        (* consumer receives the result; lister calls ticker.Reset() *)
| AReset          (* ticker: case <-t.resetch (Stop, non-blocking drain, Reset) *)
| ATimerFire      (* time passes: the timer expires *)
| ATimerRead      (* ticker: case <-timer.C *)
| ATick           (* ticker: case nextch <- count  /  lister: case <-tickch: start a list *)
| AStopReq        (* environment: parent shutting down / context cancelled *)
| ALShutdown      (* lister: case err := <-l.lc.ShutdownRequest() *)
| ATickerStop     (* lister: ticker.Stop(); <-ticker.Done()  /  ticker: case <-t.stopch *)
| AWorkerWait.    (* lister: <-donech *)

Definition all_acts : list act :=
  [AWorkerFin; ATakeResult; AConsume; AReset; ATimerFire; ATimerRead; ATick; AStopReq;
   ALShutdown; ATickerStop; AWorkerWait].

Definition init : st :=
  {| lp := LListing; wk := WRun; tm := TArmed; nextch := false; trun := true; stopreq := false |}.

Definition lphase_eqb (a b : lphase) : bool :=
  match a, b with
  | LListing, LListing | LHasResult, LHasResult | LResetting, LResetting | LWaitTick, LWaitTick
  | LStopping, LStopping | LWaitWorker, LWaitWorker | LDone, LDone => true
  | _, _ => false
  end.
Definition timer_eqb (a b : timer) : bool :=
  match a, b with TArmed, TArmed | TFired, TFired | TIdle, TIdle => true | _, _ => false end.
Definition worker_eqb (a b : worker) : bool :=
  match a, b with WRun, WRun | WFin, WFin | WNone, WNone => true | _, _ => false end.
Definition st_eqb (a b : st) : bool :=
  lphase_eqb (lp a) (lp b) && worker_eqb (wk a) (wk b) && timer_eqb (tm a) (tm b) &&
  Bool.eqb (nextch a) (nextch b) && Bool.eqb (trun a) (trun b) && Bool.eqb (stopreq a) (stopreq b).

Definition in_select (p : lphase) : bool :=
  match p with LListing | LHasResult | LWaitTick => true | _ => false end.

(* [fixed] selects the reset case of ticker.run: true = non-blocking drain
   (the repaired code), false = `if !timer.Stop() { <-timer.C }` *)
Definition step_gen (fixed : bool) (s : st) (a : act) : option st :=
  match a with
  | AWorkerFin =>
      match wk s with
      | WRun => Some {| lp := lp s; wk := WFin; tm := tm s; nextch := nextch s; trun := trun s; stopreq := stopreq s |}
      | _ => None
      end
  | ATakeResult =>
      match lp s, wk s with
      | LListing, WFin => Some {| lp := LHasResult; wk := WNone; tm := tm s; nextch := nextch s; trun := trun s; stopreq := stopreq s |}
      | _, _ => None
      end
  | AConsume =>
      match lp s with
      | LHasResult => Some {| lp := LResetting; wk := wk s; tm := tm s; nextch := nextch s; trun := trun s; stopreq := stopreq s |}
      | _ => None
      end
  | AReset =>
      match lp s with
      | LResetting =>
          if trun s then
            (* timer.Stop() reports false when the timer is not armed; the old
               code then receives from timer.C, which blocks for ever unless
               the fired value is still in the channel *)
            match tm s with
            | TIdle => if fixed
                       then Some {| lp := LWaitTick; wk := wk s; tm := TArmed; nextch := false; trun := true; stopreq := stopreq s |}
                       else None
            | _ => Some {| lp := LWaitTick; wk := wk s; tm := TArmed; nextch := false; trun := true; stopreq := stopreq s |}
            end
          else (* ticker done: Reset returns through donech *)
            Some {| lp := LWaitTick; wk := wk s; tm := tm s; nextch := nextch s; trun := false; stopreq := stopreq s |}
      | _ => None
      end
  | ATimerFire =>
      match tm s with
      | TArmed => Some {| lp := lp s; wk := wk s; tm := TFired; nextch := nextch s; trun := trun s; stopreq := stopreq s |}
      | _ => None
      end
  | ATimerRead =>
      match tm s with
      | TFired => if trun s
                  then Some {| lp := lp s; wk := wk s; tm := TIdle; nextch := true; trun := true; stopreq := stopreq s |}
                  else None
      | _ => None
      end
  | ATick =>
      match lp s with
      | LWaitTick => if trun s && nextch s
                     then Some {| lp := LListing; wk := WRun; tm := TArmed; nextch := false; trun := true; stopreq := stopreq s |}
                     else None
      | _ => None
      end
  | AStopReq =>
      if stopreq s then None
      else match lp s with
           | LStopping | LWaitWorker | LDone => None
           | _ => Some {| lp := lp s; wk := wk s; tm := tm s; nextch := nextch s; trun := trun s; stopreq := true |}
           end
  | ALShutdown =>
      if stopreq s && in_select (lp s)
      then Some {| lp := LStopping; wk := wk s; tm := tm s; nextch := nextch s; trun := trun s; stopreq := false |}
      else None
  | ATickerStop =>
      match lp s with
      | LStopping => Some {| lp := LWaitWorker; wk := wk s; tm := TIdle; nextch := false; trun := false; stopreq := false |}
      | _ => None
      end
  | AWorkerWait =>
      match lp s, wk s with
      | LWaitWorker, WRun => None
      | LWaitWorker, _ => Some {| lp := LDone; wk := wk s; tm := tm s; nextch := nextch s; trun := trun s; stopreq := false |}
      | _, _ => None
      end
  end.

Definition step := step_gen true.       (* the code as repaired *)
Definition step_old := step_gen false.  (* the code before the fix of D3 *)

(* ------------------------------------------------------------------ *)
(* Clocked refinement: the same machine with a logical clock, the time the
   timer was armed for, and the time of the last consumption.            *)

Record cst := {
  sk : st;
  now : Z;
  deadline : Z;      (* when the armed timer expires *)
  fired_at : Z;      (* when the timer last expired *)
  consumed_at : Z    (* when the last result was consumed *)
}.

(* [lo] is the least value of nextPeriod (0.9 x period).  An action happens
   at time [t] >= now; arming the timer chooses a delay d >= lo. *)
Definition cstep (lo : Z) (c : cst) (a : act) (t d : Z) : option cst :=
  if Z.ltb t (now c) then None else
  match step (sk c) a with
  | None => None
  | Some s' =>
      match a with
      | ATimerFire => if Z.ltb t (deadline c) then None
                      else Some {| sk := s'; now := t; deadline := deadline c; fired_at := t; consumed_at := consumed_at c |}
      | AConsume => Some {| sk := s'; now := t; deadline := deadline c; fired_at := fired_at c; consumed_at := t |}
      | AReset | ATick =>
          if Z.ltb d lo then None
          else Some {| sk := s'; now := t; deadline := t + d; fired_at := fired_at c; consumed_at := consumed_at c |}
      | _ => Some {| sk := s'; now := t; deadline := deadline c; fired_at := fired_at c; consumed_at := consumed_at c |}
      end
  end.

(* ------------------------------------------------------------------ *)
(* The observable trace and its checker (evaluated on the implementation's
   traces by the correspondence runner).                                 *)

Inductive tev := EStart (t : Z) | EEnd (t : Z) | EConsumed (t : Z).

Record chk := {
  k_inflight : bool;          (* a list call has started and not ended *)
  k_pending : bool;           (* a list has ended and its result is not yet consumed *)
  k_first : bool;             (* no list call yet *)
  k_consumed : bool;          (* a result was consumed since the last start *)
  k_last_consumed : Z;
  k_last_time : Z
}.

Definition chk_init : chk :=
  {| k_inflight := false; k_pending := false; k_first := true; k_consumed := false;
     k_last_consumed := 0; k_last_time := 0 |}.

Definition ev_time (e : tev) : Z := match e with EStart t | EEnd t | EConsumed t => t end.

Definition chk_step (lo : Z) (k : chk) (e : tev) : option chk :=
  if Z.ltb (ev_time e) (k_last_time k) then None else
  match e with
  | EStart t =>
      if k_inflight k || k_pending k then None            (* one list at a time *)
      else if k_first k
      then Some {| k_inflight := true; k_pending := false; k_first := false; k_consumed := false;
                   k_last_consumed := k_last_consumed k; k_last_time := t |}
      else if k_consumed k && Z.leb (k_last_consumed k + lo) t   (* about one period after the consumption *)
      then Some {| k_inflight := true; k_pending := false; k_first := false; k_consumed := false;
                   k_last_consumed := k_last_consumed k; k_last_time := t |}
      else None
  | EEnd t =>
      if k_inflight k
      then Some {| k_inflight := false; k_pending := true; k_first := false; k_consumed := k_consumed k;
                   k_last_consumed := k_last_consumed k; k_last_time := t |}
      else None
  | EConsumed t =>
      if k_pending k
      then Some {| k_inflight := false; k_pending := false; k_first := false; k_consumed := true;
                   k_last_consumed := t; k_last_time := t |}
      else None
  end.

Fixpoint chk_run (lo : Z) (k : chk) (tr : list tev) : bool :=
  match tr with
  | [] => true
  | e :: tr' => match chk_step lo k e with
                | Some k' => chk_run lo k' tr'
                | None => false
                end
  end.

Definition trace_ok (lo : Z) (tr : list tev) : bool := chk_run lo chk_init tr.

(* what each action shows to an observer *)
Definition obs_of (a : act) (t : Z) : list tev :=
  match a with
  | ATick => [EStart t]
  | AWorkerFin => [EEnd t]
  | AConsume => [EConsumed t]
  | _ => []
  end.
