(* CacheSpec.v — reference semantics of the cache, written per key,
   independently of the loops, working sets and prune pass of cache.go.
   Definitions only. *)
From KC Require Export Base Cache.

(* the well-formed entries a list contributes for key k, in list order *)
Definition entries_for (k : key) (l : list obj) : list entry :=
  flat_map (fun o => if key_eqb (key_of o) k
                     then match create_entry o with Some e => [e] | None => [] end
                     else []) l.

Fixpoint max_ver (es : list entry) : option Z :=
  match es with
  | [] => None
  | e :: es' => match max_ver es' with
                | None => Some (e_ver e)
                | Some v => Some (Z.max v (e_ver e))
                end
  end.

Definition newest_accepted (F : obj -> bool) (vmax : Z) (es : list entry) : option entry :=
  find (fun e => Z.eqb (e_ver e) vmax && F (e_obj e)) es.

(* What a synchronisation with list entries [es] for a key leaves at that
   key, given what was cached ([cur]) and the filter in force:
   - not listed (or only malformed entries): absent;
   - the cached entry is at least as new as everything listed: it stays iff
     the filter accepts it (a version that is not newer never replaces it);
   - otherwise the newest listed entry the filter accepts, or nothing. *)
Definition sync_spec (F : obj -> bool) (cur : option entry) (es : list entry) : option entry :=
  match max_ver es with
  | None => None
  | Some vmax =>
      match cur with
      | Some c => if Z.leb vmax (e_ver c)
                  then (if F (e_obj c) then Some c else None)
                  else newest_accepted F vmax es
      | None => newest_accepted F vmax es
      end
  end.

(* What a watch event leaves at its own key. *)
Definition update_spec (F : obj -> bool) (cur : option entry) (ev : event) : option entry :=
  match create_entry (ev_obj ev) with
  | None => cur                                     (* malformed version: ignored *)
  | Some e =>
      match ev_ty ev with
      | Delete => None
      | _ => match cur with
             | None => if F (ev_obj ev) then Some e else None
             | Some c => if Z.ltb (e_ver c) (e_ver e)
                         then (if F (ev_obj ev) then Some e else None)
                         else Some c
             end
      end
  end.

(* The per-key reference machine over operations. *)
Definition ref_step (k : key) (st : (obj -> bool) * option entry) (o : op) : (obj -> bool) * option entry :=
  let (F, cur) := st in
  match o with
  | OSync l => (F, sync_spec F cur (entries_for k l))
  | OUpdate ev => (F, if key_eqb (key_of (ev_obj ev)) k then update_spec F cur ev else cur)
  | ORefilter F' l => (F', sync_spec F' cur (entries_for k l))
  end.

Definition ref_run (k : key) (F0 : obj -> bool) (ops : list op) : (obj -> bool) * option entry :=
  fold_left (ref_step k) ops (F0, None).

(* representation invariant of the Go map *)
Definition entry_ok (ke : key * entry) : Prop :=
  key_of (e_obj (snd ke)) = fst ke /\ create_entry (e_obj (snd ke)) = Some (snd ke).
Definition wf_cache (c : cache) : Prop :=
  NoDup (map fst c) /\ Forall entry_ok c.

(* extensional equality of caches *)
Definition cache_eq (a b : cache) : Prop := forall k, clookup k a = clookup k b.
