(* PubLts.v — goroutine-level model of publisher.go:run / distributeEvent and
   subscription.go:send / run, one step per channel operation:

     publisher.run      picks an event from its parent's Events() channel, then
                        sends it to every subscription in its table, in ANY
                        order (Go map iteration), each send a rendezvous on the
                        subscription's unbuffered inch — or a failure when the
                        subscription is shutting down (ignored);
     subscription.run   receives from inch (the event is "in hand"), then
                        places it in outch if there is room and drops it
                        otherwise; on a shutdown request it returns, closing
                        outch (what is buffered stays receivable);
     consumers          receive from Events() whenever they like, or never;
     Close()            asks a subscription to shut down; the publisher removes
                        it from its table later (unsubscribe), between events;
     Subscribe()        is served by the publisher between events;
     shutdown           the parent closes its Events() channel; the publisher
                        first picks up and distributes EVERYTHING still buffered
                        there, and only then initiates its own shutdown, which
                        asks every subscription to shut down.

   Definitions only.  PubLtsProps.v proves that this protocol implements the
   atomic fan-out of Pipeline.v. *)
From Coq Require Export List Arith Bool Lia.
Export ListNotations.

Section PubLts.
  Variable E : Type.

  Inductive phase := Open | Closing | Closed.

  Record csub := {
    c_from : nat;            (* events the publisher had picked up when the subscription was created *)
    c_cap : nat;             (* EventBufsiz *)
    c_hand : option E;       (* received from inch, not yet placed *)
    c_queue : list E;        (* outch *)
    c_passed : list E;       (* received by the consumer *)
    c_drops : nat;
    c_phase : phase;
    c_listed : bool;         (* still in the publisher's table *)
    c_sent : list E;         (* ghost: events handed over on inch, in order *)
    c_failed : nat           (* ghost: sends that failed because it was shutting down *)
  }.

  Record cpub := {
    k_in : list E;                      (* parent.Events(): not yet picked up *)
    k_seen : list E;                    (* picked up so far *)
    k_cur : option (E * list nat);      (* being distributed, and the table entries not yet sent to *)
    k_subs : list csub;
    k_pclosed : bool;                   (* the parent has closed its Events() channel *)
    k_down : bool;                      (* publisher.run has left its main loop (ShutdownInitiated) *)
    k_all : list E                      (* ghost: everything the parent ever published *)
  }.

  Definition cinit : cpub :=
    {| k_in := []; k_seen := []; k_cur := None; k_subs := []; k_pclosed := false; k_down := false; k_all := [] |}.

  Fixpoint upd (i : nat) (f : csub -> csub) (l : list csub) : list csub :=
    match l, i with
    | [], _ => []
    | c :: l', O => f c :: l'
    | c :: l', S i' => c :: upd i' f l'
    end.

  Fixpoint remove1 (i : nat) (l : list nat) : list nat :=
    match l with
    | [] => []
    | j :: r => if Nat.eqb i j then r else j :: remove1 i r
    end.

  Fixpoint listed_from (k : nat) (l : list csub) : list nat :=
    match l with
    | [] => []
    | c :: r => if c_listed c then k :: listed_from (S k) r else listed_from (S k) r
    end.

  Definition set_hand (h : option E) (sent : list E) (c : csub) : csub :=
    {| c_from := c_from c; c_cap := c_cap c; c_hand := h; c_queue := c_queue c; c_passed := c_passed c;
       c_drops := c_drops c; c_phase := c_phase c; c_listed := c_listed c; c_sent := sent; c_failed := c_failed c |}.

  Definition place (c : csub) : csub :=
    match c_hand c with
    | None => c
    | Some e =>
        if Nat.ltb (length (c_queue c)) (c_cap c)
        then {| c_from := c_from c; c_cap := c_cap c; c_hand := None; c_queue := c_queue c ++ [e]; c_passed := c_passed c;
                c_drops := c_drops c; c_phase := c_phase c; c_listed := c_listed c; c_sent := c_sent c; c_failed := c_failed c |}
        else {| c_from := c_from c; c_cap := c_cap c; c_hand := None; c_queue := c_queue c; c_passed := c_passed c;
                c_drops := S (c_drops c); c_phase := c_phase c; c_listed := c_listed c; c_sent := c_sent c; c_failed := c_failed c |}
    end.

  Definition cpop (c : csub) : csub :=
    match c_queue c with
    | [] => c
    | e :: q => {| c_from := c_from c; c_cap := c_cap c; c_hand := c_hand c; c_queue := q; c_passed := c_passed c ++ [e];
                   c_drops := c_drops c; c_phase := c_phase c; c_listed := c_listed c; c_sent := c_sent c; c_failed := c_failed c |}
    end.

  Definition set_phase (p : phase) (c : csub) : csub :=
    {| c_from := c_from c; c_cap := c_cap c; c_hand := c_hand c; c_queue := c_queue c; c_passed := c_passed c;
       c_drops := c_drops c; c_phase := p; c_listed := c_listed c; c_sent := c_sent c; c_failed := c_failed c |}.

  Definition set_failed (c : csub) : csub :=
    {| c_from := c_from c; c_cap := c_cap c; c_hand := c_hand c; c_queue := c_queue c; c_passed := c_passed c;
       c_drops := c_drops c; c_phase := c_phase c; c_listed := c_listed c; c_sent := c_sent c; c_failed := S (c_failed c) |}.

  Definition unlist (c : csub) : csub :=
    {| c_from := c_from c; c_cap := c_cap c; c_hand := c_hand c; c_queue := c_queue c; c_passed := c_passed c;
       c_drops := c_drops c; c_phase := c_phase c; c_listed := false; c_sent := c_sent c; c_failed := c_failed c |}.

  Inductive cact :=
  | CParent (e : E)        (* the parent publishes an event: it sits in parent.Events() *)
  | CPick                  (* publisher.run: case evt := <-s.parent.Events() *)
  | CSend (i : nat)        (* sub.send: case s.inch <- ev  /  subscription.run: case evt := <-s.inch *)
  | CSendFail (i : nat)    (* sub.send: case <-s.lc.ShuttingDown() *)
  | CDone                  (* distributeEvent returns *)
  | CPlace (i : nat)       (* subscription.run: select { case s.outch <- evt: default: } *)
  | CPop (i : nat)         (* the consumer receives from Events() *)
  | CClose (i : nat)       (* Subscription.Close() *)
  | CExit (i : nat)        (* subscription.run: case <-ShutdownRequest: return; close(outch) *)
  | CUnsub (i : nat)       (* publisher.run: case sub := <-s.unsubscribech *)
  | CSubscribe (cap : nat)  (* publisher.run: case resultch := <-s.subscribech *)
  | CParentClose            (* the parent closes its Events() channel (what is buffered stays receivable) *)
  | CPubDown.               (* publisher.run: case evt, ok := <-parent.Events(): !ok -> ShutdownInitiated; every
                               subscription is asked to shut down *)

  Definition mk (p : cpub) (cur : option (E * list nat)) (subs : list csub) : cpub :=
    {| k_in := k_in p; k_seen := k_seen p; k_cur := cur; k_subs := subs;
       k_pclosed := k_pclosed p; k_down := k_down p; k_all := k_all p |}.

  Definition ask_down (c : csub) : csub :=
    match c_phase c with Open => set_phase Closing c | _ => c end.

  Definition cstep (p : cpub) (a : cact) : option cpub :=
    match a with
    | CParent e =>
        if k_pclosed p then None
        else Some {| k_in := k_in p ++ [e]; k_seen := k_seen p; k_cur := k_cur p; k_subs := k_subs p;
                     k_pclosed := false; k_down := k_down p; k_all := k_all p ++ [e] |}
    | CPick =>
        match k_cur p, k_in p with
        | None, e :: r => if k_down p then None else
                          Some {| k_in := r; k_seen := k_seen p ++ [e];
                                  k_cur := Some (e, listed_from 0 (k_subs p)); k_subs := k_subs p;
                                  k_pclosed := k_pclosed p; k_down := false; k_all := k_all p |}
        | _, _ => None
        end
    | CSend i =>
        match k_cur p, nth_error (k_subs p) i with
        | Some (e, rem), Some c =>
            if existsb (Nat.eqb i) rem
            then match c_phase c, c_hand c with
                 | Open, None | Closing, None =>
                     Some (mk p (Some (e, remove1 i rem)) (upd i (set_hand (Some e) (c_sent c ++ [e])) (k_subs p)))
                 | _, _ => None
                 end
            else None
        | _, _ => None
        end
    | CSendFail i =>
        match k_cur p, nth_error (k_subs p) i with
        | Some (e, rem), Some c =>
            if existsb (Nat.eqb i) rem
            then match c_phase c with
                 | Open => None
                 | _ => Some (mk p (Some (e, remove1 i rem)) (upd i set_failed (k_subs p)))
                 end
            else None
        | _, _ => None
        end
    | CDone =>
        match k_cur p with
        | Some (_, []) => Some (mk p None (k_subs p))
        | _ => None
        end
    | CPlace i =>
        match nth_error (k_subs p) i with
        | Some c => match c_hand c with
                    | Some _ => Some (mk p (k_cur p) (upd i place (k_subs p)))
                    | None => None
                    end
        | None => None
        end
    | CPop i =>
        match nth_error (k_subs p) i with
        | Some c => match c_queue c with
                    | _ :: _ => Some (mk p (k_cur p) (upd i cpop (k_subs p)))
                    | [] => None
                    end
        | None => None
        end
    | CClose i =>
        match nth_error (k_subs p) i with
        | Some c => match c_phase c with
                    | Open => Some (mk p (k_cur p) (upd i (set_phase Closing) (k_subs p)))
                    | _ => None
                    end
        | None => None
        end
    | CExit i =>
        match nth_error (k_subs p) i with
        | Some c => match c_phase c, c_hand c with
                    | Closing, None => Some (mk p (k_cur p) (upd i (set_phase Closed) (k_subs p)))
                    | _, _ => None
                    end
        | None => None
        end
    | CUnsub i =>
        match k_cur p, nth_error (k_subs p) i with
        | None, Some c => match c_phase c with
                          | Closed => if c_listed c then Some (mk p None (upd i unlist (k_subs p))) else None
                          | _ => None
                          end
        | _, _ => None
        end
    | CSubscribe cap =>
        match k_cur p with
        | None => if k_down p then None else Some (mk p None (k_subs p ++ [{| c_from := length (k_seen p); c_cap := cap; c_hand := None; c_queue := [];
                                                   c_passed := []; c_drops := 0; c_phase := Open; c_listed := true;
                                                   c_sent := []; c_failed := 0 |}]))
        | Some _ => None
        end
    | CParentClose =>
        if k_pclosed p then None
        else Some {| k_in := k_in p; k_seen := k_seen p; k_cur := k_cur p; k_subs := k_subs p;
                     k_pclosed := true; k_down := k_down p; k_all := k_all p |}
    | CPubDown =>
        (* a receive from a closed channel reports !ok only once its buffer is empty *)
        match k_cur p, k_in p with
        | None, [] => if k_pclosed p && negb (k_down p)
                      then Some {| k_in := []; k_seen := k_seen p; k_cur := None; k_subs := map ask_down (k_subs p);
                                   k_pclosed := true; k_down := true; k_all := k_all p |}
                      else None
        | _, _ => None
        end
    end.

  Fixpoint crun (p : cpub) (l : list cact) : option cpub :=
    match l with
    | [] => Some p
    | a :: l' => match cstep p a with Some p' => crun p' l' | None => None end
    end.
End PubLts.

Arguments c_from {E}. Arguments c_cap {E}. Arguments c_hand {E}. Arguments c_queue {E}. Arguments c_passed {E}.
Arguments c_drops {E}. Arguments c_phase {E}. Arguments c_listed {E}. Arguments c_sent {E}. Arguments c_failed {E}.
Arguments k_in {E}. Arguments k_seen {E}. Arguments k_cur {E}. Arguments k_subs {E}.
Arguments k_pclosed {E}. Arguments k_down {E}. Arguments k_all {E}. Arguments ask_down {E}.
Arguments CParentClose {E}. Arguments CPubDown {E}.
Arguments cinit {E}. Arguments cstep {E}. Arguments crun {E}. Arguments upd {E}. Arguments listed_from {E}.
Arguments place {E}. Arguments cpop {E}. Arguments set_hand {E}. Arguments set_phase {E}. Arguments set_failed {E}. Arguments unlist {E}.
Arguments CParent {E}. Arguments CPick {E}. Arguments CSend {E}. Arguments CSendFail {E}. Arguments CDone {E}.
Arguments CPlace {E}. Arguments CPop {E}. Arguments CClose {E}. Arguments CExit {E}. Arguments CUnsub {E}. Arguments CSubscribe {E}.
Arguments mk {E}.
