(* FilterSubProps.v — theorems about FilterSub.v (C06, C07, C08). *)
From KC Require Import Base Filter FilterProps Cache CacheSpec CacheProps FilterSub.

(* ------------------------------------------------------------------ *)
(* the state invariant of filterSubscription.run                        *)

Definition fs_inv (s : fsub) : Prop :=
  fs_cfilter s = fs_filter s /\
  (fs_ready s = false -> fs_cache s = [] /\ fs_closes s = 0) /\
  (fs_ready s = true -> fs_closes s = 1 /\ fs_pwait s = false) /\
  (fs_ready s = false -> fs_pwait s = false -> fs_defer s = true /\ fs_pending s = false) /\
  (fs_defer s = true -> fs_pending s = false -> fs_ready s = false -> fs_filter s = FAll) /\
  wf_cache (fs_cache s).

Lemma fs_inv_init_immediate f : fs_inv (fs_init false f).
Proof. unfold fs_inv, fs_init; simpl. repeat split; auto; try discriminate; apply wf_nil. Qed.

Lemma fs_inv_init_deferred : fs_inv fs_init_deferred.
Proof. unfold fs_inv, fs_init_deferred, fs_init; simpl. repeat split; auto; try discriminate; apply wf_nil. Qed.

Lemma sync_nil_nil F : fst (do_sync F [] []) = [].
Proof. reflexivity. Qed.

Ltac fsplit := unfold fs_inv; cbn [fs_defer fs_pwait fs_pending fs_ready fs_filter fs_cfilter fs_cache fs_closes];
               repeat split; intros; try discriminate; try congruence; auto;
               try (match goal with H : wf_cache ?c |- _ => apply H end); try apply wf_nil.

Lemma fs_inv_step s i : fs_inv s -> fs_inv (fst (fs_step s i)).
Proof.
  intros [Hcf [Hnr [Hr [Him [Hdf Hwf]]]]].
  destruct s as [df pw pe rd fl cfl ca cl]. simpl in *. subst cfl.
  destruct rd.
  - (* ready *)
    destruct (Hr eq_refl) as [-> ->]. clear Hr Hnr Him Hdf.
    destruct i as [plist|f plist|ev]; simpl.
    + fsplit.
    + destruct (negb (negb (comparable fl && feq fl f))); simpl; [fsplit|].
      pose proof (wf_do_sync (accept f) ca plist Hwf) as Hw.
      destruct (do_sync (accept f) ca plist) as [c' evs]. simpl in *. fsplit.
    + pose proof (wf_do_update (accept fl) ca ev Hwf) as Hw.
      destruct (do_update (accept fl) ca ev) as [c' evs]. simpl in *. fsplit.
  - (* not ready *)
    destruct (Hnr eq_refl) as [-> ->]. clear Hr Hnr.
    destruct i as [plist|f plist|ev]; simpl.
    + destruct pw; simpl.
      * destruct (df && negb pe) eqn:Hd; simpl.
        -- apply andb_true_iff in Hd. destruct Hd as [-> Hpe]. apply negb_true_iff in Hpe. subst pe. fsplit.
        -- pose proof (wf_do_sync (accept fl) [] plist wf_nil) as Hw.
           destruct (do_sync (accept fl) [] plist) as [c' evs]. simpl in *. fsplit.
      * destruct (Him eq_refl eq_refl) as [-> ->]. fsplit.
    + destruct pw; simpl.
      * destruct (negb (comparable fl && feq fl f)); simpl; fsplit.
      * destruct (Him eq_refl eq_refl) as [-> ->].
        destruct (negb (negb (comparable fl && feq fl f))); simpl; [fsplit|].
        pose proof (wf_do_sync (accept f) [] plist wf_nil) as Hw.
        destruct (do_sync (accept f) [] plist) as [c' evs]. simpl in *. fsplit.
    + destruct pw; [fsplit|]. destruct (Him eq_refl eq_refl) as [-> ->]. fsplit.
Qed.

Lemma fs_run_fst s is : fst (fs_run s is) = fold_left (fun s i => fst (fs_step s i)) is s.
Proof.
  revert s. induction is as [|i is IH]; intros s; simpl; [reflexivity|].
  destruct (fs_step s i) as [s1 e1] eqn:H1. destruct (fs_run s1 is) as [s2 e2] eqn:H2. simpl.
  rewrite <- IH, H2. reflexivity.
Qed.

Theorem fs_inv_reachable s is : fs_inv s -> fs_inv (fst (fs_run s is)).
Proof.
  rewrite fs_run_fst. revert s. induction is as [|i is IH]; intros s H; [exact H|].
  simpl. apply IH, fs_inv_step, H.
Qed.

(* C08: close(readych) is executed at most once (a second close would panic) *)
Theorem ready_closed_once s is : fs_inv s -> fs_closes (fst (fs_run s is)) <= 1.
Proof.
  intros H. destruct (fs_inv_reachable s is H) as [_ [Hnr [Hr _]]].
  destruct (fs_ready (fst (fs_run s is))) eqn:E.
  - destruct (Hr eq_refl) as [-> _]. lia.
  - destruct (Hnr eq_refl) as [_ ->]. lia.
Qed.


(* ------------------------------------------------------------------ *)
(* C08: Ready means synced                                              *)

Definition rejects_all (f : Filter.filter) : Prop := forall o, accept f o = false.

(* the transition that closes readych leaves the cache equal to the filtered
   parent content: either it has just synced from the parent's list under the
   current filter, or (the one transition that does not list the parent) the
   filter is still the initial All() of a for-filter node, which rejects
   everything, so the empty cache IS the filtered content *)
Theorem ready_implies_synced s i :
  fs_inv s -> fs_ready s = false -> fs_ready (fst (fs_step s i)) = true ->
  match i with
  | FParentReady plist => fs_cache (fst (fs_step s i)) = view (fs_filter (fst (fs_step s i))) plist
  | FRefilter _ plist =>
      fs_cache (fst (fs_step s i)) = view (fs_filter (fst (fs_step s i))) plist \/
      (fs_cache (fst (fs_step s i)) = [] /\ rejects_all (fs_filter (fst (fs_step s i))))
  | FParentEvent _ => False
  end.
Proof.
  intros [Hcf [Hnr [Hr [Him [Hdf Hwf]]]]] Hrd.
  destruct s as [df pw pe rd fl cfl ca cl]. simpl in *. subst cfl rd.
  destruct (Hnr eq_refl) as [-> ->].
  destruct i as [plist|f plist|ev]; simpl.
  - destruct pw; simpl; [|discriminate].
    destruct (df && negb pe); simpl; [discriminate|].
    unfold view. destruct (do_sync (accept fl) [] plist) as [c' evs] eqn:Hds. simpl. intros _. rewrite Hds. reflexivity.
  - destruct pw; simpl.
    + destruct (negb (comparable fl && feq fl f)); simpl; discriminate.
    + destruct (Him eq_refl eq_refl) as [-> ->].
      destruct (negb (negb (comparable fl && feq fl f))) eqn:Heq; simpl.
      * intros _. right. split; [reflexivity|].
        rewrite (Hdf eq_refl eq_refl eq_refl). intros o. reflexivity.
      * unfold view. destruct (do_sync (accept f) [] plist) as [c' evs] eqn:Hds. simpl. intros _. left. rewrite Hds. reflexivity.
  - discriminate.
Qed.

(* nothing is put on the output channel by a step taken while not ready
   (including the step that makes the node ready) *)
Theorem no_event_before_ready s i : fs_ready s = false -> snd (fs_step s i) = [].
Proof.
  intros Hr. destruct s as [df pw pe rd fl cfl ca cl]. simpl in Hr. subst rd.
  destruct i as [plist|f plist|ev]; simpl.
  - destruct pw; simpl; [|reflexivity]. destruct (df && negb pe); simpl; [reflexivity|].
    destruct (do_sync _ _ _). reflexivity.
  - destruct pw; simpl.
    + destruct (negb (comparable fl && feq fl f)); simpl; [destruct (do_sync _ _ _)|]; reflexivity.
    + destruct (negb (negb (comparable fl && feq fl f))); simpl; [reflexivity|].
      destruct (do_sync _ _ _). reflexivity.
  - reflexivity.
Qed.

(* a for-filter subscription or clone becomes ready only after its parent is
   ready AND a filter has been supplied *)
Definition is_pr (i : fin) : bool := match i with FParentReady _ => true | _ => false end.
Definition is_rf (i : fin) : bool := match i with FRefilter _ _ => true | _ => false end.

Definition dinv (s : fsub) (seen_pr seen_rf : bool) : Prop :=
  fs_defer s = true /\
  fs_pwait s = negb seen_pr /\
  (fs_pending s = true -> seen_rf = true) /\
  (fs_ready s = true -> seen_pr = true /\ seen_rf = true) /\
  (fs_pwait s = true -> fs_ready s = false).

Lemma dinv_step s i pr rf : dinv s pr rf -> dinv (fst (fs_step s i)) (pr || is_pr i) (rf || is_rf i).
Proof.
  intros [Hd [Hpw [Hpe [Hrd Hpr]]]].
  destruct s as [df pw pe rd fl cfl ca cl]. simpl in *. subst df.
  destruct i as [plist|f plist|ev]; simpl; rewrite ?orb_false_r, ?orb_true_r.
  - destruct pw; simpl.
    + destruct (negb pe) eqn:Hn; simpl.
      * unfold dinv; simpl. specialize (Hpr eq_refl). subst rd. repeat split; intros; try discriminate; auto.
      * apply negb_false_iff in Hn. subst pe. destruct (do_sync _ _ _). unfold dinv; simpl.
        repeat split; intros; try discriminate; auto.
    + unfold dinv; simpl. destruct pr; [|discriminate]. repeat split; intros; auto; try discriminate;
        try (apply Hrd; assumption).
  - destruct pw; simpl.
    + specialize (Hpr eq_refl). subst rd.
      destruct (negb (comparable fl && feq fl f)); simpl; [destruct (do_sync _ _ _)|];
        unfold dinv; simpl; repeat split; intros; try discriminate; auto.
    + destruct pr; [|discriminate].
      destruct (negb (negb (comparable fl && feq fl f))); simpl.
      * destruct rd; unfold dinv; simpl; repeat split; intros; try discriminate; auto.
      * destruct (do_sync _ _ _). destruct rd; unfold dinv; simpl; repeat split; intros; try discriminate; auto.
  - destruct rd; simpl.
    + destruct (do_update _ _ _). unfold dinv; simpl. repeat split; intros; try discriminate; auto;
        try (apply Hrd; reflexivity).
    + unfold dinv; simpl. repeat split; intros; try discriminate; auto.
Qed.

Theorem deferred_ready_needs_parent_and_filter is :
  fs_ready (fst (fs_run fs_init_deferred is)) = true ->
  existsb is_pr is = true /\ existsb is_rf is = true.
Proof.
  rewrite fs_run_fst.
  assert (H : forall s pr rf, dinv s pr rf ->
              fs_ready (fold_left (fun s i => fst (fs_step s i)) is s) = true ->
              pr || existsb is_pr is = true /\ rf || existsb is_rf is = true).
  { induction is as [|i is IH]; intros s pr rf Hd Hr; simpl in *.
    - destruct Hd as [_ [_ [_ [Hrd _]]]]. destruct (Hrd Hr) as [-> ->]. auto.
    - specialize (IH _ _ _ (dinv_step s i pr rf Hd) Hr). rewrite !orb_assoc. exact IH. }
  intros Hr. apply (H fs_init_deferred false false); [|exact Hr].
  unfold dinv, fs_init_deferred, fs_init; simpl. repeat split; intros; try discriminate; auto.
Qed.

(* ------------------------------------------------------------------ *)
(* C07: Refilter                                                        *)

(* refiltering to an equal filter emits and changes nothing; by C17
   (feq_sound) an equal filter accepts exactly the same objects *)
Theorem refilter_equal_noop s f plist :
  fs_ready s = true -> fs_pwait s = false ->
  filters_equal (Some (fs_filter s)) (Some f) = true ->
  fs_step s (FRefilter f plist) = (s, []).
Proof.
  intros Hr Hp He. destruct s as [df pw pe rd fl cfl ca cl]. simpl in *. subst rd pw.
  rewrite He. reflexivity.
Qed.

Theorem refilter_equal_same_view f g plist :
  wf_filter f -> wf_filter g -> filters_equal (Some f) (Some g) = true -> view f plist = view g plist.
Proof.
  intros Hf Hg He. unfold view.
  assert (Hext : forall o, accept f o = accept g o) by (apply filters_equal_sound; assumption).
  assert (Hs : forall l st, fold_left (sync_step (accept f) plist) l st = fold_left (sync_step (accept g) plist) l st).
  { induction l as [|o l IH]; intros st; [reflexivity|]. simpl. rewrite <- IH. f_equal.
    unfold sync_step. destruct (create_entry o) as [e|]; [|reflexivity].
    destruct (match newest_ver (key_of o) plist with Some v => Z.ltb (e_ver e) v | None => false end); [reflexivity|].
    destruct (clookup (key_of o) (s_items st)) as [c|]; rewrite ?Hext; reflexivity. }
  unfold do_sync. rewrite Hs. reflexivity.
Qed.

(* listings of a cache name every key once *)
Definition distinct_listing (plist : list obj) : Prop := forall k, length (entries_for k plist) <= 1.

(* Refilter on a node whose cache is the f1-view of its parent's content leaves
   the f2-view of that content: exactly the objects f2 rejects go, exactly the
   newly accepted ones come, the rest stays *)
Theorem refilter_exact f1 f2 plist :
  distinct_listing plist ->
  cache_eq (fst (do_sync (accept f2) (view f1 plist) plist)) (view f2 plist).
Proof.
  intros Hd k. unfold view. rewrite !sync_refines_spec. simpl clookup.
  specialize (Hd k). unfold sync_spec.
  destruct (entries_for k plist) as [|e [|e' es]] eqn:He; simpl in *; [reflexivity| |lia].
  unfold newest_accepted; simpl. rewrite Z.eqb_refl. simpl.
  destruct (accept f1 (e_obj e)) eqn:H1; simpl.
  - rewrite Z.leb_refl. destruct (accept f2 (e_obj e)); reflexivity.
  - reflexivity.
Qed.

(* the delta is a well-formed, minimal one (C02 instantiated) *)
Theorem refilter_events_exact f1 f2 plist :
  let c1 := view f1 plist in
  replay c1 (snd (do_sync (accept f2) c1 plist)) = Some (fst (do_sync (accept f2) c1 plist)).
Proof.
  intros c1. apply sync_events_replay. unfold c1, view. apply wf_do_sync, wf_nil.
Qed.

Theorem refilter_no_change_no_event f1 f2 plist :
  let c1 := view f1 plist in
  cache_eq (fst (do_sync (accept f2) c1 plist)) c1 -> snd (do_sync (accept f2) c1 plist) = [].
Proof.
  intros c1 Heq.
  assert (Hwf : wf_cache c1) by (unfold c1, view; apply wf_do_sync, wf_nil).
  destruct (snd (do_sync (accept f2) c1 plist)) as [|ev evs] eqn:He; [reflexivity|].
  exfalso. assert (Hne : snd (do_sync (accept f2) c1 plist) <> []) by (rewrite He; discriminate).
  destruct (sync_event_changes (accept f2) c1 plist Hwf Hne) as [k Hk]. apply Hk, Heq.
Qed.

(* refiltering back to an earlier filter restores the earlier view *)
Theorem refilter_roundtrip f1 f2 plist :
  distinct_listing plist ->
  cache_eq (fst (do_sync (accept f1) (fst (do_sync (accept f2) (view f1 plist) plist)) plist)) (view f1 plist).
Proof.
  intros Hd k. rewrite sync_refines_spec.
  rewrite (refilter_exact f1 f2 plist Hd k).
  rewrite <- sync_refines_spec. apply (refilter_exact f2 f1 plist Hd k).
Qed.

(* ------------------------------------------------------------------ *)
(* C06: a node in step with its parent stays in step                    *)

Definition fview (F : obj -> bool) (p : option entry) : option entry :=
  match p with
  | Some e => if F (e_obj e) then Some e else None
  | None => None
  end.

(* the child's cache is the filter applied to the parent's cache, key by key *)
Definition in_step (F : obj -> bool) (parent child : cache) : Prop :=
  forall k, clookup k child = fview F (clookup k parent).

(* a parent event as the parent's own cache produced it (C02): Create only of
   an absent key, Update only to a strictly newer version, Delete only of a
   present key *)
Definition parent_delta (parent : cache) (ev : event) (parent' : cache) : Prop :=
  event_pre parent ev /\ apply_event parent ev = Some parent' /\ create_entry (ev_obj ev) <> None.

Lemma apply_event_lookup c ev c' k :
  apply_event c ev = Some c' ->
  clookup k c' = if key_eqb (key_of (ev_obj ev)) k
                 then match ev_ty ev with Delete => None | _ => create_entry (ev_obj ev) end
                 else clookup k c.
Proof.
  unfold apply_event. intros H.
  destruct (keqb_spec (key_of (ev_obj ev)) k) as [<-|Hne].
  - destruct (ev_ty ev).
    + destruct (clookup (key_of (ev_obj ev)) c); [discriminate|].
      destruct (create_entry (ev_obj ev)) as [e|]; [|discriminate]. injection H as <-. apply clookup_cset_same.
    + destruct (clookup (key_of (ev_obj ev)) c) as [cu|]; [|discriminate].
      destruct (create_entry (ev_obj ev)) as [e|]; [|discriminate].
      destruct (Z.ltb (e_ver cu) (e_ver e)); [|discriminate]. injection H as <-. apply clookup_cset_same.
    + destruct (clookup (key_of (ev_obj ev)) c); [|discriminate]. injection H as <-. apply clookup_cremove_same.
  - assert (Hne' : k <> key_of (ev_obj ev)) by congruence.
    destruct (ev_ty ev).
    + destruct (clookup (key_of (ev_obj ev)) c); [discriminate|].
      destruct (create_entry (ev_obj ev)) as [e|]; [|discriminate]. injection H as <-. apply clookup_cset_other, Hne'.
    + destruct (clookup (key_of (ev_obj ev)) c) as [cu|]; [|discriminate].
      destruct (create_entry (ev_obj ev)) as [e|]; [|discriminate].
      destruct (Z.ltb (e_ver cu) (e_ver e)); [|discriminate]. injection H as <-. apply clookup_cset_other, Hne'.
    + destruct (clookup (key_of (ev_obj ev)) c); [|discriminate]. injection H as <-. apply clookup_cremove_other, Hne'.
Qed.

Theorem filter_update_commutes F parent child ev parent' :
  in_step F parent child -> parent_delta parent ev parent' ->
  in_step F parent' (fst (do_update F child ev)).
Proof.
  intros Hin [Hpre [Happ Hwf]] k.
  rewrite update_refines_spec, (apply_event_lookup _ _ _ k Happ).
  destruct (key_eqb (key_of (ev_obj ev)) k) eqn:Hk; [|apply Hin].
  apply keqb_eq in Hk. subst k.
  unfold update_spec. destruct (create_entry (ev_obj ev)) as [e|] eqn:Hce; [|contradiction].
  pose proof (create_entry_obj _ _ Hce) as Hobj.
  rewrite (Hin (key_of (ev_obj ev))).
  unfold event_pre in Hpre.
  destruct (ev_ty ev); simpl.
  - rewrite Hpre. simpl. rewrite Hobj. destruct (F (ev_obj ev)); reflexivity.
  - destruct Hpre as [cu [e' [Hl [Hce' Hlt]]]]. rewrite Hce in Hce'. injection Hce' as <-.
    rewrite Hl. simpl. rewrite Hobj.
    destruct (F (e_obj cu)); simpl.
    + destruct (Z.ltb_spec (e_ver cu) (e_ver e)); [|lia]. destruct (F (ev_obj ev)); reflexivity.
    + destruct (F (ev_obj ev)); reflexivity.
  - reflexivity.
Qed.

(* syncing from the parent's current content re-establishes being in step,
   whatever the cache held before, for listings that name each key once and
   carry the parent's own entries *)
Theorem sync_establishes_in_step F parent c0 :
  wf_cache parent ->
  (forall k cu e, clookup k c0 = Some cu -> clookup k parent = Some e -> (e_ver cu < e_ver e)%Z \/ cu = e) ->
  in_step F parent (fst (do_sync F c0 (do_list parent))).
Proof.
  intros Hwf Hold k. rewrite sync_refines_spec.
  assert (He : entries_for k (do_list parent) = match clookup k parent with Some e => [e] | None => [] end).
  { clear Hold. destruct Hwf as [Hnd Hall]. unfold do_list.
    induction parent as [|[k' e'] parent IH]; simpl; [reflexivity|].
    inversion Hnd as [|? ? Hnotin Hnd']; subst. inversion Hall as [|? ? Hok Hall']; subst.
    destruct Hok as [Hk Hce]. simpl in Hk, Hce.
    unfold entries_for. simpl flat_map. fold (entries_for k (map (fun ke => e_obj (snd ke)) parent)).
    rewrite Hk, Hce. rewrite (keqb_sym k k').
    destruct (keqb_spec k' k) as [->|Hne].
    - simpl. rewrite (IH Hnd' Hall').
      assert (Hn : clookup k parent = None) by (apply clookup_None_notin; exact Hnotin). rewrite Hn. reflexivity.
    - simpl. apply IH; assumption. }
  rewrite He. unfold sync_spec, fview.
  destruct (clookup k parent) as [e|] eqn:Hp; simpl; [|reflexivity].
  unfold newest_accepted; simpl. rewrite Z.eqb_refl. simpl.
  destruct (clookup k c0) as [cu|] eqn:Hc; [|destruct (F (e_obj e)); reflexivity].
  destruct (Hold k cu e Hc Hp) as [Hlt|Heq]; [|subst cu].
  - destruct (Z.leb_spec (e_ver e) (e_ver cu)); [lia|]. destruct (F (e_obj e)); reflexivity.
  - rewrite Z.leb_refl. destruct (F (e_obj e)); reflexivity.
Qed.

(* filters nested through clones compose as conjunction *)
Theorem nested_conjunction f1 f2 parent :
  wf_cache parent ->
  forall k, clookup k (view f2 (do_list (view f1 (do_list parent)))) =
            fview (fun o => accept f1 o && accept f2 o) (clookup k parent).
Proof.
  intros Hwf k.
  assert (H1 : in_step (accept f1) parent (view f1 (do_list parent))).
  { unfold view. apply sync_establishes_in_step; [exact Hwf|]. intros k0 cu e Hc. discriminate. }
  assert (Hwf1 : wf_cache (view f1 (do_list parent))) by (unfold view; apply wf_do_sync, wf_nil).
  assert (H2 : in_step (accept f2) (view f1 (do_list parent)) (view f2 (do_list (view f1 (do_list parent))))).
  { unfold view at 2. apply sync_establishes_in_step; [exact Hwf1|]. intros k0 cu e Hc. discriminate. }
  rewrite (H2 k), (H1 k). unfold fview.
  destruct (clookup k parent) as [e|]; [|reflexivity].
  destruct (accept f1 (e_obj e)); simpl; [|reflexivity]. destruct (accept f2 (e_obj e)); reflexivity.
Qed.
