// Package enc is the case-file encoding shared with the OCaml model runner:
// whitespace-separated integers and parenthesised lists.
package enc

import (
	"fmt"
	"strconv"
	"strings"
)

// T is an encoded tree: either an integer leaf or a list.
type T struct {
	IsInt bool
	I     int64
	L     []T
}

func I(i int) T      { return T{IsInt: true, I: int64(i)} }
func I64(i int64) T  { return T{IsInt: true, I: i} }
func L(ts ...T) T    { return T{L: ts} }
func B(b bool) T {
	if b {
		return I(1)
	}
	return I(0)
}

func Ints(is []int) T {
	ts := make([]T, len(is))
	for i, v := range is {
		ts[i] = I(v)
	}
	return L(ts...)
}

func (t T) write(sb *strings.Builder) {
	if t.IsInt {
		sb.WriteString(strconv.FormatInt(t.I, 10))
		return
	}
	sb.WriteByte('(')
	for i, c := range t.L {
		if i > 0 {
			sb.WriteByte(' ')
		}
		c.write(sb)
	}
	sb.WriteByte(')')
}

func (t T) String() string {
	var sb strings.Builder
	t.write(&sb)
	return sb.String()
}

// Parse reads one tree from s.
func Parse(s string) (T, error) {
	p := &parser{s: s}
	t, err := p.parse()
	if err != nil {
		return T{}, err
	}
	p.skip()
	if p.i != len(p.s) {
		return T{}, fmt.Errorf("trailing input at %d", p.i)
	}
	return t, nil
}

type parser struct {
	s string
	i int
}

func (p *parser) skip() {
	for p.i < len(p.s) && (p.s[p.i] == ' ' || p.s[p.i] == '\n' || p.s[p.i] == '\t') {
		p.i++
	}
}

func (p *parser) parse() (T, error) {
	p.skip()
	if p.i >= len(p.s) {
		return T{}, fmt.Errorf("unexpected end")
	}
	if p.s[p.i] == '(' {
		p.i++
		var l []T
		for {
			p.skip()
			if p.i >= len(p.s) {
				return T{}, fmt.Errorf("unclosed list")
			}
			if p.s[p.i] == ')' {
				p.i++
				return T{L: l}, nil
			}
			c, err := p.parse()
			if err != nil {
				return T{}, err
			}
			l = append(l, c)
		}
	}
	j := p.i
	for j < len(p.s) && (p.s[j] == '-' || (p.s[j] >= '0' && p.s[j] <= '9')) {
		j++
	}
	v, err := strconv.ParseInt(p.s[p.i:j], 10, 64)
	if err != nil {
		return T{}, fmt.Errorf("bad int at %d: %v", p.i, err)
	}
	p.i = j
	return T{IsInt: true, I: v}, nil
}
