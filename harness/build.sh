#!/bin/bash
# Build the correspondence harness against the tree under test
# (VERIF_REPO, default /repo), offline, with the verif build tag.
set -e
cd "$(dirname "$0")"
REPO=${VERIF_REPO:-/repo}
export GOFLAGS=-mod=mod GOPROXY=off GOSUMDB=off GOTOOLCHAIN=local CGO_ENABLED=${CGO_ENABLED:-0}
GO=${VERIF_GO:-go1.26.8}
sed "s#@REPO@#$REPO#" go.mod.in > go.mod
cp "$REPO/go.sum" go.sum
mkdir -p bin
$GO test -c -tags verif -o bin/kverif.test ./cmd/kverif
rm -f bin/kverif
$GO build -o bin/gentokens ./cmd/gentokens
if [ -n "$KVERIF_RACE" ]; then
  CGO_ENABLED=1 $GO test -c -race -tags verif -o bin/kverif-race.test ./cmd/kverif
fi
