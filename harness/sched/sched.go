// Package sched runs scenarios inside testing/synctest bubbles: virtual
// time, exact quiescence barriers, deadlock capture, seeded schedule
// perturbation through the injected logger, and the goroutine inventory.
package sched

import (
	"fmt"
	"math/rand"
	"runtime"
	"strings"
	"sync"
	"sync/atomic"
	"testing"
	"testing/synctest"
	"time"

	"verifharness/qlog"

	logutil "github.com/boz/go-logutil"
)

// Bubble runs f in a synctest bubble.  It returns a non-empty string when the
// bubble deadlocked (every goroutine durably blocked with no timer pending),
// together with the stacks of the library goroutines at that moment.
// VaryProcs: when set (thorough tier), successive bubbles run with different
// numbers of OS threads executing Go code (GOMAXPROCS 1, 2, 4, all): some
// interleavings only occur with few processors, others only with many.
var VaryProcs bool
var bubbleCount atomic.Int64
var ProcsUsed sync.Map // GOMAXPROCS value -> number of bubbles

func Bubble(t *testing.T, f func()) (deadlock string) {
	if VaryProcs {
		all := runtime.NumCPU()
		n := []int{all, 1, all, 2, all, 4}[bubbleCount.Add(1)%6]
		if n > all {
			n = all
		}
		prev := runtime.GOMAXPROCS(n)
		defer runtime.GOMAXPROCS(prev)
		c, _ := ProcsUsed.LoadOrStore(n, new(atomic.Int64))
		c.(*atomic.Int64).Add(1)
	}
	defer func() {
		if r := recover(); r != nil {
			msg := fmt.Sprint(r)
			if strings.Contains(msg, "deadlock") {
				deadlock = msg + "\n" + LibraryStacks()
				return
			}
			panic(r)
		}
	}()
	synctest.Test(t, func(*testing.T) { f() })
	return ""
}

// Perturb is a source of seeded schedule perturbation.  Every log call of the
// library is a schedule point: it returns at once, yields, or sleeps one
// virtual nanosecond (which lets everything else run to quiescence first).
type Perturb struct {
	mu       sync.Mutex
	rng      *rand.Rand
	level    int // 0 = off; n>0: one in n calls sleeps, one in n yields
	activity atomic.Int64
	Points   map[string]int
	hold     map[string]chan struct{} // component -> its log calls wait on the channel
	nth      map[string]*nthHold
}

func NewPerturb(seed int64, level int) *Perturb {
	return &Perturb{rng: rand.New(rand.NewSource(seed)), level: level, Points: map[string]int{}}
}

func (p *Perturb) SetLevel(l int) {
	p.mu.Lock()
	p.level = l
	p.mu.Unlock()
}

// Hold makes every log call of a component block until the returned function
// is called: the goroutine that logs is held at that point, as a preemption
// there would hold it.
func (p *Perturb) Hold(cmp string) (release func()) {
	ch := make(chan struct{})
	p.mu.Lock()
	if p.hold == nil {
		p.hold = map[string]chan struct{}{}
	}
	p.hold[cmp] = ch
	p.mu.Unlock()
	return func() {
		p.mu.Lock()
		delete(p.hold, cmp)
		p.mu.Unlock()
		close(ch)
	}
}

// HoldNth makes the n-th log call (counted from now, n >= 1) of the named
// component block until release is called; held reports whether a call is
// (or was) blocked there.  No log text is looked at.
func (p *Perturb) HoldNth(cmp string, n int) (release func(), held func() bool) {
	h := &nthHold{n: n, ch: make(chan struct{})}
	p.mu.Lock()
	if p.nth == nil {
		p.nth = map[string]*nthHold{}
	}
	p.nth[cmp] = h
	p.mu.Unlock()
	var once sync.Once
	return func() {
			once.Do(func() {
				p.mu.Lock()
				if p.nth[cmp] == h { // (a later HoldNth on the same component stays)
					delete(p.nth, cmp)
				}
				p.mu.Unlock()
				close(h.ch)
			})
		}, func() bool {
			p.mu.Lock()
			defer p.mu.Unlock()
			return h.hit
		}
}

type nthHold struct {
	n   int
	hit bool
	ch  chan struct{}
}

func (p *Perturb) Log() logutil.Log {
	return qlog.Hooked(func(cmp string) {
		p.activity.Add(1)
		p.mu.Lock()
		if h := p.nth[cmp]; h != nil && !h.hit {
			h.n--
			if h.n == 0 {
				h.hit = true
				p.mu.Unlock()
				<-h.ch
				p.mu.Lock()
			}
		}
		if ch := p.hold[cmp]; ch != nil {
			p.mu.Unlock()
			<-ch
			p.mu.Lock()
		}
		p.Points[cmp]++
		lvl := p.level
		r := 0
		if lvl > 0 {
			r = p.rng.Intn(2 * lvl)
		}
		p.mu.Unlock()
		if lvl == 0 {
			return
		}
		switch {
		case r == 0:
			time.Sleep(time.Nanosecond)
		case r == 1:
			runtime.Gosched()
		}
	})
}

// Barrier waits until the system under test is quiescent: virtual time is
// advanced past every pending perturbation sleep and synctest.Wait is
// repeated until a round sees no log activity.  (A bare synctest.Wait returns
// while perturbed goroutines are still asleep.)
func (p *Perturb) Barrier() {
	for i := 0; i < 10000; i++ {
		before := p.activity.Load()
		time.Sleep(time.Microsecond)
		synctest.Wait()
		if p.activity.Load() == before {
			return
		}
	}
	panic("sched: barrier did not converge")
}

// Settle is a barrier for scenarios without perturbation.
func Settle() {
	time.Sleep(time.Microsecond)
	synctest.Wait()
}

// LibraryGoroutines counts goroutines with a frame in the library under test.
func LibraryGoroutines() int {
	return len(libraryStacks())
}

func LibraryStacks() string {
	return strings.Join(libraryStacks(), "\n\n")
}

func libraryStacks() []string {
	buf := make([]byte, 1<<20)
	for {
		n := runtime.Stack(buf, true)
		if n < len(buf) {
			buf = buf[:n]
			break
		}
		buf = make([]byte, 2*len(buf))
	}
	var r []string
	for _, g := range strings.Split(string(buf), "\n\n") {
		if strings.Contains(g, "github.com/boz/kcache") || strings.Contains(g, "github.com/boz/go-lifecycle") {
			if strings.Contains(g, "sched.libraryStacks") {
				continue
			}
			r = append(r, g)
		}
	}
	return r
}
