// Package fakeapi is a scriptable fake Kubernetes API server for one
// resource type (pods): a mutation log with a global resource-version
// counter, List, and Watch with resume semantics and injectable faults.
// It implements the abstract server of coq/theories/Server.v.
package fakeapi

import (
	"math/rand"
	"context"
	"errors"
	"fmt"
	"sort"
	"strconv"
	"sync"
	"strings"
	"sync/atomic"
	"time"

	"verifharness/kobj"

	appsv1 "k8s.io/api/apps/v1"
	batchv1 "k8s.io/api/batch/v1"
	corev1 "k8s.io/api/core/v1"
	netv1beta1 "k8s.io/api/networking/v1beta1"
	apierrors "k8s.io/apimachinery/pkg/api/errors"
	metav1 "k8s.io/apimachinery/pkg/apis/meta/v1"
	"k8s.io/apimachinery/pkg/runtime"
	"k8s.io/apimachinery/pkg/runtime/schema"
	"k8s.io/apimachinery/pkg/watch"
)

// LogEntry is one change the server made.
type LogEntry struct {
	Version int
	Type    watch.EventType
	Obj     *kobj.Obj // RV = Version
}

// ListKind selects what a List call returns.
type ListKind int

const (
	ListOK ListKind = iota
	ListErr
	ListNonList      // an object that is not a list
	ListNoItems      // a list type without an Items field
	ListNonObjects   // a list whose items are not API objects
	ListHang         // blocks until the context is cancelled
	ListErrCanceled  // returns context.Canceled although nobody cancelled
	ListErrTooMany   // a Kubernetes Status error: 429 TooManyRequests
	ListErrSrvTimeout // 500 ServerTimeout
	ListErrTimeout   // 504 Timeout
	ListErrNotFound  // 404 NotFound (the resource is not served)
	ListErrForbidden // 403 Forbidden
	ListErrGone      // 410 Gone
)

var ErrList = errors.New("fakeapi: injected list error")
var ErrWatch = errors.New("fakeapi: injected watch connect error")

// ListCall / WatchCall record what the client asked for and when (virtual time).
type ListCall struct {
	N          int
	Start, End time.Time
	Version    int // version returned
	Kind       ListKind
}

// Seq is a logical clock shared by every observer of a scenario: an
// observation with a smaller Seq was made before one with a larger Seq.
var Seq atomic.Int64

type WatchCall struct {
	Seq     int64
	N       int
	At      time.Time
	RV      string
	Outcome string // "ok", "error", "error-deadline", "error-canceled", "hang"
}

type Server struct {
	// StaleDuplicates: lists also name an older version of every second object, before the current one
	StaleDuplicates bool
	// ShuffleLists: every List answers with its items in another order
	ShuffleLists bool
	inflight atomic.Int32
	// CancelLag: how long a List / Watch call takes to return after its context was cancelled
	CancelLag time.Duration
	incarnations map[[2]int]int // per key: how many times it was created
	// Kind of the objects this server serves (kobj.KPod by default)
	Kind    int
	mu      sync.Mutex
	version int
	objects map[[2]int]*kobj.Obj
	log     []LogEntry
	conns   []*conn
	nextID  int

	// fault programming, consulted at each call (n counts from 1)
	ListLatency  func(n int) time.Duration
	ListBehave   func(n int) ListKind
	WatchBehave  func(n int, rv string) string // "ok" | "error" | "hang"
	WatchLatency func(n int) time.Duration
	// Unversioned: lists carry no collection resourceVersion (legal; client-go's
	// fake clientsets do this), and a watch from "" starts at the present
	Unversioned bool
	// StaleDeleteFrames: a DELETED frame carries the object as it was last
	// stored, resourceVersion included (the deletion itself still has its own
	// position in the server's history)
	StaleDeleteFrames bool
	// OpaqueVersions: the collection resourceVersion of a list is an opaque
	// token ("rv-<n>": what the API conventions say it is), which Watch accepts
	// back; object versions stay numeric.  Every second server New() makes has
	// it on, so that every scenario of every property runs under both forms.
	OpaqueVersions bool
	// listGate: while non-nil, List calls wait on it before they take their
	// snapshot (HoldLists / the returned release function)
	listGate chan struct{}
	// SnapshotAtStart: a List call answers with the content and version the
	// server had when the call STARTED (and returns after its latency): the
	// list is then older than what the watch has delivered meanwhile
	SnapshotAtStart bool
	// AfterSnapshot runs inside the n-th List call right after its snapshot was
	// taken (no lock held): changes it makes are newer than the list and
	// reach the client through the watch at the moment the list returns
	AfterSnapshot func(n int)
	// BeforeWatch runs at the start of every Watch call (no lock held): changes
	// it makes are the first thing the new stream delivers
	BeforeWatch func(rv string)

	Lists   []ListCall
	Watches []WatchCall
	nlist   int
	nwatch  int
}

var servers atomic.Int64

func New() *Server {
	return &Server{objects: map[[2]int]*kobj.Obj{}, nextID: 1, OpaqueVersions: servers.Add(1)%2 == 0}
}

// StartVersion makes the next change carry resource version v (0 is a legal
// resource version: the first object of an empty store).
func (s *Server) StartVersion(v int) {
	s.mu.Lock()
	s.version = v - 1
	s.mu.Unlock()
}

func (s *Server) Version() int {
	s.mu.Lock()
	defer s.mu.Unlock()
	return s.version
}

// Objects returns the current server state sorted by key.
func (s *Server) Objects() []*kobj.Obj {
	s.mu.Lock()
	defer s.mu.Unlock()
	return s.objectsLocked()
}

func (s *Server) objectsLocked() []*kobj.Obj {
	var r []*kobj.Obj
	for _, o := range s.objects {
		r = append(r, o)
	}
	sort.Slice(r, func(i, j int) bool {
		if r[i].NS != r[j].NS {
			return r[i].NS < r[j].NS
		}
		return r[i].NM < r[j].NM
	})
	return r
}

func (s *Server) Log() []LogEntry {
	s.mu.Lock()
	defer s.mu.Unlock()
	return append([]LogEntry(nil), s.log...)
}

// Set creates or modifies an object; the server assigns identity and version.
func (s *Server) Set(ns, nm int, labels kobj.Map, node int) *kobj.Obj {
	s.mu.Lock()
	defer s.mu.Unlock()
	s.version++
	o := &kobj.Obj{ID: s.nextID, Kind: kobj.KPod, NS: ns, NM: nm, RV: strconv.Itoa(s.version), Labels: labels, Spec: kobj.SPod, Node: node}
	s.nextID++
	k := [2]int{ns, nm}
	t := watch.Added
	if old, ok := s.objects[k]; ok {
		t = watch.Modified
		o.Inc = old.Inc // the same incarnation: the UID stays
	} else {
		// created (again): a new UID
		if s.incarnations == nil {
			s.incarnations = map[[2]int]int{}
		}
		s.incarnations[k]++
		o.Inc = s.incarnations[k]
	}
	s.objects[k] = o
	s.append(LogEntry{s.version, t, o})
	return o
}

// HoldLists makes List calls wait (after their latency) until the returned
// function is called.
func (s *Server) HoldLists() (release func()) {
	s.mu.Lock()
	defer s.mu.Unlock()
	g := make(chan struct{})
	s.listGate = g
	return func() {
		s.mu.Lock()
		if s.listGate == g {
			s.listGate = nil
		}
		s.mu.Unlock()
		close(g)
	}
}

// MarkTerminating gives an existing object a deletionTimestamp (a new version,
// a MODIFIED frame): graceful deletion has begun, the object is still there.
func (s *Server) MarkTerminating(ns, nm int) *kobj.Obj {
	s.mu.Lock()
	defer s.mu.Unlock()
	k := [2]int{ns, nm}
	old, ok := s.objects[k]
	if !ok {
		return nil
	}
	s.version++
	o := *old
	o.ID = s.nextID
	o.RV = strconv.Itoa(s.version)
	o.Terminating = true
	s.nextID++
	s.objects[k] = &o
	s.append(LogEntry{s.version, watch.Modified, &o})
	return &o
}

// Put creates or modifies an object from a prototype (kind, namespace, name,
// labels and spec are taken from it); the server assigns identity and version.
func (s *Server) Put(proto kobj.Obj) *kobj.Obj {
	s.mu.Lock()
	defer s.mu.Unlock()
	s.version++
	o := proto
	o.ID = s.nextID
	o.RV = strconv.Itoa(s.version)
	s.nextID++
	k := [2]int{o.NS, o.NM}
	t := watch.Added
	if old, ok := s.objects[k]; ok {
		t = watch.Modified
		o.Inc = old.Inc
	} else {
		if s.incarnations == nil {
			s.incarnations = map[[2]int]int{}
		}
		s.incarnations[k]++
		o.Inc = s.incarnations[k]
	}
	s.objects[k] = &o
	s.append(LogEntry{s.version, t, &o})
	return &o
}

// Delete removes an object (no-op when absent).  The delete event carries the
// last state of the object at the deletion version, as the API server does.
func (s *Server) Delete(ns, nm int) *kobj.Obj {
	s.mu.Lock()
	defer s.mu.Unlock()
	k := [2]int{ns, nm}
	old, ok := s.objects[k]
	if !ok {
		return nil
	}
	s.version++
	o := *old
	o.ID = s.nextID
	s.nextID++
	o.RV = strconv.Itoa(s.version)
	if s.StaleDeleteFrames {
		o.RV = old.RV
	}
	delete(s.objects, k)
	s.append(LogEntry{s.version, watch.Deleted, &o})
	return &o
}

func (s *Server) append(e LogEntry) {
	s.log = append(s.log, e)
	for _, c := range s.conns {
		c.kick()
	}
}

// ---------------------------------------------------------------------
// List

type noItemsList struct {
	metav1.TypeMeta
	metav1.ListMeta
}

func (l *noItemsList) DeepCopyObject() runtime.Object { c := *l; return &c }

type notAnObject struct{ metav1.TypeMeta }

func (o *notAnObject) DeepCopyObject() runtime.Object { c := *o; return &c }
func (o *notAnObject) GetObjectKind() schema.ObjectKind { return &o.TypeMeta }

// InFlight is the number of List / Watch calls that have been entered and have
// not returned yet.
func (s *Server) InFlight() int { return int(s.inflight.Load()) }

// returning is a call's way back to its caller: a call that ends because its
// context was cancelled takes CancelLag (virtual time) to return
func (s *Server) returning(ctx context.Context, err error) {
	if err != nil && ctx.Err() != nil && s.CancelLag > 0 {
		time.Sleep(s.CancelLag)
	}
	s.inflight.Add(-1)
}

func (s *Server) List(ctx context.Context, opts metav1.ListOptions) (o runtime.Object, err error) {
	s.inflight.Add(1)
	defer func() { s.returning(ctx, err) }()
	return s.list(ctx, opts)
}

func (s *Server) list(ctx context.Context, opts metav1.ListOptions) (runtime.Object, error) {
	s.mu.Lock()
	s.nlist++
	n := s.nlist
	kind := ListOK
	if s.ListBehave != nil {
		kind = s.ListBehave(n)
	}
	var lat time.Duration
	if s.ListLatency != nil {
		lat = s.ListLatency(n)
	}
	call := ListCall{N: n, Start: time.Now(), Kind: kind}
	idx := len(s.Lists)
	s.Lists = append(s.Lists, call)
	s.mu.Unlock()

	finish := func(v int) {
		s.mu.Lock()
		s.Lists[idx].End = time.Now()
		s.Lists[idx].Version = v
		s.mu.Unlock()
	}

	var early []*kobj.Obj
	earlyV := -1
	if s.SnapshotAtStart {
		s.mu.Lock()
		earlyV = s.version
		early = s.objectsLocked()
		s.mu.Unlock()
	}
	if kind == ListHang {
		<-ctx.Done()
		finish(-1)
		return nil, ctx.Err()
	}
	if lat > 0 {
		select {
		case <-time.After(lat):
		case <-ctx.Done():
			finish(-1)
			return nil, ctx.Err()
		}
	}
	s.mu.Lock()
	gate := s.listGate
	s.mu.Unlock()
	if gate != nil {
		select {
		case <-gate:
		case <-ctx.Done():
			finish(-1)
			return nil, ctx.Err()
		}
	}
	// the snapshot is taken when the call completes
	s.mu.Lock()
	v := s.version
	objs := s.objectsLocked()
	s.mu.Unlock()
	// a list that names a resourceVersion asks for a state "not older than"
	// it, which a server may answer from a cache that lags: this one answers
	// with the state AT that version.  (A list without one is a consistent
	// read: the present.)
	if rv := strings.TrimPrefix(opts.ResourceVersion, "rv-"); rv != "" && rv != "0" {
		if v0, err := strconv.Atoi(rv); err == nil && v0 >= 0 && v0 <= v {
			v, objs = v0, s.ObjectsAt(v0)
		}
	}
	if earlyV >= 0 {
		v, objs = earlyV, early
	}
	if s.StaleDuplicates {
		// an older version of every second object is listed as well, BEFORE the
		// current one: a list may name a key twice, its newest version counts
		s.mu.Lock()
		var withDups []*kobj.Obj
		for i, o := range objs {
			if i%2 == 0 {
				for k := len(s.log) - 1; k >= 0; k-- {
					e := s.log[k]
					if e.Obj.NS == o.NS && e.Obj.NM == o.NM && e.Obj.ID != o.ID && e.Type != watch.Deleted && e.Version <= v {
						withDups = append(withDups, e.Obj)
						break
					}
				}
			}
			withDups = append(withDups, o)
		}
		s.mu.Unlock()
		objs = withDups
	}
	if s.ShuffleLists {
		// the items of a list come in no particular order
		objs = append([]*kobj.Obj(nil), objs...)
		r := rand.New(rand.NewSource(int64(n)*7919 + int64(v)))
		r.Shuffle(len(objs), func(i, j int) { objs[i], objs[j] = objs[j], objs[i] })
	}
	finish(v)
	if s.AfterSnapshot != nil {
		s.AfterSnapshot(n)
	}
	switch kind {
	case ListErr:
		return nil, ErrList
	case ListErrCanceled:
		return nil, context.Canceled
	case ListErrTooMany:
		return nil, apierrors.NewTooManyRequests("fakeapi: overloaded", 1)
	case ListErrSrvTimeout:
		return nil, apierrors.NewServerTimeout(schema.GroupResource{Resource: "pods"}, "list", 1)
	case ListErrNotFound:
		return nil, apierrors.NewNotFound(schema.GroupResource{Resource: "pods"}, "")
	case ListErrForbidden:
		return nil, apierrors.NewForbidden(schema.GroupResource{Resource: "pods"}, "", errors.New("fakeapi: list not allowed"))
	case ListErrGone:
		return nil, apierrors.NewResourceExpired("fakeapi: too old resource version")
	case ListErrTimeout:
		return nil, apierrors.NewTimeoutError("fakeapi: timeout", 1)
	case ListNonList:
		return &corev1.Pod{}, nil
	case ListNoItems:
		return &noItemsList{ListMeta: metav1.ListMeta{ResourceVersion: strconv.Itoa(v)}}, nil
	case ListNonObjects:
		l := &metav1.List{ListMeta: metav1.ListMeta{ResourceVersion: strconv.Itoa(v)}}
		l.Items = append(l.Items, runtime.RawExtension{Object: &notAnObject{}})
		return l, nil
	}
	if s.Unversioned {
		return TypedList(s.Kind, "", objs), nil
	}
	if s.OpaqueVersions {
		return TypedList(s.Kind, "rv-"+strconv.Itoa(v), objs), nil
	}
	return TypedList(s.Kind, strconv.Itoa(v), objs), nil
}

// TypedList builds the API list object of a kind.
func TypedList(kind int, rv string, objs []*kobj.Obj) runtime.Object {
	lm := metav1.ListMeta{ResourceVersion: rv}
	switch kind {
	case kobj.KService:
		l := &corev1.ServiceList{ListMeta: lm}
		for _, o := range objs {
			l.Items = append(l.Items, *(o.Go().(*corev1.Service)))
		}
		return l
	case kobj.KRC:
		l := &corev1.ReplicationControllerList{ListMeta: lm}
		for _, o := range objs {
			l.Items = append(l.Items, *(o.Go().(*corev1.ReplicationController)))
		}
		return l
	case kobj.KRS:
		l := &appsv1.ReplicaSetList{ListMeta: lm}
		for _, o := range objs {
			l.Items = append(l.Items, *(o.Go().(*appsv1.ReplicaSet)))
		}
		return l
	case kobj.KDeployment:
		l := &appsv1.DeploymentList{ListMeta: lm}
		for _, o := range objs {
			l.Items = append(l.Items, *(o.Go().(*appsv1.Deployment)))
		}
		return l
	case kobj.KDaemonSet:
		l := &appsv1.DaemonSetList{ListMeta: lm}
		for _, o := range objs {
			l.Items = append(l.Items, *(o.Go().(*appsv1.DaemonSet)))
		}
		return l
	case kobj.KStatefulSet:
		l := &appsv1.StatefulSetList{ListMeta: lm}
		for _, o := range objs {
			l.Items = append(l.Items, *(o.Go().(*appsv1.StatefulSet)))
		}
		return l
	case kobj.KJob:
		l := &batchv1.JobList{ListMeta: lm}
		for _, o := range objs {
			l.Items = append(l.Items, *(o.Go().(*batchv1.Job)))
		}
		return l
	case kobj.KEvent:
		l := &corev1.EventList{ListMeta: lm}
		for _, o := range objs {
			l.Items = append(l.Items, *(o.Go().(*corev1.Event)))
		}
		return l
	case kobj.KIngress:
		l := &netv1beta1.IngressList{ListMeta: lm}
		for _, o := range objs {
			l.Items = append(l.Items, *(o.Go().(*netv1beta1.Ingress)))
		}
		return l
	case kobj.KNode:
		l := &corev1.NodeList{ListMeta: lm}
		for _, o := range objs {
			l.Items = append(l.Items, *(o.Go().(*corev1.Node)))
		}
		return l
	case kobj.KSecret:
		l := &corev1.SecretList{ListMeta: lm}
		for _, o := range objs {
			l.Items = append(l.Items, *(o.Go().(*corev1.Secret)))
		}
		return l
	}
	pl := &corev1.PodList{ListMeta: lm}
	for _, o := range objs {
		pl.Items = append(pl.Items, *(o.Go().(*corev1.Pod)))
	}
	return pl
}

// ---------------------------------------------------------------------
// Watch

// Frame is an extra, non-log frame to inject into a connection.
type Frame struct {
	Type watch.EventType
	Obj  runtime.Object
}

type conn struct {
	s      *Server
	n      int
	pos    int // index into s.log of the next entry to deliver
	ch     chan watch.Event
	wake   chan struct{}
	stop   chan struct{}
	once   sync.Once
	closed bool
	// faults
	closeAfter int     // close the stream after delivering this many log entries (-1: never)
	delivered  int
	pending    []Frame // injected frames, delivered before the next log entry
	dropNext   int     // silently skip this many log entries
	dupNext    int     // deliver the next this-many entries twice
	paused     bool
}

func (c *conn) kick() {
	select {
	case c.wake <- struct{}{}:
	default:
	}
}

func (c *conn) Stop() {
	c.once.Do(func() { close(c.stop) })
}

func (c *conn) ResultChan() <-chan watch.Event { return c.ch }

func (c *conn) run() {
	defer close(c.ch)
	for {
		c.s.mu.Lock()
		var out []watch.Event
		end := false
		if !c.paused {
			for _, f := range c.pending {
				out = append(out, watch.Event{Type: f.Type, Object: f.Obj})
			}
			c.pending = nil
			for c.pos < len(c.s.log) && !end {
				if c.closeAfter >= 0 && c.delivered >= c.closeAfter {
					end = true
					break
				}
				e := c.s.log[c.pos]
				c.pos++
				if c.dropNext > 0 {
					c.dropNext--
					continue
				}
				ev := watch.Event{Type: e.Type, Object: e.Obj.Go().(runtime.Object)}
				out = append(out, ev)
				if c.dupNext > 0 {
					c.dupNext--
					out = append(out, watch.Event{Type: e.Type, Object: e.Obj.Go().(runtime.Object)})
				}
				c.delivered++
			}
			if c.closeAfter >= 0 && c.delivered >= c.closeAfter {
				end = true
			}
		}
		if c.closed {
			end = true
		}
		c.s.mu.Unlock()
		for _, ev := range out {
			select {
			case c.ch <- ev:
			case <-c.stop:
				return
			}
		}
		if end {
			return
		}
		select {
		case <-c.wake:
		case <-c.stop:
			return
		}
	}
}

func (s *Server) Watch(ctx context.Context, opts metav1.ListOptions) (w watch.Interface, err error) {
	s.inflight.Add(1)
	defer func() { s.returning(ctx, err) }()
	return s.watchConnect(ctx, opts)
}

func (s *Server) watchConnect(ctx context.Context, opts metav1.ListOptions) (watch.Interface, error) {
	// the opaque token of a list, given back
	opts.ResourceVersion = strings.TrimPrefix(opts.ResourceVersion, "rv-")
	if s.BeforeWatch != nil {
		s.BeforeWatch(opts.ResourceVersion)
	}
	s.mu.Lock()
	s.nwatch++
	n := s.nwatch
	behave := "ok"
	if s.WatchBehave != nil {
		behave = s.WatchBehave(n, opts.ResourceVersion)
	}
	var lat time.Duration
	if s.WatchLatency != nil {
		lat = s.WatchLatency(n)
	}
	s.Watches = append(s.Watches, WatchCall{Seq: Seq.Add(1), N: n, At: time.Now(), RV: opts.ResourceVersion, Outcome: behave})
	s.mu.Unlock()
	if lat > 0 {
		select {
		case <-time.After(lat):
		case <-ctx.Done():
			return nil, ctx.Err()
		}
	}
	switch behave {
	case "error":
		return nil, ErrWatch
	case "error-deadline":
		// a client-side dial timeout: a context error although nobody stopped the controller
		return nil, context.DeadlineExceeded
	case "error-canceled":
		return nil, context.Canceled
	case "error-forbidden":
		// RBAC grants list but not watch
		return nil, apierrors.NewForbidden(schema.GroupResource{Resource: "pods"}, "", errors.New("fakeapi: watch not allowed"))
	case "error-unauthorized":
		return nil, apierrors.NewUnauthorized("fakeapi: token expired")
	case "hang":
		<-ctx.Done()
		return nil, ctx.Err()
	}
	rv, err := strconv.Atoi(opts.ResourceVersion)
	if opts.ResourceVersion == "" {
		// "start at most recent"
		s.mu.Lock()
		rv, err = s.version, nil
		s.mu.Unlock()
	}
	if err != nil {
		return nil, fmt.Errorf("fakeapi: bad resource version %q", opts.ResourceVersion)
	}
	s.mu.Lock()
	c := &conn{s: s, n: n, ch: make(chan watch.Event), wake: make(chan struct{}, 1), stop: make(chan struct{}), closeAfter: -1}
	// resume: entries with version > rv, in order
	c.pos = sort.Search(len(s.log), func(i int) bool { return s.log[i].Version > rv })
	s.conns = append(s.conns, c)
	s.mu.Unlock()
	go c.run()
	go func() {
		select {
		case <-ctx.Done():
			c.Stop()
		case <-c.stop:
		}
	}()
	return c, nil
}

// live returns the open connections.
func (s *Server) live() []*conn {
	var r []*conn
	for _, c := range s.conns {
		select {
		case <-c.stop:
		default:
			if !c.closed {
				r = append(r, c)
			}
		}
	}
	return r
}

// CloseStreams makes the server close every open watch stream (after what
// has already been queued for delivery).
func (s *Server) CloseStreams() int {
	s.mu.Lock()
	defer s.mu.Unlock()
	l := s.live()
	for _, c := range l {
		c.closed = true
		c.kick()
	}
	return len(l)
}

// CloseStreamsAfter closes every open stream once it has delivered k more log
// entries.
func (s *Server) CloseStreamsAfter(k int) {
	s.mu.Lock()
	defer s.mu.Unlock()
	for _, c := range s.live() {
		c.closeAfter = c.delivered + k
		c.kick()
	}
}

// Inject queues a non-log frame on every open stream.
func (s *Server) Inject(f Frame) {
	s.mu.Lock()
	defer s.mu.Unlock()
	for _, c := range s.live() {
		c.pending = append(c.pending, f)
		c.kick()
	}
}

// ReplayLast makes every open stream deliver its last k delivered log entries
// again, oldest first (a server replaying from an earlier position).
func (s *Server) ReplayLast(k int) {
	s.mu.Lock()
	defer s.mu.Unlock()
	for _, c := range s.live() {
		start := c.pos - k
		if start < 0 {
			start = 0
		}
		for _, e := range s.log[start:c.pos] {
			c.pending = append(c.pending, Frame{Type: e.Type, Obj: e.Obj.Go().(runtime.Object)})
		}
		c.kick()
	}
}

// ReplayStale makes every open stream deliver up to k old log entries that
// contradict the server's current content, oldest first: deletes of objects
// that exist again and creates/updates of objects that are gone (a server
// that replays isolated frames of earlier history).  Returns how many.
func (s *Server) ReplayStale(k int) int {
	s.mu.Lock()
	defer s.mu.Unlock()
	var frames []Frame
	seen := map[[2]int]bool{}
	for _, e := range s.log {
		key := [2]int{e.Obj.NS, e.Obj.NM}
		_, exists := s.objects[key]
		if seen[key] || (exists == (e.Type != watch.Deleted)) {
			continue
		}
		seen[key] = true
		frames = append(frames, Frame{Type: e.Type, Obj: e.Obj.Go().(runtime.Object)})
		if len(frames) == k {
			break
		}
	}
	for _, c := range s.live() {
		c.pending = append(c.pending, frames...)
		c.kick()
	}
	return len(frames)
}

// ConnectError rotates through the kinds of connect error a Watch call can
// return: an ordinary error, the two context errors (as from a
// client-side timeout) with the caller's context still live, and the API
// Status errors Forbidden and Unauthorized.
func ConnectError(n int) string {
	return []string{"error", "error-deadline", "error-canceled", "error-forbidden", "error-unauthorized"}[n%5]
}

// DropNext makes every open stream silently skip its next k log entries.
func (s *Server) DropNext(k int) {
	s.mu.Lock()
	defer s.mu.Unlock()
	for _, c := range s.live() {
		c.dropNext += k
	}
}

// DupNext makes every open stream deliver its next k log entries twice.
func (s *Server) DupNext(k int) {
	s.mu.Lock()
	defer s.mu.Unlock()
	for _, c := range s.live() {
		c.dupNext += k
	}
}

// Pause / Resume stop and restart delivery on open streams.
func (s *Server) Pause() {
	s.mu.Lock()
	defer s.mu.Unlock()
	for _, c := range s.live() {
		c.paused = true
	}
}

func (s *Server) Resume() {
	s.mu.Lock()
	defer s.mu.Unlock()
	for _, c := range s.conns {
		if c.paused {
			c.paused = false
			c.kick()
		}
	}
}

func (s *Server) OpenStreams() int {
	s.mu.Lock()
	defer s.mu.Unlock()
	return len(s.live())
}

func (s *Server) Calls() ([]ListCall, []WatchCall) {
	s.mu.Lock()
	defer s.mu.Unlock()
	return append([]ListCall(nil), s.Lists...), append([]WatchCall(nil), s.Watches...)
}

// ObjectsAt reconstructs the server state at a version from the log.
func (s *Server) ObjectsAt(v int) []*kobj.Obj {
	s.mu.Lock()
	defer s.mu.Unlock()
	m := map[[2]int]*kobj.Obj{}
	for _, e := range s.log {
		if e.Version > v {
			break
		}
		k := [2]int{e.Obj.NS, e.Obj.NM}
		if e.Type == watch.Deleted {
			delete(m, k)
		} else {
			m[k] = e.Obj
		}
	}
	var r []*kobj.Obj
	for _, o := range m {
		r = append(r, o)
	}
	sort.Slice(r, func(i, j int) bool {
		if r[i].NS != r[j].NS {
			return r[i].NS < r[j].NS
		}
		return r[i].NM < r[j].NM
	})
	return r
}
