package main

import (
	"context"
	"errors"
	"fmt"
	"sort"
	"sync"
	"sync/atomic"
	"time"

	"verifharness/enc"
	"verifharness/fakeapi"
	. "verifharness/kobj"
	"verifharness/sched"

	"github.com/boz/kcache"
	"github.com/boz/kcache/filter"
	metav1 "k8s.io/apimachinery/pkg/apis/meta/v1"
	"k8s.io/apimachinery/pkg/runtime"
	"k8s.io/apimachinery/pkg/watch"
)

// typedTree: the part of a typed package's API beyond Subscribe /
// SubscribeWithFilter / NewMonitor — Clone, CloneWithFilter, CloneForFilter,
// SubscribeForFilter, Refilter on each, typed subscriptions' Ready/Close, and
// monitors with unitary handlers — built as a tree next to the same tree on an
// untyped controller fed by the same fake API server.  At every barrier each
// typed node must equal its untyped twin restricted to the type: readiness,
// cache, events in order, callbacks; closing a typed node closes that node and
// nothing above it.
func typedTree(c *Ctx, pkg typedPkg, seed int64, level int) {
	var problems []string
	var unitaryCases []enc.T
	what := fmt.Sprintf("typed tree (Clone*/SubscribeForFilter/Refilter/unitary handler) of package %s next to its untyped twin, seed %d", pkg.name, seed)
	c.Now(what)
	base := sched.LibraryGoroutines()
	dl := sched.Bubble(c.T, func() {
		srv := fakeapi.New()
		srv.Kind = pkg.kind
		srv.Put(proto(pkg.kind, 1, 1, 0))
		srv.Put(proto(pkg.kind, 2, 2, 1))
		pert := sched.NewPerturb(seed, level)
		ctx, cancel := context.WithCancel(context.Background())
		defer cancel()
		fail := func(f string, a ...interface{}) { problems = append(problems, fmt.Sprintf(f, a...)) }
		tc, err := pkg.build(ctx, pert.Log(), fakeClient(srv))
		if err != nil {
			fail("BuildController failed: %v", err)
			return
		}
		uc, err := kcache.NewController(ctx, pert.Log(), fakeClient(srv))
		if err != nil {
			fail("NewController failed: %v", err)
			return
		}
		var tsubs []*tsub
		defer func() {
			pert.SetLevel(0)
			tc.closeFn()
			uc.Close()
			sched.Settle()
			for _, s := range tsubs {
				<-s.end
			}
		}()
		lab := (&Filt{Tag: FLabels, Map: Map{{1, 1}}}).Go()
		lab2 := (&Filt{Tag: FLabels, Map: Map{{1, 2}}}).Go()
		one := (&Filt{Tag: FNSName, IDs: []ID2{{1, 1}}}).Go()
		one2 := (&Filt{Tag: FNSName, IDs: []ID2{{2, 2}}}).Go()

		// --- the two trees ---
		tcl, err := tc.clone()
		ucl, _ := uc.Clone()
		if err != nil {
			fail("typed Clone failed: %v", err)
			return
		}
		tcf, tcfRefilter, err := tc.cloneF(lab)
		ucf, _ := uc.CloneWithFilter(lab)
		if err != nil {
			fail("typed CloneWithFilter failed: %v", err)
			return
		}
		tcff, tcffRefilter, err := tc.cloneFF()
		ucff, _ := uc.CloneForFilter()
		if err != nil {
			fail("typed CloneForFilter failed: %v", err)
			return
		}
		tsff, tsffRefilter, err := tcl.subscribeFF()
		usff, _ := ucl.SubscribeForFilter()
		if err != nil {
			fail("typed SubscribeForFilter failed: %v", err)
			return
		}
		ts2, err := tcf.subscribe()
		us2, _ := ucf.Subscribe()
		if err != nil {
			fail("typed Subscribe on a typed filter clone failed: %v", err)
			return
		}
		tsubs = append(tsubs, tsff, ts2)
		umff := newMirror(usff, nil)
		um2 := newMirror(us2, nil)
		foreign := map[int]bool{}
		// callbacks: a unitary typed handler (ToUnitary) on every typed
		// controller of the tree, a plain untyped handler on its twin
		var cbMu sync.Mutex
		tcb := map[string][][2]string{}
		ucb := map[string][][2]string{}
		type rawcb struct {
			what int // 0 create 1 update 2 delete 3 initialise
			ids  []int
		}
		uraw := map[string][]rawcb{} // the untyped callbacks as they came, foreign objects included (for the model)
		tmask := map[string][][2]string{} // typed handler with only some callbacks set
		umask := map[string][][2]string{} // unitary handler with only some callbacks set
		masks := map[string][2]int{}
		var tmons, umons []kcache.Monitor
		addMonitors := func(name string, t *tctl, u kcache.Publisher) bool {
			tm, err := t.unitary(pert.Log(), func(w string, id int) {
				cbMu.Lock()
				tcb[name] = append(tcb[name], [2]string{w, fmt.Sprint(id)})
				cbMu.Unlock()
			})
			if err != nil {
				fail("typed NewMonitor(ToUnitary(...)) on %s failed: %v", name, err)
				return false
			}
			urec := func(w string, o metav1.Object) {
				if foreign[ID(o)] {
					return
				}
				cbMu.Lock()
				ucb[name] = append(ucb[name], [2]string{w, fmt.Sprint(ID(o))})
				cbMu.Unlock()
			}
			raw := func(w int, objs ...metav1.Object) {
				ids := make([]int, len(objs))
				for i, o := range objs {
					ids[i] = ID(o)
				}
				cbMu.Lock()
				uraw[name] = append(uraw[name], rawcb{w, ids})
				cbMu.Unlock()
			}
			um, _ := kcache.NewMonitor(u, kcache.BuildHandler().
				OnInitialize(func(objs []metav1.Object) {
					raw(3, objs...)
					var own []metav1.Object
					for _, o := range objs {
						if !foreign[ID(o)] {
							own = append(own, o)
						}
					}
					if len(own) == 1 { // ToUnitary: exactly one object, else nothing
						urec("init", own[0])
					}
				}).
				OnCreate(func(o metav1.Object) { raw(0, o); urec("create", o) }).
				OnUpdate(func(o metav1.Object) { raw(1, o); urec("update", o) }).
				OnDelete(func(o metav1.Object) { raw(2, o); urec("delete", o) }).Create())
			// the same with handlers that have only some of their callbacks set
			mk := [2]int{int(seed+int64(len(tmons))*5) % 32, int(seed/3+int64(len(tmons))*7) % 32} // bit 16: the callbacks left out are set to nil explicitly
			masks[name] = mk
			tm2, err := t.monitorMask(mk[0], func(w string, ids []int) {
				cbMu.Lock()
				tmask[name] = append(tmask[name], [2]string{w, fmt.Sprint(ids)})
				cbMu.Unlock()
			})
			if err != nil {
				fail("typed NewMonitor with a partial handler on %s failed: %v", name, err)
				return false
			}
			tm3, err := t.unitaryMask(pert.Log(), mk[1], func(w string, id int) {
				cbMu.Lock()
				umask[name] = append(umask[name], [2]string{w, fmt.Sprint(id)})
				cbMu.Unlock()
			})
			if err != nil {
				fail("typed NewMonitor with a partial unitary handler on %s failed: %v", name, err)
				return false
			}
			tmons = append(tmons, tm, tm2, tm3)
			umons = append(umons, um)
			return true
		}
		// a clone that holds nothing (filter.All rejects everything): a unitary
		// handler is initialised by nothing
		tcn, _, errn := tc.cloneF((&Filt{Tag: FAll}).Go())
		ucn, _ := uc.CloneWithFilter((&Filt{Tag: FAll}).Go())
		if errn != nil {
			fail("typed CloneWithFilter(filter.All()) failed: %v", errn)
			return
		}
		if !addMonitors("controller", tc, uc) || !addMonitors("Clone", tcl, ucl) || !addMonitors("CloneWithFilter", tcf, ucf) || !addMonitors("CloneForFilter", tcff, ucff) || !addMonitors("CloneWithFilter(All)", tcn, ucn) {
			return
		}

		type pair struct {
			name string
			t    *tctl
			u    kcache.CacheController
		}
		ctls := []pair{{"controller", tc, uc}, {"Clone", tcl, ucl}, {"CloneWithFilter", tcf, ucf}, {"CloneForFilter", tcff, ucff}, {"CloneWithFilter(All)", tcn, ucn}}
		restrictIDs := func(ids []int) []int {
			var r []int
			for _, id := range ids {
				if !foreign[id] {
					r = append(r, id)
				}
			}
			return r
		}
		restrict := func(evs [][2]int) [][2]int {
			var r [][2]int
			for _, e := range evs {
				if !foreign[e[1]] {
					r = append(r, e)
				}
			}
			return r
		}
		compare := func(when string) {
			pert.Barrier()
			for _, p := range ctls {
				if isClosed(p.t.ready()) != isClosed(p.u.Ready()) {
					fail("%s: typed %s ready = %v, untyped twin ready = %v", when, p.name, isClosed(p.t.ready()), isClosed(p.u.Ready()))
					continue
				}
				if !isClosed(p.u.Ready()) {
					continue
				}
				tids, terr := p.t.listIDs()
				uids, uerr := cacheIDs(p.u.Cache())
				if (terr == nil) != (uerr == nil) {
					fail("%s: typed %s Cache().List() error %v, untyped twin %v", when, p.name, terr, uerr)
				} else if terr == nil && !sameInts(tids, restrictIDs(uids)) {
					fail("%s: typed %s holds %v, its untyped twin restricted to the type %v", when, p.name, tids, restrictIDs(uids))
				}
			}
			if isClosed(tsff.ready()) != isClosed(usff.Ready()) {
				fail("%s: typed SubscribeForFilter ready = %v, untyped twin %v", when, isClosed(tsff.ready()), isClosed(usff.Ready()))
			} else if isClosed(usff.Ready()) && !isClosed(usff.Done()) {
				tids, _ := tsff.listIDs()
				uids, _ := cacheIDs(usff.Cache())
				if !sameInts(tids, restrictIDs(uids)) {
					fail("%s: typed SubscribeForFilter holds %v, its untyped twin restricted to the type %v", when, tids, restrictIDs(uids))
				}
			}
			uevs, _, _ := umff.snapshot()
			if got, want := canonRuns(tsff.received()), canonRuns(restrict(uevs)); fmt.Sprint(got) != fmt.Sprint(want) {
				fail("%s: typed SubscribeForFilter (on a typed Clone) received %v, its untyped twin restricted to the type %v", when, got, want)
			}
			uevs2, _, _ := um2.snapshot()
			if got, want := canonRuns(ts2.received()), canonRuns(restrict(uevs2)); fmt.Sprint(got) != fmt.Sprint(want) {
				fail("%s: typed Subscribe (on a typed CloneWithFilter) received %v, its untyped twin restricted to the type %v", when, got, want)
			}
			cbMu.Lock()
			for _, p := range ctls {
				// partial handlers: what the untyped monitor was called with, restricted
				// to the type and to the callbacks that are set
				var wantT, wantU [][2]string
				names := []string{"create", "update", "delete", "init"}
				for _, r := range uraw[p.name] {
					own := restrictIDs(r.ids)
					if r.what == 3 {
						if masks[p.name][0]&1 != 0 {
							sorted := append([]int{}, own...)
							sort.Ints(sorted)
							wantT = append(wantT, [2]string{"init", fmt.Sprint(sorted)})
						}
						if masks[p.name][1]&1 != 0 && len(own) == 1 {
							wantU = append(wantU, [2]string{"init", fmt.Sprint(own[0])})
						}
						continue
					}
					if len(own) == 0 {
						continue
					}
					bit := 2 << uint(r.what)
					if masks[p.name][0]&bit != 0 {
						wantT = append(wantT, [2]string{names[r.what], fmt.Sprint(own)})
					}
					if masks[p.name][1]&bit != 0 {
						wantU = append(wantU, [2]string{names[r.what], fmt.Sprint(own[0])})
					}
				}
				if fmt.Sprint(canonCb(tmask[p.name])) != fmt.Sprint(canonCb(wantT)) {
					fail("%s: a typed handler with callbacks %04b (bits: delete update create initialise) on %s saw %v; the untyped callbacks restricted to the type and to these callbacks are %v", when, masks[p.name][0], p.name, tmask[p.name], wantT)
				}
				if fmt.Sprint(canonCb(umask[p.name])) != fmt.Sprint(canonCb(wantU)) {
					fail("%s: a unitary typed handler with callbacks %04b on %s saw %v; expected %v", when, masks[p.name][1], p.name, umask[p.name], wantU)
				}
				if fmt.Sprint(canonCb(tcb[p.name])) != fmt.Sprint(canonCb(ucb[p.name])) {
					fail("%s: the unitary typed handler on %s saw %v, an untyped handler on the twin (initialise only with exactly one object) %v", when, p.name, tcb[p.name], ucb[p.name])
				}
			}
			cbMu.Unlock()
		}
		fid := 95000
		history := func(n int) {
			for s := 0; s < n; s++ {
				switch x := c.Rng.Intn(8); {
				case x < 4:
					srv.Put(proto(pkg.kind, 1+c.Rng.Intn(2), 1+c.Rng.Intn(3), c.Rng.Intn(6)))
				case x < 6:
					srv.Delete(1+c.Rng.Intn(2), 1+c.Rng.Intn(3))
				case x == 6:
					fo := proto(foreignKind(pkg.kind), 3, 1+c.Rng.Intn(2), c.Rng.Intn(3)) // its own namespace: one watch never carries two kinds under one key
					fid++
					fo.ID = fid
					fo.RV = fmt.Sprint(srv.Version() + 1000 + s)
					foreign[fo.ID] = true
					t := []watch.EventType{watch.Added, watch.Modified, watch.Deleted}[c.Rng.Intn(3)]
					srv.Inject(fakeapi.Frame{Type: t, Obj: fo.Go().(runtime.Object)})
				default:
					pert.Barrier()
				}
			}
		}
		refilter := func(name string, tr func(filter.Filter) error, ur func(filter.Filter) error, f filter.Filter) {
			terr, uerr := tr(f), ur(f)
			if (terr == nil) != (uerr == nil) {
				fail("Refilter on typed %s returned %v, on its untyped twin %v", name, terr, uerr)
			}
		}
		compare("before any filter was supplied")
		refilter("CloneForFilter", tcffRefilter, ucff.Refilter, one)
		refilter("SubscribeForFilter", tsffRefilter, usff.Refilter, lab2)
		compare("after the first filters were supplied")
		history(6 + c.Rng.Intn(8))
		compare("after a history")
		refilter("CloneWithFilter", tcfRefilter, ucf.Refilter, lab2)
		refilter("CloneForFilter", tcffRefilter, ucff.Refilter, one2)
		refilter("SubscribeForFilter", tsffRefilter, usff.Refilter, lab)
		compare("after refiltering every filtered node")
		history(6 + c.Rng.Intn(8))
		compare("after a second history")

		// --- lifecycle: a typed node closes itself and nothing above it ---
		tsff.closeFn()
		usff.Close()
		pert.Barrier()
		if !isClosed(tsff.done()) {
			fail("a closed typed SubscribeForFilter is not done")
		}
		if isClosed(tcl.done()) || isClosed(tc.done()) {
			fail("closing a typed subscription stopped the typed clone or controller above it")
		}
		for i := range tmons {
			tmons[i].Close()
		}
		for i := range umons {
			umons[i].Close()
		}
		pert.Barrier()
		// to the model: the unitary handler's log = Typed.unitary_log of the untyped callbacks
		rememberLog(srv)
		toObj := func(id int) *Obj {
			if o, ok := objByID[id]; ok {
				return o
			}
			return &Obj{ID: id, Kind: foreignKind(pkg.kind), NS: 3, NM: 1, RV: "1", Spec: SNone}
		}
		wcode := map[string]int{"create": 0, "update": 1, "delete": 2, "init": 3}
		cbMu.Lock()
		for _, name := range []string{"controller", "Clone", "CloneWithFilter", "CloneForFilter", "CloneWithFilter(All)"} {
			var ul, tl []enc.T
			for _, r := range uraw[name] {
				if r.what == 3 {
					objs := make([]*Obj, len(r.ids))
					for i, id := range r.ids {
						objs[i] = toObj(id)
					}
					ul = append(ul, enc.L(enc.I(3), EncObjs(objs)))
				} else {
					ul = append(ul, enc.L(enc.I(r.what), toObj(r.ids[0]).Enc()))
				}
			}
			for _, e := range tcb[name] {
				var id int
				fmt.Sscan(e[1], &id)
				tl = append(tl, enc.L(enc.I(wcode[e[0]]), enc.I(id)))
			}
			unitaryCases = append(unitaryCases, enc.L(enc.I(19), enc.I(pkg.kind), enc.L(ul...), enc.L(tl...)))
		}
		cbMu.Unlock()
		if isClosed(tcff.done()) || isClosed(tc.done()) || isClosed(tcl.done()) || isClosed(tcf.done()) {
			fail("closing a typed monitor stopped the typed controller or clone it was attached to")
		}
		history(4)
		compare("after a typed subscription and the monitors were closed")
		tcf.closeFn()
		ucf.Close()
		pert.Barrier()
		if !isClosed(tcf.done()) {
			fail("a closed typed CloneWithFilter is not done")
		}
		if !isClosed(ts2.done()) {
			fail("the typed subscription on a closed typed CloneWithFilter is not done")
		}
		if isClosed(tc.done()) || isClosed(tcl.done()) || isClosed(tcff.done()) {
			fail("closing a typed clone stopped the typed controller or a sibling")
		}
		if _, err := tcf.subscribe(); err == nil {
			fail("Subscribe on a closed typed clone succeeded")
		}
		if _, err := tcf.clone(); err == nil {
			fail("Clone on a closed typed clone succeeded")
		}
		// a plain typed clone closes itself only
		tcl.closeFn()
		ucl.Close()
		pert.Barrier()
		if !isClosed(tcl.done()) {
			fail("a closed typed Clone is not done")
		}
		if isClosed(tc.done()) || isClosed(tcff.done()) {
			fail("closing a typed Clone stopped the typed controller or a sibling")
		}
		history(3)
		ctls = []pair{{"controller", tc, uc}, {"CloneForFilter", tcff, ucff}}
		compare("after the typed clones were closed")
		tc.closeFn()
		uc.Close()
		pert.Barrier()
		for _, p := range []pair{{"controller", tc, uc}, {"Clone", tcl, ucl}, {"CloneForFilter", tcff, ucff}} {
			if !isClosed(p.t.done()) {
				fail("typed %s is not done after the typed controller was closed", p.name)
			}
		}
		if _, _, err := tc.cloneFF(); err == nil {
			fail("CloneForFilter on a closed typed controller succeeded")
		}
		if _, _, err := tc.subscribeFF(); err == nil {
			fail("SubscribeForFilter on a closed typed controller succeeded")
		}
		if err := tcffRefilter(lab); err == nil {
			fail("Refilter on a stopped typed for-filter clone succeeded")
		}
	})
	c.Rep.Evaluations++
	replay := map[string]interface{}{"scenario": what, "seed": seed, "package": pkg.name}
	if dl != "" {
		replay["deadlock"] = dl
		c.Violation("", "hang (bubble deadlock): "+what, replay)
	} else if left := sched.LibraryGoroutines() - base; left > 0 && len(problems) == 0 {
		replay["goroutines"] = sched.LibraryStacks()
		c.Violation("", fmt.Sprintf("%d library goroutines left after the typed tree was closed: %s", left, what), replay)
	}
	for _, p := range problems {
		c.Violation("", p+" ["+what+"]", replay)
	}
	for _, uc := range unitaryCases {
		c.Case(uc)
	}
	c.DistinctCase("typed-tree-" + pkg.name)
}

// canonRuns sorts every maximal run of events of one type by object id: the
// events of one list synchronisation or Refilter are emitted in map order,
// which differs between two caches holding the same content.
func canonRuns(evs [][2]int) [][2]int {
	r := append([][2]int(nil), evs...)
	for i := 0; i < len(r); {
		j := i
		for j < len(r) && r[j][0] == r[i][0] {
			j++
		}
		sort.Slice(r[i:j], func(a, b int) bool { return r[i+a][1] < r[i+b][1] })
		i = j
	}
	return r
}

// canonCb: as canonRuns, for callback logs.
func canonCb(l [][2]string) [][2]string {
	r := append([][2]string(nil), l...)
	for i := 0; i < len(r); {
		j := i
		for j < len(r) && r[j][0] == r[i][0] {
			j++
		}
		sort.Slice(r[i:j], func(a, b int) bool { return r[i+a][1] < r[i+b][1] })
		i = j
	}
	return r
}

// typedListFailure: a relist that fails (a plain error, context.Canceled or
// context.DeadlineExceeded returned by List although nobody cancelled anything,
// a Status error) stops a typed controller exactly as it stops the untyped one
// next to it: Done() closes, Error() reports the cause — the same cause — and
// what hangs below is shut down.  A deliberate Close reports no failure.
func typedListFailure(c *Ctx, pkg typedPkg, kind fakeapi.ListKind, seed int64, first bool) {
	var problems []string
	what := fmt.Sprintf("typed controller of package %s: list failure kind %d at the second list of each controller", pkg.name, kind)
	if first {
		what = fmt.Sprintf("typed controller of package %s: list failure kind %d at the FIRST list of each controller (nothing ever becomes ready)", pkg.name, kind)
	}
	c.Now(what)
	dl := sched.Bubble(c.T, func() {
		srv := fakeapi.New()
		srv.Kind = pkg.kind
		srv.Put(proto(pkg.kind, 1, 1, 0))
		var nlists atomic.Int32
		srv.ListBehave = func(n int) fakeapi.ListKind {
			if nlists.Add(1) > 2 || first { // the first list of each of the two controllers succeeds
				return kind
			}
			return fakeapi.ListOK
		}
		pert := sched.NewPerturb(seed, int(seed%3))
		ctx, cancel := context.WithCancel(context.Background())
		defer cancel()
		tc, err := pkg.build(ctx, pert.Log(), fakeClient(srv))
		uc, err2 := kcache.NewController(ctx, pert.Log(), fakeClient(srv))
		if err != nil || err2 != nil {
			problems = append(problems, fmt.Sprintf("construction failed: %v %v", err, err2))
			return
		}
		defer func() {
			pert.SetLevel(0)
			tc.closeFn()
			uc.Close()
			sched.Settle()
		}()
		ts, _ := tc.subscribe()
		// a typed for-filter subscription that is never given a filter: it never
		// becomes ready, and it ends like everything else
		tff, _, _ := tc.subscribeFF()
		if tff != nil {
			defer func() {
				if !isClosed(tff.done()) {
					problems = append(problems, "a typed for-filter subscription that was never given a filter outlives its typed controller")
				}
				<-tff.end
			}()
		}
		pert.Barrier()
		// both relist after the default period (a minute); wait two
		time.Sleep(150 * time.Second)
		sched.Settle()
		if ts != nil {
			defer func() { <-ts.end }()
		}
		if !isClosed(uc.Done()) {
			problems = append(problems, "the untyped controller did not stop after a failed relist (scenario premise)")
			return
		}
		if !isClosed(tc.done()) {
			problems = append(problems, "the typed controller keeps running after a failed relist")
			return
		}
		terr, uerr := tc.errFn(), uc.Error()
		if (terr == nil) != (uerr == nil) {
			problems = append(problems, fmt.Sprintf("after a failed relist the typed controller's Error() is %v, the untyped one's %v", terr, uerr))
		}
		for _, target := range []error{fakeapi.ErrList, context.Canceled, context.DeadlineExceeded} {
			if errors.Is(uerr, target) != errors.Is(terr, target) {
				problems = append(problems, fmt.Sprintf("the typed controller's Error() (%v) and the untyped one's (%v) disagree on the cause %v", terr, uerr, target))
			}
		}
		if ts != nil && !isClosed(ts.done()) {
			problems = append(problems, "a typed subscription outlives its typed controller's list failure")
		}
	})
	c.Rep.Evaluations++
	replay := map[string]interface{}{"scenario": what, "package": pkg.name, "kind": int(kind)}
	if dl != "" {
		replay["deadlock"] = dl
		c.Violation("", "hang (bubble deadlock): "+what, replay)
	}
	for _, p := range problems {
		c.Violation("", p+" ["+what+"]", replay)
	}
	c.DistinctCase(fmt.Sprintf("typed-list-failure-%s-%d", pkg.name, kind))
}
