// kverif drives the real boz/kcache implementation on generated cases and
// records what it observed, for comparison with the Coq model (by the OCaml
// runner extracted from it) and for the properties' own oracles.
package main

import (
	"sync/atomic"
	"bufio"
	"encoding/json"
	"flag"
	"fmt"
	"math/rand"
	"os"
	"sort"
	"testing"
	"time"

	"verifharness/enc"
	"verifharness/sched"
)

// Report is what a harness run tells the check driver.
type Report struct {
	Property    string                 `json:"property"`
	Tier        string                 `json:"tier"`
	Seed        int64                  `json:"seed"`
	Evaluations int                    `json:"evaluations"`
	Distinct    int                    `json:"distinct_nontrivial"`
	Rule        string                 `json:"rule"`
	Samples     []interface{}          `json:"samples"`
	Stats       map[string]interface{} `json:"stats"`
	// Violations found by evaluating the property's oracle directly on the
	// implementation's observations.
	Violations []Violation `json:"violations"`
	// Known findings re-demonstrated on this run.
	Known []Violation `json:"known"`
	WallS float64     `json:"wall_s"`
}

type Violation struct {
	Key    string      `json:"key"`    // matcher id for known-findings.txt ("" = none)
	What   string      `json:"what"`   // one line
	Replay interface{} `json:"replay"` // concrete failing input/history
}

type Ctx struct {
	T      *testing.T
	Tier   string
	Seed   int64
	Rng    *rand.Rand
	Out    *bufio.Writer
	Rep    *Report
	Replay string // replay file to re-run, if any
	seen   map[string]struct{}
}

// Now records the scenario about to run, so that a crash of the library under
// it (a panic in one of its goroutines cannot be recovered) is reported with
// the scenario that provoked it.
func (c *Ctx) Now(what string) {
	if *flagReport != "" {
		os.WriteFile(*flagReport+".scenario", []byte(what), 0644)
	}
}

// Case writes one command line for the model runner.
func (c *Ctx) Case(t enc.T) {
	c.Out.WriteString(t.String())
	c.Out.WriteByte('\n')
}

// Distinct counts a non-trivial case by its canonical text.
func (c *Ctx) DistinctCase(key string) {
	if _, ok := c.seen[key]; !ok {
		c.seen[key] = struct{}{}
		c.Rep.Distinct++
	}
}

func (c *Ctx) Sample(v interface{}) {
	if len(c.Rep.Samples) < 5 {
		c.Rep.Samples = append(c.Rep.Samples, v)
	}
}

func (c *Ctx) Stat(k string, delta int) {
	cur, _ := c.Rep.Stats[k].(int)
	c.Rep.Stats[k] = cur + delta
}

func (c *Ctx) Violation(key, what string, replay interface{}) {
	if len(c.Rep.Violations) < 20 {
		c.Rep.Violations = append(c.Rep.Violations, Violation{key, what, replay})
	}
}

func (c *Ctx) KnownFinding(key, what string, replay interface{}) {
	for _, k := range c.Rep.Known {
		if k.Key == key {
			return
		}
	}
	c.Rep.Known = append(c.Rep.Known, Violation{key, what, replay})
}

func (c *Ctx) Quick() bool { return c.Tier != "thorough" }

var commands = map[string]func(*Ctx){}

var (
	flagTier   = flag.String("tier", "quick", "quick|thorough")
	flagSeed   = flag.Int64("seed", 1, "PRNG seed")
	flagOut    = flag.String("out", "", "case file for the model runner")
	flagReport = flag.String("report", "", "report JSON")
	flagReplay = flag.String("replay", "", "replay file")
)

// Run is the entry point; the harness is built as a test binary (go test -c)
// because testing/synctest needs a *testing.T.
func Run(t *testing.T) {
	tier, seed, out, report, replay := flagTier, flagSeed, flagOut, flagReport, flagReplay
	if flag.NArg() != 1 {
		names := []string{}
		for k := range commands {
			names = append(names, k)
		}
		sort.Strings(names)
		fmt.Fprintf(os.Stderr, "usage: kverif.test -test.run TestKverif [flags] <%v>\n", names)
		os.Exit(2)
	}
	name := flag.Arg(0)
	fn, ok := commands[name]
	if !ok {
		fmt.Fprintf(os.Stderr, "unknown command %q\n", name)
		os.Exit(2)
	}
	var w *bufio.Writer
	if *out != "" {
		f, err := os.Create(*out)
		if err != nil {
			panic(err)
		}
		defer f.Close()
		w = bufio.NewWriterSize(f, 1<<20)
	} else {
		w = bufio.NewWriter(os.Stdout)
	}
	rep := &Report{Property: name, Tier: *tier, Seed: *seed, Stats: map[string]interface{}{}, Samples: []interface{}{}, Violations: []Violation{}, Known: []Violation{}}
	ctx := &Ctx{T: t, Tier: *tier, Seed: *seed, Rng: rand.New(rand.NewSource(*seed)), Out: w, Rep: rep, Replay: *replay, seen: map[string]struct{}{}}
	start := time.Now()
	sched.VaryProcs = *tier == "thorough"
	fn(ctx)
	rep.WallS = time.Since(start).Seconds()
	sched.ProcsUsed.Range(func(k, v interface{}) bool {
		rep.Stats[fmt.Sprintf("bubbles_with_gomaxprocs_%d", k.(int))] = int(v.(*atomic.Int64).Load())
		return true
	})
	w.Flush()
	if *report != "" {
		b, _ := json.MarshalIndent(rep, "", " ")
		if err := os.WriteFile(*report, b, 0644); err != nil {
			panic(err)
		}
	}
}

func main() {
	fmt.Fprintln(os.Stderr, "kverif is built as a test binary: go test -c; run kverif.test -test.run TestKverif ...")
	os.Exit(2)
}
