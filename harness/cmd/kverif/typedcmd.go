package main

import (
	goruntime "runtime"
	"context"
	"encoding/json"
	"fmt"
	"net/http"
	"reflect"
	"strconv"
	"net/http/httptest"
	"sort"
	"strings"
	"sync"
	"time"

	"verifharness/enc"
	"verifharness/fakeapi"
	. "verifharness/kobj"
	"verifharness/qlog"
	"verifharness/sched"

	logutil "github.com/boz/go-logutil"
	"github.com/boz/kcache"
	tdaemonset "github.com/boz/kcache/types/daemonset"
	tdeployment "github.com/boz/kcache/types/deployment"
	tevent "github.com/boz/kcache/types/event"
	tingress "github.com/boz/kcache/types/ingress"
	tjob "github.com/boz/kcache/types/job"
	tnode "github.com/boz/kcache/types/node"
	tpod "github.com/boz/kcache/types/pod"
	treplicaset "github.com/boz/kcache/types/replicaset"
	treplicationcontroller "github.com/boz/kcache/types/replicationcontroller"
	tsecret "github.com/boz/kcache/types/secret"
	tservice "github.com/boz/kcache/types/service"
	tstatefulset "github.com/boz/kcache/types/statefulset"
	"github.com/boz/kcache/client"
	metav1 "k8s.io/apimachinery/pkg/apis/meta/v1"
	"k8s.io/apimachinery/pkg/runtime"
	"k8s.io/apimachinery/pkg/watch"
	"k8s.io/client-go/kubernetes"
	"k8s.io/client-go/kubernetes/scheme"
	"k8s.io/client-go/rest"
)

func init() {
	commands["C20"] = runC20
}

// proto returns a prototype object of a kind.
func proto(kind, ns, nm, variant int) Obj {
	o := Obj{Kind: kind, NS: ns, NM: nm, Labels: labSets[variant%3]}
	switch kind {
	case KPod:
		o.Spec, o.Node = SPod, 1+variant%2
	case KService:
		o.Spec, o.Sel = SService, []Map{nil, {{1, 1}}, {{1, 2}}}[variant%3]
	case KRC:
		o.Spec, o.Sel = SRC, []Map{{{1, 1}}, {{1, 2}}}[variant%2]
		o.Scale = (variant/2 + 1) % 3
	case KRS, KDeployment, KDaemonSet, KStatefulSet, KJob:
		o.Spec = SWorkload
		// scaled to zero, scaled to three, or unset: ownership does not depend on it
		o.Scale = (variant/2 + 1) % 3
		o.LSel = []*LSel{{Labels: Map{{1, 1}}}, {Labels: Map{{1, 2}}}, nil}[variant%3]
		o.Tmpl = Map{{1, 1 + variant%2}}
	case KEvent:
		o.Spec, o.IKind, o.INS, o.INM = SEvent, 1, ns, 1+variant%2
	case KIngress:
		o.Spec, o.Backend, o.Paths = SIngress, 1+variant%3, []int{1 + (variant+1)%3}
	default:
		o.Spec = SNone
	}
	return o
}

func foreignKind(kind int) int {
	if kind == KService {
		return KPod
	}
	return KService
}

func runC20(c *Ctx) {
	reps := 2
	if !c.Quick() {
		reps = 90
	}
	runs := 0
	for rep := 0; rep < reps; rep++ {
		for _, pkg := range typedPkgs {
			seed := c.Seed*100 + int64(runs)
			var problems []string
			var cases []enc.T
			var sample map[string]interface{}
			dl := sched.Bubble(c.T, func() {
				srv := fakeapi.New()
				srv.Kind = pkg.kind
				srv.Put(proto(pkg.kind, 1, 1, 0))
				srv.Put(proto(pkg.kind, 2, 2, 1))
				pert := sched.NewPerturb(seed, rep%3)
				ctx, cancel := context.WithCancel(context.Background())
				defer cancel()
				tc, err := pkg.build(ctx, pert.Log(), fakeClient(srv))
				if err != nil {
					problems = append(problems, "BuildController failed: "+err.Error())
					return
				}
				uc, err := kcache.NewController(ctx, pert.Log(), fakeClient(srv))
				if err != nil {
					problems = append(problems, "NewController failed: "+err.Error())
					return
				}
				var ts, tsf *tsub
				mon := &node{id: 1, kind: nMonitor}
				defer func() {
					pert.SetLevel(0)
					tc.closeFn()
					uc.Close()
					sched.Settle()
					for _, s := range []*tsub{ts, tsf} {
						if s != nil {
							<-s.end
						}
					}
				}()
				pert.Barrier()
				if isClosed(tc.ready()) != isClosed(uc.Ready()) {
					problems = append(problems, "typed and untyped controllers disagree on readiness")
				}
				ts, err = tc.subscribe()
				if err != nil {
					problems = append(problems, "typed Subscribe failed: "+err.Error())
					return
				}
				lab := &Filt{Tag: FLabels, Map: Map{{1, 1}}}
				tsf, _ = tc.subscribeF(lab.Go())
				us, _ := uc.Subscribe()
				usf, _ := uc.SubscribeWithFilter(lab.Go())
				um := newMirror(us, nil)
				umf := newMirror(usf, nil)
				m, err := tc.monitor(mon)
				if err != nil {
					problems = append(problems, "typed NewMonitor failed: "+err.Error())
					return
				}
				mon.mon = m
				pert.Barrier()
				foreign := map[int]bool{}
				fid := 90000
				steps := 8 + c.Rng.Intn(12)
				for s := 0; s < steps; s++ {
					switch x := c.Rng.Intn(8); {
					case x < 4:
						srv.Put(proto(pkg.kind, 1+c.Rng.Intn(2), 1+c.Rng.Intn(3), c.Rng.Intn(6)))
					case x < 6:
						srv.Delete(1+c.Rng.Intn(2), 1+c.Rng.Intn(3))
					case x == 6:
						// an object of another type arrives on the watch
						fo := proto(foreignKind(pkg.kind), 3, 1+c.Rng.Intn(2), c.Rng.Intn(3))
						fid++
						fo.ID = fid
						fo.RV = fmt.Sprint(srv.Version() + 1000 + s)
						foreign[fo.ID] = true
						t := []watch.EventType{watch.Added, watch.Modified, watch.Deleted}[c.Rng.Intn(3)]
						srv.Inject(fakeapi.Frame{Type: t, Obj: fo.Go().(runtime.Object)})
					default:
						pert.Barrier()
					}
				}
				pert.Barrier()
				// caches: typed = untyped restricted to the type
				check := func(what string, tids []int, uids []int) {
					var want []int
					for _, id := range uids {
						if !foreign[id] {
							want = append(want, id)
						}
					}
					if !sameInts(tids, want) {
						problems = append(problems, fmt.Sprintf("%s: typed %v, untyped restricted to the type %v (untyped %v)", what, tids, want, uids))
					}
				}
				tids, err := tc.listIDs()
				uids, _ := cacheIDs(uc.Cache())
				if err != nil {
					problems = append(problems, "typed Cache().List failed: "+err.Error())
				}
				check("controller cache", tids, uids)
				fids, _ := tsf.listIDs()
				ufids, _ := cacheIDs(usf.Cache())
				check("filtered subscription cache", fids, ufids)
				// events: typed = untyped with foreign objects skipped, same order
				restrict := func(evs [][2]int) [][2]int {
					var r [][2]int
					for _, e := range evs {
						if !foreign[e[1]] {
							r = append(r, e)
						}
					}
					return r
				}
				uevs, _, _ := um.snapshot()
				if got, want := ts.received(), restrict(uevs); fmt.Sprint(got) != fmt.Sprint(want) {
					problems = append(problems, fmt.Sprintf("typed subscription received %v, the untyped one restricted to the type %v", got, want))
				}
				ufevs, _, _ := umf.snapshot()
				if got, want := tsf.received(), restrict(ufevs); fmt.Sprint(got) != fmt.Sprint(want) {
					problems = append(problems, fmt.Sprintf("typed filtered subscription received %v, the untyped one restricted to the type %v", got, want))
				}
				for _, e := range ts.received() {
					if e[1] == -1 {
						problems = append(problems, "typed subscription delivered a nil object")
					}
				}
				// monitor: init then one callback per own-type event, never nil
				hl, overlap := mon.handlerLog()
				if overlap {
					problems = append(problems, "typed monitor callbacks overlapped")
				}
				if len(hl) == 0 || hl[0].what != "init" {
					problems = append(problems, "typed monitor: OnInitialize was not invoked")
				}
				var cbs [][2]int
				for i, h := range hl {
					if h.what == "init" {
						if i != 0 {
							problems = append(problems, "typed monitor: OnInitialize was not first")
						}
						continue
					}
					if len(h.ids) == 1 && h.ids[0] == -1 {
						problems = append(problems, "typed monitor callback "+h.what+" received a nil object (an object of another type was not skipped)")
					}
					if h.what == "hijack" {
						problems = append(problems, "a handler created from a builder changed when the builder was configured again afterwards (the monitor ran the later callbacks)")
						continue
					}
					cbs = append(cbs, [2]int{map[string]int{"create": 0, "update": 1, "delete": 2}[h.what], h.ids[0]})
				}
				if want := restrict(uevs); fmt.Sprint(cbs) != fmt.Sprint(want) {
					problems = append(problems, fmt.Sprintf("typed monitor callbacks %v, untyped events restricted to the type %v", cbs, want))
				}
				// Get
				for _, o := range srv.Objects() {
					if id, err := tc.getID(Str(o.NS), Str(o.NM)); err != nil || id != o.ID {
						problems = append(problems, fmt.Sprintf("typed Get(%d,%d) = %d, %v; want %d", o.NS, o.NM, id, err, o.ID))
					}
				}
				// Get of a key nobody holds: nil, no error; Get of a key under which the
				// underlying cache holds an object of another type: an error, never a
				// typed nil that looks like "absent" (typed_get: TAbsent / TInvalid)
				if id, err := tc.getID(Str(2), Str(3)+Str(3)); err != nil || id != 0 {
					problems = append(problems, fmt.Sprintf("typed Get of an absent key returned (%d, %v)", id, err))
				}
				if ul, err := uc.Cache().List(); err == nil {
					for _, o := range ul {
						if foreign[ID(o)] {
							if id, err := tc.getID(o.GetNamespace(), o.GetName()); err == nil {
								problems = append(problems, fmt.Sprintf("typed Get of a key held by an object of another type returned (%d, nil)", id))
							}
						}
					}
				}
				// to the model: typed_list / typed_events of the untyped observations
				var uobjs []*Obj
				rememberLog(srv)
				for _, id := range uids {
					if o, ok := objByID[id]; ok {
						uobjs = append(uobjs, o)
					} else {
						uobjs = append(uobjs, &Obj{ID: id, Kind: foreignKind(pkg.kind), NS: 3, NM: 1, RV: "1", Spec: SNone})
					}
				}
				cases = append(cases, enc.L(enc.I(15), enc.I(pkg.kind), EncObjs(uobjs), enc.Ints(tids)))
				// lifecycle: closing the typed controller closes its subscriptions
				tc.closeFn()
				pert.SetLevel(0)
				sched.Settle()
				if !isClosed(tc.done()) || !isClosed(ts.done()) {
					problems = append(problems, "typed controller / subscription not done after Close()")
				}
				if tc.errFn() != nil {
					problems = append(problems, fmt.Sprintf("typed controller Error() = %v after a deliberate Close", tc.errFn()))
				}
				sample = map[string]interface{}{"package": pkg.name, "typed_cache": tids, "untyped_cache": uids, "foreign_objects": len(foreign), "typed_events": len(ts.received())}
			})
			runs++
			c.Rep.Evaluations++
			replay := map[string]interface{}{"package": pkg.name, "seed": seed, "scenario": sample}
			if dl != "" {
				replay["deadlock"] = dl
				c.Violation("", "hang (bubble deadlock) in typed package "+pkg.name, replay)
			}
			for _, p := range problems {
				c.Violation("", "types/"+pkg.name+": "+p, replay)
			}
			for _, t := range cases {
				c.Case(t)
			}
			c.DistinctCase(fmt.Sprint(pkg.name, seed))
			if runs == 2 {
				c.Sample(sample)
			}
		}
	}
	// edge scenarios per package: an initially empty collection (OnInitialize
	// still runs, with nothing) and a burst nobody reads (the typed adapter
	// drops exactly what the untyped subscription drops)
	for pi, pkg := range typedPkgs {
		var problems []string
		what := "types/" + pkg.name + ": empty initial collection, then a burst of 250 events that nobody reads"
		c.Now(what)
		dl := sched.Bubble(c.T, func() {
			srv := fakeapi.New()
			srv.Kind = pkg.kind
			pert := sched.NewPerturb(c.Seed+int64(pi), pi%3)
			ctx, cancel := context.WithCancel(context.Background())
			defer cancel()
			tc, err := pkg.build(ctx, pert.Log(), fakeClient(srv))
			if err != nil {
				problems = append(problems, "BuildController failed: "+err.Error())
				return
			}
			uc, err := kcache.NewController(ctx, pert.Log(), fakeClient(srv))
			if err != nil {
				problems = append(problems, "NewController failed: "+err.Error())
				return
			}
			var ts *tsub
			var um *mirror
			defer func() {
				pert.SetLevel(0)
				tc.closeFn()
				uc.Close()
				sched.Settle()
				if ts != nil && ts.end != nil {
					<-ts.end
				}
				if um != nil {
					<-um.stopped
				}
			}()
			tmon := &node{id: 1, kind: nMonitor}
			umon := &node{id: 2, kind: nMonitor}
			m, err := tc.monitor(tmon)
			if err != nil {
				problems = append(problems, "typed NewMonitor failed: "+err.Error())
				return
			}
			tmon.mon = m
			if um2, err := kcache.NewMonitor(uc, umon.handler()); err == nil {
				umon.mon = um2
			}
			pert.Barrier()
			show := func(hl []hrec) string {
				var r []string
				for _, h := range hl {
					r = append(r, fmt.Sprintf("%s%v", h.what, h.ids))
				}
				return fmt.Sprint(r)
			}
			thl, _ := tmon.handlerLog()
			uhl, _ := umon.handlerLog()
			if show(thl) != show(uhl) {
				problems = append(problems, fmt.Sprintf("empty initial collection: typed monitor callbacks %s, untyped %s", show(thl), show(uhl)))
			}
			srv.Put(proto(pkg.kind, 1, 1, 0))
			pert.Barrier()
			thl, _ = tmon.handlerLog()
			uhl, _ = umon.handlerLog()
			if show(thl) != show(uhl) {
				problems = append(problems, fmt.Sprintf("after the first object: typed monitor callbacks %s, untyped %s", show(thl), show(uhl)))
			}
			m.Close()
			umon.mon.Close()
			// a burst nobody reads
			tsubPaused = true
			ts, err = tc.subscribe()
			tsubPaused = false
			if err != nil {
				problems = append(problems, "typed Subscribe failed: "+err.Error())
				return
			}
			us, _ := uc.Subscribe()
			pert.Barrier()
			for k := 0; k < 250; k++ {
				srv.Put(proto(pkg.kind, 1+k%2, 1+k%3, k%6))
				if k%20 == 19 {
					pert.Barrier()
				}
			}
			pert.Barrier()
			ts.start()
			um = newMirror(us, nil)
			pert.Barrier()
			uevs, _, _ := um.snapshot()
			if got := ts.received(); fmt.Sprint(got) != fmt.Sprint(uevs) {
				problems = append(problems, fmt.Sprintf("after a burst of 250 unread events the typed subscription delivers %d events, the untyped one %d (typed %v..., untyped %v...)", len(got), len(uevs), head2(got), head2(uevs)))
			}
			tc.closeFn()
			pert.SetLevel(0)
			sched.Settle()
			ts.mu.Lock()
			cl := ts.closed
			ts.mu.Unlock()
			if !cl {
				problems = append(problems, "the typed subscription's Events() channel is not closed after the controller's Close()")
			}
		})
		runs++
		c.Rep.Evaluations++
		replay := map[string]interface{}{"scenario": what}
		if dl != "" {
			replay["deadlock"] = dl
			c.Violation("", "hang (bubble deadlock): "+what, replay)
		}
		for _, p := range problems {
			c.Violation("", "types/"+pkg.name+": "+p, replay)
		}
		c.DistinctCase(what)
	}
	// shutdown with events still in flight: two typed subscriptions created
	// together end with the same sequence (each adapter drains what its parent
	// subscription had buffered before it closes its own Events() channel)
	ntail := 2
	if !c.Quick() {
		ntail = 20
	}
	for pi, pkg := range typedPkgs {
		for k := 0; k < ntail; k++ {
			var problems []string
			what := "types/" + pkg.name + ": a burst of 90 changes, then Close() at once; two typed subscriptions created together"
			c.Now(what)
			dl := sched.Bubble(c.T, func() {
				srv := fakeapi.New()
				srv.Kind = pkg.kind
				pert := sched.NewPerturb(c.Seed+int64(pi*100+k), 0)
				ctx, cancel := context.WithCancel(context.Background())
				defer cancel()
				tc, err := pkg.build(ctx, pert.Log(), fakeClient(srv))
				if err != nil {
					problems = append(problems, "BuildController failed: "+err.Error())
					return
				}
				pert.Barrier()
				s1, err1 := tc.subscribe()
				s2, err2 := tc.subscribe()
				if err1 != nil || err2 != nil {
					problems = append(problems, "typed Subscribe failed")
					tc.closeFn()
					sched.Settle()
					return
				}
				pert.Barrier()
				for j := 0; j < 90; j++ {
					srv.Put(proto(pkg.kind, 1+j%2, 1+j%3, j%6))
				}
				// close while the stream is flowing: wait (in real time, spinning)
				// until some events have come through, then close at once
				for spin := 0; spin < 2000000 && len(s1.received()) < 5+10*(k%4); spin++ {
					goruntime.Gosched()
				}
				tc.closeFn()
				sched.Settle()
				<-s1.end
				<-s2.end
				a, b := s1.received(), s2.received()
				if fmt.Sprint(a) != fmt.Sprint(b) {
					problems = append(problems, fmt.Sprintf("two typed subscriptions created together received %d and %d events before their Events() channels closed at shutdown", len(a), len(b)))
				}
				c.Stat("typed_tail_events", len(a))
			})
			runs++
			c.Rep.Evaluations++
			replay := map[string]interface{}{"scenario": what, "attempt": k}
			if dl != "" {
				replay["deadlock"] = dl
				c.Violation("", "hang (bubble deadlock): "+what, replay)
			}
			for _, p := range problems {
				c.Violation("", "types/"+pkg.name+": "+p, replay)
			}
			c.DistinctCase(fmt.Sprint("typed-tail", pkg.name, k))
		}
	}
	{
		treps := 1
		if !c.Quick() {
			treps = 25
		}
		for rep := 0; rep < treps; rep++ {
			for i, pkg := range typedPkgs {
				typedTree(c, pkg, c.Seed*1000+int64(rep*12+i), (rep+i)%3)
			}
		}
	}
	{
		// list failures through the typed controllers (three packages per seed in the quick tier)
		kinds := []fakeapi.ListKind{fakeapi.ListErr, fakeapi.ListErrCanceled, fakeapi.ListErrTimeout, fakeapi.ListNonList}
		for i, pkg := range typedPkgs {
			if c.Quick() && (i+int(c.Seed))%4 != 0 {
				continue
			}
			for _, k := range kinds {
				typedListFailure(c, pkg, k, c.Seed*77+int64(i), false)
				typedListFailure(c, pkg, k, c.Seed*77+int64(i), true)
			}
		}
	}
	restCheck(c)
	c.Rep.Rule = "all 12 typed packages: the same seeded scenario (objects of the package's type created, changed, deleted; objects of ANOTHER type injected on the watch) run on a typed controller (BuildController) and on an untyped kcache controller side by side against one fake API server in virtual time: typed cache / filtered-subscription cache / subscription events / filtered-subscription events / monitor callbacks = the untyped ones restricted to the type (foreign objects skipped, never nil, same order), Get, readiness, Close; the typed cache vs the extracted typed_list; per package an initially empty collection (typed monitor callbacks = untyped ones, OnInitialize with nothing included) and a burst of 250 events nobody reads (typed subscription delivers what the untyped one delivers; Events() closed after Close). Per package the rest of the typed API as a tree next to the same untyped tree (Clone, CloneWithFilter, CloneForFilter, SubscribeForFilter, Refilter on each, a unitary handler through ToUnitary, typed Ready/Close/Done): readiness, caches, event sequences and callbacks equal the untyped twin restricted to the type at every barrier; a closed typed node is done, nothing above it stops, calls on stopped typed nodes fail. Source level: harness/cmd/gentokens tokenizes template and generated files and the Coq kernel checks instantiate(template) = generated for the 12 packages and executed-join-template = generated join for the 8 joins (20 per-run obligations). List failures (error, context.Canceled, 504, not a list) at the relist of a typed controller next to an untyped one: both stop, Error() agrees on nil-ness and cause, typed subscriptions end (3 packages per seed in the quick tier, all in the thorough tier). REST: every typed NewController(ctx, log, clientset, ns) against a loopback HTTP API server (ready after the empty first list, lists and watches its own resource from the list's version, done after Close), and every typed NewClient against the same server, with and without namespace: path and query of list and watch. Non-trivial = every (package, scenario). The loopback server keeps the watch open: four changes (ADDED, MODIFIED, ADDED, DELETED of the package's kind, JSON with kind and apiVersion) reported on the stream reach the typed cache of every NewController (default refresh period: nothing but the watch can bring them). List failures also at the FIRST list (nothing ever ready), each with a typed for-filter subscription that is never given a filter: typed Events() close, nothing outlives the controller."
	c.Rep.Stats["runs"] = runs
}

// ---------------------------------------------------------------------
// REST paths

type restReq struct{ path, query string }

// restFrame is one line of a watch stream of the loopback server.
type restFrame struct {
	version int
	json    string
}

// frameOf encodes a watch frame the way an API server does: the object carries
// its kind and apiVersion.
func frameOf(typ string, o *Obj) restFrame {
	obj := o.Go().(runtime.Object)
	gvks, _, err := scheme.Scheme.ObjectKinds(obj)
	if err != nil || len(gvks) == 0 {
		panic(fmt.Sprint("frameOf: no kind for ", o.Kind, ": ", err))
	}
	obj.GetObjectKind().SetGroupVersionKind(gvks[0])
	body, err := json.Marshal(obj)
	if err != nil {
		panic(err)
	}
	var v int
	fmt.Sscan(o.RV, &v)
	return restFrame{version: v, json: fmt.Sprintf(`{"type":%q,"object":%s}`, typ, body)}
}

func head2(l [][2]int) [][2]int {
	if len(l) > 3 {
		return l[:3]
	}
	return l
}

func restCheck(c *Ctx) {
	var mu sync.Mutex
	var reqs []restReq
	var frames []restFrame
	srv := httptest.NewServer(http.HandlerFunc(func(w http.ResponseWriter, r *http.Request) {
		mu.Lock()
		reqs = append(reqs, restReq{r.URL.Path, r.URL.RawQuery})
		mu.Unlock()
		w.Header().Set("Content-Type", "application/json")
		if r.URL.Query().Get("watch") != "" || strings.Contains(r.URL.Path, "/watch/") {
			if r.URL.Query().Get("resourceVersion") == "503" {
				// the server is unavailable for this connect: the client reports the
				// error to its caller (the watcher retries from the same version)
				w.WriteHeader(503)
				fmt.Fprint(w, `{"kind":"Status","apiVersion":"v1","status":"Failure","reason":"ServiceUnavailable","code":503}`)
				return
			}
			w.WriteHeader(200)
			w.(http.Flusher).Flush()
			// an open stream: after a little latency, the frames of the current
			// scenario that are newer than the resume version, as they come,
			// until the client goes away
			from, _ := strconv.Atoi(r.URL.Query().Get("resourceVersion"))
			next := 0
			for {
				select {
				case <-r.Context().Done():
					return
				case <-time.After(20 * time.Millisecond):
				}
				mu.Lock()
				var out []restFrame
				if next < len(frames) {
					out = append(out, frames[next:]...)
					next = len(frames)
				}
				mu.Unlock()
				for _, f := range out {
					if f.version <= from {
						continue
					}
					if _, err := fmt.Fprintln(w, f.json); err != nil {
						return
					}
					w.(http.Flusher).Flush()
				}
			}
		}
		fmt.Fprint(w, `{"kind":"List","apiVersion":"v1","metadata":{"resourceVersion":"1"},"items":[]}`)
	}))
	defer srv.Close()
	cs, err := kubernetes.NewForConfig(&rest.Config{Host: srv.URL})
	if err != nil {
		c.Violation("", "cannot build a clientset for the loopback server: "+err.Error(), nil)
		return
	}
	type ent struct {
		name   string
		mk     func(kubernetes.Interface, string) client.Client
		prefix string // API group/version prefix
		res    string
		namespaced bool
		mkc    ctlMaker
		kind   int
	}
	table := []ent{
		{"pod", tpod.NewClient, "/api/v1", "pods", true, ctlOps(tpod.NewController), KPod},
		{"service", tservice.NewClient, "/api/v1", "services", true, ctlOps(tservice.NewController), KService},
		{"secret", tsecret.NewClient, "/api/v1", "secrets", true, ctlOps(tsecret.NewController), KSecret},
		{"node", tnode.NewClient, "/api/v1", "nodes", true, ctlOps(tnode.NewController), KNode},
		{"event", tevent.NewClient, "/api/v1", "events", true, ctlOps(tevent.NewController), KEvent},
		{"replicationcontroller", treplicationcontroller.NewClient, "/api/v1", "replicationcontrollers", true, ctlOps(treplicationcontroller.NewController), KRC},
		{"ingress", tingress.NewClient, "/apis/networking.k8s.io/v1beta1", "ingresses", true, ctlOps(tingress.NewController), KIngress},
		{"job", tjob.NewClient, "/apis/batch/v1", "jobs", true, ctlOps(tjob.NewController), KJob},
		{"daemonset", tdaemonset.NewClient, "/apis/apps/v1", "daemonsets", true, ctlOps(tdaemonset.NewController), KDaemonSet},
		{"deployment", tdeployment.NewClient, "/apis/apps/v1", "deployments", true, ctlOps(tdeployment.NewController), KDeployment},
		{"replicaset", treplicaset.NewClient, "/apis/apps/v1", "replicasets", true, ctlOps(treplicaset.NewController), KRS},
		{"statefulset", tstatefulset.NewClient, "/apis/apps/v1", "statefulsets", true, ctlOps(tstatefulset.NewController), KStatefulSet},
	}
	var rows []string
	for _, e := range table {
		for _, ns := range []string{"", "nsx"} {
			cl := e.mk(cs, ns)
			mu.Lock()
			reqs = nil
			mu.Unlock()
			ctx, cancel := context.WithTimeout(context.Background(), 3*time.Second)
			// the same client is used for several lists and watches, as a
			// controller does across relists and reconnects
			var lerr, werr error
			for _, rv := range []string{"7", "12", "31"} {
				_, lerr = cl.List(ctx, metav1.ListOptions{})
				var w watch.Interface
				w, werr = cl.Watch(ctx, metav1.ListOptions{ResourceVersion: rv, Watch: true})
				if w != nil {
					w.Stop()
				}
			}
			mu.Lock()
			got := append([]restReq(nil), reqs...)
			reqs = nil
			mu.Unlock()
			// a connect that the server refuses: one request, carrying the resume
			// version, and an error for the caller
			wf, ferr := cl.Watch(ctx, metav1.ListOptions{ResourceVersion: "503", Watch: true})
			if wf != nil {
				wf.Stop()
			}
			cancel()
			c.Rep.Evaluations++
			mu.Lock()
			failed := append([]restReq(nil), reqs...)
			mu.Unlock()
			if ferr == nil || len(failed) != 1 || !strings.Contains(failed[0].query, "resourceVersion=503") {
				c.Violation("", fmt.Sprintf("types/%s client (namespace %q): a refused watch connect led to the requests %v and error %v; expected one request with the resume version and an error", e.name, ns, failed, ferr),
					map[string]interface{}{"package": e.name, "namespace": ns, "requests": fmt.Sprint(failed), "watch_error": fmt.Sprint(ferr)})
			}
			nsPart := ""
			if ns != "" {
				nsPart = "/namespaces/" + ns
			}
			wantList := e.prefix + nsPart + "/" + e.res
			wantWatch := e.prefix + "/watch" + nsPart + "/" + e.res
			// NewController(ctx, log, clientset, ns): the typed controller on the
			// typed client of its own resource — ready after the (empty) first
			// list, listing and watching the same paths, and it shuts down
			{
				mu.Lock()
				reqs = nil
				mu.Unlock()
				cctx, ccancel := context.WithCancel(context.Background())
				ready, done, closeFn, content, err := e.mkc(cctx, qlog.Silent(), cs, ns)
				if err != nil {
					c.Violation("", fmt.Sprintf("types/%s NewController (namespace %q) failed: %v", e.name, ns, err), map[string]interface{}{"package": e.name, "namespace": ns})
				} else {
					select {
					case <-ready:
					case <-time.After(5 * time.Second):
						c.Violation("", fmt.Sprintf("types/%s NewController (namespace %q): not ready 5 s after an empty first list", e.name, ns), map[string]interface{}{"package": e.name, "namespace": ns})
					}
					var creqs []restReq
					for k := 0; k < 100; k++ { // the first watch connect follows the list
						mu.Lock()
						creqs = append([]restReq(nil), reqs...)
						mu.Unlock()
						if len(creqs) >= 2 {
							break
						}
						time.Sleep(10 * time.Millisecond)
					}
					if len(creqs) < 2 || creqs[0].path != wantList || creqs[1].path != wantWatch || !strings.Contains(creqs[1].query, "resourceVersion=1") {
						c.Violation("", fmt.Sprintf("types/%s NewController (namespace %q) issued %v, expected a list of %s and then a watch of %s from version 1", e.name, ns, creqs, wantList, wantWatch),
							map[string]interface{}{"package": e.name, "namespace": ns, "requests": fmt.Sprint(creqs)})
					}
					// changes reported on the open stream reach the typed cache: with the
					// default refresh period (a minute) nothing but the watch can bring them
					{
						ons := 1
						mu.Lock()
						frames = nil
						mu.Unlock()
						push := func(typ string, nm, rv int) {
							f := frameOf(typ, &Obj{ID: 100 + rv, Kind: e.kind, NS: ons, NM: nm, RV: fmt.Sprint(rv)})
							mu.Lock()
							frames = append(frames, f)
							mu.Unlock()
						}
						push("ADDED", 1, 2)
						push("MODIFIED", 1, 3)
						time.Sleep(300 * time.Millisecond)
						push("ADDED", 2, 4)
						push("DELETED", 1, 5)
						want := []string{Str(2) + "@4"}
						var got []string
						var cerr error
						for k := 0; k < 300; k++ {
							got, cerr = content()
							if cerr != nil || fmt.Sprint(got) == fmt.Sprint(want) {
								break
							}
							time.Sleep(20 * time.Millisecond)
						}
						if cerr != nil || fmt.Sprint(got) != fmt.Sprint(want) {
							c.Violation("", fmt.Sprintf("types/%s NewController (namespace %q): four changes reported on the open watch stream, the typed cache reads %v (error %v), expected %v", e.name, ns, got, cerr, want),
								map[string]interface{}{"package": e.name, "namespace": ns, "cache": fmt.Sprint(got), "expected": fmt.Sprint(want)})
						}
						mu.Lock()
						frames = nil
						mu.Unlock()
						c.Rep.Evaluations++
					}
					closeFn()
					select {
					case <-done:
					case <-time.After(5 * time.Second):
						c.Violation("", fmt.Sprintf("types/%s NewController (namespace %q): not done 5 s after Close", e.name, ns), map[string]interface{}{"package": e.name, "namespace": ns})
					}
				}
				ccancel()
				c.Rep.Evaluations++
				mu.Lock()
				reqs = nil
				mu.Unlock()
			}
			replay := map[string]interface{}{"package": e.name, "namespace": ns, "requests": fmt.Sprint(got), "list_error": fmt.Sprint(lerr), "watch_error": fmt.Sprint(werr)}
			if len(got) != 6 {
				c.Violation("", fmt.Sprintf("types/%s client (namespace %q) issued %d requests for three lists and three watches", e.name, ns, len(got)), replay)
				continue
			}
			for i, rv := range []string{"7", "12", "31"} {
				l, wq := got[2*i], got[2*i+1]
				if l.path != wantList || l.query != "" {
					c.Violation("", fmt.Sprintf("types/%s client (namespace %q) list %d requests %s?%s, expected %s", e.name, ns, i+1, l.path, l.query, wantList), replay)
				}
				if wq.path != wantWatch {
					c.Violation("", fmt.Sprintf("types/%s client (namespace %q) watch %d requests %s, expected %s", e.name, ns, i+1, wq.path, wantWatch), replay)
				}
				q := strings.Split(wq.query, "&")
				sort.Strings(q)
				if strings.Join(q, "&") != "resourceVersion="+rv+"&watch=true" {
					c.Violation("", fmt.Sprintf("types/%s client watch %d query is %q, expected resourceVersion=%s&watch=true", e.name, i+1, wq.query, rv), replay)
				}
			}
			rows = append(rows, fmt.Sprintf("%s ns=%q: %s | %s?%s", e.name, ns, got[0].path, got[5].path, got[5].query))
			c.DistinctCase("rest" + e.name + ns)
		}
	}
	c.Rep.Stats["rest_rows"] = len(rows)
	if len(rows) > 1 {
		c.Sample(map[string]interface{}{"rest": rows[1]})
	}
}

type ctlMaker func(ctx context.Context, log logutil.Log, cs kubernetes.Interface, ns string) (ready, done <-chan struct{}, closeFn func(), content func() ([]string, error), err error)

// ctlOps adapts the NewController of a typed package (each returns its own Controller type).
func ctlOps[C interface {
	Ready() <-chan struct{}
	Done() <-chan struct{}
	Close()
}](f func(context.Context, logutil.Log, kubernetes.Interface, string) (C, error)) ctlMaker {
	return func(ctx context.Context, log logutil.Log, cs kubernetes.Interface, ns string) (<-chan struct{}, <-chan struct{}, func(), func() ([]string, error), error) {
		c, err := f(ctx, log, cs, ns)
		if err != nil {
			return nil, nil, nil, nil, err
		}
		// the typed cache through reflection (every package has its own types):
		// Cache().List() as sorted "name@resourceVersion"
		content := func() ([]string, error) {
			cache := reflect.ValueOf(c).MethodByName("Cache").Call(nil)[0]
			out := cache.MethodByName("List").Call(nil)
			if !out[1].IsNil() {
				return nil, out[1].Interface().(error)
			}
			var names []string
			for i := 0; i < out[0].Len(); i++ {
				o := out[0].Index(i).Interface().(metav1.Object)
				names = append(names, o.GetName()+"@"+o.GetResourceVersion())
			}
			sort.Strings(names)
			return names, nil
		}
		return c.Ready(), c.Done(), c.Close, content, nil
	}
}
