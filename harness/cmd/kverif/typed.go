package main

import (
	"context"
	"reflect"
	"sort"
	"sync"

	"verifharness/fakeapi"
	. "verifharness/kobj"

	logutil "github.com/boz/go-logutil"
	"github.com/boz/kcache"
	"github.com/boz/kcache/client"
	"github.com/boz/kcache/filter"
	metav1 "k8s.io/apimachinery/pkg/apis/meta/v1"
)

// tctl is a typed controller of any of the twelve packages, seen through
// closures (the packages have the same shape but distinct types).
type tctl struct {
	pkg        string
	kind       int
	raw        interface{} // the typed controller itself (for joins)
	ready      func() <-chan struct{}
	done       func() <-chan struct{}
	closeFn    func()
	errFn      func() error
	listIDs    func() ([]int, error)
	getID      func(ns, name string) (int, error)
	subscribe  func() (*tsub, error)
	subscribeF func(f filter.Filter) (*tsub, error)
	monitor    func(n *node) (kcache.Monitor, error)

	// the rest of the typed API: for-filter subscription, the three clone
	// forms (each wrapped again as a typed controller, with its Refilter), and
	// a monitor with a unitary handler (ToUnitary)
	subscribeFF func() (*tsub, func(filter.Filter) error, error)
	clone       func() (*tctl, error)
	cloneF      func(f filter.Filter) (*tctl, func(filter.Filter) error, error)
	cloneFF     func() (*tctl, func(filter.Filter) error, error)
	unitary     func(log logutil.Log, rec func(what string, id int)) (kcache.Monitor, error)
	monitorMask func(mask int, rec func(what string, ids []int)) (kcache.Monitor, error)
	unitaryMask func(log logutil.Log, mask int, rec func(what string, id int)) (kcache.Monitor, error)
}

// tsub is a typed subscription.
type tsub struct {
	next    func() (ty int, id int, ok bool) // blocks; ok=false when closed
	closeFn func()
	ready   func() <-chan struct{}
	done    func() <-chan struct{}
	listIDs func() ([]int, error)

	mu     sync.Mutex
	events [][2]int
	closed bool
	end    chan struct{}
}

func (s *tsub) start() {
	s.end = make(chan struct{})
	go func() {
		defer close(s.end)
		for {
			ty, id, ok := s.next()
			s.mu.Lock()
			if !ok {
				s.closed = true
				s.mu.Unlock()
				return
			}
			s.events = append(s.events, [2]int{ty, id})
			s.mu.Unlock()
		}
	}()
}

func (s *tsub) received() [][2]int {
	s.mu.Lock()
	defer s.mu.Unlock()
	return append([][2]int(nil), s.events...)
}

func isNilObj(o interface{}) bool {
	if o == nil {
		return true
	}
	v := reflect.ValueOf(o)
	return v.Kind() == reflect.Ptr && v.IsNil()
}

func idOf[T metav1.Object](o T) int {
	if isNilObj(o) {
		return -1
	}
	return ID(o)
}

func idsOf[T metav1.Object](l []T) []int {
	ids := make([]int, 0, len(l))
	for _, o := range l {
		ids = append(ids, idOf(o))
	}
	sort.Ints(ids)
	return ids
}

type tcacheI[T metav1.Object] interface {
	List() ([]T, error)
	Get(string, string) (T, error)
}

type teventI[T metav1.Object] interface {
	Type() kcache.EventType
	Resource() T
}

type tsubI[E any, CR any] interface {
	Events() <-chan E
	Close()
	Done() <-chan struct{}
	Ready() <-chan struct{}
	Cache() CR
}

func wrapSub[S tsubI[E, CR], E teventI[T], CR tcacheI[T], T metav1.Object](s S) *tsub {
	ts := &tsub{
		next: func() (int, int, bool) {
			ev, ok := <-s.Events()
			if !ok {
				return 0, 0, false
			}
			return etyOf(ev.Type()), idOf(ev.Resource()), true
		},
		closeFn: s.Close,
		ready:   s.Ready,
		done:    s.Done,
		listIDs: func() ([]int, error) {
			l, err := s.Cache().List()
			if err != nil {
				return nil, err
			}
			return idsOf(l), nil
		},
	}
	if !tsubPaused {
		ts.start()
	}
	return ts
}

// tsubPaused: typed subscriptions created while it is set have no reader until
// start() is called (a consumer that does not read).
var tsubPaused bool

// typedHandlerLog is what the per-package glue feeds from typed handler callbacks.
func (n *node) typedCallback(what string, ids []int) {
	n.mu.Lock()
	n.hbusy++
	if n.hbusy > 1 {
		n.hoverlap = true
	}
	n.hlog = append(n.hlog, hrec{what: what, ids: ids, seq: fakeapi.Seq.Add(1), doneThen: n.mon != nil && isClosed(n.mon.Done())})
	n.hbusy--
	n.mu.Unlock()
}

func fakeClient(srv *fakeapi.Server) client.Client { return client.NewClient(srv.List, srv.Watch) }

var _ = context.Background
var _ logutil.Log
