package main

import "testing"

func TestKverif(t *testing.T) { Run(t) }
