package main

import (
	"context"
	"fmt"
	"sort"
	"strings"

	"verifharness/enc"
	. "verifharness/kobj"
	"verifharness/qlog"

	"github.com/boz/kcache"
	"github.com/boz/kcache/filter"
	metav1 "k8s.io/apimachinery/pkg/apis/meta/v1"
)

func init() {
	commands["C01"] = runCache
	commands["C02"] = runCache
}

// cop is one cache operation.
type cop struct {
	kind int // 0 sync, 1 update, 2 refilter
	ety  int // update: 0 create 1 update 2 delete
	obj  *Obj
	objs []*Obj
	f    *Filt
}

type cobs struct {
	panicked bool
	events   [][2]int
	ids      []int
}

func (o cobs) enc() enc.T {
	if o.panicked {
		return enc.L(enc.I(1))
	}
	evs := make([]enc.T, len(o.events))
	for i, e := range o.events {
		evs[i] = enc.L(enc.I(e[0]), enc.I(e[1]))
	}
	return enc.L(enc.I(0), enc.L(evs...), enc.Ints(o.ids))
}

func (op cop) enc(o cobs) enc.T {
	switch op.kind {
	case 0:
		return enc.L(enc.I(0), EncObjs(op.objs), o.enc())
	case 1:
		return enc.L(enc.I(1), enc.I(op.ety), op.obj.Enc(), o.enc())
	default:
		return enc.L(enc.I(2), op.f.Enc(), EncObjs(op.objs), o.enc())
	}
}

func etyOf(t kcache.EventType) int {
	switch t {
	case kcache.EventTypeCreate:
		return 0
	case kcache.EventTypeUpdate:
		return 1
	}
	return 2
}

func etyTo(t int) kcache.EventType {
	switch t {
	case 0:
		return kcache.EventTypeCreate
	case 1:
		return kcache.EventTypeUpdate
	}
	return kcache.EventTypeDelete
}

func goObjs(os []*Obj) []metav1.Object {
	r := make([]metav1.Object, len(os))
	for i, o := range os {
		r[i] = o.Go()
	}
	return r
}

// cacheDriver is either the sequential core or the cache goroutine.
type cacheDriver interface {
	Sync(list []metav1.Object) []kcache.Event
	Update(evt kcache.Event) []kcache.Event
	Refilter(list []metav1.Object, f filter.Filter) []kcache.Event
	List() []metav1.Object
}

// actorDriver drives the real cache goroutine through its request channels.
type actorDriver struct {
	a      *kcache.VerifCacheActor
	cancel context.CancelFunc
}

func newActorDriver(f filter.Filter) *actorDriver {
	ctx, cancel := context.WithCancel(context.Background())
	return &actorDriver{kcache.NewVerifCacheActor(ctx, qlog.Silent(), nil, f), cancel}
}

func (d *actorDriver) Sync(list []metav1.Object) []kcache.Event {
	evs, err := d.a.Sync(list)
	if err != nil {
		panic(err)
	}
	return evs
}
func (d *actorDriver) Update(evt kcache.Event) []kcache.Event {
	evs, err := d.a.Update(evt)
	if err != nil {
		panic(err)
	}
	return evs
}
func (d *actorDriver) Refilter(list []metav1.Object, f filter.Filter) []kcache.Event {
	evs, err := d.a.Refilter(list, f)
	if err != nil {
		panic(err)
	}
	return evs
}
func (d *actorDriver) List() []metav1.Object {
	l, err := d.a.Reader().List()
	if err != nil {
		panic(err)
	}
	// Get must agree with List
	for _, o := range l {
		g, err := d.a.Reader().Get(o.GetNamespace(), o.GetName())
		if err != nil || g != o {
			panic("Get disagrees with List")
		}
		// GetObject(obj) is Get(obj's namespace, obj's name)
		if g2, err := d.a.Reader().GetObject(o); err != nil || g2 != o {
			panic("GetObject disagrees with Get")
		}
	}
	// ... and Get of every other key of the small universe (the empty namespace
	// included) finds nothing: an object is returned under its own key only
	held := map[[2]string]bool{}
	for _, o := range l {
		held[[2]string{o.GetNamespace(), o.GetName()}] = true
	}
	for ns := 0; ns <= 2; ns++ {
		for nm := 0; nm <= 3; nm++ {
			k := [2]string{Str(ns), Str(nm)}
			if held[k] {
				continue
			}
			if g, err := d.a.Reader().Get(k[0], k[1]); err != nil || g != nil {
				panic(fmt.Sprintf("Get(%q, %q) returns an object although List holds none under that key", k[0], k[1]))
			}
		}
	}
	return l
}
func (d *actorDriver) close() { d.cancel(); <-d.a.Done() }

// apply runs one operation on the real cache.
func apply(vc cacheDriver, op cop) (obs cobs) {
	defer func() {
		if r := recover(); r != nil {
			obs = cobs{panicked: true}
		}
	}()
	var evs []kcache.Event
	switch op.kind {
	case 0:
		evs = vc.Sync(goObjs(op.objs))
	case 1:
		evs = vc.Update(kcache.NewEvent(etyTo(op.ety), op.obj.Go()))
	case 2:
		evs = vc.Refilter(goObjs(op.objs), op.f.Go())
	}
	for _, e := range evs {
		obs.events = append(obs.events, [2]int{etyOf(e.Type()), ID(e.Resource())})
	}
	for _, o := range vc.List() {
		obs.ids = append(obs.ids, ID(o))
	}
	sort.Ints(obs.ids)
	return obs
}

func stateKey(fi int, ids []int) string {
	return fmt.Sprintf("%d|%v", fi, ids)
}

type bfsState struct {
	fi   int   // index of the current filter in the family
	init int   // index of the initial filter
	path []cop // witness path from the empty cache
}

func replayPath(init *Filt, path []cop) (*kcache.VerifCache, []cobs) {
	vc := kcache.NewVerifCache(qlog.Silent(), init.Go())
	obs := make([]cobs, len(path))
	for i, op := range path {
		obs[i] = apply(vc, op)
	}
	return vc, obs
}

// replayPathActor runs the same path through the cache goroutine.  A panic
// inside the goroutine would kill the process, so callers use it only on
// paths the sequential core survived.
func replayPathActor(init *Filt, path []cop) []cobs {
	d := newActorDriver(init.Go())
	defer d.close()
	obs := make([]cobs, len(path))
	for i, op := range path {
		obs[i] = apply(d, op)
	}
	return obs
}

func emitPath(c *Ctx, f *Filt, path []cop, obs []cobs) {
	ops := make([]enc.T, 0, len(path))
	for i, op := range path {
		ops = append(ops, op.enc(obs[i]))
		c.Rep.Evaluations++
		if obs[i].panicked {
			break
		}
	}
	c.Case(enc.L(enc.I(3), f.Enc(), enc.L(ops...), enc.L()))
}

func anyPanic(obs []cobs) bool {
	for _, o := range obs {
		if o.panicked {
			return true
		}
	}
	return false
}

func runCache(c *Ctx) {
	// corpus first: the witnesses of defects D1 and D2 (fixed in /repo)
	cacheCorpus(c)
	cacheBFS(c)
	cacheWalks(c)
	c.Rep.Rule = "cache core (doSync/doUpdate/doRefilter/doList through the verif export, and every corpus case and random walk again through the real cache goroutine's request channels with List/Get): BFS over every state reachable in a universe of 2 keys x 6 resource versions (0,1,2,3,x,empty; thorough adds -1,+3,007,2^63) x 2 label sets x 4 filters (Null, Labels, NSName, FN); from every reachable state every update event and every list of length <=2 (duplicates and malformed versions included) and every refilter; plus seeded random walks over 8 keys x 50 versions x 3 label sets with composite filters. Per operation: content and events vs the extracted model, and the extracted replay oracle on the implementation's own events. Non-trivial = operation that changes the content or emits an event; distinct by (state, operation)."
}

func cacheFamily() []*Filt {
	lab := &Filt{Tag: FLabels, Map: Map{{1, 1}}}
	return []*Filt{
		{Tag: FNull},
		lab,
		{Tag: FNSName, IDs: []ID2{{1, 2}}},
		fn(not(lab)),
	}
}

func cacheObjects(rvs []string) []*Obj {
	var r []*Obj
	id := 1
	for nm := 1; nm <= 2; nm++ {
		for _, rv := range rvs {
			for l := 0; l < 2; l++ {
				var m Map
				if l == 1 {
					m = Map{{1, 1}}
				}
				// the first key is cluster-scoped (empty namespace), the second namespaced
				r = append(r, &Obj{ID: id, Kind: KPod, NS: nm - 1, NM: nm, RV: rv, Labels: m, Spec: SPod, Node: 1, Inc: id % 3})
				id++
			}
		}
	}
	return r
}

func cacheCorpus(c *Ctx) {
	mk := func(id, nm int, rv string, lab bool) *Obj {
		var m Map
		if lab {
			m = Map{{1, 1}}
		}
		return &Obj{ID: id, Kind: KPod, NS: 1, NM: nm, RV: rv, Labels: m, Spec: SPod, Node: 1, Inc: id % 3}
	}
	lab := &Filt{Tag: FLabels, Map: Map{{1, 1}}}
	nsn := &Filt{Tag: FNSName, IDs: []ID2{{1, 2}}}
	cases := []struct {
		name string
		f    *Filt
		path []cop
	}{
		{"D1-sync-zero-version-rejected", nsn, []cop{{kind: 0, objs: []*Obj{mk(1, 1, "0", false)}}}},
		{"D1-sync-negative-version-rejected", lab, []cop{{kind: 0, objs: []*Obj{mk(1, 1, "-5", false)}}}},
		{"D2-dup-accepted-then-newer-rejected", lab, []cop{{kind: 0, objs: []*Obj{mk(1, 1, "1", true), mk(2, 1, "2", false)}}}},
		{"D2-dup-newer-rejected-then-accepted", lab, []cop{{kind: 0, objs: []*Obj{mk(2, 1, "2", false), mk(1, 1, "1", true)}}}},
		{"D2-cached-then-dup", lab, []cop{{kind: 0, objs: []*Obj{mk(1, 1, "1", true)}}, {kind: 0, objs: []*Obj{mk(2, 1, "2", false), mk(1, 1, "1", true)}}}},
		{"dup-two-accepted", lab, []cop{{kind: 0, objs: []*Obj{mk(1, 1, "1", true), mk(2, 1, "2", true)}}}},
	}
	for _, cs := range cases {
		_, obs := replayPath(cs.f, cs.path)
		c.Out.WriteString("# corpus " + cs.name + "\n")
		emitPath(c, cs.f, cs.path, obs)
		if !anyPanic(obs) {
			c.Out.WriteString("# corpus (cache goroutine) " + cs.name + "\n")
			emitPath(c, cs.f, cs.path, replayPathActor(cs.f, cs.path))
		}
		c.Stat("corpus", 1)
	}
}

func cacheBFS(c *Ctx) {
	// "010" is ten (not eight), "08" is eight (not a syntax error): versions are decimal
	rvs := []string{"0", "1", "9", "010", "x", ""} // 9 < 010 in decimal (in octal 010 would be 8)
	if !c.Quick() {
		rvs = append(rvs, "2", "08", "-1", "+3", "007", "9223372036854775808")
	}
	fam := cacheFamily()
	objs := cacheObjects(rvs)
	// operations
	var ops []cop
	for _, o := range objs {
		for t := 0; t < 3; t++ {
			ops = append(ops, cop{kind: 1, ety: t, obj: o})
		}
	}
	var lists [][]*Obj
	lists = append(lists, nil)
	for _, a := range objs {
		lists = append(lists, []*Obj{a})
	}
	nsingle := len(lists)
	for _, a := range objs {
		for _, b := range objs {
			lists = append(lists, []*Obj{a, b})
		}
	}
	for _, l := range lists {
		ops = append(ops, cop{kind: 0, objs: l})
	}
	for fi := range fam {
		rl := lists[:nsingle]
		if !c.Quick() {
			rl = lists
		} else {
			// a strided sample of the two-element lists
			for i := nsingle + fi; i < len(lists); i += 7 {
				rl = append(rl[:len(rl):len(rl)], lists[i])
			}
		}
		for _, l := range rl {
			ops = append(ops, cop{kind: 2, f: fam[fi], objs: l})
		}
	}
	opFilter := func(op cop, cur int) int {
		if op.kind == 2 {
			for i, f := range fam {
				if f == op.f {
					return i
				}
			}
		}
		return cur
	}
	seen := map[string]bool{}
	var queue []bfsState
	for fi := range fam {
		seen[stateKey(fi, nil)] = true
		queue = append(queue, bfsState{fi: fi, init: fi})
	}
	states := 0
	for len(queue) > 0 {
		st := queue[0]
		queue = queue[1:]
		states++
		_, pobs := replayPath(fam[st.init], st.path)
		pathEnc := make([]enc.T, len(st.path))
		for i, op := range st.path {
			pathEnc[i] = op.enc(pobs[i])
		}
		var before []int
		if len(pobs) > 0 {
			before = pobs[len(pobs)-1].ids
		}
		alts := make([]enc.T, 0, len(ops))
		for oi, op := range ops {
			vc, _ := replayPath(fam[st.init], st.path)
			obs := apply(vc, op)
			alts = append(alts, op.enc(obs))
			c.Rep.Evaluations++
			if obs.panicked {
				c.Stat("panics", 1)
				continue
			}
			if len(obs.events) > 0 || fmt.Sprint(obs.ids) != fmt.Sprint(before) {
				c.DistinctCase(fmt.Sprintf("%s/%d", stateKey(st.fi, before), oi))
			}
			// cached objects satisfy the current filter (direct oracle)
			nfi := opFilter(op, st.fi)
			gf := fam[nfi].Go()
			for _, o := range vc.List() {
				if ok, _ := goAccept(gf, o); !ok {
					c.Violation("", "a cached object is rejected by the current filter", map[string]interface{}{
						"init_filter": fam[st.init].Enc().String(), "path": enc.L(pathEnc...).String(), "op": op.enc(obs).String()})
				}
			}
			k := stateKey(nfi, obs.ids)
			if !seen[k] {
				seen[k] = true
				np := append(append([]cop{}, st.path...), op)
				queue = append(queue, bfsState{fi: nfi, init: st.init, path: np})
			}
		}
		c.Case(enc.L(enc.I(3), fam[st.init].Enc(), enc.L(pathEnc...), enc.L(alts...)))
		if states == 7 {
			c.Sample(map[string]interface{}{"init_filter": fam[st.init].Enc().String(), "path_to_state": enc.L(pathEnc...).String(), "first_alternative_op": alts[5].String()})
		}
	}
	c.Rep.Stats["bfs_states"] = states
	c.Rep.Stats["ops_per_state"] = len(ops)
	c.Rep.Stats["bfs_exhaustive"] = true
}

func cacheWalks(c *Ctx) {
	n, steps := 150, 25
	if !c.Quick() {
		n, steps = 6000, 40
	}
	labs := []Map{nil, {{1, 1}}, {{1, 2}, {2, 1}}}
	pool := append(atoms(false), fn(atoms(true)[4]))
	weird := []string{"", "x", "0", "-3", "+7", "0012", "9223372036854775807", "9223372036854775808", "1e3", " 5"}
	id := 1
	mkobj := func() *Obj {
		o := &Obj{ID: id, Kind: KPod, NS: c.Rng.Intn(3), NM: 1 + c.Rng.Intn(3), Labels: labs[c.Rng.Intn(3)], Spec: SPod, Node: 1, Inc: id % 3}
		id++
		if c.Rng.Intn(8) == 0 {
			o.RV = weird[c.Rng.Intn(len(weird))]
		} else {
			o.RV = fmt.Sprint(1 + c.Rng.Intn(50))
		}
		return o
	}
	kinds := map[string]int{}
	for w := 0; w < n; w++ {
		f0 := randomTerm(c, 2, pool)
		var path []cop
		for s := 0; s < steps; s++ {
			switch r := c.Rng.Intn(10); {
			case r < 6:
				path = append(path, cop{kind: 1, ety: c.Rng.Intn(3), obj: mkobj()})
				kinds["update"]++
			case r < 9:
				k := c.Rng.Intn(7)
				if c.Rng.Intn(6) == 0 {
					k = 0 // an empty list: everything must go
				}
				var l []*Obj
				for i := 0; i < k; i++ {
					l = append(l, mkobj())
				}
				path = append(path, cop{kind: 0, objs: l})
				kinds["sync"]++
			default:
				k := c.Rng.Intn(6)
				var l []*Obj
				for i := 0; i < k; i++ {
					l = append(l, mkobj())
				}
				path = append(path, cop{kind: 2, f: randomTerm(c, 2, pool), objs: l})
				kinds["refilter"]++
			}
		}
		_, obs := replayPath(f0, path)
		ops := make([]enc.T, 0, len(path))
		for i, op := range path {
			ops = append(ops, op.enc(obs[i]))
			c.Rep.Evaluations++
			if obs[i].panicked {
				break
			}
			if len(obs[i].events) > 0 {
				c.DistinctCase(fmt.Sprintf("walk%d/%d", w, i))
			}
		}
		c.Case(enc.L(enc.I(3), f0.Enc(), enc.L(ops...), enc.L()))
		// the same walk through the cache goroutine (request channels, List/Get)
		if !anyPanic(obs) {
			emitPath(c, f0, path, replayPathActor(f0, path))
			c.Stat("walks_through_actor", 1)
		}
		if w == 0 {
			c.Sample(map[string]interface{}{"walk": strings.Join([]string{f0.Enc().String(), ops[0].String(), ops[1].String()}, " ; ") + " ..."})
		}
	}
	for k, v := range kinds {
		c.Rep.Stats["walk_"+k] = v
	}
}
