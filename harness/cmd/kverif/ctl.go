package main

import (
	"context"
	"fmt"
	"sort"
	"sync"
	"time"

	"verifharness/fakeapi"
	. "verifharness/kobj"
	"verifharness/sched"

	"github.com/boz/kcache"
	"github.com/boz/kcache/client"
	"github.com/boz/kcache/filter"
	metav1 "k8s.io/apimachinery/pkg/apis/meta/v1"
)

// ctl is a real controller wired to a fake API server inside a bubble.
type ctl struct {
	srv    *fakeapi.Server
	c      kcache.Controller
	pert   *sched.Perturb
	cancel context.CancelFunc
	ctx    context.Context
}

func newCtl(seed int64, level int, period time.Duration, f filter.Filter) *ctl {
	srv := fakeapi.New()
	return newCtlWith(srv, seed, level, period, f)
}

func newCtlWith(srv *fakeapi.Server, seed int64, level int, period time.Duration, f filter.Filter) *ctl {
	pert := sched.NewPerturb(seed, level)
	ctx, cancel := context.WithCancel(context.Background())
	var b kcache.Builder
	if seed%2 == 0 {
		var cl client.Client = client.NewClient(srv.List, srv.Watch)
		if seed%4 == 0 {
			// the same client assembled from its two halves
			cl = struct {
				client.ListClient
				client.WatchClient
			}{client.NewListClient(srv.List), client.NewWatchClient(srv.Watch)}
		}
		b = kcache.NewBuilder().Context(ctx).Log(pert.Log()).Client(cl)
		b.Lister().RefreshPeriod(period)
		if f != nil {
			b = b.Filter(f)
		}
	} else {
		// the same configuration statement by statement, the returned builder unused
		b = kcache.NewBuilder()
		b.Context(ctx)
		b.Log(pert.Log())
		b.Client(client.NewClient(srv.List, srv.Watch))
		b.Lister().RefreshPeriod(period)
		if f != nil {
			b.Filter(f)
		}
	}
	c, err := b.Create()
	if err != nil {
		panic(err)
	}
	return &ctl{srv: srv, c: c, pert: pert, cancel: cancel, ctx: ctx}
}

// isClosed polls a channel without blocking.
func isClosed(ch <-chan struct{}) bool {
	select {
	case <-ch:
		return true
	default:
		return false
	}
}

func cacheIDs(r kcache.CacheReader) ([]int, error) {
	l, err := r.List()
	if err != nil {
		return nil, err
	}
	ids := make([]int, 0, len(l))
	for _, o := range l {
		ids = append(ids, ID(o))
	}
	sort.Ints(ids)
	return ids, nil
}

func objIDs(os []*Obj) []int {
	ids := make([]int, 0, len(os))
	for _, o := range os {
		ids = append(ids, o.ID)
	}
	sort.Ints(ids)
	return ids
}

func sameInts(a, b []int) bool {
	if len(a) != len(b) {
		return false
	}
	for i := range a {
		if a[i] != b[i] {
			return false
		}
	}
	return true
}

// acceptedIDs filters server objects through a real filter.
func acceptedIDs(os []*Obj, f filter.Filter) []int {
	var r []*Obj
	for _, o := range os {
		if f == nil || f.Accept(o.Go()) {
			r = append(r, o)
		}
	}
	return objIDs(r)
}

// mirror replays a subscription's events into a map, the way a consumer that
// mirrors the cache would (C02 / C05 public-API oracle).
type mirror struct {
	mu      sync.Mutex
	items   map[[2]string]metav1.Object
	events  [][2]int // (type, id) in arrival order
	seqs    []int64  // fakeapi.Seq at each arrival
	vers    []int    // resource version of each event's object
	bad     []string // ill-formed events seen
	preRdy  int      // events received before Ready was observed closed
	closed  bool
	stopped chan struct{}
}

func newMirror(sub kcache.Subscription, seed []metav1.Object) *mirror {
	m := &mirror{items: map[[2]string]metav1.Object{}, stopped: make(chan struct{})}
	for _, o := range seed {
		m.items[[2]string{o.GetNamespace(), o.GetName()}] = o
	}
	go func() {
		defer close(m.stopped)
		for ev := range sub.Events() {
			rdy := isClosed(sub.Ready())
			m.mu.Lock()
			if !rdy {
				m.preRdy++
			}
			o := ev.Resource()
			k := [2]string{o.GetNamespace(), o.GetName()}
			_, present := m.items[k]
			m.events = append(m.events, [2]int{etyOf(ev.Type()), ID(o)})
			m.seqs = append(m.seqs, fakeapi.Seq.Add(1))
			var ver int
			fmt.Sscan(o.GetResourceVersion(), &ver)
			m.vers = append(m.vers, ver)
			switch ev.Type() {
			case kcache.EventTypeCreate:
				if present {
					m.bad = append(m.bad, "Create of a present key")
				}
				m.items[k] = o
			case kcache.EventTypeUpdate:
				if !present {
					m.bad = append(m.bad, "Update of an absent key")
				} else {
					var vo, vn int
					fmt.Sscan(m.items[k].GetResourceVersion(), &vo)
					fmt.Sscan(o.GetResourceVersion(), &vn)
					if vn <= vo {
						m.bad = append(m.bad, fmt.Sprintf("Update to a version that is not newer (%d -> %d)", vo, vn))
					}
				}
				m.items[k] = o
			case kcache.EventTypeDelete:
				if !present {
					m.bad = append(m.bad, "Delete of an absent key")
				}
				delete(m.items, k)
			}
			m.mu.Unlock()
		}
		m.mu.Lock()
		m.closed = true
		m.mu.Unlock()
	}()
	return m
}

func (m *mirror) count() int {
	m.mu.Lock()
	defer m.mu.Unlock()
	return len(m.events)
}

func (m *mirror) ids() []int {
	m.mu.Lock()
	defer m.mu.Unlock()
	ids := make([]int, 0, len(m.items))
	for _, o := range m.items {
		ids = append(ids, ID(o))
	}
	sort.Ints(ids)
	return ids
}

// receivedBefore returns the highest version among events that had arrived
// before the observation numbered seq.
func (m *mirror) receivedBefore(seq int64) int {
	m.mu.Lock()
	defer m.mu.Unlock()
	best := 0
	for i, s := range m.seqs {
		if s < seq && m.vers[i] > best {
			best = m.vers[i]
		}
	}
	return best
}

func (m *mirror) snapshot() (events [][2]int, bad []string, preReady int) {
	m.mu.Lock()
	defer m.mu.Unlock()
	return append([][2]int(nil), m.events...), append([]string(nil), m.bad...), m.preRdy
}
