package main

import (
	"context"
	"fmt"
	"sort"
	"sync"
	"sync/atomic"
	"time"

	"verifharness/enc"
	. "verifharness/kobj"
	"verifharness/qlog"

	"github.com/boz/kcache"
	metav1 "k8s.io/apimachinery/pkg/apis/meta/v1"
)

func init() {
	commands["C15"] = runC15
}

// C15 runs in real time (no bubble), normally under the race detector: N
// readers against one writer that alternates between distinguishable complete
// states through sync / refilter / update.
func runC15(c *Ctx) {
	rounds := 3
	nstates := 400
	if !c.Quick() {
		rounds = 36
		nstates = 3000
	}
	even := &Filt{Tag: FFn, Children: []*Filt{{Tag: FNSName, IDs: []ID2{{1, 2}, {1, 4}}}}}
	for round := 0; round < rounds; round++ {
		readers := []int{1, 4, 16}[round%3]
		ctx, cancel := context.WithCancel(context.Background())
		actor := kcache.NewVerifCacheActor(ctx, qlog.Silent(), nil, (&Filt{Tag: FNull}).Go())
		// state i: keys 1..5 all at version i+1 (odd states: only keys 2 and 4, by refilter)
		mkState := func(i int) ([]metav1.Object, []int) {
			var objs []metav1.Object
			var ids []int
			for k := 1; k <= 5; k++ {
				o := &Obj{ID: 10*(i+1) + k, Kind: KPod, NS: 1, NM: k, RV: fmt.Sprint(i + 1), Spec: SPod}
				objs = append(objs, o.Go())
				if i%2 == 0 || k == 2 || k == 4 {
					ids = append(ids, o.ID)
				}
			}
			return objs, ids
		}
		states := make([][]int, nstates+1)
		states[0] = []int{} // before the first write: empty
		var started, completed atomic.Int64
		type read struct {
			lo, hi int
			ids    []int
		}
		var mu sync.Mutex
		var reads []read
		ngets := 0
		var problems []string
		var wg sync.WaitGroup
		stop := make(chan struct{})
		for r := 0; r < readers; r++ {
			wg.Add(1)
			go func(r int) {
				defer wg.Done()
				last := -1
				lastGet := map[int]int{}
				var held []metav1.Object
				var heldIDs []int
				for n := 0; ; n++ {
					select {
					case <-stop:
						return
					default:
					}
					lo := int(completed.Load())
					l, err := actor.Reader().List()
					hi := int(started.Load())
					if err != nil {
						return
					}
					ids := make([]int, 0, len(l))
					vers := map[string]bool{}
					for _, o := range l {
						ids = append(ids, ID(o))
						vers[o.GetResourceVersion()] = true
					}
					sort.Ints(ids)
					// the returned slice belongs to the caller: a snapshot held across the
					// next read must not change, and scribbling on one must not show up
					// anywhere
					if held != nil {
						cur := make([]int, 0, len(held))
						for _, o := range held {
							if o != nil {
								cur = append(cur, ID(o))
							} else {
								cur = append(cur, -1)
							}
						}
						sort.Ints(cur)
						if fmt.Sprint(cur) != fmt.Sprint(heldIDs) {
							mu.Lock()
							problems = append(problems, fmt.Sprintf("reader %d: a snapshot it was holding changed from %v to %v during a later List()", r, heldIDs, cur))
							mu.Unlock()
						}
					}
					if n%2 == 0 {
						held, heldIDs = l, append([]int(nil), ids...)
					} else {
						held, heldIDs = nil, nil
						for i := range l {
							l[i] = nil
						}
					}
					mu.Lock()
					if len(vers) > 1 {
						problems = append(problems, fmt.Sprintf("reader %d: a List() returned objects of %d different complete states (a half-applied relist/refilter): %v", r, len(vers), ids))
					}
					st := -1
					if len(ids) > 0 {
						st = ids[0] / 10
					} else {
						st = 0
					}
					if st < last {
						problems = append(problems, fmt.Sprintf("reader %d went backwards: state %d after state %d", r, st, last))
					}
					last = st
					if len(reads) < 20000 {
						reads = append(reads, read{lo, hi, ids})
					}
					mu.Unlock()
					if n%3 == 0 {
						// Get() from every reader on a different key: the reply belongs to
						// the caller's key and to a state inside the call's window
						k := 1 + (r+n)%5
						glo := int(completed.Load())
						g, err := actor.Reader().Get(Str(1), Str(k))
						ghi := int(started.Load())
						if err != nil {
							return
						}
						mu.Lock()
						ngets++
						if g != nil {
							var v int
							fmt.Sscan(g.GetResourceVersion(), &v)
							switch {
							case g.GetName() != Str(k) || g.GetNamespace() != Str(1):
								problems = append(problems, fmt.Sprintf("reader %d: Get(%s/%s) returned %s/%s", r, Str(1), Str(k), g.GetNamespace(), g.GetName()))
							case v < glo || v > ghi:
								problems = append(problems, fmt.Sprintf("reader %d: Get of key %d returned state %d, outside its window [%d,%d]", r, k, v, glo, ghi))
							case v < lastGet[k]:
								problems = append(problems, fmt.Sprintf("reader %d: Get of key %d went backwards: state %d after %d", r, k, v, lastGet[k]))
							case k%2 == 1 && v%2 == 0:
								problems = append(problems, fmt.Sprintf("reader %d: Get of key %d returned state %d, in which that key is filtered out", r, k, v))
							}
							lastGet[k] = v
						} else if glo > 0 {
							// absent: only a key the even states filter out, with an even state in the window
							evenInWindow := ghi > glo || glo%2 == 0
							if k%2 == 0 || !evenInWindow {
								problems = append(problems, fmt.Sprintf("reader %d: Get of key %d returned nothing although every state in its window [%d,%d] holds it", r, k, glo, ghi))
							}
						}
						mu.Unlock()
						if a, err := actor.Reader().Get(Str(3), Str(k)); err == nil && a != nil {
							mu.Lock()
							problems = append(problems, fmt.Sprintf("reader %d: Get of an absent key returned %s/%s", r, a.GetNamespace(), a.GetName()))
							mu.Unlock()
						}
					}
				}
			}(r)
		}
		for i := 0; i < nstates; i++ {
			objs, ids := mkState(i)
			states[i+1] = ids
			started.Store(int64(i + 1))
			var err error
			switch {
			case i%2 == 1:
				_, err = actor.Refilter(objs, even.Go())
			case i%4 == 0:
				_, err = actor.Refilter(objs, (&Filt{Tag: FNull}).Go())
			default:
				_, err = actor.Refilter(objs, (&Filt{Tag: FNull}).Go())
			}
			if err != nil {
				problems = append(problems, "writer: "+err.Error())
				break
			}
			completed.Store(int64(i + 1))
			if i%50 == 0 {
				time.Sleep(50 * time.Microsecond)
			}
		}
		close(stop)
		wg.Wait()
		cancel()
		<-actor.Done()
		// to the model's oracle
		sts := make([]enc.T, len(states))
		for i, s := range states {
			sts[i] = enc.Ints(s)
		}
		rds := make([]enc.T, len(reads))
		distinctStates := map[int]bool{}
		for i, r := range reads {
			rds[i] = enc.L(enc.I(r.lo), enc.I(r.hi), enc.Ints(r.ids))
			if len(r.ids) > 0 {
				distinctStates[r.ids[0]/10] = true
			}
		}
		c.Case(enc.L(enc.I(12), enc.L(sts...), enc.L(rds...)))
		c.Rep.Evaluations += len(reads)
		c.Rep.Distinct += len(distinctStates)
		c.Stat("reads", len(reads))
		c.Stat("gets", ngets)
		c.Stat(fmt.Sprintf("readers_%d_rounds", readers), 1)
		for _, p := range problems {
			c.Violation("", p, map[string]interface{}{"readers": readers, "round": round})
		}
		if round == 0 && len(reads) > 3 {
			c.Sample(map[string]interface{}{"readers": readers, "read": map[string]interface{}{"completed_before_call": reads[3].lo, "started_after_return": reads[3].hi, "observed_ids": reads[3].ids}})
		}
	}
	// second workload: a label filter, and single watch events that move
	// objects into and out of it (filter-delete), create and delete them; the
	// writer's states are what its own returned events replay to (C02)
	for round := 0; round < rounds; round++ {
		readers := []int{2, 8}[round%2]
		ctx, cancel := context.WithCancel(context.Background())
		lab := &Filt{Tag: FLabels, Map: Map{{1, 1}}}
		actor := kcache.NewVerifCacheActor(ctx, qlog.Silent(), nil, lab.Go())
		nops := nstates
		states := make([][]int, nops+1)
		states[0] = []int{}
		mirror := map[[2]int]int{} // key -> id
		var started, completed atomic.Int64
		type read struct {
			lo, hi int
			ids    []int
		}
		var mu sync.Mutex
		var reads []read
		var problems []string
		var wg sync.WaitGroup
		stop := make(chan struct{})
		for r := 0; r < readers; r++ {
			wg.Add(1)
			go func(r int) {
				defer wg.Done()
				for {
					select {
					case <-stop:
						return
					default:
					}
					lo := int(completed.Load())
					l, err := actor.Reader().List()
					hi := int(started.Load())
					if err != nil {
						return
					}
					ids := make([]int, 0, len(l))
					for _, o := range l {
						ids = append(ids, ID(o))
					}
					sort.Ints(ids)
					mu.Lock()
					if len(reads) < 20000 {
						reads = append(reads, read{lo, hi, ids})
					}
					mu.Unlock()
				}
			}(r)
		}
		for i := 0; i < nops; i++ {
			k := 1 + i%3
			o := &Obj{ID: 100000 + i, Kind: KPod, NS: 1, NM: k, RV: fmt.Sprint(i + 1), Spec: SPod}
			if (i/3)%2 == 0 {
				o.Labels = Map{{1, 1}} // accepted
			}
			ety := 1
			if i%7 == 6 {
				ety = 2
			}
			started.Store(int64(i + 1))
			evs, err := actor.Update(kcache.NewEvent(etyTo(ety), o.Go()))
			if err != nil {
				problems = append(problems, "writer: "+err.Error())
				break
			}
			for _, e := range evs {
				key := [2]int{1, k}
				if e.Type() == kcache.EventTypeDelete {
					delete(mirror, key)
				} else {
					mirror[key] = ID(e.Resource())
				}
			}
			var ids []int
			for _, id := range mirror {
				ids = append(ids, id)
			}
			sort.Ints(ids)
			states[i+1] = ids
			completed.Store(int64(i + 1))
			if i%40 == 0 {
				time.Sleep(50 * time.Microsecond)
			}
		}
		close(stop)
		wg.Wait()
		// a final read after everything completed must show the final state
		if l, err := actor.Reader().List(); err == nil {
			var ids []int
			for _, o := range l {
				ids = append(ids, ID(o))
			}
			sort.Ints(ids)
			reads = append(reads, read{nops, nops, ids})
		}
		cancel()
		<-actor.Done()
		sts := make([]enc.T, len(states))
		for i, st := range states {
			sts[i] = enc.Ints(st)
		}
		rds := make([]enc.T, len(reads))
		for i, r := range reads {
			rds[i] = enc.L(enc.I(r.lo), enc.I(r.hi), enc.Ints(r.ids))
		}
		c.Case(enc.L(enc.I(12), enc.L(sts...), enc.L(rds...)))
		c.Rep.Evaluations += len(reads)
		c.Stat("reads_update_workload", len(reads))
		for _, p := range problems {
			c.Violation("", p, map[string]interface{}{"readers": readers, "round": round, "workload": "updates"})
		}
	}
	fsubRefilterAtomic(c)
	c.Rep.Rule = "the real cache goroutine (verif export) in real time, built with the race detector: 1 / 4 / 16 reader goroutines calling List() and Get() (every reader on rotating keys, plus an absent key: the reply is the caller's key, from a state inside the call's window, never backwards) in a loop against one writer that moves through distinguishable complete states (5 keys all at version i; odd states restricted to 2 keys by a refilter) with sync-by-refilter; each read stamped with the writer's completed-state counter before the call and started-state counter after the return. Oracles: every List() is one complete state (never a mix), within its window (extracted lin_ok), per-reader monotone, a snapshot held across the next read must not change and a scribbled-on one must not show anywhere; a second workload under a label filter of single watch events (updates into and out of the filter, deletes) whose states are the replay of the writer's own returned events; a third workload one level up: readers on the cache of a FILTERED SUBSCRIPTION of a quiet parent while it is refiltered back and forth between two disjoint label filters: every List() is the one view or the other, never a mixture or the empty intersection; no data race reported by the race detector (a report fails the run). Non-trivial = distinct writer states observed by some reader."
}

// fsubRefilterAtomic: "never a half-applied relist or refilter" at the level of
// a filtered subscription.  The parent is quiet and holds three objects labelled
// A and three labelled B; a filtered subscription is refiltered back and forth
// between Labels(A) and Labels(B) while readers call List() on its cache at full
// speed: every result is the A view or the B view.
func fsubRefilterAtomic(c *Ctx) {
	rounds := 150
	if !c.Quick() {
		rounds = 2500
	}
	ctx, cancel := context.WithCancel(context.Background())
	defer cancel()
	src := kcache.NewVerifSource(ctx, qlog.Silent(), (&Filt{Tag: FNull}).Go())
	var viewA, viewB []int
	for k := 1; k <= 6; k++ {
		lab := Map{{1, 1}}
		if k > 3 {
			lab = Map{{1, 2}}
		}
		o := &Obj{ID: 500 + k, Kind: KPod, NS: 1, NM: k, RV: "1", Labels: lab, Spec: SPod}
		src.CacheActor().Update(kcache.NewEvent(kcache.EventTypeCreate, o.Go()))
		if k <= 3 {
			viewA = append(viewA, o.ID)
		} else {
			viewB = append(viewB, o.ID)
		}
	}
	src.MakeReady()
	fA := (&Filt{Tag: FLabels, Map: Map{{1, 1}}}).Go()
	fB := (&Filt{Tag: FLabels, Map: Map{{1, 2}}}).Go()
	fs, err := src.SubscribeWithFilter(fA)
	if err != nil {
		c.Violation("", "SubscribeWithFilter on a hand-driven source failed: "+err.Error(), nil)
		return
	}
	select {
	case <-fs.Ready():
	case <-time.After(5 * time.Second):
		c.Violation("", "a filtered subscription of a ready source did not become ready in 5 s", nil)
		return
	}
	go func() { // nobody needs the events
		for range fs.Events() {
		}
	}()
	stop := make(chan struct{})
	var wg sync.WaitGroup
	var mu sync.Mutex
	var bad []string
	var nreads atomic.Int64
	seen := map[string]bool{}
	for r := 0; r < 6; r++ {
		wg.Add(1)
		go func() {
			defer wg.Done()
			for {
				select {
				case <-stop:
					return
				default:
				}
				l, err := fs.Cache().List()
				if err != nil {
					return
				}
				ids := make([]int, 0, len(l))
				for _, o := range l {
					ids = append(ids, ID(o))
				}
				sort.Ints(ids)
				nreads.Add(1)
				key := fmt.Sprint(ids)
				mu.Lock()
				seen[key] = true
				if key != fmt.Sprint(viewA) && key != fmt.Sprint(viewB) && len(bad) < 3 {
					bad = append(bad, key)
				}
				mu.Unlock()
			}
		}()
	}
	for i := 0; i < rounds; i++ {
		f := fB
		if i%2 == 1 {
			f = fA
		}
		if err := fs.Refilter(f); err != nil {
			c.Violation("", "Refilter failed on a running filtered subscription: "+err.Error(), nil)
			break
		}
		for k := 0; k < i%7; k++ {
			time.Sleep(50 * time.Microsecond)
		}
	}
	time.Sleep(20 * time.Millisecond)
	close(stop)
	wg.Wait()
	fs.Close()
	src.Stop()
	c.Rep.Evaluations += int(nreads.Load())
	c.Stat("reads_fsub_refilter_workload", int(nreads.Load()))
	for _, b := range bad {
		c.Violation("", fmt.Sprintf("a List() on the cache of a filtered subscription that is being refiltered between two disjoint filters returned %s: neither the one view %v nor the other %v (a half-applied refilter)", b, viewA, viewB),
			map[string]interface{}{"workload": "fsub-refilter", "read": b, "view_a": fmt.Sprint(viewA), "view_b": fmt.Sprint(viewB)})
	}
	if len(seen) >= 2 {
		c.DistinctCase("fsub-refilter-both-views-seen")
	}
}
