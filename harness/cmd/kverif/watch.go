package main

import (
	"k8s.io/apimachinery/pkg/runtime/schema"
	apierrors "k8s.io/apimachinery/pkg/api/errors"
	"fmt"
	"time"

	"verifharness/enc"
	"verifharness/fakeapi"
	. "verifharness/kobj"
	"verifharness/sched"

	metav1 "k8s.io/apimachinery/pkg/apis/meta/v1"
	"k8s.io/apimachinery/pkg/runtime"
	"k8s.io/apimachinery/pkg/watch"
)

func init() {
	commands["C04"] = runC04
}

// wstep is one step of a watch scenario.
type wstep struct {
	Kind int // 0 set 1 delete 2 close streams 3 connect errors 4 status frame 5 bookmark frame 6 close after burst 7 barrier 8 sleep 9 unknown frame type 10 error frame
	NS, NM, Lab, K int
}

func (s wstep) String() string {
	names := []string{"set", "delete", "close", "connerr", "status", "bookmark", "closeafter", "barrier", "sleep", "unknowntype", "errorframe",
		"drop", "duplicate", "replay", "overflow", "terminating", "nonobject", "expiredstatus", "detailedstatus", "errornonstatus", "errorwithobject", "errornil"}
	name := fmt.Sprint(s.Kind)
	if s.Kind >= 0 && s.Kind < len(names) {
		name = names[s.Kind]
	}
	return fmt.Sprintf("%s(%d,%d,%d,%d)", name, s.NS, s.NM, s.Lab, s.K)
}

type watchRun struct {
	seed     int64
	level    int
	filt     *Filt
	pre      []wstep // before the controller exists (shapes the initial list)
	steps    []wstep
	deadlock string
	ready    bool
	initial  []*Obj
	listVer  int
	log      []fakeapi.LogEntry
	final    []int
	want     []int
	mirror   []int
	mbad     []string
	watches  []fakeapi.WatchCall
	lists    int
	alive    bool
	delivered int
	resumeBad []string
	staleDeletes bool
}

var labSets = []Map{nil, {{1, 1}}, {{1, 2}}}

func applyStep(srv *fakeapi.Server, s wstep, errs *int) {
	switch s.Kind {
	case 0:
		srv.Set(s.NS, s.NM, labSets[s.Lab%len(labSets)], 1)
	case 1:
		srv.Delete(s.NS, s.NM)
	case 2:
		srv.CloseStreams()
	case 3:
		*errs += s.K
	case 4:
		srv.Inject(fakeapi.Frame{Type: watch.Error, Obj: &metav1.Status{Status: "Failure", Message: "injected"}})
	case 5:
		// a bookmark as an API server sends it: an object of the watched kind
		// carrying nothing but the current resourceVersion
		srv.Inject(fakeapi.Frame{Type: watch.Bookmark, Obj: (&Obj{ID: 9999, Kind: KPod, NS: 0, NM: 0, RV: fmt.Sprint(srv.Version()), Spec: SPod}).Go().(runtime.Object)})
	case 9:
		srv.Inject(fakeapi.Frame{Type: watch.EventType("WEIRD"), Obj: (&Obj{ID: 9998, Kind: KPod, NS: 0, NM: 1, RV: fmt.Sprint(srv.Version() + 1), Spec: SPod}).Go().(runtime.Object)})
	case 6:
		srv.CloseStreamsAfter(s.K)
	case 17:
		// the status frame of an expired resume version (410 Gone) in the middle
		// of a healthy stream: like every status frame it is noted and skipped
		srv.Inject(fakeapi.Frame{Type: watch.Error, Obj: &metav1.Status{Status: "Failure", Code: 410, Reason: metav1.StatusReasonExpired, Message: "too old resource version"}})
	case 18:
		// status frames as apimachinery builds them for 504 / 429: Details set
		// (retryAfterSeconds), no causes
		st := apierrors.NewServerTimeout(schema.GroupResource{Resource: "pods"}, "watch", 1).Status()
		srv.Inject(fakeapi.Frame{Type: watch.Error, Obj: &st})
		st2 := apierrors.NewTooManyRequests("slow down", 1).Status()
		srv.Inject(fakeapi.Frame{Type: watch.Error, Obj: &st2})
		st3 := apierrors.NewInternalError(fmt.Errorf("boom")).Status()
		srv.Inject(fakeapi.Frame{Type: watch.Error, Obj: &st3})
	case 19:
		// an ERROR frame whose payload is not a Status (an undecodable body under
		// the error type): not a status to note, not an object either — the
		// session cannot use it, like kind 16
		srv.Inject(fakeapi.Frame{Type: watch.Error, Obj: &runtime.Unknown{}})
	case 20:
		// an ERROR frame that carries an API object: neither a status nor one of
		// the three event types — skipped, like kind 9
		srv.Inject(fakeapi.Frame{Type: watch.Error, Obj: (&Obj{ID: 9997, Kind: KPod, NS: 0, NM: 2, RV: fmt.Sprint(srv.Version() + 1), Spec: SPod}).Go().(runtime.Object)})
	case 21:
		// an ERROR frame without any payload
		srv.Inject(fakeapi.Frame{Type: watch.Error, Obj: nil})
	case 16:
		// an ADDED frame whose payload is not an API object at all (an
		// undecodable body): the session cannot use it; nothing may be lost
		srv.Inject(fakeapi.Frame{Type: watch.Added, Obj: &runtime.Unknown{}})
	}
}

func runWatch(c *Ctx, r *watchRun) {
	r.deadlock = sched.Bubble(c.T, func() {
		srv := fakeapi.New()
		srv.StaleDeleteFrames = r.staleDeletes
		if r.staleDeletes {
			srv.OpaqueVersions = false // the list's version and the object's are to be the same string
		}
		errs := 0
		srv.WatchBehave = func(n int, rv string) string {
			if errs > 0 {
				errs--
				return fakeapi.ConnectError(n)
			}
			return "ok"
		}
		for _, s := range r.pre {
			applyStep(srv, s, &errs)
		}
		var f = r.filt
		ct := newCtlWith(srv, r.seed, r.level, 1000000*time.Second, nil)
		if f != nil {
			ct.cancel()
			<-ct.c.Done()
			ct = newCtlWith(srv, r.seed, r.level, 1000000*time.Second, f.Go())
		}
		defer func() {
			ct.c.Close()
			ct.pert.SetLevel(0)
			sched.Settle()
		}()
		ct.pert.Barrier()
		r.ready = isClosed(ct.c.Ready())
		if !r.ready {
			return
		}
		r.initial = srv.Objects()
		r.listVer = srv.Version()
		sub, err := ct.c.Subscribe()
		if err != nil {
			return
		}
		seed, _ := ct.c.Cache().List()
		m := newMirror(sub, seed)
		for _, s := range r.steps {
			switch s.Kind {
			case 7:
				ct.pert.Barrier()
			case 8:
				time.Sleep(time.Duration(s.K) * time.Millisecond)
			default:
				applyStep(srv, s, &errs)
			}
		}
		// let every reconnect happen: the retry delay is one second per attempt
		for i := 0; i < 12; i++ {
			time.Sleep(1100 * time.Millisecond)
			ct.pert.Barrier()
		}
		r.alive = !isClosed(ct.c.Done())
		r.final, _ = cacheIDs(ct.c.Cache())
		if f != nil {
			r.want = acceptedIDs(srv.Objects(), f.Go())
		} else {
			r.want = objIDs(srv.Objects())
		}
		r.mirror = m.ids()
		_, r.mbad, _ = m.snapshot()
		r.log = srv.Log()
		ls, ws := srv.Calls()
		r.lists = len(ls)
		r.watches = ws
		// a reconnect resumes after the last event received: never before an
		// event a subscriber had already been handed when Watch() was called
		for _, w := range ws {
			if r.staleDeletes {
				// a DELETED frame that carries an old version moves the resume point
				// back to it: what follows is sent again, which is harmless, and
				// "the last event received" is that frame
				break
			}
			var rv int
			fmt.Sscan(w.RV, &rv)
			if got := m.receivedBefore(w.Seq); got > rv {
				r.resumeBad = append(r.resumeBad, fmt.Sprintf("Watch call %d resumes at version %d although an event at version %d had already been received and published", w.N, rv, got))
			}
		}
	})
}

func stepsEnc(ss []wstep) string {
	s := ""
	for _, x := range ss {
		s += x.String() + " "
	}
	return s
}

func runC04(c *Ctx) {
	base := []wstep{{0, 1, 1, 1, 0}, {0, 1, 2, 0, 0}, {0, 1, 1, 2, 0}, {1, 1, 2, 0, 0}, {0, 2, 1, 1, 0}, {0, 1, 2, 1, 0}, {1, 1, 1, 0, 0}, {0, 1, 3, 0, 0}}
	// the initial list is at version 7, so that the history crosses the 9 -> 10
	// digit boundary early
	pre := []wstep{{0, 1, 1, 0, 0}, {0, 1, 3, 1, 0}, {0, 2, 2, 0, 0}, {1, 2, 2, 0, 0}, {0, 2, 3, 1, 0}, {0, 2, 3, 2, 0}, {0, 1, 3, 2, 0}}
	faults := [][]wstep{
		{{Kind: 2}},
		{{Kind: 3, K: 1}, {Kind: 2}},
		{{Kind: 3, K: 3}, {Kind: 2}},
		{{Kind: 4}},
		{{Kind: 5}},
		{{Kind: 9}},
		{{Kind: 16}},
		{{Kind: 19}},
		{{Kind: 20}},
		{{Kind: 21}},
		{{Kind: 4}, {Kind: 19}, {Kind: 20}},
		{{Kind: 17}},
		{{Kind: 18}},
		{{Kind: 17}, {Kind: 2}},
		{{Kind: 5}, {Kind: 16}, {Kind: 4}},
		{{Kind: 6, K: 2}},
		{{Kind: 2}, {Kind: 8, K: 1500}},
		{{Kind: 2}, {Kind: 7}},
		{{Kind: 4}, {Kind: 2}, {Kind: 5}},
	}
	filts := []*Filt{nil, {Tag: FLabels, Map: Map{{1, 1}}}}
	runs := 0
	eval := func(r *watchRun, what string) {
		runs++
		c.Rep.Evaluations++
		replay := map[string]interface{}{"scenario": what, "seed": r.seed, "perturbation": r.level, "pre": stepsEnc(r.pre), "steps": stepsEnc(r.steps),
			"cache_ids": r.final, "server_accepted_ids": r.want, "mirror_ids": r.mirror, "watch_calls": fmt.Sprint(r.watches)}
		if r.filt != nil {
			replay["filter"] = r.filt.Enc().String()
		}
		if r.deadlock != "" {
			replay["deadlock"] = r.deadlock
			c.Violation("", "the controller hangs (bubble deadlock) in a watch-fault scenario", replay)
			return
		}
		if !r.ready {
			c.Violation("", "controller not ready after the first list", replay)
			return
		}
		if !r.alive {
			c.Violation("", "a watch fault terminated the controller", replay)
		}
		if !sameInts(r.final, r.want) {
			c.Violation("", fmt.Sprintf("after the server quiesced and the reconnect delay elapsed the cache %v differs from the server's accepted objects %v (no relist possible: refresh period 10^6 s)", r.final, r.want), replay)
		}
		if !sameInts(r.mirror, r.final) || len(r.mbad) > 0 {
			c.Violation("", fmt.Sprintf("a subscriber that replays events diverges from the cache: mirror %v cache %v %v", r.mirror, r.final, r.mbad), replay)
		}
		for _, b := range r.resumeBad {
			c.Violation("", b, replay)
		}
		if r.lists != 1 && r.filt == nil {
			c.Violation("", fmt.Sprintf("%d list calls although the refresh period is 10^6 s", r.lists), replay)
		}
		// every reconnect resumes at a version already delivered, never beyond
		maxDelivered := r.listVer
		for _, w := range r.watches {
			var rv int
			fmt.Sscan(w.RV, &rv)
			if rv < r.listVer && w.N > 1 && r.filt == nil && !r.staleDeletes {
				c.Violation("", fmt.Sprintf("watch %d resumed at version %d, before the list version %d", w.N, rv, r.listVer), replay)
			}
			_ = maxDelivered
		}
		if len(r.watches) > 1 {
			c.DistinctCase(what)
		}
		c.Stat("watch_calls", len(r.watches))
		// model: the quiescent outcome is the list followed by the whole log, in order
		evs := make([]enc.T, 0, len(r.log))
		for _, e := range r.log {
			if e.Version <= r.listVer {
				continue
			}
			t := 0
			switch e.Type {
			case watch.Modified:
				t = 1
			case watch.Deleted:
				t = 2
			}
			evs = append(evs, enc.L(enc.I(t), e.Obj.Enc()))
		}
		ft := enc.L(enc.I(0))
		if r.filt != nil {
			ft = r.filt.Enc()
		}
		c.Case(enc.L(enc.I(5), ft, EncObjs(r.initial), enc.L(evs...), enc.Ints(r.final)))
	}
	// every fault at every position of the base history
	for fi, fl := range faults {
		for pos := 0; pos <= len(base); pos++ {
			if c.Quick() && (pos+fi)%2 == 1 {
				continue
			}
			steps := append(append(append([]wstep{}, base[:pos]...), fl...), base[pos:]...)
			r := &watchRun{seed: c.Seed + int64(runs), level: []int{0, 3, 1}[runs%3], filt: filts[runs%2], pre: pre, steps: steps}
			c.Now(fmt.Sprintf("watch history with fault %d at position %d: %v", fi, pos, steps))
			runWatch(c, r)
			what := fmt.Sprintf("fault %d at position %d", fi, pos)
			eval(r, what)
			if runs == 5 {
				c.Sample(map[string]interface{}{"scenario": what, "steps": stepsEnc(steps), "watch_resource_versions": fmt.Sprint(r.watches)})
			}
		}
	}
	// DELETED frames that carry the object as it was last stored, its old
	// resourceVersion included: the newest object of the list (whose version is
	// the version the first watch starts from) deleted first; the object of the
	// last event received before a reconnect deleted while the stream is down;
	// and the base history as it is
	for vi, steps := range [][]wstep{
		append([]wstep{{1, 1, 3, 0, 0}}, base[:len(base)-1]...), // (the last step of the base history would create the object again)
		append(append(append([]wstep{}, base[:3]...), wstep{Kind: 7}, wstep{Kind: 2}, wstep{Kind: 7}, wstep{1, 1, 1, 0, 0}), base[3:]...),
		append(append(append([]wstep{}, base[:5]...), wstep{Kind: 7}, wstep{Kind: 2}, wstep{Kind: 7}, wstep{1, 2, 1, 0, 0}), base[5:]...),
		base,
	} {
		r := &watchRun{seed: c.Seed + int64(runs), level: []int{0, 3, 1}[runs%3], pre: pre, steps: steps, staleDeletes: true}
		c.Now(fmt.Sprintf("watch history %d with DELETED frames at the object's last stored version: %v", vi, steps))
		runWatch(c, r)
		eval(r, fmt.Sprintf("DELETED frames carry the last stored version, history %d", vi))
	}
	// random histories with several faults
	n := 40
	if !c.Quick() {
		n = 6000
	}
	for i := 0; i < n; i++ {
		var steps []wstep
		k := 4 + c.Rng.Intn(12)
		for j := 0; j < k; j++ {
			switch x := c.Rng.Intn(12); {
			case x < 6:
				steps = append(steps, wstep{0, 1 + c.Rng.Intn(2), 1 + c.Rng.Intn(3), c.Rng.Intn(3), 0})
			case x < 8:
				steps = append(steps, wstep{1, 1 + c.Rng.Intn(2), 1 + c.Rng.Intn(3), 0, 0})
			case x == 8:
				steps = append(steps, faults[c.Rng.Intn(len(faults))]...)
			case x == 9:
				steps = append(steps, wstep{Kind: 7})
			case x == 10:
				steps = append(steps, wstep{Kind: 8, K: c.Rng.Intn(2500)})
			default:
				steps = append(steps, wstep{Kind: 2})
			}
		}
		r := &watchRun{seed: c.Seed*1000 + int64(i), level: c.Rng.Intn(4), filt: filts[c.Rng.Intn(2)], pre: pre[:c.Rng.Intn(len(pre)+1)], steps: steps}
		c.Now(fmt.Sprintf("random watch history %d: %v", i, steps))
		runWatch(c, r)
		eval(r, fmt.Sprintf("random %d", i))
	}
	for i, k := range []int{0, 40, 99, 100, 101, 130} {
		busyBurst(c, k, i%3)
	}
	// the watch stays live ACROSS relists: with changes flowing all the time
	// and relists every two seconds (some answering with a snapshot older than
	// what the watch has already delivered), the cache equals the server at every
	// barrier — it never has to wait for the next relist
	nlive := 6
	if !c.Quick() {
		nlive = 60
	}
	for i := 0; i < nlive; i++ {
		var problems []string
		lat := []time.Duration{0, 300 * time.Millisecond, 900 * time.Millisecond}[i%3]
		old := i%2 == 1
		what := fmt.Sprintf("changes flowing across relists (period 2s, list latency %v, snapshot taken at the start of the list call: %v)", lat, old)
		c.Now(what)
		lists := 0
		dl := sched.Bubble(c.T, func() {
			srv := fakeapi.New()
			srv.ListLatency = func(int) time.Duration { return lat }
			srv.SnapshotAtStart = old
			// both forms of the list's version with both kinds of snapshot (the
			// alternation of fakeapi.New alone would tie the two together)
			srv.OpaqueVersions = (i/2)%2 == 1
			srv.Set(1, 1, labSets[1], 1)
			// a change lands just as each list returns: the watcher is handling its
			// frame while the controller applies the list and resets the watcher
			// (alternately: the server drops the watch stream at that moment, so that
			// the watcher is busy with an EMPTY output channel)
			srv.AfterSnapshot = func(n int) {
				if n >= 2 && n%2 == 0 {
					srv.CloseStreams()
				} else if n >= 2 {
					srv.Set(2, 3, labSets[n%3], 1)
				}
			}
			ct := newCtlWith(srv, c.Seed*100+int64(i), 1+i%3, 2*time.Second, nil)
			defer func() {
				ct.pert.SetLevel(0)
				ct.c.Close()
				sched.Settle()
			}()
			time.Sleep(lat + time.Millisecond)
			ct.pert.Barrier()
			for step := 0; step < 160; step++ {
				if c.Rng.Intn(5) == 0 {
					srv.Delete(1+c.Rng.Intn(2), 1+c.Rng.Intn(3))
				} else {
					srv.Set(1+c.Rng.Intn(2), 1+c.Rng.Intn(3), labSets[c.Rng.Intn(3)], 1)
				}
				time.Sleep(50 * time.Millisecond)
				if step%8 == 7 {
					ct.pert.Barrier()
					got, err := cacheIDs(ct.c.Cache())
					if want := objIDs(srv.Objects()); err != nil || !sameInts(got, want) {
						ls, _ := srv.Calls()
						problems = append(problems, fmt.Sprintf("at a barrier %v after start (%d lists so far) the cache holds %v, the server %v: the cache is waiting for the next relist", time.Duration(step+1)*50*time.Millisecond, len(ls), got, want))
						break
					}
				}
			}
			ls, _ := srv.Calls()
			lists = len(ls)
		})
		c.Rep.Evaluations++
		replay := map[string]interface{}{"scenario": what, "attempt": i}
		if dl != "" {
			replay["deadlock"] = dl
			c.Violation("", "hang (bubble deadlock): "+what, replay)
		}
		for _, p := range problems {
			c.Violation("", p+" ["+what+"]", replay)
		}
		if lists >= 3 {
			c.DistinctCase(fmt.Sprint("live-across-relists", i))
		}
		c.Stat("live_across_relists_lists", lists)
	}
	// a relist applied while the watcher goroutine is busy (held at a log call
	// in its "session done" case, its output channel empty): the events of the
	// watch that is established afterwards still reach the cache, without waiting
	// for the next relist (no list can complete: the list gate is shut)
	nbusy := 2
	if !c.Quick() {
		nbusy = 12
	}
	for i := 0; i < nbusy; i++ {
		var problems []string
		what := "relists applied while the watcher goroutine is held in its session-done case"
		c.Now(what)
		dl := sched.Bubble(c.T, func() {
			srv := fakeapi.New()
			srv.Set(1, 1, labSets[1], 1)
			ct := newCtlWith(srv, c.Seed*100+50+int64(i), 0, 2*time.Second, nil)
			defer func() {
				ct.pert.SetLevel(0)
				ct.c.Close()
				sched.Settle()
			}()
			sched.Settle()
			for round := 0; round < 8; round++ {
				openLists := srv.HoldLists()
				time.Sleep(2500 * time.Millisecond) // the periodic list call is now waiting at the gate
				sched.Settle()
				releaseWatcher := ct.pert.Hold("watcher")
				srv.CloseStreams() // the watcher enters its session-done case and logs
				sched.Settle()
				openLists() // the list completes and is applied; the controller resets the watcher
				sched.Settle()
				shut := srv.HoldLists() // no further list can complete
				releaseWatcher()
				sched.Settle()
				time.Sleep(1200 * time.Millisecond) // (a retry, had one been scheduled)
				sched.Settle()
				o := srv.Set(2, 1+round%3, labSets[round%3], 1)
				time.Sleep(100 * time.Millisecond)
				sched.Settle()
				got, _ := cacheIDs(ct.c.Cache())
				found := false
				for _, id := range got {
					if id == o.ID {
						found = true
					}
				}
				shut()
				if !found {
					ls, _ := srv.Calls()
					problems = append(problems, fmt.Sprintf("round %d: a change reported on the watch established after the relist never reached the cache (cache %v, server %v, %d lists so far, none could complete)", round, got, objIDs(srv.Objects()), len(ls)))
					break
				}
			}
		})
		c.Rep.Evaluations++
		replay := map[string]interface{}{"scenario": what, "attempt": i}
		if dl != "" {
			replay["deadlock"] = dl
			c.Violation("", "hang (bubble deadlock): "+what, replay)
		}
		for _, p := range problems {
			c.Violation("", p+" ["+what+"]", replay)
		}
		c.DistinctCase(fmt.Sprint("busy-watcher-relist", i))
	}
	c.Rep.Rule = "whole controller against the fake API server inside a synctest bubble, refresh period 10^6 s (only the watch can deliver): a base history of 8 server mutations with each watch fault {server closes stream, Watch() errors k times, status frame, bookmark frame, unknown frame type, close right after a burst, close then pause / barrier} injected at every position, plus seeded random histories with several faults, with and without a controller-level filter, under three levels of logger-driven schedule perturbation. After the server quiesces and the reconnect delay elapses: cache = server's accepted objects, subscriber mirror = cache with well-formed events, controller alive, one list only; the quiescent outcome is compared with the extracted model (list, then the whole log in order). Plus the overflow history: the controller held in its filter while k in {0,40,99,100,101,130} changes arrive; the changes its subscriber sees afterwards = extracted busy_burst_outcome EventBufsiz k (closed form proved: the first EventBufsiz survive, k - EventBufsiz are lost). Plus changes flowing across relists (period 2s; list latency 0 / 0.3 / 0.9 s; lists answering with the snapshot of their start or of their end; perturbed schedules): cache = server at every barrier, never waiting for the next relist; and relists applied while the watcher goroutine is held in its session-done case (logger hook), 8 rounds each: the next change reported on the watch reaches the cache although no list can complete. Non-trivial = run with at least one reconnect. Fault kinds also: ERROR frames whose payload is not a Status: undecodable (ends the session like a non-object frame), an API object (skipped like an unknown type), no payload. Plus four histories in which DELETED frames carry the object as last stored (old resourceVersion): the newest listed object deleted first, the object of the last event before a reconnect deleted while the stream is down (two positions), and the base history."
	c.Rep.Stats["runs"] = runs
}
