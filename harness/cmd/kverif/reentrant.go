package main

import (
	"fmt"
	"time"

	"verifharness/enc"
	"verifharness/fakeapi"
	"verifharness/sched"

	"github.com/boz/kcache"
	metav1 "k8s.io/apimachinery/pkg/apis/meta/v1"
)

// reentrantClose: a node closed from inside its own consumer — a monitor whose
// handler calls Close() on the monitor from the callback `where`, and a
// subscription whose reader calls Close() when it receives an event.  The
// closed node's Done() closes, Close() returns, the rest of the tree keeps
// working, and the controller's Close() still cascades and leaves nothing
// behind.
func reentrantClose(c *Ctx, pid string, where string, onClone bool, level int) {
	var problems []string
	var dones []bool
	what := fmt.Sprintf("Close() called from the monitor's own %s callback (monitor on a clone: %v)", where, onClone)
	c.Now(what)
	base := sched.LibraryGoroutines()
	dl := sched.Bubble(c.T, func() {
		srv := fakeapi.New()
		srv.Set(1, 1, labSets[1], 1)
		srv.Set(1, 2, labSets[0], 1)
		ct := newCtlWith(srv, c.Seed, level, 5*time.Second, nil)
		var pub kcache.Publisher = ct.c
		if onClone {
			cl, err := ct.c.Clone()
			if err != nil {
				problems = append(problems, "Clone failed: "+err.Error())
				return
			}
			pub = cl
		}
		sib, err := pub.Subscribe()
		if err != nil {
			problems = append(problems, "Subscribe failed: "+err.Error())
			return
		}
		sibGot := 0
		sibEnd := make(chan struct{})
		go func() {
			defer close(sibEnd)
			for range sib.Events() {
				sibGot++
			}
		}()
		var mon kcache.Monitor
		monSet := make(chan struct{})
		returned := make(chan struct{})
		calls := 0
		closeSelf := func(k string) {
			if k != where {
				return
			}
			<-monSet
			calls++
			if calls == 1 {
				mon.Close()
				close(returned)
			}
		}
		h := kcache.BuildHandler().
			OnInitialize(func([]metav1.Object) { closeSelf("init") }).
			OnCreate(func(metav1.Object) { closeSelf("create") }).
			OnUpdate(func(metav1.Object) { closeSelf("update") }).
			OnDelete(func(metav1.Object) { closeSelf("delete") }).Create()
		mon, err = kcache.NewMonitor(pub, h)
		close(monSet)
		if err != nil {
			problems = append(problems, "NewMonitor failed: "+err.Error())
			return
		}
		ct.pert.Barrier()
		srv.Set(2, 3, labSets[1], 1) // create
		ct.pert.Barrier()
		srv.Set(2, 3, labSets[2], 1) // update
		ct.pert.Barrier()
		srv.Delete(2, 3) // delete
		ct.pert.Barrier()
		ct.pert.SetLevel(0)
		sched.Settle()
		if !isClosed(returned) {
			problems = append(problems, "Close() called from the "+where+" callback has not returned")
		}
		if !isClosed(mon.Done()) {
			problems = append(problems, "the monitor's Done() is not closed after Close() from its "+where+" callback")
		}
		if isClosed(ct.c.Done()) || isClosed(sib.Done()) {
			problems = append(problems, "closing the monitor shut down its publisher or a sibling")
		}
		// observed Done() of (controller, [clone,] sibling, monitor) for the tree model
		dones = []bool{isClosed(ct.c.Done())}
		if onClone {
			dones = append(dones, isClosed(pub.(kcache.Controller).Done()))
		}
		dones = append(dones, isClosed(sib.Done()), isClosed(mon.Done()))
		before := sibGot
		srv.Set(2, 1, labSets[1], 1)
		sched.Settle()
		time.Sleep(time.Millisecond)
		sched.Settle()
		if sibGot != before+1 {
			problems = append(problems, fmt.Sprintf("a sibling subscription received %d events for one change after the monitor closed itself", sibGot-before))
		}
		done := make(chan struct{})
		go func() { ct.c.Close(); close(done) }()
		sched.Settle()
		time.Sleep(time.Millisecond)
		sched.Settle()
		if !isClosed(done) || !isClosed(ct.c.Done()) || !isClosed(sib.Done()) {
			problems = append(problems, "the controller's Close() no longer cascades after a monitor closed itself from a callback")
		}
		if isClosed(done) {
			<-sibEnd
		}
	})
	c.Rep.Evaluations++
	replay := map[string]interface{}{"scenario": what}
	if dl != "" {
		replay["deadlock"] = dl
		c.Violation("", "hang (bubble deadlock): "+what, replay)
	} else if left := sched.LibraryGoroutines() - base; left > 0 {
		replay["goroutines"] = sched.LibraryStacks()
		c.Violation("", fmt.Sprintf("%d library goroutines left: %s", left, what), replay)
	}
	for _, p := range problems {
		c.Violation("", p+" ["+what+"]", replay)
	}
	c.DistinctCase(what)
	if len(dones) > 0 && dl == "" {
		parents := []int{-1, 0, 0}
		if onClone {
			parents = []int{-1, 0, 1, 1}
		}
		ds := make([]enc.T, len(dones))
		for i, d := range dones {
			ds[i] = enc.B(d)
		}
		c.Case(enc.L(enc.I(13), enc.Ints(parents), enc.I(len(parents)-1), enc.L(ds...)))
	}
}

func reentrantCloses(c *Ctx, pid string) {
	i := 0
	for _, where := range []string{"init", "create", "update", "delete"} {
		for _, onClone := range []bool{false, true} {
			reentrantClose(c, pid, where, onClone, i%3)
			i++
		}
	}
}
