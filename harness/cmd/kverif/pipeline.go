package main

import (
	"sort"
	"context"
	"fmt"
	"os"
	"strings"
	"sync"
	"time"

	"verifharness/enc"
	"verifharness/fakeapi"
	. "verifharness/kobj"
	"verifharness/sched"

	"github.com/boz/kcache"
	metav1 "k8s.io/apimachinery/pkg/apis/meta/v1"
)

func init() {
	commands["C05"] = runC05
	commands["C10"] = runC10
	commands["C16"] = runC16
}

// treeBubble runs body on a fresh controller + tree inside a bubble.
func treeBubble(c *Ctx, seed int64, level int, rootFilt *Filt, body func(t *tree, srv *fakeapi.Server)) (deadlock string) {
	return sched.Bubble(c.T, func() {
		srv := fakeapi.New()
		srv.Set(1, 1, labSets[1], 1)
		srv.Set(1, 2, labSets[0], 1)
		var ct *ctl
		if rootFilt != nil {
			ct = newCtlWith(srv, seed, level, 1000000*time.Second, rootFilt.Go())
		} else {
			ct = newCtlWith(srv, seed, level, 1000000*time.Second, nil)
		}
		var t *tree
		defer func() {
			ct.pert.SetLevel(0)
			ct.c.Close()
			sched.Settle()
			// every reader ends once its Events() channel is closed
			if t != nil {
				for _, n := range t.nodes {
					if n.readerEnd != nil {
						<-n.readerEnd
					}
				}
			}
		}()
		ct.pert.Barrier()
		t = newTree(ct, rootFilt)
		body(t, srv)
		// release every stalled reader so that the bubble can end
		for _, n := range t.nodes {
			n.setStall(false)
			n.setHandlerBlock(false)
			n.mu.Lock()
			n.hdelay = 0
			n.slow = 0
			n.mu.Unlock()
		}
	})
}

func mutate(c *Ctx, srv *fakeapi.Server) {
	if c.Rng.Intn(4) == 0 {
		srv.Delete(1+c.Rng.Intn(2), 1+c.Rng.Intn(3))
	} else {
		srv.Set(1+c.Rng.Intn(2), 1+c.Rng.Intn(3), labSets[c.Rng.Intn(3)], 1)
	}
}

func recvIDs(rs []recv) [][2]int {
	r := make([][2]int, len(rs))
	for i, e := range rs {
		r[i] = [2]int{e.ty, e.id}
	}
	return r
}

func encRecv(rs []recv) enc.T {
	ts := make([]enc.T, len(rs))
	for i, e := range rs {
		ts[i] = enc.L(enc.I(e.ty), enc.I(e.id))
	}
	return enc.L(ts...)
}

// suffixIndex returns k such that seq == ref[k:], or -1.
func suffixIndex(ref, seq []recv) int {
	k := len(ref) - len(seq)
	if k < 0 {
		return -1
	}
	for i := range seq {
		if ref[k+i].ty != seq[i].ty || ref[k+i].id != seq[i].id {
			return -1
		}
	}
	return k
}

func isSubsequence(ref, seq []recv) bool {
	j := 0
	for _, e := range ref {
		if j < len(seq) && seq[j].ty == e.ty && seq[j].id == e.id {
			j++
		}
	}
	return j == len(seq)
}

// plainPath: only Subscribe / Clone between the root and n
func plainPath(n *node) bool {
	for x := n; x != nil && x.kind != nCtrl; x = x.parent {
		if x.kind != nSub && x.kind != nClone {
			return false
		}
	}
	return true
}

// ---------------------------------------------------------------------
// C05

func runC05(c *Ctx) {
	closeWithBacklog(c)
	bigBatches(c, "C05")
	n := 40
	if !c.Quick() {
		n = 5000
	}
	runs := 0
	for i := 0; i < n; i++ {
		seed := c.Seed*1000 + int64(i)
		level := i % 4
		var problems []string
		var sample map[string]interface{}
		var cases []enc.T
		subsChecked := 0
		dl := treeBubble(c, seed, level, nil, func(t *tree, srv *fakeapi.Server) {
			ref, _ := t.add(t.root, nSub, nil)
			ref.refLen = 0
			t.ref = ref
			inflight := 0
			steps := 20 + c.Rng.Intn(40)
			for s := 0; s < steps; s++ {
				switch x := c.Rng.Intn(10); {
				case x < 6:
					mutate(c, srv)
					inflight++
					if inflight >= kcache.EventBufsiz/4 {
						t.ct.pert.Barrier()
						inflight = 0
					}
				case x < 9:
					pubs := t.publishers()
					p := pubs[c.Rng.Intn(len(pubs))]
					kind := nSub
					if c.Rng.Intn(3) == 0 && p.depth < 3 {
						kind = nClone
					}
					atBarrier := c.Rng.Intn(2) == 0
					if atBarrier {
						t.ct.pert.Barrier()
						inflight = 0
					}
					nn, err := t.add(p, kind, nil)
					if err != nil {
						problems = append(problems, "Subscribe/Clone failed on a running publisher: "+err.Error())
						continue
					}
					if atBarrier {
						nn.refLen = len(ref.received())
					}
				default:
					switch c.Rng.Intn(3) {
					case 0:
						t.ct.pert.Barrier()
						inflight = 0
					case 1:
						// a subscriber goes away while events are in flight: the others
						// must not notice
						var leaves []*node
						for _, nd := range t.nodes {
							if nd.sub != nil && nd != ref && !nd.closed && len(nd.children) == 0 {
								leaves = append(leaves, nd)
							}
						}
						if len(leaves) > 0 {
							v := leaves[c.Rng.Intn(len(leaves))]
							v.closed = true
							v.close()
						}
					default:
						// the server replays entries it already delivered
						srv.ReplayLast(1 + c.Rng.Intn(3))
					}
				}
			}
			t.ct.pert.Barrier()
			refSeq := ref.received()
			for _, nd := range t.nodes {
				if nd.sub == nil || !plainPath(nd) {
					continue
				}
				if nd.closed {
					// closed by the scenario: what it got before is still a contiguous
					// piece of the published sequence; nothing more is required of it
					continue
				}
				subsChecked++
				seq := nd.received()
				k := suffixIndex(refSeq, seq)
				what := fmt.Sprintf("%s (depth %d, created at barrier: %v)", nd.name(), nd.depth, nd.refLen >= 0)
				if k < 0 {
					problems = append(problems, fmt.Sprintf("%s received %v, which is not a suffix of the published sequence %v (duplicate, omission or reordering)", what, recvIDs(seq), recvIDs(refSeq)))
				} else if nd.refLen >= 0 && k != nd.refLen {
					problems = append(problems, fmt.Sprintf("%s was created when %d events had been published but its sequence starts at event %d", what, nd.refLen, k))
				}
				for j, e := range seq {
					if !e.readyThen {
						problems = append(problems, what+" received an event before Ready")
					}
					if e.getVer > 0 && e.getVer < e.maxSeen {
						// the cache is updated before events are handed over, so it may be
						// AHEAD of what this consumer has received: if a Delete of the object
						// is on its way (a server replaying old history deletes and
						// re-creates it at an older version), the older version is the
						// re-created object, not a regression
						deleteFollows := false
						for _, later := range seq[j+1:] {
							if later.key == e.key && later.ty == 2 {
								deleteFollows = true
								break
							}
						}
						if !deleteFollows {
							problems = append(problems, fmt.Sprintf("%s: after having received %v@%d its cache returned the older version %d (and no Delete of the object follows)", what, e.key, e.maxSeen, e.getVer))
						}
					}
					if e.getVer == 0 && e.ty != 2 {
						// absent is allowed only if a later delete is on its way; check at quiescence below
					}
				}
				if nd.refLen >= 0 {
					cases = append(cases, enc.L(enc.I(9), encRecv(refSeq), enc.I(nd.refLen), encRecv(seq)))
				}
			}
			sample = map[string]interface{}{"nodes": len(t.nodes), "published": len(refSeq), "tree": treeShape(t)}
		})
		runs++
		c.Rep.Evaluations++
		replay := map[string]interface{}{"seed": seed, "perturbation": level, "scenario": sample}
		if dl != "" {
			replay["deadlock"] = dl
			c.Violation("", "hang (bubble deadlock) in a Subscribe/Clone tree scenario", replay)
		}
		for _, p := range problems {
			c.Violation("", p, replay)
		}
		for _, t := range cases {
			c.Case(t)
		}
		if subsChecked >= 3 {
			c.DistinctCase(fmt.Sprint(seed))
		}
		c.Stat("subscribers_checked", subsChecked)
		if i == 2 {
			c.Sample(sample)
		}
	}
	// a sibling that never reads and holds a full buffer does not keep the
	// others from receiving everything
	for i := 0; i < 2; i++ {
		var problems []string
		what := "130 events with a sibling that never reads (its buffer fills)"
		c.Now(what)
		dl := treeBubble(c, c.Seed*1000+700+int64(i), i, nil, func(t *tree, srv *fakeapi.Server) {
			live, _ := t.add(t.root, nSub, nil)
			dead, _ := t.add(t.root, nSub, nil)
			cl, _ := t.add(t.root, nClone, nil)
			var deep *node
			if cl != nil {
				deep, _ = t.add(cl, nSub, nil)
				if d2, _ := t.add(cl, nSub, nil); d2 != nil {
					d2.setStall(true)
				}
			}
			if dead != nil {
				dead.setStall(true)
			}
			t.ct.pert.Barrier()
			k0 := map[*node]int{}
			for _, nd := range []*node{live, deep} {
				if nd != nil {
					k0[nd] = len(nd.received())
				}
			}
			for k := 0; k < 130; k++ {
				srv.Set(1+k%2, 1+k%3, labSets[k%3], 1)
				// the live consumers keep up: never more than a few events in flight
				t.ct.pert.Barrier()
			}
			for nd, k := range k0 {
				if got := len(nd.received()) - k; got != 130 {
					problems = append(problems, fmt.Sprintf("%s kept its own backlog at zero and received %d of 130 events while a sibling held a full buffer of unread events", nd.name(), got))
				}
			}
		})
		runs++
		c.Rep.Evaluations++
		replay := map[string]interface{}{"scenario": what, "attempt": i}
		if dl != "" {
			replay["deadlock"] = dl
			c.Violation("", "hang (bubble deadlock): "+what, replay)
		}
		for _, p := range problems {
			c.Violation("", p, replay)
		}
		c.DistinctCase(fmt.Sprint("stalled-sibling", i))
	}
	// the differences a periodic relist finds are published in order with the
	// watch events that follow it: nobody sees an object go back to an older version
	nrace := 12
	if !c.Quick() {
		nrace = 600
	}
	if v := os.Getenv("KVERIF_NRACE"); v != "" {
		fmt.Sscan(v, &nrace)
	}
	for i := 0; i < nrace; i++ {
		var problems []string
		what := "a relist that finds 399 differences, with newer versions of the last of those objects delivered first thing by the restarted watch"
		c.Now(what)
		dl := sched.Bubble(c.T, func() {
			srv := fakeapi.New()
			srv.Set(1, 1, labSets[1], 1)
			ct := newCtlWith(srv, c.Seed*1000+800+int64(i), (i%4)/3, 2*time.Second, nil)
			t := newTree(ct, nil)
			defer func() {
				ct.pert.SetLevel(0)
				ct.c.Close()
				sched.Settle()
				for _, n := range t.nodes {
					if n.readerEnd != nil {
						<-n.readerEnd
					}
				}
			}()
			ct.pert.Barrier()
			a, _ := t.add(t.root, nSub, nil)
			cl, _ := t.add(t.root, nClone, nil)
			var b *node
			if cl != nil {
				b, _ = t.add(cl, nSub, nil)
			}
			ct.pert.Barrier()
			// the watch that is restarted after a relist delivers, first thing,
			// newer versions of the objects the relist's differences end with
			pendingDiff := false
			srv.BeforeWatch = func(string) {
				if pendingDiff {
					pendingDiff = false
					for k := 0; k < 3; k++ {
						srv.Set(2, 200-k, labSets[k%3], 2)
					}
				}
			}
			for round := 0; round < 2; round++ {
				// the watch loses 399 changes; the next relist finds them
				srv.DropNext(399)
				for k := 0; k < 399; k++ {
					srv.Set(1+(k+1)%2, 1+(k+1)/2, labSets[(k+round)%3], 1)
				}
				pendingDiff = true
				time.Sleep(2500 * time.Millisecond)
				ct.pert.Barrier()
				pendingDiff = false
			}
			for _, nd := range []*node{a, b} {
				if nd == nil {
					continue
				}
				for _, e := range nd.received() {
					if e.ty != 2 && e.ver < e.maxSeen {
						problems = append(problems, fmt.Sprintf("%s received %v@%d after it had already received @%d: publication order is not the order in which the cache changed", nd.name(), e.key, e.ver, e.maxSeen))
						break
					}
				}
			}
			got, _ := cacheIDs(ct.c.Cache())
			if want := objIDs(srv.Objects()); !sameInts(got, want) {
				problems = append(problems, fmt.Sprintf("after the relists the cache holds %v, the server %v", got, want))
			}
		})
		runs++
		c.Rep.Evaluations++
		replay := map[string]interface{}{"scenario": what, "attempt": i}
		if dl != "" {
			replay["deadlock"] = dl
			c.Violation("", "hang (bubble deadlock): "+what, replay)
		}
		for _, p := range problems {
			c.Violation("", p, replay)
		}
		c.DistinctCase(fmt.Sprint("relist-race", i))
	}
	// a burst followed at once by the root's Close(): whatever the controller
	// published before it stopped reaches EVERY subscriber at every depth before
	// their Events() channels close (publishers drain their parent's backlog
	// before they shut down) — subscribers created together at a barrier end
	// with the same sequence
	ntail := 10
	if !c.Quick() {
		ntail = 600
	}
	for i := 0; i < ntail; i++ {
		var problems []string
		what := "a burst of 60 events, then Close() of the root at once"
		c.Now(what)
		dl := sched.Bubble(c.T, func() {
			srv := fakeapi.New()
			srv.Set(1, 1, labSets[1], 1)
			ct := newCtlWith(srv, c.Seed*1000+500+int64(i), (i%4)/3, 1000000*time.Second, nil)
			t := newTree(ct, nil)
			ct.pert.Barrier()
			a, _ := t.add(t.root, nSub, nil)
			cl, _ := t.add(t.root, nClone, nil)
			var b, cc *node
			if cl != nil {
				b, _ = t.add(cl, nSub, nil)
				if cl2, _ := t.add(cl, nClone, nil); cl2 != nil {
					cc, _ = t.add(cl2, nSub, nil)
				}
			}
			ct.pert.Barrier()
			for k := 0; k < 60; k++ {
				srv.Set(1+k%2, 1+k%3, labSets[k%3], 1)
			}
			if i%2 == 0 {
				time.Sleep(time.Duration(i) * time.Microsecond)
			}
			ct.c.Close()
			ct.pert.SetLevel(0)
			sched.Settle()
			var seqs [][][2]int
			var names []string
			for _, nd := range []*node{a, b, cc} {
				if nd == nil {
					continue
				}
				<-nd.readerEnd
				seqs = append(seqs, recvIDs(nd.received()))
				names = append(names, nd.name())
			}
			for j := 1; j < len(seqs); j++ {
				if fmt.Sprint(seqs[j]) != fmt.Sprint(seqs[0]) {
					problems = append(problems, fmt.Sprintf("%s received %d events and %s %d before their Events() channels closed: part of what was published before the shutdown never reached one of them", names[0], len(seqs[0]), names[j], len(seqs[j])))
				}
			}
			c.Stat("tail_events_delivered", len(seqs[0]))
		})
		runs++
		c.Rep.Evaluations++
		replay := map[string]interface{}{"scenario": what, "attempt": i}
		if dl != "" {
			replay["deadlock"] = dl
			c.Violation("", "hang (bubble deadlock): "+what, replay)
		}
		for _, p := range problems {
			c.Violation("", p, replay)
		}
		c.DistinctCase(fmt.Sprint("tail", i))
	}
	// the same on a hand-driven source (verif export), where "published before
	// the shutdown" is exact: 60 events are handed to the source subscription,
	// then the source is stopped at once; every subscriber at depth 0, 1 and 2
	// receives all 60 before its Events() channel closes
	for i := 0; i < ntail; i++ {
		var problems []string
		what := "60 events handed to a hand-driven source, then the source stopped at once"
		c.Now(what)
		dl := sched.Bubble(c.T, func() {
			ctx, cancel := context.WithCancel(context.Background())
			defer cancel()
			pert := sched.NewPerturb(c.Seed+int64(i), i%3)
			src := kcache.NewVerifSource(ctx, pert.Log(), (&Filt{Tag: FNull}).Go())
			src.MakeReady()
			var subs []kcache.Subscription
			add := func(p kcache.Publisher) {
				if s, err := p.Subscribe(); err == nil {
					subs = append(subs, s)
				}
			}
			add(src)
			if cl, err := src.Clone(); err == nil {
				add(cl)
				if cl2, err := cl.Clone(); err == nil {
					add(cl2)
				}
			}
			counts := make([]int, len(subs))
			ends := make([]chan struct{}, len(subs))
			for j, sub := range subs {
				ends[j] = make(chan struct{})
				go func(j int, sub kcache.Subscription) {
					defer close(ends[j])
					for range sub.Events() {
						counts[j]++
					}
				}(j, sub)
			}
			pert.Barrier()
			for k := 0; k < 60; k++ {
				o := &Obj{ID: 100 + k, Kind: KPod, NS: 1, NM: 1 + k%3, RV: fmt.Sprint(k + 1), Spec: SPod}
				src.Send(kcache.NewEvent(etyTo(1), o.Go()))
			}
			src.Stop()
			pert.SetLevel(0)
			sched.Settle()
			for j := range subs {
				<-ends[j]
				if counts[j] != 60 {
					problems = append(problems, fmt.Sprintf("the subscriber at depth %d received %d of the 60 events published before the source stopped", j, counts[j]))
				}
			}
			cancel()
			sched.Settle()
		})
		runs++
		c.Rep.Evaluations++
		replay := map[string]interface{}{"scenario": what, "attempt": i}
		if dl != "" {
			replay["deadlock"] = dl
			c.Violation("", "hang (bubble deadlock): "+what, replay)
		}
		for _, p := range problems {
			c.Violation("", p, replay)
		}
		c.DistinctCase(fmt.Sprint("tail-src", i))
	}
	bufferScenarios(c, 3, 300)
	c.Rep.Rule = "trees of Subscribe/Clone to depth 3 built through the public API on a real controller fed by the fake API server's watch (virtual time), subscriptions created at barriers and racing with the stream, <= EventBufsiz/4 events in flight, 4 levels of logger-driven perturbation. Oracles: every subscriber's sequence is a suffix of the reference subscriber's (exact start index when created at a barrier), no event before Ready, Get after an event never returns an older version; sequences of barrier-created subscribers vs the extracted model (skipn). Plus: 130 events with never-reading siblings holding full buffers (the consumers that keep up receive all 130); and periodic relists that find 399 differences while the restarted watch at once delivers newer versions of the last of those objects (no subscriber sees an object go back to an older version); and a burst followed at once by the root's Close() (subscribers at depth 0, 1 and 2 created together end with the same sequence: publishers drain their backlog before shutting down; on a hand-driven source every subscriber receives exactly the 60 events handed over before the stop). Non-trivial = scenario with >= 3 subscribers checked. Plus a filtered subscription with a slow filter closed while 20 events published before the close are buffered in front of it: all 20 are handed on before its Events() closes."
	c.Rep.Stats["runs"] = runs
}

func treeShape(t *tree) string {
	var rec func(n *node) string
	rec = func(n *node) string {
		s := kindNames[n.kind]
		if len(n.children) > 0 {
			s += "("
			for i, ch := range n.children {
				if i > 0 {
					s += " "
				}
				s += rec(ch)
			}
			s += ")"
		}
		return s
	}
	return rec(t.root)
}

// ---------------------------------------------------------------------
// C10

func runC10(c *Ctx) {
	lengths := []int{0, 40, 100, 130, 420}
	if c.Quick() {
		lengths = []int{0, 60, 130, 310}
	}
	reps := 2
	if !c.Quick() {
		reps = 12
	}
	lab := &Filt{Tag: FLabels, Map: Map{{1, 1}}}
	runs := 0
	for rep := 0; rep < reps; rep++ {
		for _, L := range lengths {
			seed := c.Seed*100 + int64(runs)
			var problems []string
			var sample map[string]interface{}
			dl := treeBubble(c, seed, rep%3, nil, func(t *tree, srv *fakeapi.Server) {
				ref, _ := t.add(t.root, nSub, nil)
				ref.refLen = 0
				// healthy and stalled consumers at every position
				healthy, _ := t.add(t.root, nSub, nil)
				stalled, _ := t.add(t.root, nSub, nil)
				stalled.setStall(true)
				clone, _ := t.add(t.root, nClone, nil)
				cloneHealthy, _ := t.add(clone, nSub, nil)
				cloneStalled, _ := t.add(clone, nSub, nil)
				cloneStalled.setStall(true)
				fclone, _ := t.add(t.root, nFClone, lab)
				fHealthy, _ := t.add(fclone, nSub, nil)
				fStalled, _ := t.add(fclone, nSub, nil)
				fStalled.setStall(true)
				slow, _ := t.add(t.root, nSub, nil)
				slow.mu.Lock()
				slow.slow = 3 * time.Millisecond
				slow.mu.Unlock()
				monBlocked, _ := t.add(t.root, nMonitor, nil)
				t.ct.pert.Barrier()
				monBlocked.setHandlerBlock(true) // OnInitialize has run; the next callback never returns
				stalledFS, _ := t.add(t.root, nFSub, lab)
				stalledFS.setStall(true)
				t.ct.pert.Barrier()
				for i := 0; i < L; i++ {
					mutate(c, srv)
					if i%20 == 19 {
						time.Sleep(time.Millisecond)
						t.ct.pert.Barrier()
					}
				}
				time.Sleep(100 * time.Millisecond)
				t.ct.pert.Barrier()
				refSeq := ref.received()
				// healthy consumers got everything, in order
				for _, nd := range []*node{healthy, cloneHealthy} {
					if k := suffixIndex(refSeq, nd.received()); k != 0 {
						problems = append(problems, fmt.Sprintf("healthy %s received %d of %d events although only its siblings stalled", nd.name(), len(nd.received()), len(refSeq)))
					}
				}
				if len(refSeq) < L*6/10 {
					problems = append(problems, fmt.Sprintf("the reference subscriber saw only %d events for %d server changes: the pipeline is held up by a stalled consumer", len(refSeq), L))
				}
				// the caches stay current
				if got, _ := cacheIDs(t.ct.c.Cache()); !sameInts(got, objIDs(srv.Objects())) {
					problems = append(problems, fmt.Sprintf("controller cache %v is not current %v while consumers are stalled", got, objIDs(srv.Objects())))
				}
				if got, _ := cacheIDs(fclone.cache()); !sameInts(got, t.expectedIDs(fclone, srv.Objects())) {
					problems = append(problems, fmt.Sprintf("filtered clone cache %v is not current %v while a subscriber below it is stalled", got, t.expectedIDs(fclone, srv.Objects())))
				}
				if got, _ := cacheIDs(stalledFS.cache()); !sameInts(got, t.expectedIDs(stalledFS, srv.Objects())) {
					problems = append(problems, fmt.Sprintf("the cache %v of a filtered subscription whose consumer is stalled is not current %v", got, t.expectedIDs(stalledFS, srv.Objects())))
				}
				fRef := fHealthy.received()
				// release the stalled consumers: what they get is an in-order
				// subsequence, and exactly the first EventBufsiz for a direct subscriber
				for _, nd := range []*node{stalled, cloneStalled, fStalled, stalledFS} {
					nd.setStall(false)
				}
				time.Sleep(100 * time.Millisecond)
				t.ct.pert.Barrier()
				for _, pair := range [][2]*node{{stalled, ref}, {cloneStalled, ref}, {fStalled, fHealthy}, {slow, ref}} {
					got, all := pair[0].received(), pair[1].received()
					if pair[1] == fHealthy {
						all = fRef
					}
					if !isSubsequence(all, got) {
						problems = append(problems, fmt.Sprintf("stalled/slow %s received %v, not an in-order subsequence of what was published to it %v", pair[0].name(), recvIDs(got), recvIDs(all)))
					}
					want := len(all)
					if want > kcache.EventBufsiz {
						want = kcache.EventBufsiz
					}
					if pair[0] != slow && (len(got) != want || suffixIndex(all[:want], got) != 0) {
						problems = append(problems, fmt.Sprintf("never-reading %s received %d events; expected exactly the first %d published after its creation", pair[0].name(), len(got), want))
					}
				}
				// the stalled filtered subscription's own stream: well-formed w.r.t. its cache at creation (empty)
				if _, bad := mirrorOf(map[[2]string][2]int{}, nil); len(bad) > 0 {
					problems = append(problems, bad...)
				}
				hl, overlap := monBlocked.handlerLog()
				if overlap {
					problems = append(problems, "monitor callbacks overlapped while its handler was blocked")
				}
				if L > 0 && len(hl) > 2 {
					problems = append(problems, fmt.Sprintf("a monitor whose handler blocks in its first event callback made %d callbacks", len(hl)))
				}
				sample = map[string]interface{}{"stream_length": L, "published": len(refSeq), "stalled_received": len(stalled.received()), "slow_received": len(slow.received()), "tree": treeShape(t)}
			})
			runs++
			c.Rep.Evaluations++
			replay := map[string]interface{}{"seed": seed, "stream_length": L, "scenario": sample}
			if dl != "" {
				replay["deadlock"] = dl
				c.Violation("", "hang (bubble deadlock) with stalled consumers", replay)
			}
			for _, p := range problems {
				c.Violation("", p, replay)
			}
			if L > 0 {
				c.DistinctCase(fmt.Sprint(seed, L))
			}
			if runs == 3 {
				c.Sample(sample)
			}
		}
	}
	bufferScenarios(c, 6, 600)
	for i := 0; i < 4; i++ {
		stalledRefilter(c, i)
	}
	c.Rep.Rule = "a tree with healthy, never-reading and slow consumers at every position (direct subscriber, subscriber of a clone, subscriber of a filtered clone, directly-read filtered subscription, monitor with a blocking handler) on a real controller fed through the fake watch; stream lengths 0 .. 4 x EventBufsiz. Oracles: healthy consumers receive the complete reference sequence, caches (controller, filtered clone, stalled filtered subscription) stay current, a never-reading subscriber receives exactly the first EventBufsiz events published after its creation, slow consumers an in-order subsequence, blocked monitor makes one callback and never overlaps. Plus a Refilter whose differences exceed the free slots of a stalled consumer's buffer (returns, cache follows, later Refilter returns). Plus seeded publish/subscribe/take sequences on the controller and on a clone with bursts of up to 130 events and consumers that drain only partly: what every consumer received equals the extracted Pipeline.prun on the same operations (a subscription loses exactly the events that found its buffer full). Non-trivial = stream length > 0."
	c.Rep.Stats["runs"] = runs
}

// ---------------------------------------------------------------------
// C16

func runC16(c *Ctx) {
	n := 30
	if !c.Quick() {
		n = 3000
	}
	delays := []time.Duration{0, time.Millisecond, 50 * time.Millisecond}
	runs := 0
	for i := 0; i < n; i++ {
		seed := c.Seed*1000 + int64(i)
		var problems []string
		var sample map[string]interface{}
		var cases []enc.T
		closeAt := i % 5 // 0: never; 1: before ready; 2: mid stream; 3: during a slow handler; 4: at the end
		dl := sched.Bubble(c.T, func() {
			srv := fakeapi.New()
			srv.Set(1, 1, labSets[1], 1)
			srv.Set(1, 2, labSets[0], 1)
			if closeAt == 1 {
				srv.ListLatency = func(int) time.Duration { return 10 * time.Second }
			}
			ct := newCtlWith(srv, seed, i%3, 1000000*time.Second, nil)
			defer func() {
				ct.pert.SetLevel(0)
				ct.c.Close()
				sched.Settle()
			}()
			t := newTree(ct, nil)
			if closeAt != 1 {
				ct.pert.Barrier()
			}
			ref, _ := t.add(t.root, nSub, nil)
			mon, err := t.add(t.root, nMonitor, nil)
			if err != nil {
				problems = append(problems, "NewMonitor failed: "+err.Error())
				return
			}
			mon.mu.Lock()
			mon.hdelay = delays[i%3]
			mon.mu.Unlock()
			if closeAt == 1 {
				// closed before the publisher is ready: no callback at all
				time.Sleep(time.Second)
				mon.mon.Close()
				time.Sleep(20 * time.Second)
				ct.pert.Barrier()
				hl, _ := mon.handlerLog()
				if len(hl) != 0 {
					problems = append(problems, fmt.Sprintf("a monitor closed before its publisher became ready made %d callbacks", len(hl)))
				}
				if !isClosed(mon.mon.Done()) {
					problems = append(problems, "monitor closed before ready: Done() not closed")
				}
				return
			}
			ct.pert.Barrier()
			initWant, _ := cacheIDs(ct.c.Cache())
			k0 := len(ref.received())
			steps := 5 + c.Rng.Intn(25)
			closedAtStep := -1
			for s := 0; s < steps; s++ {
				mutate(c, srv)
				if c.Rng.Intn(3) == 0 {
					time.Sleep(time.Duration(c.Rng.Intn(30)) * time.Millisecond)
				}
				if (closeAt == 2 || closeAt == 3) && s == steps/2 {
					if closeAt == 2 {
						ct.pert.Barrier()
					}
					mon.mon.Close()
					closedAtStep = s
				}
			}
			time.Sleep(5 * time.Second)
			ct.pert.Barrier()
			if closeAt == 4 {
				mon.mon.Close()
				ct.pert.Barrier()
			}
			hl, overlap := mon.handlerLog()
			refSeq := ref.received()[k0:]
			if overlap {
				problems = append(problems, "two monitor callbacks ran concurrently")
			}
			inits := 0
			for j, h := range hl {
				if h.what == "init" {
					inits++
					if j != 0 {
						problems = append(problems, fmt.Sprintf("OnInitialize was callback number %d, not the first", j+1))
					}
				}
				if h.doneThen {
					problems = append(problems, fmt.Sprintf("callback %s started after the monitor's Done() closed", h.what))
				}
				if h.what == "hijack" {
					problems = append(problems, "a handler created from a builder changed when the builder was configured again afterwards")
				}
				if len(h.ids) == 1 && h.ids[0] == -1 {
					problems = append(problems, "callback "+h.what+" received a nil object")
				}
			}
			if inits > 1 {
				problems = append(problems, fmt.Sprintf("OnInitialize invoked %d times", inits))
			}
			if len(hl) > 0 && hl[0].what != "init" {
				problems = append(problems, "the first callback was "+hl[0].what+", not OnInitialize")
			}
			if len(hl) > 0 && hl[0].what == "init" && !sameInts(hl[0].ids, initWant) {
				problems = append(problems, fmt.Sprintf("OnInitialize received %v, the cache at readiness held %v", hl[0].ids, initWant))
			}
			// one callback per event, matching type and object, in order
			names := []string{"create", "update", "delete"}
			rest := hl
			if len(rest) > 0 && rest[0].what == "init" {
				rest = rest[1:]
			}
			if len(rest) > len(refSeq) {
				problems = append(problems, fmt.Sprintf("%d event callbacks for %d published events", len(rest), len(refSeq)))
			}
			for j, h := range rest {
				if j >= len(refSeq) {
					break
				}
				if h.what != names[refSeq[j].ty] || len(h.ids) != 1 || h.ids[0] != refSeq[j].id {
					problems = append(problems, fmt.Sprintf("callback %d was %s%v, event %d was %s of %d", j+1, h.what, h.ids, j+1, names[refSeq[j].ty], refSeq[j].id))
					break
				}
			}
			if closeAt == 0 && len(rest) != len(refSeq) {
				problems = append(problems, fmt.Sprintf("%d callbacks for %d events although the monitor was never closed", len(rest), len(refSeq)))
			}
			if closeAt != 0 && !isClosed(mon.mon.Done()) {
				problems = append(problems, "Done() not closed after Close()")
			}
			// the model: callback log = init :: map dispatch (prefix of the events)
			log := make([]enc.T, len(hl))
			for j, h := range hl {
				code := map[string]int{"init": 3, "create": 0, "update": 1, "delete": 2}[h.what]
				id := 0
				if code != 3 && len(h.ids) == 1 {
					id = h.ids[0]
				}
				log[j] = enc.L(enc.I(code), enc.I(id))
			}
			cases = append(cases, enc.L(enc.I(11), encRecv(refSeq), enc.L(log...), enc.B(closeAt == 0)))
			sample = map[string]interface{}{"handler_delay": fmt.Sprint(delays[i%3]), "close_at": closeAt, "closed_at_step": closedAtStep, "events": len(refSeq), "callbacks": len(hl)}
		})
		runs++
		c.Rep.Evaluations++
		replay := map[string]interface{}{"seed": seed, "close_at": closeAt, "scenario": sample}
		if dl != "" {
			replay["deadlock"] = dl
			c.Violation("", "hang (bubble deadlock) in a monitor scenario", replay)
		}
		for _, p := range problems {
			c.Violation("", p, replay)
		}
		for _, t := range cases {
			c.Case(t)
		}
		c.DistinctCase(fmt.Sprint(seed))
		if i == 3 {
			c.Sample(sample)
		}
	}
	// events that reach the monitor's subscription before Ready closes (only a
	// hand-driven source can produce this): still OnInitialize first
	for i := 0; i < 6; i++ {
		var problems []string
		dl := sched.Bubble(c.T, func() {
			ctx, cancel := context.WithCancel(context.Background())
			defer cancel()
			pert := sched.NewPerturb(c.Seed+int64(i), i%3)
			src := kcache.NewVerifSource(ctx, pert.Log(), (&Filt{Tag: FNull}).Go())
			nd := &node{id: 1, kind: nMonitor}
			mon, err := kcache.NewMonitor(src, nd.handler())
			if err != nil {
				problems = append(problems, "NewMonitor failed")
				return
			}
			nd.mon = mon
			objs := []*Obj{{ID: 1, Kind: KPod, NS: 1, NM: 1, RV: "1", Spec: SPod}, {ID: 2, Kind: KPod, NS: 1, NM: 1, RV: "2", Spec: SPod}, {ID: 3, Kind: KPod, NS: 1, NM: 2, RV: "3", Spec: SPod}}
			pre := 1 + i%3
			for j := 0; j < pre; j++ {
				src.CacheActor().Update(kcache.NewEvent(etyTo(j%2), objs[j].Go()))
				src.Send(kcache.NewEvent(etyTo(j%2), objs[j].Go()))
			}
			time.Sleep(300 * time.Millisecond)
			pert.Barrier()
			if hl, _ := nd.handlerLog(); len(hl) != 0 {
				problems = append(problems, fmt.Sprintf("%d callbacks ran before the publisher became ready", len(hl)))
			}
			src.MakeReady()
			pert.Barrier()
			for j := pre; j < len(objs); j++ {
				src.Send(kcache.NewEvent(etyTo(1), objs[j].Go()))
			}
			pert.Barrier()
			hl, overlap := nd.handlerLog()
			if overlap {
				problems = append(problems, "callbacks overlapped")
			}
			if len(hl) != 1+len(objs) || hl[0].what != "init" {
				what := []string{}
				for _, h := range hl {
					what = append(what, h.what)
				}
				problems = append(problems, fmt.Sprintf("events handed to the monitor's subscription before Ready: callbacks were %v, expected init first and then one per event (%d)", what, len(objs)))
			}
			src.Stop()
			pert.SetLevel(0)
			sched.Settle()
			cancel()
			sched.Settle()
		})
		runs++
		c.Rep.Evaluations++
		replay := map[string]interface{}{"scenario": "hand-driven source: events before ready", "attempt": i}
		if dl != "" {
			replay["deadlock"] = dl
			c.Violation("", "hang (bubble deadlock) in the events-before-ready monitor scenario", replay)
		}
		for _, p := range problems {
			c.Violation("", p, replay)
		}
		c.DistinctCase(fmt.Sprint("prer", i))
	}
	// (a) a Delete for an object the handler was never told about: the object is
	// cached when the monitor subscribes and deleted before the monitor lists at
	// readiness — the initial content lacks it, the Delete is still delivered;
	// (b) a handler that stalls until 130 events have arrived (its subscription's
	// buffer overflows): afterwards still exactly one OnInitialize, at the
	// beginning, and the callbacks are an in-order subsequence of the events
	for i := 0; i < 4; i++ {
		var problems []string
		what := []string{"a Delete for an object that was deleted between the monitor's Subscribe and its initial list", "a handler stalled until its subscription's buffer has overflowed"}[i%2]
		c.Now(what)
		dl := sched.Bubble(c.T, func() {
			ctx, cancel := context.WithCancel(context.Background())
			defer cancel()
			pert := sched.NewPerturb(c.Seed+int64(i), i%3)
			src := kcache.NewVerifSource(ctx, pert.Log(), (&Filt{Tag: FNull}).Go())
			x := &Obj{ID: 1, Kind: KPod, NS: 1, NM: 1, RV: "1", Spec: SPod}
			y := &Obj{ID: 2, Kind: KPod, NS: 1, NM: 2, RV: "1", Spec: SPod}
			src.CacheActor().Update(kcache.NewEvent(kcache.EventTypeCreate, x.Go()))
			src.CacheActor().Update(kcache.NewEvent(kcache.EventTypeCreate, y.Go()))
			nd := &node{id: 1, kind: nMonitor}
			if i%2 == 1 {
				src.MakeReady()
			}
			mon, err := kcache.NewMonitor(src, nd.handler())
			if err != nil {
				problems = append(problems, "NewMonitor failed")
				return
			}
			nd.mon = mon
			pert.Barrier()
			var want []string
			if i%2 == 0 {
				xd := &Obj{ID: 3, Kind: KPod, NS: 1, NM: 1, RV: "2", Spec: SPod}
				src.CacheActor().Update(kcache.NewEvent(kcache.EventTypeDelete, xd.Go()))
				src.Send(kcache.NewEvent(kcache.EventTypeDelete, xd.Go()))
				pert.Barrier()
				src.MakeReady()
				pert.Barrier()
				want = []string{"init[2]", "delete[3]"}
			} else {
				want = []string{"init[1 2]"}
				nd.setHandlerBlock(true)
				for k := 0; k < 130; k++ {
					o := &Obj{ID: 100 + k, Kind: KPod, NS: 2, NM: 1 + k%3, RV: fmt.Sprint(k + 2), Spec: SPod}
					ty := kcache.EventTypeUpdate
					if k < 3 {
						ty = kcache.EventTypeCreate
					}
					src.CacheActor().Update(kcache.NewEvent(ty, o.Go()))
					src.Send(kcache.NewEvent(ty, o.Go()))
					if k%20 == 19 {
						pert.Barrier()
					}
				}
				pert.Barrier()
				nd.setHandlerBlock(false)
				pert.Barrier()
			}
			hl, overlap := nd.handlerLog()
			if overlap {
				problems = append(problems, "callbacks overlapped")
			}
			var got []string
			for _, h := range hl {
				got = append(got, h.what+fmt.Sprint(h.ids))
			}
			if i%2 == 0 {
				if fmt.Sprint(got) != fmt.Sprint(want) {
					problems = append(problems, fmt.Sprintf("callbacks were %v, expected %v", got, want))
				}
			} else {
				inits, lastID := 0, -1
				for k, h := range hl {
					if h.what == "init" {
						inits++
						if k != 0 {
							problems = append(problems, fmt.Sprintf("OnInitialize ran as callback number %d, after other callbacks", k+1))
						}
						continue
					}
					if len(h.ids) != 1 || h.ids[0] <= lastID {
						problems = append(problems, fmt.Sprintf("callback %d (%s%v) is out of order or repeated", k+1, h.what, h.ids))
					} else {
						lastID = h.ids[0]
					}
				}
				if inits != 1 || len(hl) < 1+50 {
					problems = append(problems, fmt.Sprintf("a stalled handler saw %d OnInitialize calls and %d callbacks in all (130 events were published, its buffer holds %d)", inits, len(hl), kcache.EventBufsiz))
				}
				if len(hl) > 0 && fmt.Sprint(got[0]) != want[0] {
					problems = append(problems, fmt.Sprintf("the first callback was %s, expected %s", got[0], want[0]))
				}
			}
			src.Stop()
			pert.SetLevel(0)
			sched.Settle()
			cancel()
			sched.Settle()
		})
		runs++
		c.Rep.Evaluations++
		replay := map[string]interface{}{"scenario": what, "attempt": i}
		if dl != "" {
			replay["deadlock"] = dl
			c.Violation("", "hang (bubble deadlock): "+what, replay)
		}
		for _, p := range problems {
			c.Violation("", p+" ["+what+"]", replay)
		}
		c.DistinctCase(fmt.Sprint("unannounced-or-stalled", i))
	}
	// one Handler value given to several monitors — a monitor closed and
	// re-created with the handler built at start-up, and the same handler on a
	// second publisher: every monitor initialises it with its own content and
	// then delivers its own events
	for i := 0; i < 3; i++ {
		var problems []string
		what := "one handler value used by a restarted monitor and by a monitor on a second publisher"
		c.Now(what)
		dl := sched.Bubble(c.T, func() {
			ctx, cancel := context.WithCancel(context.Background())
			defer cancel()
			pert := sched.NewPerturb(c.Seed+int64(i), i%3)
			srcA := kcache.NewVerifSource(ctx, pert.Log(), (&Filt{Tag: FNull}).Go())
			srcB := kcache.NewVerifSource(ctx, pert.Log(), (&Filt{Tag: FNull}).Go())
			oA := &Obj{ID: 1, Kind: KPod, NS: 1, NM: 1, RV: "1", Spec: SPod}
			oB := &Obj{ID: 2, Kind: KPod, NS: 2, NM: 2, RV: "1", Spec: SPod}
			oC := &Obj{ID: 3, Kind: KPod, NS: 1, NM: 3, RV: "2", Spec: SPod}
			srcA.CacheActor().Update(kcache.NewEvent(kcache.EventTypeCreate, oA.Go()))
			srcB.CacheActor().Update(kcache.NewEvent(kcache.EventTypeCreate, oB.Go()))
			srcA.MakeReady()
			srcB.MakeReady()
			var mu sync.Mutex
			var log []string
			rec := func(s string) { mu.Lock(); log = append(log, s); mu.Unlock() }
			h := kcache.BuildHandler().
				OnInitialize(func(objs []metav1.Object) {
					ids := []int{}
					for _, o := range objs {
						ids = append(ids, ID(o))
					}
					sort.Ints(ids)
					rec(fmt.Sprint("init", ids))
				}).
				OnCreate(func(o metav1.Object) { rec(fmt.Sprint("create", ID(o))) }).
				OnUpdate(func(o metav1.Object) { rec(fmt.Sprint("update", ID(o))) }).
				OnDelete(func(o metav1.Object) { rec(fmt.Sprint("delete", ID(o))) }).Create()
			expect := func(stage string, want ...string) {
				pert.Barrier()
				mu.Lock()
				got := append([]string(nil), log...)
				mu.Unlock()
				if fmt.Sprint(got) != fmt.Sprint(want) {
					problems = append(problems, fmt.Sprintf("%s: the handler was called %v, expected %v", stage, got, want))
				}
			}
			m1, err := kcache.NewMonitor(srcA, h)
			if err != nil {
				problems = append(problems, "NewMonitor failed")
				return
			}
			expect("first monitor", "init[1]")
			m1.Close()
			pert.Barrier()
			srcA.CacheActor().Update(kcache.NewEvent(kcache.EventTypeCreate, oC.Go()))
			srcA.Send(kcache.NewEvent(kcache.EventTypeCreate, oC.Go()))
			pert.Barrier()
			m2, err := kcache.NewMonitor(srcA, h)
			if err != nil {
				problems = append(problems, "NewMonitor (restart) failed")
				return
			}
			expect("monitor re-created with the same handler", "init[1]", "init[1 3]")
			m3, err := kcache.NewMonitor(srcB, h)
			if err != nil {
				problems = append(problems, "NewMonitor on a second publisher failed")
				return
			}
			expect("the same handler on a second publisher", "init[1]", "init[1 3]", "init[2]")
			srcB.Send(kcache.NewEvent(kcache.EventTypeUpdate, oB.Go()))
			expect("an event of the second publisher", "init[1]", "init[1 3]", "init[2]", "update2")
			m2.Close()
			m3.Close()
			srcA.Stop()
			srcB.Stop()
			pert.SetLevel(0)
			sched.Settle()
			cancel()
			sched.Settle()
		})
		runs++
		c.Rep.Evaluations++
		replay := map[string]interface{}{"scenario": what, "attempt": i}
		if dl != "" {
			replay["deadlock"] = dl
			c.Violation("", "hang (bubble deadlock): "+what, replay)
		}
		for _, p := range problems {
			c.Violation("", p+" ["+what+"]", replay)
		}
		c.DistinctCase(fmt.Sprint("shared-handler", i))
	}
	// the source shuts down (or only its cache stops) before readiness is
	// signalled: no callback at all, or OnInitialize with what the cache held
	for i := 0; i < 16; i++ {
		var problems []string
		cacheOnly := i%2 == 1
		what := "hand-driven source: the publisher is stopped, then its ready channel closes"
		if cacheOnly {
			what = "hand-driven source: the cache stops (its context ends), then the ready channel closes"
		}
		c.Now(what)
		dl := sched.Bubble(c.T, func() {
			ctx, cancel := context.WithCancel(context.Background())
			defer cancel()
			pert := sched.NewPerturb(c.Seed+int64(i), i%3)
			src := kcache.NewVerifSource(ctx, pert.Log(), (&Filt{Tag: FNull}).Go())
			objs := []*Obj{{ID: 1, Kind: KPod, NS: 1, NM: 1, RV: "1", Spec: SPod}, {ID: 2, Kind: KPod, NS: 1, NM: 2, RV: "2", Spec: SPod}}
			src.CacheActor().Sync([]metav1.Object{objs[0].Go(), objs[1].Go()})
			nd := &node{id: 1, kind: nMonitor}
			mon, err := kcache.NewMonitor(src, nd.handler())
			if err != nil {
				problems = append(problems, "NewMonitor failed")
				return
			}
			nd.mon = mon
			pert.Barrier()
			if cacheOnly {
				cancel()
				<-src.CacheActor().Done()
			} else {
				src.Stop()
			}
			pert.SetLevel(0)
			sched.Settle()
			src.MakeReady()
			sched.Settle()
			time.Sleep(time.Millisecond)
			sched.Settle()
			if cacheOnly {
				// an event after the cache has stopped
				src.Send(kcache.NewEvent(etyTo(1), (&Obj{ID: 3, Kind: KPod, NS: 1, NM: 1, RV: "3", Spec: SPod}).Go()))
				sched.Settle()
			}
			hl, _ := nd.handlerLog()
			for j, h := range hl {
				if h.what == "init" && j == 0 && sameInts(h.ids, []int{1, 2}) {
					continue
				}
				if !cacheOnly {
					problems = append(problems, fmt.Sprintf("callback %s%v ran although the publisher shut down before it became ready", h.what, h.ids))
				} else if h.what == "init" {
					problems = append(problems, fmt.Sprintf("OnInitialize received %v, the cache held [1 2] when it stopped", h.ids))
				} else if j == 0 {
					problems = append(problems, "the first callback was "+h.what+", not OnInitialize")
				}
			}
			if !cacheOnly && len(hl) > 0 {
				problems = append(problems, fmt.Sprintf("%d callbacks ran although the publisher shut down before it became ready", len(hl)))
			}
			if cacheOnly {
				src.Stop()
			}
			sched.Settle()
			cancel()
			sched.Settle()
		})
		runs++
		c.Rep.Evaluations++
		replay := map[string]interface{}{"scenario": what, "attempt": i}
		if dl != "" {
			replay["deadlock"] = dl
			c.Violation("", "hang (bubble deadlock): "+what, replay)
		}
		for _, p := range problems {
			c.Violation("", p+" ["+what+"]", replay)
		}
		c.DistinctCase(fmt.Sprint("stopped-before-ready", i))
	}
	// handlers with any subset of the four callbacks: the callbacks that are
	// there still get exactly their events
	for mask := 0; mask < 16; mask++ {
		var problems []string
		what := fmt.Sprintf("handler with callbacks {init:%v create:%v update:%v delete:%v}", mask&1 != 0, mask&2 != 0, mask&4 != 0, mask&8 != 0)
		c.Now(what)
		dl := sched.Bubble(c.T, func() {
			srv := fakeapi.New()
			srv.Set(1, 1, labSets[1], 1)
			ct := newCtlWith(srv, c.Seed+int64(mask), mask%3, 1000000*time.Second, nil)
			defer func() {
				ct.pert.SetLevel(0)
				ct.c.Close()
				sched.Settle()
			}()
			ct.pert.Barrier()
			var mu sync.Mutex
			var full, part []string
			rec := func(dst *[]string, k string) func(metav1.Object) {
				return func(o metav1.Object) {
					mu.Lock()
					*dst = append(*dst, fmt.Sprintf("%s:%d", k, ID(o)))
					mu.Unlock()
				}
			}
			hb := kcache.BuildHandler()
			if mask&1 != 0 {
				hb = hb.OnInitialize(func(os []metav1.Object) {
					mu.Lock()
					part = append(part, fmt.Sprintf("init:%d", len(os)))
					mu.Unlock()
				})
			}
			if mask&2 != 0 {
				hb = hb.OnCreate(rec(&part, "create"))
			}
			if mask&4 != 0 {
				hb = hb.OnUpdate(rec(&part, "update"))
			}
			if mask&8 != 0 {
				hb = hb.OnDelete(rec(&part, "delete"))
			}
			fullH := kcache.BuildHandler().OnInitialize(func(os []metav1.Object) {
				mu.Lock()
				full = append(full, fmt.Sprintf("init:%d", len(os)))
				mu.Unlock()
			}).OnCreate(rec(&full, "create")).OnUpdate(rec(&full, "update")).OnDelete(rec(&full, "delete")).Create()
			if _, err := kcache.NewMonitor(ct.c, fullH); err != nil {
				problems = append(problems, "NewMonitor failed")
				return
			}
			if _, err := kcache.NewMonitor(ct.c, hb.Create()); err != nil {
				problems = append(problems, "NewMonitor failed")
				return
			}
			ct.pert.Barrier()
			srv.Set(1, 2, labSets[0], 1)
			srv.Set(1, 2, labSets[1], 1)
			srv.Delete(1, 2)
			srv.Set(2, 1, labSets[0], 1)
			srv.Delete(1, 1)
			srv.Set(2, 1, labSets[2], 1)
			ct.pert.Barrier()
			ct.pert.SetLevel(0)
			sched.Settle()
			mu.Lock()
			defer mu.Unlock()
			var want []string
			kinds := map[string]int{"init": 1, "create": 2, "update": 4, "delete": 8}
			for _, e := range full {
				if mask&kinds[strings.SplitN(e, ":", 2)[0]] != 0 {
					want = append(want, e)
				}
			}
			if len(full) != 7 {
				problems = append(problems, fmt.Sprintf("a monitor with all four callbacks logged %v for 6 events", full))
			}
			if strings.Join(part, " ") != strings.Join(want, " ") {
				problems = append(problems, fmt.Sprintf("callbacks were %v; the events restricted to the callbacks the handler has are %v", part, want))
			}
		})
		runs++
		c.Rep.Evaluations++
		replay := map[string]interface{}{"scenario": what}
		if dl != "" {
			replay["deadlock"] = dl
			c.Violation("", "hang (bubble deadlock): "+what, replay)
		}
		for _, p := range problems {
			c.Violation("", p+" ["+what+"]", replay)
		}
		c.DistinctCase(what)
	}
	c.Rep.Rule = "untyped monitors on a real controller fed through the fake watch in virtual time: seeded event sequences, handler durations {0, 1ms, 50ms (slower than the producer)}, Close at {never, before the publisher is ready, mid-stream at a barrier, mid-stream while a handler runs, at the end}. Observed: the callback log with begin/end overlap detection and Done() at each callback. Oracles: OnInitialize at most once and first with the cache content at readiness, then one callback per published event matching type and object in order (all of them when never closed), never concurrently, none after Done(), none at all when closed before ready; plus a hand-driven publisher (verif export) that hands events to the monitor's subscription before Ready closes (OnInitialize must still come first), whose publisher is stopped before its ready channel closes (no callback at all) and whose cache stops before readiness (no callback, or OnInitialize with what the cache held); handlers built with every subset of the four callbacks (the ones present get exactly their events, in order); the log is also checked by the extracted model's monitor_log_ok. Non-trivial = every scenario."
	c.Rep.Stats["runs"] = runs
}
