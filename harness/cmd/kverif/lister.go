package main

import (
	"math"
	"os"
	"sort"
	"context"
	"fmt"
	"sync"
	"time"

	"verifharness/enc"
	"verifharness/qlog"
	"verifharness/sched"

	"github.com/boz/kcache"
	corev1 "k8s.io/api/core/v1"
	metav1 "k8s.io/apimachinery/pkg/apis/meta/v1"
	"k8s.io/apimachinery/pkg/runtime"
)

func init() {
	commands["C13"] = runC13
	commands["C13async"] = runC13Async
}

// tev is one observation of the lister: 0 list start, 1 list end, 2 result consumed.
type tev struct {
	kind int
	at   time.Duration
}

type listerRun struct {
	P, L, D  time.Duration
	stopAt   time.Duration // 0: run to the end
	byCtx    bool
	fail     func(n int) (runtime.Object, error)
	trace    []tev
	stopped  bool          // Done closed after the stop request
	stopLat  time.Duration // virtual time from stop request to Done
	deadlock string
	total    time.Duration
	failed   []string // results reported as failed before the stop request although the client never failed
}

type slowLister struct {
	mu    *sync.Mutex
	start time.Time
	trace *[]tev
	lat   time.Duration
	n     int
	fail  func(n int) (runtime.Object, error) // what the n-th call returns instead of a list, if non-nil
}

func (s *slowLister) List(ctx context.Context, _ metav1.ListOptions) (runtime.Object, error) {
	s.mu.Lock()
	*s.trace = append(*s.trace, tev{0, time.Since(s.start)})
	s.mu.Unlock()
	defer func() {
		s.mu.Lock()
		*s.trace = append(*s.trace, tev{1, time.Since(s.start)})
		s.mu.Unlock()
	}()
	if s.lat > 0 {
		select {
		case <-time.After(s.lat):
		case <-ctx.Done():
			return nil, ctx.Err()
		}
	}
	s.mu.Lock()
	s.n++
	n := s.n
	s.mu.Unlock()
	if s.fail != nil {
		if o, err := s.fail(n); o != nil || err != nil {
			return o, err
		}
	}
	return &corev1.PodList{ListMeta: metav1.ListMeta{ResourceVersion: "1"}}, nil
}

func runLister(c *Ctx, r *listerRun) {
	r.deadlock = sched.Bubble(c.T, func() {
		var mu sync.Mutex
		start := time.Now()
		ctx, cancel := context.WithCancel(context.Background())
		defer cancel()
		stopch := make(chan struct{})
		cl := &slowLister{mu: &mu, start: start, trace: &r.trace, lat: r.L, fail: r.fail}
		l := kcache.NewVerifLister(ctx, qlog.Silent(), stopch, r.P, cl)
		quit := make(chan struct{})
		go func() {
			for {
				_, err, ok := l.Recv(quit)
				if !ok {
					return
				}
				mu.Lock()
				r.trace = append(r.trace, tev{2, time.Since(start)})
				if err != nil && r.fail == nil {
					r.failed = append(r.failed, fmt.Sprintf("%v at %v", err, time.Since(start)))
				}
				mu.Unlock()
				if r.D > 0 {
					select {
					case <-time.After(r.D):
					case <-quit:
						return
					}
				}
			}
		}()
		end := r.total
		if r.stopAt > 0 {
			end = r.stopAt
		}
		time.Sleep(end)
		sched.Settle()
		t0 := time.Now()
		if r.byCtx {
			cancel()
		} else {
			close(stopch)
		}
		sched.Settle()
		select {
		case <-l.Done():
			r.stopped = true
			r.stopLat = time.Since(t0)
		default:
		}
		close(quit)
	})
}

func encTrace(tr []tev) enc.T {
	ts := make([]enc.T, len(tr))
	for i, e := range tr {
		ts[i] = enc.L(enc.I(e.kind), enc.I64(int64(e.at)))
	}
	return enc.L(ts...)
}

func runC13(c *Ctx) {
	P := time.Second
	ratiosL := []float64{0, 0.25, 0.5, 1, 1.5, 2, 3, 5}
	ratiosD := []float64{0, 0.5, 1, 2, 3}
	if c.Quick() {
		ratiosD = []float64{0, 1, 3}
	}
	type key struct{ l, d float64 }
	runs := 0
	check := func(r *listerRun, what string) {
		runs++
		c.Rep.Evaluations++
		replay := map[string]interface{}{"scenario": what, "period_ns": int64(r.P), "list_latency_ns": int64(r.L), "consume_delay_ns": int64(r.D),
			"stop_at_ns": int64(r.stopAt), "stop_by_context": r.byCtx, "trace": encTrace(r.trace).String()}
		if r.deadlock != "" {
			replay["deadlock"] = r.deadlock
		}
		if !r.stopped {
			c.Violation("", fmt.Sprintf("lister does not stop (Done not closed after the stop request; period=%v latency=%v delay=%v)", r.P, r.L, r.D), replay)
		} else if r.stopLat > time.Millisecond {
			c.Violation("", fmt.Sprintf("lister stops only after %v of virtual time", r.stopLat), replay)
		} else if r.deadlock != "" {
			c.Violation("", "goroutines left blocked after the lister stopped", replay)
		}
		// a list call the client would have answered is never given up on
		if len(r.failed) > 0 && r.stopAt == 0 {
			c.Violation("", fmt.Sprintf("the lister reports a failed list although the client never failed (it only took its time): %s (period=%v latency=%v delay=%v)", r.failed[0], r.P, r.L, r.D), replay)
		}
		// progress: lists keep being issued
		starts, consumed := 0, 0
		for _, e := range r.trace {
			if e.kind == 0 {
				starts++
			}
			if e.kind == 2 {
				consumed++
			}
		}
		horizon := r.total
		if r.stopAt > 0 {
			horizon = r.stopAt
		}
		cycle := r.L + r.D + r.P + r.P/10 + 2
		if r.D < r.L+r.P { // the consumer is ready before the next result
			cycle = r.L + r.P + r.P/10 + 2
			if r.D > r.L+r.P+r.P/10 {
				cycle = r.D
			}
		}
		want := int(horizon/cycle) - 1
		if starts < want {
			c.Violation("", fmt.Sprintf("relisting stopped: %d list calls in %v (at least %d expected; period=%v latency=%v delay=%v)", starts, horizon, want, r.P, r.L, r.D), replay)
		}
		if starts >= 3 {
			c.DistinctCase(what)
		}
		// the trace goes to the model's trace predicate
		c.Case(enc.L(enc.I(4), enc.I64(int64(r.P)), encTrace(r.trace)))
		c.Stat("list_calls", starts)
	}
	for _, rl := range ratiosL {
		for _, rd := range ratiosD {
			r := &listerRun{P: P, L: time.Duration(rl * float64(P)), D: time.Duration(rd * float64(P)), total: 14 * (P + time.Duration((rl+rd)*float64(P)))}
			runLister(c, r)
			what := fmt.Sprintf("grid L/P=%v D/P=%v", rl, rd)
			check(r, what)
			if runs == 3 {
				c.Sample(map[string]interface{}{"scenario": what, "trace_kind_time_ns": encTrace(r.trace).String()})
			}
		}
	}
	// shutdown swept across the list/tick cycle
	nstop := 8
	if !c.Quick() {
		nstop = 160
	}
	for _, rl := range []float64{0, 0.5, 1.5, 3} {
		for i := 0; i < nstop; i++ {
			L := time.Duration(rl * float64(P))
			cyc := L + P + P/10
			r := &listerRun{P: P, L: L, D: 0, total: 0, byCtx: i%2 == 1}
			r.stopAt = 2*cyc + time.Duration(int64(cyc)*int64(i)/int64(nstop)) + 1
			runLister(c, r)
			check(r, fmt.Sprintf("stop L/P=%v at %v byCtx=%v", rl, r.stopAt, r.byCtx))
		}
	}
	// failing list calls: the lister hands the failure to its consumer like any
	// other result and keeps relisting for as long as it runs (stopping is the
	// consumer's decision)
	failures := []struct {
		name string
		ret  func() (runtime.Object, error)
	}{
		{"error", func() (runtime.Object, error) { return nil, fmt.Errorf("injected list error") }},
		{"context.Canceled", func() (runtime.Object, error) { return nil, context.Canceled }},
		{"context.DeadlineExceeded", func() (runtime.Object, error) { return nil, context.DeadlineExceeded }},
		{"not-a-list", func() (runtime.Object, error) { return &corev1.Pod{}, nil }},
	}
	for fi, f := range failures {
		for _, every := range []int{1, 2, 3} {
			f, every := f, every
			rl, rd := []float64{0, 0.5, 1.5}[(fi+every)%3], []float64{0, 1}[every%2]
			r := &listerRun{P: P, L: time.Duration(rl * float64(P)), D: time.Duration(rd * float64(P)), total: 14 * (P + time.Duration((rl+rd)*float64(P)))}
			r.fail = func(n int) (runtime.Object, error) {
				if n%every == 0 {
					return f.ret()
				}
				return nil, nil
			}
			runLister(c, r)
			check(r, fmt.Sprintf("every %d-th list returns %s, L/P=%v D/P=%v", every, f.name, rl, rd))
		}
	}
	// other periods, seeded
	n := 20
	if !c.Quick() {
		n = 2000
	}
	for i := 0; i < n; i++ {
		p := time.Duration(1+c.Rng.Intn(5000)) * time.Millisecond
		l := time.Duration(c.Rng.Int63n(int64(4 * p)))
		d := time.Duration(c.Rng.Int63n(int64(3 * p)))
		if c.Rng.Intn(3) == 0 {
			d = 0
		}
		r := &listerRun{P: p, L: l, D: d, total: 10 * (p + l + d)}
		runLister(c, r)
		check(r, fmt.Sprintf("random P=%v L=%v D=%v", p, l, d))
	}
	// degenerate periods: zero (relist as soon as the previous result was
	// consumed) and a few nanoseconds; what limits the rate is the list latency
	for _, p := range []time.Duration{0, 1, time.Microsecond} {
		for _, d := range []time.Duration{0, 50 * time.Millisecond} {
			r := &listerRun{P: p, L: 100 * time.Millisecond, D: d, total: 3 * time.Second}
			runLister(c, r)
			// with a period of (almost) nothing the consumption of a result and
			// the start of the next list carry the same virtual timestamp, and
			// the order in which two goroutines wrote them down means nothing:
			// at equal times the causal order is end, consumed, start (a list
			// and its own end never tie here: the latency is 100 ms)
			rank := map[int]int{1: 0, 2: 1, 0: 2}
			sort.SliceStable(r.trace, func(a, b int) bool {
				if r.trace[a].at != r.trace[b].at {
					return r.trace[a].at < r.trace[b].at
				}
				return rank[r.trace[a].kind] < rank[r.trace[b].kind]
			})
			check(r, fmt.Sprintf("degenerate period P=%v L=%v D=%v", p, r.L, d))
		}
	}
	// periods near the largest Duration (a controller that is never meant to
	// relist): the fuzzed period does not overflow into an immediate tick
	for _, p := range []time.Duration{math.MaxInt64, math.MaxInt64 / 2, 1 << 62, math.MaxInt64 - 1} {
		for k := 0; k < 6; k++ { // the fuzz is random: several tries
			r := &listerRun{P: p, L: 10 * time.Millisecond, D: 0, total: 1000 * time.Second}
			runLister(c, r)
			starts := 0
			for _, e := range r.trace {
				if e.kind == 0 {
					starts++
				}
			}
			c.Rep.Evaluations++
			if starts != 1 {
				c.Violation("", fmt.Sprintf("with a refresh period of %d ns (%.0f years) the lister issued %d list calls within 1000 s", int64(p), p.Hours()/8766, starts),
					map[string]interface{}{"scenario": "huge refresh period", "period_ns": int64(p), "trace": encTrace(r.trace).String()})
				break
			}
			if !r.stopped {
				c.Violation("", fmt.Sprintf("lister with a refresh period of %d ns does not stop", int64(p)), map[string]interface{}{"period_ns": int64(p)})
			}
		}
	}
	// the ticker in isolation: in virtual time the delay before a tick IS
	// nextPeriod().  Theorem C13_next_period_ns (binary64, Flocq): an integer
	// number of nanoseconds within 1.5 ns of [0.9 P, 1.1 P + 1], for P <= 2^44 ns
	{
		periods := []time.Duration{1, 2, 3, 7, 10, 999, time.Microsecond, 333 * time.Microsecond, time.Millisecond, 123456789, time.Second,
			time.Minute, 17 * time.Minute, time.Hour, 4*time.Hour + 53*time.Minute, 1 << 44}
		nper := 20
		if !c.Quick() {
			nper = 400
		}
		var bad []string
		samples := 0
		lo, hi := 2.0, 0.0
		dl := sched.Bubble(c.T, func() {
			for _, p := range periods {
				for k := 0; k < nper; k++ {
					t0 := time.Now()
					tk := kcache.NewVerifTicker(p, 0.1)
					<-tk.Next()
					got := time.Since(t0)
					tk.Stop()
					<-tk.Done()
					samples++
					// 0.9 P - 3/2 < got <= 1.1 P + 3/2, in exact integer arithmetic (x10)
					if !(9*int64(p)-15 < 10*int64(got) && 10*int64(got) <= 11*int64(p)+15) {
						bad = append(bad, fmt.Sprintf("period %d ns: the tick came after %d ns", int64(p), int64(got)))
					}
					if r := float64(got) / float64(p); p >= 1000 {
						if r < lo {
							lo = r
						}
						if r > hi {
							hi = r
						}
					}
				}
			}
		})
		runs++
		c.Rep.Evaluations += samples
		replay := map[string]interface{}{"scenario": "ticker in isolation: delay before the first tick", "violations": bad}
		if dl != "" {
			replay["deadlock"] = dl
			c.Violation("", "hang (bubble deadlock) in the ticker-in-isolation scenario", replay)
		}
		if len(bad) > 0 {
			c.Violation("", "nextPeriod outside the proved bounds [0.9 P - 1.5 ns, 1.1 P + 1.5 ns]: "+bad[0], replay)
		}
		c.Stat("next_period_samples", samples)
		c.Stat("next_period_min_permille", int(lo*1000))
		c.Stat("next_period_max_permille", int(hi*1000))
		c.DistinctCase("ticker-next-period")
	}
	c.Rep.Rule = "lister+ticker in isolation (verif export) inside a synctest bubble with a fake list client: periods near the largest Duration (no list beyond the first within 1000 s), degenerate periods 0 / 1 ns / 1 us, and (period, list latency, consumption delay) on a grid with latency/period in {0,1/4,1/2,1,3/2,2,3,5} and delay/period in {0,1/2,1,2,3}, seeded random triples, stop requests (stop channel / context) swept across the list/tick cycle, and every 1st/2nd/3rd list call failing with {error, context.Canceled, context.DeadlineExceeded, not a list}. Observed: virtual timestamps of list start/end and result consumption, Done after stop, bubble deadlock. Oracles: lists keep being issued (count over the horizon), Done closes at once after stop, no goroutine left blocked; the trace is checked by the model-derived predicate trace_ok (one list at a time, each start >= previous consumption + 0.9 period and after the previous end). Plus the ticker alone (verif export) in virtual time: the delay before a tick is nextPeriod() exactly; 16 periods from 1 ns to 2^44 ns x 20 (400) samples each lie within the bounds proved in binary64 (C13_next_period_ns). Non-trivial = run with >= 3 list calls."
	c.Rep.Stats["runs"] = runs
}

// runC13Async: the lister and its ticker in REAL time under the timer-channel
// semantics of Go before 1.23 (GODEBUG=asynctimerchan=1: a timer that has fired
// keeps its value in the channel across Stop and Reset unless it is drained).
// synctest bubbles do not support these timers, and which semantics a program
// gets is decided by its main module, so both occur in the field.  Parameters
// are such that the refresh timer has usually fired (tick pending or taken)
// when the result of a list is consumed and the ticker is reset.  What is
// checked is coarse on purpose (real time, loaded machines): a list that
// starts less than HALF a period after the previous result was consumed — a
// tick from before the reset makes the next list start at once.
func runC13Async(c *Ctx) {
	P := 240 * time.Millisecond
	combos := []struct{ L, D time.Duration }{
		{300 * time.Millisecond, 0},                      // the list outlasts the period: the timer fires during the list
		{60 * time.Millisecond, 300 * time.Millisecond},  // the consumer is late: the tick is pending at the hand-over
		{150 * time.Millisecond, 150 * time.Millisecond}, // both
		{20 * time.Millisecond, 0},                       // the ordinary case
	}
	for _, cb := range combos {
		what := fmt.Sprintf("real time, timer channels as before Go 1.23: period %v, list latency %v, consumer delay %v", P, cb.L, cb.D)
		c.Now(what)
		var mu sync.Mutex
		var trace []tev
		start := time.Now()
		ctx, cancel := context.WithCancel(context.Background())
		stopch := make(chan struct{})
		cl := &slowLister{mu: &mu, start: start, trace: &trace, lat: cb.L}
		l := kcache.NewVerifLister(ctx, qlog.Silent(), stopch, P, cl)
		quit := make(chan struct{})
		go func() {
			for {
				_, _, ok := l.Recv(quit)
				if !ok {
					return
				}
				mu.Lock()
				trace = append(trace, tev{2, time.Since(start)})
				mu.Unlock()
				if cb.D > 0 {
					select {
					case <-time.After(cb.D):
					case <-quit:
						return
					}
				}
			}
		}()
		time.Sleep(2600 * time.Millisecond)
		close(stopch)
		select {
		case <-l.Done():
		case <-time.After(5 * time.Second):
			c.Violation("", "the lister is not done 5 s after its stop channel closed ["+what+"]", map[string]interface{}{"scenario": what})
		}
		close(quit)
		cancel()
		mu.Lock()
		tr := append([]tev(nil), trace...)
		mu.Unlock()
		c.Rep.Evaluations++
		// the consumer writes its timestamp down after the hand-over, possibly a
		// little after the next list has already started: for every list start
		// take the latest consumption up to 20 ms after it
		var cons, sts []time.Duration
		for _, e := range tr {
			switch e.kind {
			case 2:
				cons = append(cons, e.at)
			case 0:
				sts = append(sts, e.at)
			}
		}
		for k, st := range sts {
			if k == 0 {
				continue
			}
			last := time.Duration(-1)
			for _, ct := range cons {
				if ct <= st+20*time.Millisecond && ct > last {
					last = ct
				}
			}
			if last >= 0 && st-last < P/2 {
				c.Violation("", fmt.Sprintf("a list started %v after the previous result was consumed (period %v): a tick from before the reset was used [%s]", st-last, P, what),
					map[string]interface{}{"scenario": what, "trace": encTrace(tr).String(), "godebug": os.Getenv("GODEBUG")})
				break
			}
		}
		if len(sts) >= 3 {
			c.DistinctCase(what)
		}
	}
	c.Rep.Rule = "lister + ticker in real time under GODEBUG=asynctimerchan=1 (the timer-channel semantics of Go before 1.23, which synctest does not support): four (latency, consumer delay) combinations around a 240 ms period, 2.6 s each; a list must not start less than half a period after the previous result was consumed (a tick from before the reset makes it start at once)."
}
